// C07 drivers (group blend, part 1): the AOM_BLEND_A64 family
//   svt_aom_blend_a64_mask / hmask / vmask, svt_aom_highbd_blend_a64_mask / hmask_8bit / vmask_8bit / hmask_16bit / vmask_16bit,
//   svt_aom_lowbd_blend_a64_d16_mask, svt_aom_highbd_blend_a64_d16_mask.
//
// Valid domain (from the C references in Common/Codec/EbBlend_a64_mask.c, EbInterPrediction.c:2198.. and the call sites):
//  * mask values 0..AOM_BLEND_A64_MAX_ALPHA (64) (wedge masks, smooth inter-intra masks ii_weights1d, OBMC masks, diffwtd masks are
//    all clamped to 0..64); the SIMD code uses saturating byte adds / 64 - m in bytes and is only defined for that range.
//  * w, h powers of two.  2-D mask kernels: inter-intra (EbInterPrediction.c:2166/2183/1890/1909) passes the plane block of a
//    8x8..32x32 block (4x4 .. 32x32); w == 2 / h == 2 dispatch to the C code inside the SIMD entry points, still enumerated.
//    d16 kernels: masked compound (EbInterPrediction.c:1948/1963) plane blocks of 8x8..128x128 blocks: 4x4 .. 128x128 (asserts w,h >= 4).
//    1-D (OBMC) kernels (EbEncInterPrediction.c:1926..2069, EbDecObmc.c:95..181): w and h are independent (neighbour width x overlap),
//    2..64 each (2 for chroma), the whole grid 2..128 x 2..128 is enumerated.
//  * (subw, subh): callers derive it from the plane block size: (0,0) luma / 4:4:4, (1,1) 4:2:0, (1,0) 4:2:2 (decoder); (0,1) does
//    not exist in AV1 and is not enumerated.  The mask has (w << subw) x (h << subh) samples.
//  * dst may be the same buffer as src0 (OBMC: dst, dst, tmp) or as src1 (combine_interintra: comppred == interpred,
//    EbEncInterPrediction.c:4973, EbDecInterPrediction.c:685) with equal strides; d16 kernels never alias (uint8/uint16 dst, CONV_BUF src).
//  * "highbd ... 8bit" variants take (uint8_t *) casts of uint16_t pointers in this tree (no CONVERT_TO_SHORTPTR, see the C code).
//  * d16 sources are outputs of the compound convolve with ConvolveParams from get_conv_params_no_round (convolve.h:44):
//    round_0 = 3 (5 for bd 12), round_1 = 7.  Their value range is computed below from the interpolation filter tables
//    (d16_range) exactly as svt_av1_(highbd_)jnt_convolve_2d_c computes them for pixels in 0..2^bd-1.
//  * all buffers 64-byte aligned storage + 64 elements offset; strides {w, w+1, w+16, 2w} rotated over dst/src0/src1/mask.
#include "EbDefinitions.h"
#include "kern_core.h"
#include <limits.h>

#define ALIGN64 __attribute__((aligned(64)))
#define GUARD 64
#define MAXW 128
#define SRC_ELEMS (GUARD + MAXW * 2 * MAXW + 2 * GUARD)
#define MSK_ELEMS (GUARD + 2 * MAXW * 2 * 2 * MAXW + 2 * GUARD)
#define NPMAX 40

extern const int16_t sub_pel_filters_8[16][8], sub_pel_filters_4[16][8], sub_pel_filters_8sharp[16][8], sub_pel_filters_8smooth[16][8],
    bilinear_filters[16][8], sub_pel_filters_4smooth[16][8];
const uint8_t *svt_av1_get_obmc_mask(int length);

enum { K_MASK_LBD, K_MASK_HBD, K_HMASK_LBD, K_VMASK_LBD, K_HMASK_HBD8, K_VMASK_HBD8, K_HMASK_HBD16, K_VMASK_HBD16, K_D16_LBD, K_D16_HBD };

typedef void (*mask_lbd_fn)(uint8_t *dst, uint32_t ds, const uint8_t *s0, uint32_t s0s, const uint8_t *s1, uint32_t s1s, const uint8_t *m, uint32_t ms,
                            int w, int h, int sx, int sy);
typedef void (*mask_hbd_fn)(uint8_t *dst, uint32_t ds, const uint8_t *s0, uint32_t s0s, const uint8_t *s1, uint32_t s1s, const uint8_t *m, uint32_t ms,
                            int w, int h, int sx, int sy, int bd);
typedef void (*m1d_lbd_fn)(uint8_t *dst, uint32_t ds, const uint8_t *s0, uint32_t s0s, const uint8_t *s1, uint32_t s1s, const uint8_t *m, int w, int h);
typedef void (*m1d_hbd8_fn)(uint8_t *dst, uint32_t ds, const uint8_t *s0, uint32_t s0s, const uint8_t *s1, uint32_t s1s, const uint8_t *m, int w, int h,
                            int bd);
typedef void (*m1d_hbd16_fn)(uint16_t *dst, uint32_t ds, const uint16_t *s0, uint32_t s0s, const uint16_t *s1, uint32_t s1s, const uint8_t *m, int w,
                             int h, int bd);
typedef void (*d16_lbd_fn)(uint8_t *dst, uint32_t ds, const CONV_BUF_TYPE *s0, uint32_t s0s, const CONV_BUF_TYPE *s1, uint32_t s1s, const uint8_t *m,
                           uint32_t ms, int w, int h, int sx, int sy, ConvolveParams *cp);
typedef void (*d16_hbd_fn)(uint8_t *dst, uint32_t ds, const CONV_BUF_TYPE *s0, uint32_t s0s, const CONV_BUF_TYPE *s1, uint32_t s1s, const uint8_t *m,
                           uint32_t ms, int w, int h, int sx, int sy, ConvolveParams *cp, const int bd);

static uint16_t S0[SRC_ELEMS] ALIGN64, S1[SRC_ELEMS] ALIGN64, DC[SRC_ELEMS] ALIGN64, DV[SRC_ELEMS] ALIGN64, JT[SRC_ELEMS] ALIGN64;
static uint8_t  MK[MSK_ELEMS] ALIGN64;
static uint16_t PCS[NPMAX][MAXW * MAXW]; // source pattern cache (contiguous w x h), 16-bit storage
static uint8_t  PCS8[NPMAX][MAXW * MAXW]; // the same as bytes (8-bit kernels)
static uint8_t  PCM[NPMAX][4 * MAXW * MAXW]; // mask pattern cache (contiguous mw x mh)

// current argument tuple (one static context instead of 25 parameters)
static struct {
    int  kind, src_es, dst_es, mdim, d16;
    int  w, h, bd, sx, sy, mw, mh, cfg, alias;
    int  ds, s0s, s1s, ms;
    long lo, hi;
    int  np, npm;
    ConvolveParams cp;
    // what the input buffers currently hold (pattern, stride) to avoid refilling
    int  cur0, cur0s, cur1, cur1s, curm, curms;
} G;

static void d16_range(int bd, int r0, int r1, long *lo, long *hi) {
    const int16_t(*T[6])[8] = {sub_pel_filters_8, sub_pel_filters_8smooth, sub_pel_filters_8sharp, bilinear_filters, sub_pel_filters_4, sub_pel_filters_4smooth};
    long P = (1L << bd) - 1, mn = LONG_MAX, mx = LONG_MIN;
    int  offset_bits = bd + 2 * FILTER_BITS - r0;
    for (int tx = 0; tx < 6; tx++)
        for (int sx = 0; sx < 16; sx++) {
            long px = 0, nx = 0;
            for (int t = 0; t < 8; t++) { int c = T[tx][sx][t]; if (c > 0) px += c; else nx -= c; }
            long im_hi = (P * px + (1L << (bd + FILTER_BITS - 1)) + ((1L << r0) >> 1)) >> r0;
            long im_lo = (-P * nx + (1L << (bd + FILTER_BITS - 1)) + ((1L << r0) >> 1)) >> r0;
            for (int ty = 0; ty < 6; ty++)
                for (int sy = 0; sy < 16; sy++) {
                    long py = 0, ny = 0;
                    for (int t = 0; t < 8; t++) { int c = T[ty][sy][t]; if (c > 0) py += c; else ny -= c; }
                    long s_hi = (1L << offset_bits) + py * im_hi - ny * im_lo, s_lo = (1L << offset_bits) + py * im_lo - ny * im_hi;
                    long o_hi = (s_hi + ((1L << r1) >> 1)) >> r1, o_lo = (s_lo + ((1L << r1) >> 1)) >> r1;
                    if (o_hi > mx) mx = o_hi;
                    if (o_lo < mn) mn = o_lo;
                }
        }
    *lo = mn;
    *hi = mx;
}

static int strides4(int w, int *s) {
    s[0] = w; s[1] = w + 1; s[2] = w + 16; s[3] = 2 * w;
    return 4;
}

static void put_rows(void *dst, int stride, const uint16_t *src, int w, int h, int es) {
    if (es == 2) {
        uint16_t *d = dst;
        for (int y = 0; y < h; y++) memcpy(d + (size_t)y * stride, src + (size_t)y * w, (size_t)w * 2);
    } else {
        uint8_t *d = dst;
        for (int y = 0; y < h; y++)
            for (int x = 0; x < w; x++) d[(size_t)y * stride + x] = (uint8_t)src[(size_t)y * w + x];
    }
}
static void put_rows8(uint8_t *dst, int stride, const uint8_t *src, int w, int h) {
    for (int y = 0; y < h; y++) memcpy(dst + (size_t)y * stride, src + (size_t)y * w, (size_t)w);
}

// an input is either pattern p (>= 0) of the cache or a {min,max} cube assignment (p == -1, bits)
typedef struct { int p; unsigned bits; } In;

// value sweep (p == -2 / -3, bits = t): complete enumeration of the per-sample argument triples (m, src0, src1), m in 0..64,
// src0, src1 in 0..2^bd-1.  Sweep block t = pt * 65 + mt: sample i (raster) of the block carries value pair number pt*w*h + i
// (src0 = pair >> bd, src1 = pair & (2^bd-1)) and mask value ((column | row | mask index) + mt) % 65.
#define SWEEP_A (-2)
#define SWEEP_B (-3)
static void src_sample_block(uint16_t *tmp, In in) { // contiguous w x h
    int n = G.w * G.h;
    if (in.p >= 0) { memcpy(tmp, PCS[in.p], (size_t)n * 2); return; }
    if (in.p == -1) { for (int i = 0; i < n; i++) tmp[i] = (uint16_t)((in.bits >> i) & 1 ? G.hi : G.lo); return; }
    unsigned long base = (unsigned long)(in.bits / 65) * n;
    for (int i = 0; i < n; i++) tmp[i] = (uint16_t)(in.p == SWEEP_A ? ((base + i) >> G.bd) & G.hi : (base + i) & G.hi);
}
static const char *in_name(In in, long lo, long hi, int is_mask_obmc, char *buf) {
    if (in.p >= 0) {
        if (is_mask_obmc) return "svt_av1_get_obmc_mask(len)";
        return kc_pat_name(in.p, lo, hi, buf);
    }
    if (in.p == -1) sprintf(buf, "cube 0x%x (bit i: sample i in raster order = max)", in.bits);
    else sprintf(buf, "value sweep block %u (pair block %u, mask shift %u)", in.bits, in.bits / 65, in.bits % 65);
    return buf;
}

static void load_src(uint16_t *buf, int stride, In in, int *cur, int *curs) {
    static uint16_t tmp[MAXW * MAXW];
    if (in.p >= 0 && *cur == in.p && *curs == stride) return;
    if (in.p >= 0 && G.src_es == 1) put_rows8((uint8_t *)buf + GUARD, stride, PCS8[in.p], G.w, G.h);
    else if (in.p >= 0) put_rows((uint8_t *)buf + GUARD * G.src_es, stride, PCS[in.p], G.w, G.h, G.src_es);
    else { src_sample_block(tmp, in); put_rows((uint8_t *)buf + GUARD * G.src_es, stride, tmp, G.w, G.h, G.src_es); }
    *cur = in.p;
    *curs = stride;
}
static void load_mask(In in) {
    int stride = G.mdim ? G.mw : G.ms;
    if (in.p >= 0 && G.curm == in.p && G.curms == stride) return;
    if (in.p >= 0) put_rows8(MK + GUARD, stride, PCM[in.p], G.mw, G.mh);
    else if (in.p == -1)
        for (int y = 0; y < G.mh; y++)
            for (int x = 0; x < G.mw; x++) MK[GUARD + (size_t)y * stride + x] = (uint8_t)((in.bits >> (y * G.mw + x)) & 1 ? 64 : 0);
    else
        for (int y = 0; y < G.mh; y++)
            for (int x = 0; x < G.mw; x++) MK[GUARD + (size_t)y * stride + x] = (uint8_t)((x + in.bits % 65) % 65);
    G.curm = in.p;
    G.curms = stride;
}

static void call_blend(void *fn, void *dst, const void *s0, const void *s1) {
    const uint8_t *m = MK + GUARD;
    switch (G.kind) {
    case K_MASK_LBD: ((mask_lbd_fn)fn)(dst, G.ds, s0, G.s0s, s1, G.s1s, m, G.ms, G.w, G.h, G.sx, G.sy); break;
    case K_MASK_HBD: ((mask_hbd_fn)fn)(dst, G.ds, s0, G.s0s, s1, G.s1s, m, G.ms, G.w, G.h, G.sx, G.sy, G.bd); break;
    case K_HMASK_LBD:
    case K_VMASK_LBD: ((m1d_lbd_fn)fn)(dst, G.ds, s0, G.s0s, s1, G.s1s, m, G.w, G.h); break;
    case K_HMASK_HBD8:
    case K_VMASK_HBD8: ((m1d_hbd8_fn)fn)(dst, G.ds, s0, G.s0s, s1, G.s1s, m, G.w, G.h, G.bd); break;
    case K_HMASK_HBD16:
    case K_VMASK_HBD16: ((m1d_hbd16_fn)fn)(dst, G.ds, s0, G.s0s, s1, G.s1s, m, G.w, G.h, G.bd); break;
    case K_D16_LBD: ((d16_lbd_fn)fn)(dst, G.ds, s0, G.s0s, s1, G.s1s, m, G.ms, G.w, G.h, G.sx, G.sy, &G.cp); break;
    default: ((d16_hbd_fn)fn)(dst, G.ds, s0, G.s0s, s1, G.s1s, m, G.ms, G.w, G.h, G.sx, G.sy, &G.cp, G.bd); break;
    }
}

static long dst_at(const uint16_t *b, long i) { return G.dst_es == 2 ? b[i] : ((const uint8_t *)b)[i]; }

// one argument tuple: C once, every variant, whole dst allocation compared
static void tuple(Run *r, In i0, In i1, In im, int nontrivial) {
    const Kern *k = r->k;
    char        n0[80], n1[80], n2[80];
    if (case_skip_fast(r)) return;
    if (G.alias != 1) load_src(S0, G.s0s, i0, &G.cur0, &G.cur0s);
    if (G.alias != 2) load_src(S1, G.s1s, i1, &G.cur1, &G.cur1s);
    load_mask(im);
    if (!case_begin(r, nontrivial)) return;
    size_t nb = (size_t)(GUARD + (size_t)G.h * G.ds + GUARD) * G.dst_es;
    int    obmc_name = G.mdim && im.p == G.npm - 1 && G.mw <= 64;
    void  *d = (uint8_t *)DC + GUARD * G.dst_es, *s0 = (uint8_t *)S0 + GUARD * G.src_es, *s1 = (uint8_t *)S1 + GUARD * G.src_es;
    static uint16_t tmp[MAXW * MAXW];
    memcpy(DC, JT, nb);
    if (G.alias == 1) { src_sample_block(tmp, i0); put_rows(d, G.ds, tmp, G.w, G.h, G.dst_es); s0 = d; }
    if (G.alias == 2) { src_sample_block(tmp, i1); put_rows(d, G.ds, tmp, G.w, G.h, G.dst_es); s1 = d; }
    call_blend(k->c, d, s0, s1);
    VERBOSE(r, "case %lld: %dx%d bd=%d subw=%d subh=%d strides dst=%d src0=%d src1=%d mask=%d alias=%s round_0=%d round_1=%d src range %ld..%ld src0=%s src1=%s mask=%s -> c dst[0..3] = %ld %ld %ld %ld",
            r->case_idx - 1, G.w, G.h, G.bd, G.sx, G.sy, G.ds, G.s0s, G.s1s, G.mdim ? 0 : G.ms, G.alias == 1 ? "dst==src0" : G.alias == 2 ? "dst==src1" : "none",
            G.d16 ? G.cp.round_0 : 0, G.d16 ? G.cp.round_1 : 0, G.lo, G.hi, in_name(i0, G.lo, G.hi, 0, n0), in_name(i1, G.lo, G.hi, 0, n1),
            in_name(im, 0, 64, obmc_name, n2), dst_at(DC, GUARD), dst_at(DC, GUARD + 1), dst_at(DC, GUARD + (G.w > 2 ? 2 : 0)), dst_at(DC, GUARD + (G.w > 2 ? 3 : 1)));
    for (int vi = 0; vi < k->nv; vi++) {
        if (!var_on(r, vi)) continue;
        void *dv = (uint8_t *)DV + GUARD * G.dst_es;
        memcpy(DV, JT, nb);
        s0 = (uint8_t *)S0 + GUARD * G.src_es;
        s1 = (uint8_t *)S1 + GUARD * G.src_es;
        if (G.alias == 1) { src_sample_block(tmp, i0); put_rows(dv, G.ds, tmp, G.w, G.h, G.dst_es); s0 = dv; }
        if (G.alias == 2) { src_sample_block(tmp, i1); put_rows(dv, G.ds, tmp, G.w, G.h, G.dst_es); s1 = dv; }
        call_blend(k->v[vi].fn, dv, s0, s1);
        long df = kc_diff(DC, DV, nb);
        if (df >= 0) {
            df /= G.dst_es;
            long o = df - GUARD;
            MISMATCH(r, vi, "%dx%d bd=%d subw=%d subh=%d strides dst=%d src0=%d src1=%d mask=%d, aliasing %s, round_0=%d round_1=%d, src value range %ld..%ld, src0 '%s' src1 '%s' mask(0..64) '%s': first difference at dst offset %ld (row %ld col %ld): c=%ld simd=%ld",
                     G.w, G.h, G.bd, G.sx, G.sy, G.ds, G.s0s, G.s1s, G.mdim ? 0 : G.ms, G.alias == 1 ? "dst==src0" : G.alias == 2 ? "dst==src1" : "none",
                     G.d16 ? G.cp.round_0 : 0, G.d16 ? G.cp.round_1 : 0, G.lo, G.hi, in_name(i0, G.lo, G.hi, 0, n0), in_name(i1, G.lo, G.hi, 0, n1),
                     in_name(im, 0, 64, obmc_name, n2), o, o >= 0 ? o / G.ds : -1, o >= 0 ? o % G.ds : o, dst_at(DC, df), dst_at(DV, df));
        }
    }
}

static int is_anchor(int p) { return p == PAT_LO || p == PAT_HI || p == PAT_TEXTURE; }

static void blend_engine(Run *r, int kind) {
    static const int BD_L[1] = {8}, BD_H[3] = {8, 10, 12};
    static const int SUBS[3][2] = {{0, 0}, {1, 1}, {1, 0}};
    static const int HOLD[3] = {PAT_LO, PAT_HI, PAT_TEXTURE};
    int              sizes[64][2], nsz = 0;
    memset(&G, 0, sizeof G);
    G.kind = kind;
    G.d16 = kind == K_D16_LBD || kind == K_D16_HBD;
    G.src_es = (kind == K_MASK_LBD || kind == K_HMASK_LBD || kind == K_VMASK_LBD) ? 1 : 2;
    G.dst_es = (G.src_es == 1 || kind == K_D16_LBD) ? 1 : 2;
    G.mdim = (kind == K_HMASK_LBD || kind == K_HMASK_HBD8 || kind == K_HMASK_HBD16) ? 1
        : (kind == K_VMASK_LBD || kind == K_VMASK_HBD8 || kind == K_VMASK_HBD16)    ? 2
                                                                                    : 0;
    int hbd = !(kind == K_MASK_LBD || kind == K_HMASK_LBD || kind == K_VMASK_LBD || kind == K_D16_LBD);
    const int *bds = hbd ? BD_H : BD_L;
    int        nbd = hbd ? 3 : 1;
    // block sizes, small to large
    if (G.mdim) {
        for (int w = 2; w <= 128; w *= 2)
            for (int h = 2; h <= 128; h *= 2) { sizes[nsz][0] = w; sizes[nsz][1] = h; nsz++; }
    } else {
        for (int a = G.d16 ? 16 : 4; a <= 128 * 128; a *= 2)
            for (int w = G.d16 ? 4 : 2; w <= 128; w *= 2) {
                int h = a / w;
                if (h * w != a || h < (G.d16 ? 4 : 2) || h > 128 || w > 4 * h || h > 4 * w) continue;
                if ((w == 128 || h == 128) && (w < 64 || h < 64)) continue; // 32x128 / 128x32 are not AV1 block sizes
                sizes[nsz][0] = w; sizes[nsz][1] = h; nsz++;
            }
    }
    kc_junk(JT, sizeof JT, 7);
    kc_junk(S0, sizeof S0, 3);
    kc_junk(S1, sizeof S1, 4);
    kc_junk(MK, sizeof MK, 5);
    for (size_t i = 0; i < MSK_ELEMS; i++) MK[i] &= 63; // padding of the mask is a valid mask too
    for (int zi = 0; zi < nsz; zi++) {
        int w = sizes[zi][0], h = sizes[zi][1], st[4];
        strides4(w, st);
        G.w = w;
        G.h = h;
        for (int bi = 0; bi < nbd; bi++) {
            int bd = bds[bi];
            G.bd = bd;
            G.lo = 0;
            G.hi = (1L << bd) - 1;
            if (G.d16) {
                memset(&G.cp, 0, sizeof G.cp);
                G.cp.is_compound = 1;
                G.cp.round_0 = bd == 12 ? 5 : 3;
                G.cp.round_1 = 7;
                d16_range(bd, G.cp.round_0, G.cp.round_1, &G.lo, &G.hi);
            }
            int np = kc_npat(r, G.lo, G.hi);
            if (np > NPMAX) np = NPMAX;
            G.np = np;
            for (int p = 0; p < np; p++)
                for (int y = 0; y < h; y++)
                    for (int x = 0; x < w; x++) PCS8[p][y * w + x] = (uint8_t)(PCS[p][y * w + x] = (uint16_t)kc_pat_value(p, x, y, w, h, G.lo, G.hi));
            // padding / stale content of the source buffers must be valid samples of this depth as well
            if (!G.d16)
                for (size_t i = 0; i < SRC_ELEMS; i++) { S0[i] &= (uint16_t)(G.src_es == 1 ? 0xffff : G.hi); S1[i] &= (uint16_t)(G.src_es == 1 ? 0xffff : G.hi); }
            G.cur0 = G.cur1 = -2;
            int nsub = G.mdim ? 1 : 3;
            for (int ui = 0; ui < nsub; ui++) {
                G.sx = SUBS[ui][0];
                G.sy = SUBS[ui][1];
                G.mw = G.mdim == 1 ? w : G.mdim == 2 ? h : w << G.sx;
                G.mh = G.mdim ? 1 : h << G.sy;
                int npm = kc_npat(r, 0, 64), mst[4];
                strides4(G.mw, mst);
                for (int p = 0; p < npm; p++)
                    for (int y = 0; y < G.mh; y++)
                        for (int x = 0; x < G.mw; x++) PCM[p][y * G.mw + x] = (uint8_t)kc_pat_value(p, x, y, G.mw, G.mh, 0, 64);
                if (G.mdim && G.mw <= 64) { memcpy(PCM[npm], svt_av1_get_obmc_mask(G.mw), G.mw); npm++; } // the real OBMC mask of that length
                G.npm = npm;
                G.curm = -2;
                int ncfg = G.d16 ? 4 : 6;
                for (int cfg = 0; cfg < ncfg; cfg++) {
                    G.cfg = cfg;
                    if (cfg < 4) { G.alias = 0; G.ds = st[cfg]; G.s0s = st[(cfg + 1) & 3]; G.s1s = st[(cfg + 2) & 3]; G.ms = mst[(cfg + 3) & 3]; }
                    else if (cfg == 4) { G.alias = 1; G.ds = G.s0s = st[2]; G.s1s = st[1]; G.ms = mst[0]; }
                    else { G.alias = 2; G.ds = G.s1s = st[1]; G.s0s = st[3]; G.ms = mst[2]; }
                    // pattern triples (src0, src1, mask): pairs of two inputs with the third cycling through {min, max, texture}.  Pair set
                    // levels: 2 = all pairs; 1 = pairs with an anchor pattern (min, max, texture) on either side or equal patterns;
                    // 0 = both anchors, or equal patterns.
                    //   quick:    blocks <= 1024 samples: configuration 0 level 2, other stride / aliasing configurations level 1;
                    //             larger blocks: configuration 0 level 1, others level 0
                    //   thorough: blocks <= 1024 samples: level 2 everywhere; larger blocks: configuration 0 level 2, others level 1
                    int small = w * h <= 1024;
                    int level = r->thorough ? ((small || cfg == 0) ? 2 : 1) : (small ? (cfg == 0 ? 2 : 1) : (cfg == 0 ? 1 : 0));
                    for (int hold = 0; hold < 3; hold++) {
                        int na = hold == 0 ? np : np, nb_ = hold == 2 ? np : npm;
                        // hold 0: src0 held, (src1, mask) vary; hold 1: src1 held, (src0, mask) vary; hold 2: mask held, (src0, src1) vary
                        for (int p1 = 0; p1 < na; p1++)
                            for (int p2 = 0; p2 < nb_; p2++) {
                                if (r->stop) return;
                                if (level == 1 && !(is_anchor(p1) || is_anchor(p2) || p1 == p2)) continue;
                                if (level == 0 && !((is_anchor(p1) && is_anchor(p2)) || p1 == p2)) continue;
                                int hv = HOLD[(p1 + p2) % 3];
                                In  i0 = {hold == 0 ? hv : p1, 0}, i1 = {hold == 0 ? p1 : hold == 1 ? hv : p2, 0}, im = {hold == 2 ? hv : p2, 0};
                                int obmc = G.mdim && im.p == npm - 1 && G.mw <= 64;
                                tuple(r, i0, i1, im, kc_pat_nontrivial(i0.p) || kc_pat_nontrivial(i1.p) || kc_pat_nontrivial(im.p) || obmc);
                            }
                    }
                    // complete {min,max}^n cubes of inputs with <= 16 samples (stride configuration 0, no sub-sampling)
                    if (cfg == 0 && ui == 0) {
                        int ns = w * h, nm = G.mw * G.mh;
                        // (blocks with w == 2 or h == 2 run the C code inside every SIMD entry point: no cubes for them)
                        int mask_cube = w >= 4 && h >= 4 && (nm <= 8 || (nm == 16 && (G.mdim == 0 || (G.mdim == 1 ? h : w) == 4)));
                        if (mask_cube)
                            for (int sc = 0; sc < 2; sc++)
                                for (unsigned m = 0; m < (1u << nm); m++) {
                                    if (r->stop) return;
                                    In i0 = {sc ? PAT_TEXTURE : PAT_LO, 0}, i1 = {sc ? PAT_CHECK_INV : PAT_HI, 0}, im = {-1, m};
                                    tuple(r, i0, i1, im, 1);
                                }
                        if (ns <= 16 && w >= 4 && h >= 4)
                            for (int which = 0; which < 2; which++)
                                for (unsigned m = 0; m < (1u << ns); m++) {
                                    if (r->stop) return;
                                    In ic = {-1, m}, io = {PAT_MID, 0}, im = {PAT_TEXTURE, 0};
                                    tuple(r, which ? io : ic, which ? ic : io, im, 1);
                                }
                        // complete per-sample value sweep (not for d16: range too large), one block size per width class;
                        // 8-bit values always, 10-bit values in the thorough tier for 4x16 and 64x64, 12-bit never
                        int sw_size = (w == 4 && h == 16) || (w == 8 && h == 32) || (w == 16 && h == 64) || (w == 32 && h == 64) || (w == 64 && h == 64);
                        if (!G.d16 && sw_size && (bd == 8 || (bd == 10 && r->thorough && (w == 4 || w == 64)))) {
                            unsigned nt = (unsigned)(((1UL << (2 * bd)) / (unsigned)ns) * 65);
                            for (unsigned t = 0; t < nt; t++) {
                                if (r->stop) return;
                                In i0 = {SWEEP_A, t}, i1 = {SWEEP_B, t}, im = {SWEEP_A, t};
                                tuple(r, i0, i1, im, 1);
                            }
                        }
                    }
                }
            }
        }
    }
}

void drv_blend_mask_lbd(Run *r) { blend_engine(r, K_MASK_LBD); }
void drv_blend_mask_hbd(Run *r) { blend_engine(r, K_MASK_HBD); }
void drv_blend_hmask_lbd(Run *r) { blend_engine(r, K_HMASK_LBD); }
void drv_blend_vmask_lbd(Run *r) { blend_engine(r, K_VMASK_LBD); }
void drv_blend_hmask_hbd8(Run *r) { blend_engine(r, K_HMASK_HBD8); }
void drv_blend_vmask_hbd8(Run *r) { blend_engine(r, K_VMASK_HBD8); }
void drv_blend_hmask_hbd16(Run *r) { blend_engine(r, K_HMASK_HBD16); }
void drv_blend_vmask_hbd16(Run *r) { blend_engine(r, K_VMASK_HBD16); }
void drv_blend_d16_lbd(Run *r) { blend_engine(r, K_D16_LBD); }
void drv_blend_d16_hbd(Run *r) { blend_engine(r, K_D16_HBD); }
