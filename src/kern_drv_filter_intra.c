// C07 drivers: directional intra predictors (z1/z2/z3, low and high bit depth), filter-intra predictor, intra edge filter / upsampling.
#include <stdlib.h>
#include "EbDefinitions.h"
#include "kern_core.h"

#define ALIGN64 __attribute__((aligned(64)))

extern const uint16_t eb_dr_intra_derivative[90];
static int get_dx_(int angle) { return angle > 0 && angle < 90 ? eb_dr_intra_derivative[angle] : angle > 90 && angle < 180 ? eb_dr_intra_derivative[180 - angle] : 1; }
static int get_dy_(int angle) { return angle > 90 && angle < 180 ? eb_dr_intra_derivative[angle - 90] : angle > 180 && angle < 270 ? eb_dr_intra_derivative[270 - angle] : 1; }

// prediction angles the syntax can produce: nominal angle of the 8 directional modes + 3 * delta, delta in -3..3
static int angle_reachable(int a) {
    static const int BASE[8] = {90, 180, 45, 135, 113, 157, 203, 67};
    for (int b = 0; b < 8; b++)
        for (int d = -3; d <= 3; d++)
            if (BASE[b] + 3 * d == a) return 1;
    return 0;
}

#define EDGE_N 640
static uint8_t  EA8[EDGE_N] ALIGN64, EL8[EDGE_N] ALIGN64, PD8a[64 * 128 + 256] ALIGN64, PD8b[64 * 128 + 256] ALIGN64;
static uint16_t EA16[EDGE_N] ALIGN64, EL16[EDGE_N] ALIGN64, PD16a[64 * 128 + 256] ALIGN64, PD16b[64 * 128 + 256] ALIGN64;

typedef void (*z1_fn)(uint8_t *dst, ptrdiff_t stride, int32_t bw, int32_t bh, const uint8_t *above, const uint8_t *left, int32_t up, int32_t dx, int32_t dy);
typedef void (*z2_fn)(uint8_t *dst, ptrdiff_t stride, int32_t bw, int32_t bh, const uint8_t *above, const uint8_t *left, int32_t upa, int32_t upl, int32_t dx,
                      int32_t dy);
typedef void (*hz1_fn)(uint16_t *dst, ptrdiff_t stride, int32_t bw, int32_t bh, const uint16_t *above, const uint16_t *left, int32_t up, int32_t dx, int32_t dy,
                       int32_t bd);
typedef void (*hz2_fn)(uint16_t *dst, ptrdiff_t stride, int32_t bw, int32_t bh, const uint16_t *above, const uint16_t *left, int32_t upa, int32_t upl,
                       int32_t dx, int32_t dy, int32_t bd);

// edge patterns: the 1-D base alphabet over [left (reversed) .. top-left .. above] plus above/left group patterns
enum { DP_A_HI_L_LO, DP_A_LO_L_HI, DP_TL_HI, DP_TL_LO, DP_N };
static long dr_edge_value(int ep, int np, int i, int nl, int na, long hi) {
    int n = nl + 1 + na;
    if (ep < np) return kc_pat_value(ep, i, 0, n, 1, 0, hi);
    switch (ep - np) {
    case DP_A_HI_L_LO: return i > nl ? hi : i < nl ? 0 : (hi + 1) / 2;
    case DP_A_LO_L_HI: return i > nl ? 0 : i < nl ? hi : (hi + 1) / 2;
    case DP_TL_HI: return i == nl ? hi : 0;
    default: return i == nl ? 0 : hi;
    }
}

// Callers: dr_predictor / highbd_dr_predictor (Common/Codec/EbIntraPrediction.c:2260,2374) from build_intra_predictors
// (Encoder/Codec/EbEncIntraPrediction.c:190-222, Decoder/Codec/EbDecIntraPrediction.c): every transform size; angle = mode angle + 3*delta;
// dx/dy from eb_dr_intra_derivative; upsample_above = use_intra_edge_upsample(bw, bh, angle-90, type): 1 only when bw+bh <= 16 (type 0)
// and 0 < |angle-90| < 40, likewise upsample_left with |angle-180|; the edge arrays then hold 2x samples starting at index -2.
// above[-1] == left[-1] is the top-left sample.  k->a: zone (1,2,3); k->b: 1 = high bit depth
void drv_dr_pred(Run *r) {
    const Kern *k = r->k;
    int         zone = k->a, hbd = k->b;
    static const int BD[3] = {8, 10, 12};
    char        nb[32];
    for (int bi = 0; bi < (hbd ? 3 : 1); bi++) {
        int  bd = BD[bi];
        long hi = (1L << bd) - 1;
        int  np = kc_npat(r, 0, hi);
        // 12-bit: the library never dispatches to the SIMD zone-2 kernel (Decoder/Codec/EbDecIntraPrediction.c:25
        // dec_init_intra_predictors_12b_internal() rebinds svt_av1_highbd_dr_prediction_z2 to the C function, the encoder is 8/10-bit only)
        if (hbd && zone == 2 && bd == 12) continue;
        for (int ts = 0; ts < TX_SIZES_ALL; ts++) {
            int bw = tx_size_wide[ts], bh = tx_size_high[ts];
            int st[4] = {bw, bw + 1, bw + 16, 2 * bw};
            for (int angle = 3; angle < 270; angle += 3) {
                if (!angle_reachable(angle)) continue;
                if ((zone == 1 && !(angle < 90)) || (zone == 2 && !(angle > 90 && angle < 180)) || (zone == 3 && !(angle > 180))) continue;
                int dx = get_dx_(angle), dy = get_dy_(angle);
                int can_upa = bw + bh <= 16 && abs(angle - 90) > 0 && abs(angle - 90) < 40 && zone != 3;
                int can_upl = bw + bh <= 16 && abs(angle - 180) > 0 && abs(angle - 180) < 40 && zone != 1;
                for (int upa = 0; upa <= can_upa; upa++)
                    for (int upl = 0; upl <= can_upl; upl++) {
                        int nl = (bw + bh) * 2 + 16, na = (bw + bh) * 2 + 16; // samples used on each side never exceed (bw+bh) << upsample
                        for (int ep = 0; ep < np + DP_N; ep++) {
                            if (r->stop) return;
                            int prepared = 0;
                            for (int si = 0; si < 4; si++) {
                                if (r->stop) return;
                                if (case_skip_fast(r)) continue;
                                if (!prepared) {
                                    prepared = 1;
                                    if (hbd) { kc_junk(EA16, sizeof EA16, 51); kc_junk(EL16, sizeof EL16, 52); for (int i = 0; i < EDGE_N; i++) { EA16[i] &= hi; EL16[i] &= hi; } }
                                    else { kc_junk(EA8, sizeof EA8, 51); kc_junk(EL8, sizeof EL8, 52); }
                                    for (int i = 0; i < nl + 1 + na; i++) {
                                        long v = dr_edge_value(ep, np, i, nl, na, hi);
                                        // index -1 (and -2 for upsampled edges) of both arrays is the top-left sample
                                        if (i < nl) { if (hbd) EL16[64 + (nl - 1 - i)] = (uint16_t)v; else EL8[64 + (nl - 1 - i)] = (uint8_t)v; }
                                        else if (i == nl) {
                                            if (hbd) EA16[63] = EL16[63] = EA16[62] = EL16[62] = (uint16_t)v;
                                            else EA8[63] = EL8[63] = EA8[62] = EL8[62] = (uint8_t)v;
                                        } else { if (hbd) EA16[64 + (i - nl - 1)] = (uint16_t)v; else EA8[64 + (i - nl - 1)] = (uint8_t)v; }
                                    }
                                }
                                if (!case_begin(r, ep > PAT_MID)) continue;
                                size_t n = 64 + (size_t)bh * st[si] + 64;
                                for (int side = 0; side <= k->nv; side++) {
                                    int vi = side - 1;
                                    if (side && !var_on(r, vi)) continue;
                                    void *f = side ? k->v[vi].fn : k->c;
                                    if (hbd) {
                                        uint16_t *D = side ? PD16b : PD16a;
                                        kc_junk(D, n * 2, 53);
                                        if (zone == 1) ((hz1_fn)f)(D + 64, st[si], bw, bh, EA16 + 64, EL16 + 64, upa, dx, dy, bd);
                                        else if (zone == 2) ((hz2_fn)f)(D + 64, st[si], bw, bh, EA16 + 64, EL16 + 64, upa, upl, dx, dy, bd);
                                        else ((hz1_fn)f)(D + 64, st[si], bw, bh, EA16 + 64, EL16 + 64, upl, dx, dy, bd);
                                    } else {
                                        uint8_t *D = side ? PD8b : PD8a;
                                        kc_junk(D, n, 53);
                                        if (zone == 1) ((z1_fn)f)(D + 64, st[si], bw, bh, EA8 + 64, EL8 + 64, upa, dx, dy);
                                        else if (zone == 2) ((z2_fn)f)(D + 64, st[si], bw, bh, EA8 + 64, EL8 + 64, upa, upl, dx, dy);
                                        else ((z1_fn)f)(D + 64, st[si], bw, bh, EA8 + 64, EL8 + 64, upl, dx, dy);
                                    }
                                    if (!side) {
                                        VERBOSE(r, "case %lld: %dx%d bd=%d angle=%d (dx=%d dy=%d) upsample_above=%d upsample_left=%d stride=%d edge pattern %d", r->case_idx - 1, bw,
                                                bh, bd, angle, dx, dy, upa, upl, st[si], ep);
                                        continue;
                                    }
                                    long d = hbd ? kc_diff(PD16a, PD16b, n * 2) : kc_diff(PD8a, PD8b, n);
                                    if (d >= 0) {
                                        if (hbd) d /= 2;
                                        static const char *GN[DP_N] = {"above=max,left=min", "above=min,left=max", "only top-left max", "only top-left min"};
                                        MISMATCH(r, vi, "%dx%d bd=%d angle=%d (dx=%d dy=%d) upsample_above=%d upsample_left=%d stride=%d edge pattern '%s' over left[%d..0],top-left,above[0..%d]: first difference at dst offset %ld (row %ld col %ld): c=%d simd=%d",
                                                 bw, bh, bd, angle, dx, dy, upa, upl, st[si], ep < np ? kc_pat_name(ep, 0, hi, nb) : GN[ep - np], nl - 1, na - 1, d - 64,
                                                 (d - 64) / st[si], (d - 64) % st[si], hbd ? PD16a[d] : PD8a[d], hbd ? PD16b[d] : PD8b[d]);
                                    }
                                }
                            }
                        }
                    }
            }
        }
    }
}

// ------------------------------------------------------------------------------------------------ filter intra
typedef void (*fi_fn)(uint8_t *dst, ptrdiff_t stride, TxSize tx_size, const uint8_t *above, const uint8_t *left, int32_t mode);
// Callers: build_intra_predictors (Encoder/Codec/EbEncIntraPrediction.c:179): tx sizes with both dimensions <= 32 (filter intra is allowed
// for blocks up to 32x32), filter_intra_mode 0..4, above[-1] = top-left.
void drv_filter_intra_pred(Run *r) {
    const Kern *k = r->k;
    int         np = kc_npat(r, 0, 255);
    char        nb[32];
    for (int ts = 0; ts < TX_SIZES_ALL; ts++) {
        int bw = tx_size_wide[ts], bh = tx_size_high[ts];
        if (bw > 32 || bh > 32) continue;
        int st[4] = {bw, bw + 1, bw + 16, 2 * bw};
        for (int mode = 0; mode < 5; mode++)
            for (int ep = 0; ep < np + DP_N; ep++) {
                if (r->stop) return;
                kc_junk(EA8, sizeof EA8, 51);
                kc_junk(EL8, sizeof EL8, 52);
                for (int i = 0; i < bh + 1 + bw; i++) {
                    long v = dr_edge_value(ep, np, i, bh, bw, 255);
                    if (i < bh) EL8[64 + (bh - 1 - i)] = (uint8_t)v;
                    else if (i == bh) EA8[63] = EL8[63] = (uint8_t)v;
                    else EA8[64 + (i - bh - 1)] = (uint8_t)v;
                }
                for (int si = 0; si < 4; si++) {
                    if (!case_begin(r, ep > PAT_MID)) continue;
                    size_t n = 64 + (size_t)bh * st[si] + 64;
                    kc_junk(PD8a, n, 53);
                    ((fi_fn)k->c)(PD8a + 64, st[si], (TxSize)ts, EA8 + 64, EL8 + 64, mode);
                    VERBOSE(r, "case %lld: %dx%d mode=%d stride=%d edge pattern %d", r->case_idx - 1, bw, bh, mode, st[si], ep);
                    for (int vi = 0; vi < k->nv; vi++) {
                        if (!var_on(r, vi)) continue;
                        kc_junk(PD8b, n, 53);
                        ((fi_fn)k->v[vi].fn)(PD8b + 64, st[si], (TxSize)ts, EA8 + 64, EL8 + 64, mode);
                        long d = kc_diff(PD8a, PD8b, n);
                        if (d >= 0) {
                            static const char *GN[DP_N] = {"above=max,left=min", "above=min,left=max", "only top-left max", "only top-left min"};
                            MISMATCH(r, vi, "%dx%d filter_intra_mode=%d stride=%d edge pattern '%s': first difference at dst offset %ld (row %ld col %ld): c=%d simd=%d", bw, bh, mode,
                                     st[si], ep < np ? kc_pat_name(ep, 0, 255, nb) : GN[ep - np], d - 64, (d - 64) / st[si], (d - 64) % st[si], PD8a[d], PD8b[d]);
                        }
                    }
                }
            }
    }
}

// ------------------------------------------------------------------------------------------------ edge filter / upsampling
typedef void (*edge8_fn)(uint8_t *p, int32_t sz, int32_t strength);
typedef void (*edge16_fn)(uint16_t *p, int32_t sz, int32_t strength);
typedef void (*ups8_fn)(uint8_t *p, int32_t sz);
static uint8_t  EB8a[512] ALIGN64, EB8b[512] ALIGN64;
static uint16_t EB16a[512] ALIGN64, EB16b[512] ALIGN64;

// equal outside the scratch window [lo, hi) (element indices), and equal on the defined outputs [olo, ohi)
static long diff_win(const void *a, const void *b, int esz, long total, long lo, long hi, long olo, long ohi) {
    const uint8_t *x = a, *y = b;
    for (long i = 0; i < total; i++) {
        if (i >= lo && i < hi && !(i >= olo && i < ohi)) continue;
        if (memcmp(x + i * esz, y + i * esz, esz)) return i;
    }
    return -1;
}

// The SIMD kernels use p[-1] and p[sz .. sz+15] as scratch ("extend the first and last samples"): the callers' edge arrays
// (above_data/left_data[MAX_TX_SIZE * 2 + 48], row = data + 32; 16-bit: [.. + 32], row = data + 16) reserve that room and nothing reads it
// afterwards, so only p[0 .. sz-1] is a defined output; everything outside [p-1, p+sz+16) must stay untouched.
// Callers (EbEncIntraPrediction.c:196-209): p = edge - ab_le, sz = n_px + ab_le + (need_right ? other dimension : 0) with n_px a multiple of 4
// in 4..64, ab_le in {0,1}; strength from intra_edge_filter_strength() in 0..3.  In-place; the whole buffer is compared.
// k->b: 1 = high bit depth (values up to 12 bits: the kernel has no bd argument)
void drv_filter_intra_edge(Run *r) {
    const Kern *k = r->k;
    int         hbd = k->b;
    static const int EXTRA[6] = {0, 4, 8, 16, 32, 64};
    char        nb[32];
    uint8_t     seen[160];
    memset(seen, 0, sizeof seen);
    for (int a = 4; a <= 64; a += 4)
        for (int b = 0; b < 2; b++)
            for (int c = 0; c < 6; c++) seen[a + b + EXTRA[c]] = 1;
    for (int bi = 0; bi < (hbd ? 3 : 1); bi++) {
        long hi = hbd ? (256L << (2 * bi)) - 1 : 255;
        int  np = kc_npat(r, 0, hi);
        for (int sz = 1; sz <= 129; sz++) {
            if (!seen[sz]) continue;
            for (int strength = 0; strength <= 3; strength++)
                for (int off = 0; off < 2; off++) // the edge pointer is 16-byte aligned (ab_le = 0) or one before (ab_le = 1)
                    for (int p = 0; p < np; p++) {
                        if (r->stop) return;
                        if (!case_begin(r, kc_pat_nontrivial(p))) continue;
                        if (hbd) {
                            kc_junk(EB16a, sizeof EB16a, 61);
                            for (int i = 0; i < 512; i++) EB16a[i] &= hi;
                            kc_fill_u16(EB16a + 64 - off, sz, 1, sz, p, 0, hi);
                            memcpy(EB16b, EB16a, sizeof EB16a);
                            ((edge16_fn)k->c)(EB16a + 64 - off, sz, strength);
                        } else {
                            kc_junk(EB8a, sizeof EB8a, 61);
                            kc_fill_u8(EB8a + 64 - off, sz, 1, sz, p, 0, 255);
                            memcpy(EB8b, EB8a, sizeof EB8a);
                            ((edge8_fn)k->c)(EB8a + 64 - off, sz, strength);
                        }
                        VERBOSE(r, "case %lld: sz=%d strength=%d pointer offset -%d range 0..%ld pattern %s", r->case_idx - 1, sz, strength, off, hi, kc_pat_name(p, 0, hi, nb));
                        for (int vi = 0; vi < k->nv; vi++) {
                            if (!var_on(r, vi)) continue;
                            long d;
                            if (hbd) {
                                uint16_t t[512];
                                memcpy(t, EB16b, sizeof t);
                                ((edge16_fn)k->v[vi].fn)(t + 64 - off, sz, strength);
                                d = diff_win(EB16a, t, 2, 512, 64 - off - 1, 64 - off + sz + 16, 64 - off, 64 - off + sz);
                                if (d >= 0) {
                                    MISMATCH(r, vi, "sz=%d strength=%d pointer = 64-byte aligned base - %d samples, values 0..%ld, edge pattern '%s': first difference at p[%ld]: c=%d simd=%d", sz, strength,
                                             off, hi, kc_pat_name(p, 0, hi, nb), d - 64 + off, EB16a[d], t[d]);
                                }
                            } else {
                                uint8_t t[512];
                                memcpy(t, EB8b, sizeof t);
                                ((edge8_fn)k->v[vi].fn)(t + 64 - off, sz, strength);
                                d = diff_win(EB8a, t, 1, 512, 64 - off - 1, 64 - off + sz + 16, 64 - off, 64 - off + sz);
                                if (d >= 0)
                                    MISMATCH(r, vi, "sz=%d strength=%d pointer = 64-byte aligned base - %d samples, edge pattern '%s': first difference at p[%ld]: c=%d simd=%d", sz, strength, off,
                                             kc_pat_name(p, 0, hi, nb), d - 64 + off, EB8a[d], t[d]);
                            }
                        }
                    }
        }
    }
}

// Callers (EbEncIntraPrediction.c:211-221): sz = bw + (need_right ? bh : 0) with bw + bh <= 16: sz in {4, 8, 12, 16}; reads p[-1..sz-1], writes
// p[-2..2sz-2]; the SIMD kernel stores 32 bytes per 16 input samples
// starting at p[-2]: p[2sz-1 .. 61] is scratch inside the callers' edge array (144 bytes follow the row pointer).  Complete {0,255}^(sz+1) cube plus the pattern alphabet.
void drv_upsample_intra_edge(Run *r) {
    const Kern *k = r->k;
    int         np = kc_npat(r, 0, 255);
    for (int sz = 4; sz <= 16; sz += 4) {
        unsigned long ncube = 1ul << (sz + 1);
        for (unsigned long m = 0; m < ncube + np; m++) {
            if (r->stop) return;
            if (!case_begin(r, m >= ncube ? kc_pat_nontrivial((int)(m - ncube)) : (m != 0 && m != ncube - 1))) continue;
            kc_junk(EB8a, sizeof EB8a, 61);
            for (int i = 0; i <= sz; i++) EB8a[63 + i] = m < ncube ? (uint8_t)((m >> i) & 1 ? 255 : 0) : (uint8_t)kc_pat_value((int)(m - ncube), i, 0, sz + 1, 1, 0, 255);
            memcpy(EB8b, EB8a, sizeof EB8a);
            ((ups8_fn)k->c)(EB8a + 64, sz);
            VERBOSE(r, "case %lld: sz=%d input %s 0x%lx", r->case_idx - 1, sz, m < ncube ? "cube mask" : "pattern", m < ncube ? m : m - ncube);
            for (int vi = 0; vi < k->nv; vi++) {
                if (!var_on(r, vi)) continue;
                uint8_t t[512];
                memcpy(t, EB8b, sizeof t);
                ((ups8_fn)k->v[vi].fn)(t + 64, sz);
                long d = diff_win(EB8a, t, 1, 512, 62, 62 + 64, 62, 62 + 2 * sz + 1);
                if (d >= 0)
                    MISMATCH(r, vi, "sz=%d input p[-1..%d] = %s 0x%lx (bit i set: p[i-1] = 255 else 0): first difference at p[%ld]: c=%d simd=%d", sz, sz - 1,
                             m < ncube ? "cube mask" : "pattern index", m < ncube ? m : m - ncube, d - 64, EB8a[d], t[d]);
            }
        }
    }
}
