/* Free-running stand-in for the controlled scheduler: real threads, real primitives. */
#define _GNU_SOURCE
#include <pthread.h>
#include <stdlib.h>
#include <unistd.h>
#include <time.h>
#include "vsched.h"
void (*vs_on_deadlock)(void);
void vs_init(void) {}
int  vs_active(void) { return 0; }
void vs_quiesce(void) { struct timespec ts = {0, 2000000}; nanosleep(&ts, NULL); }
void vs_yield(void) { sched_yield(); }
long vs_fini(void) { return 0; }
long vs_points(void) { return 0; }
int vs_unjoined(void) { return -1; }
void vs_hash_region(void *p, size_t n) { (void)p; (void)n; }
void *vs_thread_create(vs_fn f, void *arg) {
    pthread_t *t = malloc(sizeof *t);
    if (pthread_create(t, NULL, f, arg)) { free(t); return NULL; }
    return t;
}
void vs_thread_join(void *h) { pthread_join(*(pthread_t *)h, NULL); free(h); }
#include <stdio.h>
void vs_violation(const char *msg) { fprintf(stdout, "{\"violation\":\"%s\"}\n", msg); fflush(stdout); _exit(1); }
void vs_outcome(uint64_t h) { (void)h; }
