/* refdec: independent AV1 reference decoders (libaom 3.6 and dav1d 1.0 through dlopen, hand-declared ABI).
 *
 * usage: refdec <prefix> [key=value ...]
 *   reads <prefix>.obu (concatenated temporal units) and <prefix>.sz (uint32 size per TU), optionally
 *   <prefix>.rec (encoder recon: repeated {u64 pts,u64 len,bytes}).
 *   keys: start=<tu index to start decoding from>  dump=1 (write <prefix>.dec: per frame {u32 w,h,bpc,len; samples})
 *         whole=1 (feed whole file as one buffer to libaom)
 * Prints one JSON object.  Exit code 0 unless usage error.
 */
#define _GNU_SOURCE
#include <dlfcn.h>
#include <errno.h>
#include <stdint.h>
#include <stdio.h>
#include <stdlib.h>
#include <string.h>
#include "vutil.h"

/* ---------------- libaom */
typedef struct {
    const char *name; void *iface; int err; const char *err_detail; long init_flags; void *config; void *priv;
} aom_ctx;
typedef struct { unsigned threads, w, h, allow_lowbitdepth; } aom_dec_cfg;
typedef struct {
    int fmt, cp, tc, mc, monochrome, csp, range;
    unsigned w, h, bit_depth, d_w, d_h, r_w, r_h, x_chroma_shift, y_chroma_shift;
    unsigned char *planes[3]; int stride[3]; size_t sz; int bps; int temporal_id, spatial_id; void *user_priv;
} aom_image;
static void *(*p_aom_dx)(void);
static int (*p_aom_dec_init)(aom_ctx *, void *, const aom_dec_cfg *, long, int);
static int (*p_aom_decode)(aom_ctx *, const uint8_t *, size_t, void *);
static aom_image *(*p_aom_get_frame)(aom_ctx *, void **);
static int (*p_aom_destroy)(aom_ctx *);
static const char *(*p_aom_error)(aom_ctx *);
static int (*p_aom_control)(aom_ctx *, int, ...);
static int aom_abi = -1;

/* ---------------- dav1d */
typedef struct { const uint8_t *data; size_t sz; void *ref; int64_t ts, dur, off; size_t size; const uint8_t *ud; void *udref; } D1Data;
typedef struct { void *seq_hdr, *frame_hdr; void *data[3]; ptrdiff_t stride[2]; int w, h, layout, bpc; char rest[1024]; } D1Pic;
static void (*p_d1_default)(void *);
static int (*p_d1_open)(void **, const void *);
static int (*p_d1_send)(void *, D1Data *);
static int (*p_d1_get)(void *, D1Pic *);
static void (*p_d1_unref)(D1Pic *);
static void (*p_d1_close)(void **);
static int (*p_d1_wrap)(D1Data *, const uint8_t *, size_t, void (*)(const uint8_t *, void *), void *);
static void d1_nofree(const uint8_t *p, void *c) { (void)p; (void)c; }
static void d1_nolog(void *c, const char *f, __builtin_va_list ap) { (void)c; (void)f; (void)ap; }

typedef struct { int w, h, bpc; uint64_t hash; uint8_t *data; size_t len; } Frame;
#define MAXF 16384
static Frame fa[MAXF], fd[MAXF];
static int nfa, nfd;
static int keep_data = 1;

static void add_frame(Frame *arr, int *n, int w, int h, int bpc, unsigned char *pl[3], long st[3]) {
    if (*n >= MAXF) return;
    int bps = bpc > 8 ? 2 : 1, cw = (w + 1) / 2, ch = (h + 1) / 2;
    size_t len = ((size_t)w * h + 2 * (size_t)cw * ch) * bps;
    uint8_t *d = malloc(len), *q = d;
    for (int p = 0; p < 3; p++) {
        int pw = p ? cw : w, ph = p ? ch : h;
        for (int y = 0; y < ph; y++) { memcpy(q, pl[p] + (size_t)y * st[p], (size_t)pw * bps); q += (size_t)pw * bps; }
    }
    Frame *f = &arr[(*n)++];
    f->w = w; f->h = h; f->bpc = bpc; f->len = len; f->hash = vu_fnv(d, len, 0);
    if (keep_data) f->data = d; else { free(d); f->data = NULL; }
}

static uint8_t *readall(const char *pre, const char *suf, size_t *n, int optional) {
    char fn[1024];
    snprintf(fn, sizeof fn, "%s%s", pre, suf);
    FILE *f = fopen(fn, "rb");
    if (!f) { if (optional) { *n = 0; return NULL; } perror(fn); exit(4); }
    fseek(f, 0, SEEK_END); long l = ftell(f); fseek(f, 0, SEEK_SET);
    uint8_t *b = malloc((size_t)l + 16);
    if (l && fread(b, 1, (size_t)l, f) != (size_t)l) { perror("read"); exit(4); }
    fclose(f);
    *n = (size_t)l;
    return b;
}

int main(int argc, char **argv) {
    if (argc < 2) { fprintf(stderr, "usage\n"); return 4; }
    const char *pre = argv[1];
    int start = 0, dump = 0, use_aom = 1, use_d1 = 1, grain = 1;
    for (int i = 2; i < argc; i++) {
        if (!strncmp(argv[i], "start=", 6)) start = atoi(argv[i] + 6);
        else if (!strncmp(argv[i], "dump=", 5)) dump = atoi(argv[i] + 5);
        else if (!strncmp(argv[i], "aom=", 4)) use_aom = atoi(argv[i] + 4);
        else if (!strncmp(argv[i], "dav1d=", 6)) use_d1 = atoi(argv[i] + 6);
        else if (!strncmp(argv[i], "grain=", 6)) grain = atoi(argv[i] + 6);
    }
    size_t on, sn, rn;
    uint8_t *ob = readall(pre, ".obu", &on, 0);
    uint32_t *sz = (uint32_t *)readall(pre, ".sz", &sn, 0);
    uint8_t *rb = readall(pre, ".rec", &rn, 1);
    int ntu = (int)(sn / 4);
    int aom_ok = 0, d1_ok = 0, aom_err = 0, d1_err = 0, aom_err_tu = -1, d1_err_tu = -1;
    char aom_msg[256] = "";

    void *la = use_aom ? dlopen("libaom.so.3", RTLD_NOW | RTLD_LOCAL) : NULL;
    if (la) {
        p_aom_dx = dlsym(la, "aom_codec_av1_dx"); p_aom_dec_init = dlsym(la, "aom_codec_dec_init_ver");
        p_aom_decode = dlsym(la, "aom_codec_decode"); p_aom_get_frame = dlsym(la, "aom_codec_get_frame");
        p_aom_destroy = dlsym(la, "aom_codec_destroy"); p_aom_error = dlsym(la, "aom_codec_error");
        p_aom_control = dlsym(la, "aom_codec_control");
        if (p_aom_dx && p_aom_dec_init && p_aom_decode && p_aom_get_frame && p_aom_destroy) {
            aom_ctx ctx; aom_dec_cfg cfg = {1, 0, 0, 1};
            for (int v = 22; v < 40 && aom_abi < 0; v++) { memset(&ctx, 0, sizeof ctx); if (p_aom_dec_init(&ctx, p_aom_dx(), &cfg, 0, v) == 0) aom_abi = v; }
            for (int v = 21; v > 5 && aom_abi < 0; v--) { memset(&ctx, 0, sizeof ctx); if (p_aom_dec_init(&ctx, p_aom_dx(), &cfg, 0, v) == 0) aom_abi = v; }
            if (aom_abi >= 0) {
                aom_ok = 1;
                size_t off = 0;
                for (int t = 0; t < ntu; t++) {
                    if (t >= start && sz[t]) {
                        int e = p_aom_decode(&ctx, ob + off, sz[t], NULL);
                        if (e) { if (!aom_err) { aom_err = e; aom_err_tu = t; snprintf(aom_msg, sizeof aom_msg, "%s", p_aom_error ? p_aom_error(&ctx) : ""); } }
                        void *it = NULL; aom_image *im;
                        while ((im = p_aom_get_frame(&ctx, &it))) {
                            long st[3] = { im->stride[0], im->stride[1], im->stride[2] };
                            int bpc = (im->fmt & 0x800) ? (int)im->bit_depth : 8;
                            if ((im->fmt & 0x800) && im->bit_depth == 8) {
                                /* 16-bit container holding 8-bit data: narrow */
                                int w = (int)im->d_w, h = (int)im->d_h, cw = (w + 1) / 2, chh = (h + 1) / 2;
                                uint8_t *tmp = malloc((size_t)w * h + 2 * (size_t)cw * chh), *q = tmp; unsigned char *pl[3]; long st2[3];
                                for (int p = 0; p < 3; p++) { int pw = p ? cw : w, ph = p ? chh : h; pl[p] = q; st2[p] = pw;
                                    for (int y = 0; y < ph; y++) for (int x = 0; x < pw; x++) *q++ = (uint8_t)((uint16_t *)(im->planes[p] + (size_t)y * st[p]))[x]; }
                                add_frame(fa, &nfa, w, h, 8, pl, st2); free(tmp);
                            } else
                                add_frame(fa, &nfa, (int)im->d_w, (int)im->d_h, bpc, im->planes, st);
                        }
                    }
                    off += sz[t];
                }
                p_aom_destroy(&ctx);
            }
        }
    }
    void *ld = use_d1 ? dlopen("libdav1d.so.6", RTLD_NOW | RTLD_LOCAL) : NULL;
    if (ld) {
        p_d1_default = dlsym(ld, "dav1d_default_settings"); p_d1_open = dlsym(ld, "dav1d_open");
        p_d1_send = dlsym(ld, "dav1d_send_data"); p_d1_get = dlsym(ld, "dav1d_get_picture");
        p_d1_unref = dlsym(ld, "dav1d_picture_unref"); p_d1_close = dlsym(ld, "dav1d_close"); p_d1_wrap = dlsym(ld, "dav1d_data_wrap");
        if (p_d1_default && p_d1_open && p_d1_send && p_d1_get && p_d1_unref && p_d1_close && p_d1_wrap) {
            union { int i[128]; void *p[64]; } s; memset(&s, 0, sizeof s);
            p_d1_default(&s);
            s.i[0] = 1; /* n_threads */ s.i[1] = 1; /* max_frame_delay */ s.i[2] = grain; /* apply_grain */
            /* logger {cookie, callback} sits after allocator {cookie, alloc, release}: ints 0..5 (24 bytes), allocator 24..48, logger 48..64 */
            s.p[7] = (void *)d1_nolog;
            void *c = NULL;
            if (p_d1_open(&c, &s) == 0) {
                d1_ok = 1;
                size_t off = 0;
                for (int t = 0; t < ntu; t++) {
                    if (t >= start && sz[t]) {
                        D1Data d; memset(&d, 0, sizeof d);
                        if (p_d1_wrap(&d, ob + off, sz[t], d1_nofree, NULL) == 0) {
                            int guard = 0;
                            while (d.sz > 0 && guard++ < 1000) {
                                int e = p_d1_send(c, &d);
                                if (e < 0 && e != -EAGAIN) { if (!d1_err) { d1_err = e; d1_err_tu = t; } break; }
                                for (;;) {
                                    D1Pic pic; memset(&pic, 0, sizeof pic);
                                    int g = p_d1_get(c, &pic);
                                    if (g < 0) { if (g != -EAGAIN && !d1_err) { d1_err = g; d1_err_tu = t; } break; }
                                    unsigned char *pl[3] = { pic.data[0], pic.data[1], pic.data[2] };
                                    long st[3] = { pic.stride[0], pic.stride[1], pic.stride[1] };
                                    add_frame(fd, &nfd, pic.w, pic.h, pic.bpc, pl, st);
                                    p_d1_unref(&pic);
                                }
                            }
                            for (;;) {
                                D1Pic pic; memset(&pic, 0, sizeof pic);
                                int g = p_d1_get(c, &pic);
                                if (g < 0) { if (g != -EAGAIN && !d1_err) { d1_err = g; d1_err_tu = t; } break; }
                                unsigned char *pl[3] = { pic.data[0], pic.data[1], pic.data[2] };
                                long st[3] = { pic.stride[0], pic.stride[1], pic.stride[1] };
                                add_frame(fd, &nfd, pic.w, pic.h, pic.bpc, pl, st);
                                p_d1_unref(&pic);
                            }
                        }
                    }
                    off += sz[t];
                }
                p_d1_close(&c);
            }
        }
    }
    /* recon records sorted by pts */
    typedef struct { int64_t pts; uint64_t len; uint8_t *p; } R;
    R *rs = malloc(sizeof(R) * (MAXF + 1)); int nr = 0;
    for (size_t o = 0; rb && o + 16 <= rn && nr < MAXF;) {
        uint64_t h2[2]; memcpy(h2, rb + o, 16);
        rs[nr].pts = (int64_t)h2[0]; rs[nr].len = h2[1]; rs[nr].p = rb + o + 16; nr++;
        o += 16 + h2[1];
    }
    for (int i = 1; i < nr; i++) { R t = rs[i]; int j = i - 1; while (j >= 0 && rs[j].pts > t.pts) { rs[j + 1] = rs[j]; j--; } rs[j + 1] = t; }
    int agree = (aom_ok && d1_ok) ? (nfa == nfd) : -1;
    int first_disagree = -1;
    if (aom_ok && d1_ok) for (int i = 0; i < nfa && i < nfd; i++) if (fa[i].hash != fd[i].hash || fa[i].w != fd[i].w || fa[i].h != fd[i].h) { agree = 0; if (first_disagree < 0) first_disagree = i; }
    Frame *ref = aom_ok ? fa : fd; int nref = aom_ok ? nfa : nfd;
    int rec_mismatch = 0, first_rec_mismatch = -1;
    /* recon k (k-th smallest pts, counted from 'start' when decoding from the middle is not supported here) */
    if (start == 0) for (int i = 0; i < nr; i++) {
        int bad = (i >= nref) || rs[i].len != ref[i].len || memcmp(rs[i].p, ref[i].data, ref[i].len);
        if (bad) { rec_mismatch++; if (first_rec_mismatch < 0) first_rec_mismatch = i; }
    }
    printf("{\"aom\":%d,\"aom_abi\":%d,\"dav1d\":%d,\"ntu\":%d,\"aom_err\":%d,\"aom_err_tu\":%d,\"aom_msg\":\"%s\",\"d1_err\":%d,\"d1_err_tu\":%d,", aom_ok, aom_abi, d1_ok, ntu, aom_err, aom_err_tu, aom_msg, d1_err, d1_err_tu);
    printf("\"aom_frames\":%d,\"d1_frames\":%d,\"agree\":%d,\"first_disagree\":%d,\"nrec\":%d,\"rec_mismatch\":%d,\"first_rec_mismatch\":%d,", nfa, nfd, agree, first_disagree, nr, rec_mismatch, first_rec_mismatch);
    printf("\"frames\":[");
    for (int i = 0; i < nref; i++) printf("%s[%d,%d,%d,\"%016llx\"]", i ? "," : "", ref[i].w, ref[i].h, ref[i].bpc, (unsigned long long)ref[i].hash);
    printf("]");
    /* order check against the source pictures (<prefix>.src, planar, same sample size): decoded picture k must be
     * at least as close (SSE over luma) to source k as to any other source */
    {
        size_t sn2; uint8_t *src = readall(pre, ".src", &sn2, 1);
        if (src && nref > 0 && ref[0].len > 0 && sn2 % ref[0].len == 0) {
            int ns = (int)(sn2 / ref[0].len), bad = -1;
            size_t lsz = (size_t)ref[0].w * ref[0].h * (ref[0].bpc > 8 ? 2 : 1);
            for (int k = 0; k < nref && k < ns && bad < 0; k++) {
                double best = -1, own = 0;
                for (int j = 0; j < ns; j++) {
                    double sse = 0; const uint8_t *a = ref[k].data, *b = src + (size_t)j * ref[0].len;
                    if (ref[0].bpc > 8) { const uint16_t *a16 = (const uint16_t *)a, *b16 = (const uint16_t *)b; for (size_t i = 0; i < lsz / 2; i++) { double d = (double)a16[i] - b16[i]; sse += d * d; } }
                    else for (size_t i = 0; i < lsz; i++) { double d = (double)a[i] - b[i]; sse += d * d; }
                    if (j == k) own = sse;
                    if (best < 0 || sse < best) best = sse;
                }
                if (own > best) bad = k;
            }
            printf(",\"nsrc\":%d,\"order_bad\":%d", ns, bad);
        }
    }
    printf(",\"rec_zero\":[");
    { int first = 1; for (int i = 0; i < nr; i++) { int z = 1; for (uint64_t k = 0; k < rs[i].len; k++) if (rs[i].p[k]) { z = 0; break; } if (z) { printf("%s%d", first ? "" : ",", i); first = 0; } } }
    printf("]}\n");
    if (dump) {
        char fn[1024]; snprintf(fn, sizeof fn, "%s.dec", pre);
        FILE *f = fopen(fn, "wb");
        for (int i = 0; i < nref; i++) { uint32_t hd[4] = { (uint32_t)ref[i].w, (uint32_t)ref[i].h, (uint32_t)ref[i].bpc, (uint32_t)ref[i].len }; fwrite(hd, 1, 16, f); fwrite(ref[i].data, 1, ref[i].len, f); }
        fclose(f);
    }
    return 0;
}
