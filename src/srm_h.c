/* srm_h: closed harness around the real system resource manager (C23).
 *
 * usage: srm_h objs=<n> prod=<p> cons=<c> m=<ops per producer> [nb=1] [live=1] [dis=1] [early=1] [replay=<digits>]
 *   nb    : consumer 0 polls with svt_get_full_object_non_blocking (only meaningful with cons=1)
 *   live  : consumers call svt_object_inc_live_count(w,2) and release twice (object must stay out until the 2nd)
 *   dis   : consumers disable release, release, enable, release
 *   share : each consumer shares every object with a helper thread (live count 2); both release it concurrently
 *   early : an extra thread calls svt_shutdown_process at an arbitrary point (requires prod*m <= objs)
 * Explores every interleaving (explicit-state mode of sched.c) and prints one JSON line.
 */
#define _GNU_SOURCE
#include <stdio.h>
#include <stdlib.h>
#include <string.h>
#include <stdint.h>
#include "EbSystemResourceManager.h"
#include "vsched.h"
#include "vutil.h"
#include "EbThreads.h"
#define MAXP_ 4

/* ---- arena: every allocation made while arena_on is served from here, so that the SRM's whole state
 * lives at fixed addresses and can be hashed as raw memory */
#define ARENA_SZ (1 << 16)
static char   arena[ARENA_SZ] __attribute__((aligned(64)));
static size_t arena_used;
static int    arena_on;
void *__real_malloc(size_t);
void *__real_calloc(size_t, size_t);
void  __real_free(void *);
static void *arena_alloc(size_t n) {
    size_t a = (arena_used + 15) & ~(size_t)15;
    if (a + n > ARENA_SZ) { fprintf(stderr, "arena exhausted\n"); abort(); }
    arena_used = a + n;
    return arena + a;
}
void *__wrap_malloc(size_t n) { return arena_on ? arena_alloc(n) : __real_malloc(n); }
void *__wrap_calloc(size_t a, size_t b) {
    if (!arena_on) return __real_calloc(a, b);
    void *p = arena_alloc(a * b);
    memset(p, 0, a * b);
    return p;
}
void __wrap_free(void *p) {
    if ((char *)p >= arena && (char *)p < arena + ARENA_SZ) return;
    __real_free(p);
}

/* ---- parameters and monitor state (hashed) */
static int OBJS = 2, PROD = 1, CONS = 1, M = 2, NB = 0, LIVE = 0, DIS = 0, EARLY = 0, SHARE = 0;
static EbHandle share_sem[MAXP_];
static EbObjectWrapper *share_w[MAXP_];
enum { ST_POOL, ST_PROD, ST_POSTED, ST_CONS };
#define MAXO 8
#define MAXP 4
static struct Mon {
    int  state[MAXO];          /* where each wrapper is, by the monitor's book-keeping */
    int  holder[MAXO];
    int  payload[MAXO];        /* producer*100 + seq written by the producer */
    int  next_expected[MAXP][MAXP]; /* [consumer][producer] next sequence number expected */
    int  consumed, produced;
    int  prod_k[MAXP], cons_done[MAXP], cons_n[MAXP];
    int  shutdown_called;
    int  stage[MAXP * 2 + 2];
    uint64_t outcome;
} mon;
static EbSystemResource *res;
static EbObjectWrapper  *wr[MAXO];

typedef struct { EbDctor dctor; int value; } Obj;
static EbErrorType obj_ctor(EbPtr *o, EbPtr init) { (void)init; Obj *p; EB_CALLOC(p, 1, sizeof *p); *o = p; return EB_ErrorNone; }
static void obj_dtor(EbPtr p) { (void)p; }

static int widx(EbObjectWrapper *w) {
    for (int i = 0; i < OBJS; i++) if (wr[i] == w) return i;
    return -1;
}
static char msgbuf[512];
#define FAIL(...) do { snprintf(msgbuf, sizeof msgbuf, __VA_ARGS__); vs_violation(msgbuf); } while (0)

static void *producer(void *a) {
    int p = (int)(intptr_t)a;
    EbFifo *f = svt_system_resource_get_producer_fifo(res, (uint32_t)p);
    for (mon.prod_k[p] = 0; mon.prod_k[p] < M; mon.prod_k[p]++) {
        EbObjectWrapper *w = NULL;
        svt_get_empty_object(f, &w);
        int i = widx(w);
        if (i < 0) FAIL("producer %d received a pointer that is not a wrapper of the pool", p);
        if (mon.state[i] != ST_POOL) FAIL("object %d handed to producer %d while state=%d holder=%d (two holders)", i, p, mon.state[i], mon.holder[i]);
        if (w->live_count != 0 || w->release_enable != EB_TRUE) FAIL("empty object %d delivered with live_count=%u release_enable=%d", i, w->live_count, w->release_enable);
        mon.state[i] = ST_PROD; mon.holder[i] = p;
        ((Obj *)w->object_ptr)->value = p * 100 + mon.prod_k[p];
        mon.payload[i] = p * 100 + mon.prod_k[p];
        mon.state[i] = ST_POSTED; mon.holder[i] = -1;
        mon.produced++;
        svt_post_full_object(w);
    }
    return NULL;
}

static void *consumer(void *a) {
    int c = (int)(intptr_t)a;
    EbFifo *f = svt_system_resource_get_consumer_fifo(res, (uint32_t)c);
    for (;;) {
        EbObjectWrapper *w = NULL;
        EbErrorType e;
        if (NB && c == 0) {
            if (mon.cons_n[c] == PROD * M) break; /* the polling consumer knows how many items exist */
            e = svt_get_full_object_non_blocking(f, &w);
            if (!w) {
                /* nothing yet: wait until every other thread is blocked or done, then poll once more */
                vs_quiesce();
                e = svt_get_full_object_non_blocking(f, &w);
                if (!w) FAIL("polling consumer finds nothing at quiescence: %d of %d objects consumed, %d posted (lost object / lost wake-up)", mon.consumed, PROD * M, mon.produced);
            }
        } else {
            e = svt_get_full_object(f, &w);
            if (e == EB_NoErrorFifoShutdown) {
                if (!mon.shutdown_called) FAIL("consumer %d got EB_NoErrorFifoShutdown before shutdown was requested", c);
                break;
            }
        }
        int i = widx(w);
        if (i < 0) FAIL("consumer %d received a pointer that is not a wrapper of the pool (%p)", c, (void *)w);
        if (mon.state[i] != ST_POSTED) FAIL("object %d delivered to consumer %d while state=%d holder=%d (duplicate / two holders)", i, c, mon.state[i], mon.holder[i]);
        int v = ((Obj *)w->object_ptr)->value;
        if (v != mon.payload[i]) FAIL("object %d payload %d differs from what its producer wrote (%d)", i, v, mon.payload[i]);
        int p = v / 100, k = v % 100;
        if (k < mon.next_expected[c][p]) FAIL("consumer %d received item %d of producer %d after item %d (posting order violated)", c, k, p, mon.next_expected[c][p] - 1);
        if (CONS == 1 && k != mon.next_expected[c][p]) FAIL("single consumer received item %d of producer %d, expected %d (lost or reordered)", k, p, mon.next_expected[c][p]);
        mon.next_expected[c][p] = k + 1;
        mon.state[i] = ST_CONS; mon.holder[i] = c;
        mon.outcome = mon.outcome * 1000003u + (uint64_t)(c * 10000 + v + 1);
        if (SHARE) {
            /* two holders of the same object release it concurrently: this consumer and its helper thread */
            svt_object_inc_live_count(w, 2);
            share_w[c] = w;
            mon.state[i] = ST_POOL; mon.holder[i] = -1; mon.consumed++; mon.cons_n[c]++; /* from now on either release may be the last one */
            svt_post_semaphore(share_sem[c]);
            svt_release_object(w);
            svt_block_on_semaphore(share_sem[MAXP_ / 2 + c]); /* helper done with this object */
        } else if (LIVE) {
            svt_object_inc_live_count(w, 2);
            svt_release_object(w);
            if (mon.state[i] != ST_CONS || mon.holder[i] != c) FAIL("object %d left consumer %d before its last reference was released", i, c);
            mon.state[i] = ST_POOL; mon.holder[i] = -1; mon.consumed++; mon.cons_n[c]++;
            svt_release_object(w);
        } else if (DIS) {
            svt_object_release_disable(w);
            svt_release_object(w);
            if (mon.state[i] != ST_CONS || mon.holder[i] != c) FAIL("object %d returned to the pool while release was disabled", i);
            svt_object_release_enable(w);
            mon.state[i] = ST_POOL; mon.holder[i] = -1; mon.consumed++; mon.cons_n[c]++;
            svt_release_object(w);
        } else {
            mon.state[i] = ST_POOL; mon.holder[i] = -1; mon.consumed++; mon.cons_n[c]++;
            svt_release_object(w);
        }
    }
    mon.cons_done[c] = 1;
    return NULL;
}

static void *helper(void *a) {
    int c = (int)(intptr_t)a;
    for (int k = 0; k < PROD * M; k++) {
        svt_block_on_semaphore(share_sem[c]);
        if (mon.cons_done[c]) break;
        svt_release_object(share_w[c]);
        svt_post_semaphore(share_sem[MAXP_ / 2 + c]);
    }
    return NULL;
}
static void *shutter(void *a) { (void)a; mon.shutdown_called = 1; svt_shutdown_process(res); return NULL; }

static void body(void *arg) {
    (void)arg;
    /* executions are re-run in-process: reset everything an execution can touch */
    memset(arena, 0, arena_used);
    arena_used = 0;
    memset(&mon, 0, sizeof mon);
    arena_on = 1;
    EbErrorType e;
    EbSystemResource *r;
    res = NULL;
    r = (EbSystemResource *)arena_alloc(sizeof *r);
    memset(r, 0, sizeof *r);
    e = svt_system_resource_ctor(r, (uint32_t)OBJS, (uint32_t)PROD, (uint32_t)CONS, obj_ctor, NULL, obj_dtor);
    if (e != EB_ErrorNone) FAIL("svt_system_resource_ctor failed %x", e);
    res = r;
    if (SHARE) for (int c = 0; c < CONS; c++) { share_sem[c] = svt_create_semaphore(0, 100); share_sem[MAXP_ / 2 + c] = svt_create_semaphore(0, 100); share_w[c] = NULL; }
    for (int i = 0; i < OBJS; i++) { wr[i] = res->wrapper_ptr_pool[i]; mon.state[i] = ST_POOL; mon.holder[i] = -1; }
    arena_on = 0;
    vs_hash_region(arena, arena_used);
    vs_hash_region(&mon, sizeof mon);
    void *hp[MAXP] = {0}, *hc[MAXP] = {0}, *hh[MAXP] = {0}, *hs = NULL;
    for (int c = 0; c < CONS; c++) hc[c] = vs_thread_create(consumer, (void *)(intptr_t)c);
    if (SHARE) for (int c = 0; c < CONS; c++) hh[c] = vs_thread_create(helper, (void *)(intptr_t)c);
    for (int p = 0; p < PROD; p++) hp[p] = vs_thread_create(producer, (void *)(intptr_t)p);
    if (EARLY) hs = vs_thread_create(shutter, NULL);
    for (int p = 0; p < PROD; p++) vs_thread_join(hp[p]);
    if (NB) {
        for (int c = 0; c < CONS; c++) vs_thread_join(hc[c]);
        mon.shutdown_called = 1;
        svt_shutdown_process(res);
    } else if (!EARLY) {
        vs_quiesce();
        /* quiescence: every thread is blocked.  Everything posted must have been consumed (no lost wake-up). */
        if (mon.consumed != PROD * M) FAIL("quiescent with %d of %d posted objects not consumed although consumers are waiting (lost wake-up)", PROD * M - mon.consumed, PROD * M);
        for (int i = 0; i < OBJS; i++) if (mon.state[i] != ST_POOL) FAIL("object %d not back in the pool at quiescence (state %d)", i, mon.state[i]);
        mon.shutdown_called = 1;
        svt_shutdown_process(res);
    } else vs_thread_join(hs);
    if (!NB) for (int c = 0; c < CONS; c++) vs_thread_join(hc[c]);
    if (SHARE) for (int c = 0; c < CONS; c++) { svt_post_semaphore(share_sem[c]); vs_thread_join(hh[c]); }
    /* conservation: every wrapper is either in the empty queue / a producer fifo, or (early shutdown) still posted */
    int in_pool = (int)res->empty_queue->object_queue->current_count;
    for (int p = 0; p < PROD; p++) {
        EbFifo *f = svt_system_resource_get_producer_fifo(res, (uint32_t)p);
        for (EbObjectWrapper *w = f->first_ptr; w; w = w->next_ptr) in_pool++;
    }
    int expect_pool = 0;
    for (int i = 0; i < OBJS; i++) expect_pool += mon.state[i] == ST_POOL;
    if (in_pool != expect_pool) FAIL("conservation: %d wrappers in the empty pool, monitor expects %d", in_pool, expect_pool);
    for (int i = 0; i < OBJS; i++)
        if (mon.state[i] == ST_POOL && wr[i]->live_count != EB_ObjectWrapperReleasedValue && wr[i]->live_count != 0)
            FAIL("object %d in pool with live_count %u", i, wr[i]->live_count);
    if (!EARLY && mon.consumed != PROD * M) FAIL("only %d of %d objects consumed", mon.consumed, PROD * M);
    vs_outcome(mon.outcome);
}

int main(int argc, char **argv) {
    const char *replay = NULL; double dl = 600; int workers = 16;
    for (int i = 1; i < argc; i++) {
        char *eq = strchr(argv[i], '=');
        if (!eq) continue;
        int v = atoi(eq + 1);
        if (!strncmp(argv[i], "objs=", 5)) OBJS = v; else if (!strncmp(argv[i], "prod=", 5)) PROD = v;
        else if (!strncmp(argv[i], "cons=", 5)) CONS = v; else if (!strncmp(argv[i], "m=", 2)) M = v;
        else if (!strncmp(argv[i], "nb=", 3)) NB = v; else if (!strncmp(argv[i], "live=", 5)) LIVE = v;
        else if (!strncmp(argv[i], "dis=", 4)) DIS = v; else if (!strncmp(argv[i], "early=", 6)) EARLY = v; else if (!strncmp(argv[i], "share=", 6)) SHARE = v;
        else if (!strncmp(argv[i], "replay=", 7)) replay = eq + 1; else if (!strncmp(argv[i], "deadline=", 9)) dl = atof(eq + 1);
        else if (!strncmp(argv[i], "workers=", 8)) workers = v;
    }
    if (OBJS > MAXO || PROD > MAXP || CONS > MAXP) return 4;
    if (replay) return vs_replay_path(body, NULL, replay);
    return vs_explore(body, NULL, workers, dl);
}
