// C07 drivers: self-guided loop restoration (filter, apply) and the projection error / subspace search kernels.
#include <stdlib.h>
#include "EbDefinitions.h"
#include "EbRestoration.h"
#include "kern_core.h"

#define ALIGN64 __attribute__((aligned(64)))

typedef void (*sgr_fn)(const uint8_t *dgd8, int32_t width, int32_t height, int32_t dgd_stride, int32_t *flt0, int32_t *flt1, int32_t flt_stride,
                       int32_t sgr_params_idx, int32_t bit_depth, int32_t highbd);
typedef void (*apply_sgr_fn)(const uint8_t *dat8, int32_t width, int32_t height, int32_t stride, int32_t eps, const int32_t *xqd, uint8_t *dst8,
                             int32_t dst_stride, int32_t *tmpbuf, int32_t bit_depth, int32_t highbd);
typedef int64_t (*proj_err_fn)(const uint8_t *src8, int32_t width, int32_t height, int32_t src_stride, const uint8_t *dat8, int32_t dat_stride, int32_t *flt0,
                               int32_t flt0_stride, int32_t *flt1, int32_t flt1_stride, int32_t xq[2], const SgrParamsType *params);
typedef void (*proj_sub_fn)(const uint8_t *src8, int width, int height, int src_stride, const uint8_t *dat8, int dat_stride, int use_highbitdepth, int32_t *flt0,
                            int flt0_stride, int32_t *flt1, int flt1_stride, int *xq, const SgrParamsType *params);

#define SRC_ST 160
#define SRC_ROWS 120
static uint16_t DG16[SRC_ST * SRC_ROWS + 256] ALIGN64, SR16[SRC_ST * SRC_ROWS + 256] ALIGN64, OA16[SRC_ST * SRC_ROWS + 256] ALIGN64, OB16[SRC_ST * SRC_ROWS + 256] ALIGN64;
static uint8_t  DG8[SRC_ST * SRC_ROWS + 256] ALIGN64, SR8[SRC_ST * SRC_ROWS + 256] ALIGN64, OA8[SRC_ST * SRC_ROWS + 256] ALIGN64, OB8[SRC_ST * SRC_ROWS + 256] ALIGN64;
static int32_t  F0a[112 * 104 + 256] ALIGN64, F1a[112 * 104 + 256] ALIGN64, F0b[112 * 104 + 256] ALIGN64, F1b[112 * 104 + 256] ALIGN64;
static int32_t *TMPA, *TMPB;

static const int SGW[12] = {1, 2, 3, 4, 7, 8, 9, 16, 17, 31, 32, 64};
static const int SGH[10] = {1, 2, 3, 4, 8, 15, 16, 32, 56, 64};
static const int SGPAT[8] = {PAT_LO, PAT_HI, PAT_MID, PAT_CHECK, PAT_ROWRAMP, PAT_COLRAMP, PAT_HI_TL, PAT_TEXTURE};
static const int BDM[4][2] = {{8, 0}, {8, 1}, {10, 1}, {12, 1}};

// picture area with a 3-sample border all around the w x h unit (callers guarantee SGRPROJ_BORDER_* valid samples), block origin (8, 8)
static const uint8_t *fill_dgd(int w, int h, int pat, int bd, int highbd) {
    long hi = (1L << bd) - 1;
    if (highbd) {
        kc_junk(DG16, sizeof DG16, 71);
        for (size_t i = 0; i < sizeof DG16 / 2; i++) DG16[i] &= hi;
        kc_fill_u16(DG16 + 64 + 5 * SRC_ST + 5, w + 6, h + 6, SRC_ST, pat, 0, hi);
        return CONVERT_TO_BYTEPTR_(DG16 + 64 + 8 * SRC_ST + 8);
    }
    kc_junk(DG8, sizeof DG8, 71);
    kc_fill_u8(DG8 + 64 + 5 * SRC_ST + 5, w + 6, h + 6, SRC_ST, pat, 0, 255);
    return DG8 + 64 + 8 * SRC_ST + 8;
}

// compares the w x h block of two int32 planes and requires everything outside [0, align8(w)) x [0, h) to be untouched (equal)
static long flt_diff(const int32_t *a, const int32_t *b, int w, int h, int stride, size_t total) {
    int wa = (w + 7) & ~7;
    for (size_t i = 0; i < total; i++) {
        long o = (long)i - 64, y = o >= 0 ? o / stride : -1, x = o >= 0 ? o % stride : 0;
        int  in_block = o >= 0 && y < h && x < w, in_scratch = o >= 0 && y < h && x >= w && x < wa;
        if (in_scratch) continue;
        if (a[i] != b[i]) return (long)i;
        (void)in_block;
    }
    return -1;
}

// svt_av1_selfguided_restoration. Callers: apply_sgr (Encoder/Codec/EbRestorationPick.c:556-580: w = min(pu_width, width - j), h = min(pu_height,
// height - i), pu = 64 >> ss, flt_stride = ((unit width + 7) & ~7) + 8) and svt_apply_selfguided_restoration (flt_stride = width).
// sgr_params_idx 0..15; (bit_depth, highbd) in {(8,0),(8,1),(10,1),(12,1)}.  flt columns [w, align8(w)) are scratch (vector stores).
void drv_sgr(Run *r) {
    const Kern *k = r->k;
    char        nb[32];
    for (int bm = 0; bm < 4; bm++) {
        int bd = BDM[bm][0], hb = BDM[bm][1];
        for (int wi = 0; wi < 12; wi++)
            for (int hi_ = 0; hi_ < 10; hi_++) {
                int w = SGW[wi], h = SGH[hi_];
                if (!r->thorough && ((wi * 3 + hi_) % 4) != 0 && !(w == 64 && h == 64) && !(w <= 4 && h <= 4)) continue;
                for (int pi = 0; pi < 8; pi++) {
                    if (r->stop) return;
                    const uint8_t *dgd = NULL;
                    for (int ep = 0; ep < SGRPROJ_PARAMS; ep++)
                        for (int fs = 0; fs < 2; fs++) {
                            if (r->stop) return;
                            if (case_skip_fast(r)) continue;
                            if (!dgd) dgd = fill_dgd(w, h, SGPAT[pi], bd, hb);
                            if (!case_begin(r, pi > 2)) continue;
                            int    fst = fs ? ((w + 7) & ~7) + 8 : (w + 7) & ~7;
                            size_t n = 64 + (size_t)h * fst + 64;
                            kc_junk(F0a, n * 4, 73); kc_junk(F1a, n * 4, 74);
                            ((sgr_fn)k->c)(dgd, w, h, SRC_ST, F0a + 64, F1a + 64, fst, ep, bd, hb);
                            VERBOSE(r, "case %lld: %dx%d bd=%d highbd=%d pattern=%s ep=%d flt_stride=%d -> c flt0[0]=%d flt1[0]=%d", r->case_idx - 1, w, h, bd, hb,
                                    kc_pat_name(SGPAT[pi], 0, (1L << bd) - 1, nb), ep, fst, F0a[64], F1a[64]);
                            for (int vi = 0; vi < k->nv; vi++) {
                                if (!var_on(r, vi)) continue;
                                kc_junk(F0b, n * 4, 73); kc_junk(F1b, n * 4, 74);
                                ((sgr_fn)k->v[vi].fn)(dgd, w, h, SRC_ST, F0b + 64, F1b + 64, fst, ep, bd, hb);
                                long d0 = flt_diff(F0a, F0b, w, h, fst, n), d1 = flt_diff(F1a, F1b, w, h, fst, n);
                                if (d0 >= 0 || d1 >= 0) {
                                    long d = d0 >= 0 ? d0 : d1;
                                    MISMATCH(r, vi, "unit %dx%d bit_depth=%d highbd=%d picture pattern '%s' (incl. 3-sample border) sgr_params_idx=%d (r0=%d r1=%d) flt_stride=%d: first difference in %s at row %ld col %ld: c=%d simd=%d",
                                             w, h, bd, hb, kc_pat_name(SGPAT[pi], 0, (1L << bd) - 1, nb), ep, eb_sgr_params[ep].r[0], eb_sgr_params[ep].r[1], fst,
                                             d0 >= 0 ? "flt0" : "flt1", (d - 64) / fst, (d - 64) % fst, d0 >= 0 ? F0a[d] : F1a[d], d0 >= 0 ? F0b[d] : F1b[d]);
                                }
                            }
                        }
                }
            }
    }
}

// svt_apply_selfguided_restoration. Callers: sgrproj_filter_stripe(_highbd) (Common/Codec/EbRestoration.c:1086-1160): w = min(procunit_width,
// stripe_width - j) (any 1..64), stripe height 1..64, eps 0..15, xqd[0] in [SGRPROJ_PRJ_MIN0, MAX0], xqd[1] in [MIN1, MAX1], tmpbuf of
// RESTORATION_TMPBUF_SIZE bytes.  The SIMD kernel writes 16 pixels at a time: dst columns [w, align16(w)) of the processed rows are
// overwritten (they belong to the next processing unit, filtered afterwards, or to the picture border), so only w x h is a defined output.
void drv_apply_sgr(Run *r) {
    const Kern *k = r->k;
    char        nb[32];
    static const int XQ0[4] = {SGRPROJ_PRJ_MIN0, SGRPROJ_PRJ_MAX0, 0, -32};
    static const int XQ1[4] = {SGRPROJ_PRJ_MIN1, SGRPROJ_PRJ_MAX1, 0, 31};
    if (!TMPA) { TMPA = aligned_alloc(64, RESTORATION_TMPBUF_SIZE + 256); TMPB = aligned_alloc(64, RESTORATION_TMPBUF_SIZE + 256); }
    for (int bm = 0; bm < 4; bm++) {
        int bd = BDM[bm][0], hb = BDM[bm][1];
        for (int wi = 0; wi < 12; wi++)
            for (int hi_ = 0; hi_ < 10; hi_++) {
                int w = SGW[wi], h = SGH[hi_];
                if (!r->thorough && ((wi * 3 + hi_) % 4) != 1 && !(w == 64 && h == 64) && !(w <= 4 && h <= 4)) continue;
                for (int pi = 0; pi < 8; pi++) {
                    if (r->stop) return;
                    const uint8_t *dgd = NULL;
                    for (int ep = 0; ep < SGRPROJ_PARAMS; ep++)
                        for (int xa = 0; xa < 4; xa++)
                            for (int xb = 0; xb < 4; xb++) {
                                if (!r->thorough && (xa * 4 + xb + ep + pi) % 4 != 0) continue;
                                if (r->stop) return;
                                if (case_skip_fast(r)) continue;
                                if (!dgd) dgd = fill_dgd(w, h, SGPAT[pi], bd, hb);
                                if (!case_begin(r, pi > 2)) continue;
                                int32_t xqd[2] = {XQ0[xa], XQ1[xb]};
                                int     dst_st = 96, wa = (w + 15) & ~15;
                                size_t  n = 64 + (size_t)h * dst_st + 64;
                                long    d = -1;
                                for (int side = 0; side <= k->nv; side++) {
                                    int vi = side - 1;
                                    if (side && !var_on(r, vi)) continue;
                                    void *f = side ? k->v[vi].fn : k->c;
                                    if (hb) {
                                        uint16_t *O = side ? OB16 : OA16;
                                        kc_junk(O, n * 2, 75);
                                        ((apply_sgr_fn)f)(dgd, w, h, SRC_ST, ep, xqd, CONVERT_TO_BYTEPTR_(O + 64), dst_st, side ? TMPB : TMPA, bd, hb);
                                    } else {
                                        uint8_t *O = side ? OB8 : OA8;
                                        kc_junk(O, n, 75);
                                        ((apply_sgr_fn)f)(dgd, w, h, SRC_ST, ep, xqd, O + 64, dst_st, side ? TMPB : TMPA, bd, hb);
                                    }
                                    if (!side) {
                                        VERBOSE(r, "case %lld: %dx%d bd=%d highbd=%d pattern=%s eps=%d xqd={%d,%d}", r->case_idx - 1, w, h, bd, hb,
                                                kc_pat_name(SGPAT[pi], 0, (1L << bd) - 1, nb), ep, xqd[0], xqd[1]);
                                        continue;
                                    }
                                    d = -1;
                                    for (size_t i = 0; i < n && d < 0; i++) {
                                        long o = (long)i - 64, y = o >= 0 ? o / dst_st : -1, x = o >= 0 ? o % dst_st : 0;
                                        if (o >= 0 && y < h && x >= w && x < wa) continue; // scratch columns
                                        if (hb ? OA16[i] != OB16[i] : OA8[i] != OB8[i]) d = (long)i;
                                    }
                                    if (d >= 0)
                                        MISMATCH(r, vi, "unit %dx%d bit_depth=%d highbd=%d picture pattern '%s' (incl. 3-sample border) eps=%d (r0=%d r1=%d) xqd={%d,%d} dst_stride=%d: first difference at dst row %ld col %ld: c=%d simd=%d",
                                                 w, h, bd, hb, kc_pat_name(SGPAT[pi], 0, (1L << bd) - 1, nb), ep, eb_sgr_params[ep].r[0], eb_sgr_params[ep].r[1], xqd[0], xqd[1], dst_st,
                                                 (d - 64) / dst_st, (d - 64) % dst_st, hb ? OA16[d] : OA8[d], hb ? OB16[d] : OB8[d]);
                                }
                            }
                }
            }
    }
}

// svt_av1_lowbd_pixel_proj_error / svt_av1_highbd_pixel_proj_error / svt_get_proj_subspace.  Callers: get_pixel_proj_error and
// search_selfguided_restoration (Encoder/Codec/EbRestorationPick.c:316-351, 600-640): src = source picture unit, dat = deblocked picture unit,
// flt0/flt1 = outputs of svt_av1_selfguided_restoration on dat (manufactured here with the C kernel), flt_stride = ((width + 7) & ~7) + 8,
// xq = svt_decode_xq(xqd) with xqd in the coded ranges, params = &eb_sgr_params[ep]; the encoder is 8/10-bit.
// k->a: 0 lowbd error, 1 highbd error, 2 get_proj_subspace (both depths)
void drv_sgr_proj(Run *r) {
    const Kern *k = r->k;
    int         mode = k->a;
    char        nb[32], nb2[32];
    static const int PW[6] = {8, 16, 24, 40, 64, 96};
    static const int PH[5] = {8, 16, 33, 64, 96};
    static const int XQ0[3] = {SGRPROJ_PRJ_MIN0, SGRPROJ_PRJ_MAX0, -32};
    static const int XQ1[3] = {SGRPROJ_PRJ_MIN1, SGRPROJ_PRJ_MAX1, 31};
    const Kern *sg = kc_find_kern("svt_av1_selfguided_restoration");
    if (!sg) return;
    for (int bm = (mode == 1 ? 1 : 0); bm < (mode == 0 ? 1 : 3); bm++) { // lowbd: (8,0); highbd: (8,1),(10,1)
        int  bd = BDM[bm][0], hb = BDM[bm][1];
        long hi = (1L << bd) - 1;
        for (int wi = 0; wi < 6; wi++)
            for (int hi_ = 0; hi_ < 5; hi_++) {
                int w = PW[wi], h = PH[hi_], fst = ((w + 7) & ~7) + 8;
                if (!r->thorough && (wi + hi_) % 2) continue;
                for (int pd = 0; pd < 8; pd++)
                    for (int ps = 0; ps < 8; ps++)
                        for (int ep = 0; ep < SGRPROJ_PARAMS; ep++) {
                            if (r->stop) return;
                            if (!r->thorough && (pd + ps + ep) % 4) continue;
                            int ready = 0;
                            for (int xa = 0; xa < (mode == 2 ? 1 : 3); xa++)
                                for (int xb = 0; xb < (mode == 2 ? 1 : 3); xb++) {
                                    if (r->stop) return;
                                    if (case_skip_fast(r)) continue;
                                    const uint8_t *dgd, *src;
                                    if (!ready) {
                                        ready = 1;
                                        dgd = fill_dgd(w, h, SGPAT[pd], bd, hb);
                                        if (hb) kc_fill_u16(SR16 + 64, w, h, SRC_ST, SGPAT[ps], 0, hi); else kc_fill_u8(SR8 + 64, w, h, SRC_ST, SGPAT[ps], 0, 255);
                                        // the unit is filtered in 64x64 processing units, as apply_sgr() does
                                        for (int y = 0; y < h; y += 64)
                                            for (int x = 0; x < w; x += 64) {
                                                const uint8_t *p = hb ? CONVERT_TO_BYTEPTR_(DG16 + 64 + (8 + y) * SRC_ST + 8 + x) : DG8 + 64 + (8 + y) * SRC_ST + 8 + x;
                                                ((sgr_fn)sg->c)(p, w - x < 64 ? w - x : 64, h - y < 64 ? h - y : 64, SRC_ST, F0a + 64 + y * fst + x, F1a + 64 + y * fst + x, fst, ep, bd, hb);
                                            }
                                    }
                                    dgd = hb ? CONVERT_TO_BYTEPTR_(DG16 + 64 + 8 * SRC_ST + 8) : DG8 + 64 + 8 * SRC_ST + 8;
                                    src = hb ? CONVERT_TO_BYTEPTR_(SR16 + 64) : SR8 + 64;
                                    if (!case_begin(r, pd > 2 || ps > 2)) continue;
                                    const SgrParamsType *prm = &eb_sgr_params[ep];
                                    int32_t              xqd[2] = {XQ0[xa], XQ1[xb]}, xq[2];
                                    svt_decode_xq(xqd, xq, prm);
                                    if (mode == 2) {
                                        int cq[2] = {0x5A5A, 0x5A5A};
                                        ((proj_sub_fn)k->c)(src, w, h, SRC_ST, dgd, SRC_ST, hb, F0a + 64, fst, F1a + 64, fst, cq, prm);
                                        VERBOSE(r, "case %lld: %dx%d bd=%d highbd=%d dat=%s src=%s ep=%d -> c xq={%d,%d}", r->case_idx - 1, w, h, bd, hb,
                                                kc_pat_name(SGPAT[pd], 0, hi, nb), kc_pat_name(SGPAT[ps], 0, hi, nb2), ep, cq[0], cq[1]);
                                        for (int vi = 0; vi < k->nv; vi++) {
                                            if (!var_on(r, vi)) continue;
                                            int vq[2] = {0x5A5A, 0x5A5A};
                                            ((proj_sub_fn)k->v[vi].fn)(src, w, h, SRC_ST, dgd, SRC_ST, hb, F0a + 64, fst, F1a + 64, fst, vq, prm);
                                            if (vq[0] != cq[0] || vq[1] != cq[1])
                                                MISMATCH(r, vi, "unit %dx%d bit_depth=%d highbd=%d deblocked pattern '%s' source pattern '%s' ep=%d (r0=%d r1=%d), flt0/flt1 = svt_av1_selfguided_restoration_c(deblocked): c xq={%d,%d}, simd xq={%d,%d}",
                                                         w, h, bd, hb, kc_pat_name(SGPAT[pd], 0, hi, nb), kc_pat_name(SGPAT[ps], 0, hi, nb2), ep, prm->r[0], prm->r[1], cq[0], cq[1], vq[0],
                                                         vq[1]);
                                        }
                                        continue;
                                    }
                                    int64_t c = ((proj_err_fn)k->c)(src, w, h, SRC_ST, dgd, SRC_ST, F0a + 64, fst, F1a + 64, fst, xq, prm);
                                    VERBOSE(r, "case %lld: %dx%d bd=%d dat=%s src=%s ep=%d xq={%d,%d} -> c %lld", r->case_idx - 1, w, h, bd, kc_pat_name(SGPAT[pd], 0, hi, nb),
                                            kc_pat_name(SGPAT[ps], 0, hi, nb2), ep, xq[0], xq[1], (long long)c);
                                    for (int vi = 0; vi < k->nv; vi++) {
                                        if (!var_on(r, vi)) continue;
                                        int64_t v = ((proj_err_fn)k->v[vi].fn)(src, w, h, SRC_ST, dgd, SRC_ST, F0a + 64, fst, F1a + 64, fst, xq, prm);
                                        if (v != c)
                                            MISMATCH(r, vi, "unit %dx%d bit_depth=%d deblocked pattern '%s' source pattern '%s' ep=%d (r0=%d r1=%d) xq={%d,%d} (xqd={%d,%d}), flt0/flt1 = svt_av1_selfguided_restoration_c(deblocked), flt_stride=%d: c returns %lld, simd returns %lld",
                                                     w, h, bd, kc_pat_name(SGPAT[pd], 0, hi, nb), kc_pat_name(SGPAT[ps], 0, hi, nb2), ep, prm->r[0], prm->r[1], xq[0], xq[1], xqd[0], xqd[1], fst,
                                                     (long long)c, (long long)v);
                                    }
                                }
                        }
            }
    }
}

// ------------------------------------------------------------------------------------------------ Wiener statistics
typedef void (*stats_fn)(int32_t wiener_win, const uint8_t *dgd, const uint8_t *src, int32_t h_start, int32_t h_end, int32_t v_start, int32_t v_end,
                         int32_t dgd_stride, int32_t src_stride, int64_t *M, int64_t *H);
typedef void (*stats_hbd_fn)(int32_t wiener_win, const uint8_t *dgd, const uint8_t *src, int32_t h_start, int32_t h_end, int32_t v_start, int32_t v_end,
                             int32_t dgd_stride, int32_t src_stride, int64_t *M, int64_t *H, AomBitDepth bit_depth);
static int64_t MA[64] ALIGN64, HA[49 * 49 + 16] ALIGN64, MB[64] ALIGN64, HB[49 * 49 + 16] ALIGN64;

// Callers: search_wiener_seg / search_wiener_finish (Encoder/Codec/EbRestorationPick.c:1355-1386, 1432-...): wiener_win = 3 (wn_filter_mode 1), 7 (luma) or 5
// (chroma); [h_start,h_end) x [v_start,v_end) = limits of a restoration unit inside the deblocked / source pictures (multiples of 4 because the
// encoder pads pictures to multiples of 8), at least wiener_win/2 valid samples around it in dgd; 8-bit kernel for 8-bit pictures, highbd kernel
// for 10-bit (the encoder has no 12-bit mode).  k->a: 1 = highbd
void drv_compute_stats(Run *r) {
    const Kern *k = r->k;
    int         hbd = k->a, bd = hbd ? 10 : 8;
    long        hi = (1L << bd) - 1;
    static const int CW[9] = {4, 8, 12, 16, 20, 32, 36, 64, 100};
    static const int CH[6] = {4, 8, 12, 16, 28, 64};
    static const int WIN[3] = {3, 5, 7};
    char        nb[32], nb2[32];
    for (int wn = 0; wn < 3; wn++)
        for (int wi = 0; wi < 9; wi++)
            for (int hi_ = 0; hi_ < 6; hi_++) {
                int w = CW[wi], h = CH[hi_], win = WIN[wn], win2 = win * win;
                if (!r->thorough && (wi + hi_ + wn) % 3) continue;
                for (int pd = 0; pd < 8; pd++)
                    for (int ps = 0; ps < 8; ps++) {
                        if (r->stop) return;
                        if (!r->thorough && (pd * 3 + ps) % 4 && !(pd == 7 && ps == 7)) continue;
                        if (case_skip_fast(r)) continue;
                        const uint8_t *dgd = fill_dgd(w, h, SGPAT[pd], bd, hbd), *src;
                        // pass picture base pointers + limits, as the callers do: the unit starts at (8, 8) of both pictures
                        if (hbd) { kc_fill_u16(SR16 + 64 + 8 * SRC_ST + 8, w, h, SRC_ST, SGPAT[ps], 0, hi); src = CONVERT_TO_BYTEPTR_(SR16 + 64); dgd = CONVERT_TO_BYTEPTR_(DG16 + 64); }
                        else { kc_fill_u8(SR8 + 64 + 8 * SRC_ST + 8, w, h, SRC_ST, SGPAT[ps], 0, 255); src = SR8 + 64; dgd = DG8 + 64; }
                        if (!case_begin(r, pd > 2 || ps > 2)) continue;
                        kc_junk(MA, sizeof MA, 81); kc_junk(HA, sizeof HA, 82);
                        if (hbd) ((stats_hbd_fn)k->c)(win, dgd, src, 8, 8 + w, 8, 8 + h, SRC_ST, SRC_ST, MA, HA, (AomBitDepth)bd);
                        else ((stats_fn)k->c)(win, dgd, src, 8, 8 + w, 8, 8 + h, SRC_ST, SRC_ST, MA, HA);
                        VERBOSE(r, "case %lld: win=%d unit %dx%d bd=%d dgd=%s src=%s -> c M[0]=%lld H[0]=%lld", r->case_idx - 1, win, w, h, bd, kc_pat_name(SGPAT[pd], 0, hi, nb),
                                kc_pat_name(SGPAT[ps], 0, hi, nb2), (long long)MA[0], (long long)HA[0]);
                        for (int vi = 0; vi < k->nv; vi++) {
                            if (!var_on(r, vi)) continue;
                            kc_junk(MB, sizeof MB, 81); kc_junk(HB, sizeof HB, 82);
                            if (hbd) ((stats_hbd_fn)k->v[vi].fn)(win, dgd, src, 8, 8 + w, 8, 8 + h, SRC_ST, SRC_ST, MB, HB, (AomBitDepth)bd);
                            else ((stats_fn)k->v[vi].fn)(win, dgd, src, 8, 8 + w, 8, 8 + h, SRC_ST, SRC_ST, MB, HB);
                            // M[0..win2) and H[0..win2*win2) are the outputs; the AVX2 kernel may use the rest of the 49 / 2401 element arrays
                            long dm = kc_diff(MA, MB, (size_t)win2 * 8), dh = kc_diff(HA, HB, (size_t)win2 * win2 * 8);
                            if (dm >= 0 || dh >= 0)
                                MISMATCH(r, vi, "wiener_win=%d unit %dx%d at (8,8) bit depth %d deblocked pattern '%s' (with border) source pattern '%s': first difference %s[%ld]: c=%lld simd=%lld",
                                         win, w, h, bd, kc_pat_name(SGPAT[pd], 0, hi, nb), kc_pat_name(SGPAT[ps], 0, hi, nb2), dm >= 0 ? "M" : "H", (dm >= 0 ? dm : dh) / 8,
                                         (long long)(dm >= 0 ? MA[dm / 8] : HA[dh / 8]), (long long)(dm >= 0 ? MB[dm / 8] : HB[dh / 8]));
                        }
                    }
            }
}
