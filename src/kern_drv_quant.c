// C07 drivers, group quant (part 1): quantizers, coefficient helpers (txb levels, nz-map contexts, satd, block error, sum of
// squares) and the 64-point transform repack helpers.
//
// Common input domain ("transform coefficients of a transform block"), used by most drivers of this file:
//   * tx_size: all 19 AV1 transform sizes; tx_type: every type the bitstream syntax can select for the size (tx_type_valid);
//   * bit depth: the encoder supports 8 and 10 bit only (EbInitialRateControlProcess.c:359-385 builds quants_8bit and, for
//     encoder_bit_depth == 10, quants_bd);  low-bit-depth kernels are reached only with bit_depth == EB_8BIT
//     (EbFullLoop.c:1528/1548: "(bit_depth > EB_8BIT) || (is_encode_pass && is_16bit_pipeline)" selects the highbd kernels, which
//     therefore see bd 8 and bd 10 data);
//   * coefficients: (kind 0) the C forward transform svt_av1_fwd_txfm2d_WxH_c of every residual pattern of the alphabet
//     (residual range +-(2^bd - 1)), for 64-point sizes followed by the C repack svt_handle_transformWxH_c exactly as
//     av1_estimate_transform_default does (EbTransforms.c:3445-3568);  (kind 1) direct coefficient patterns over +-E with
//     E = (2^bd - 1) << 7 (= 32640 for bd 8: the dynamic range the library documents for transform coefficients, see the comment
//     of svt_aom_satd_c in common_dsp_rtcd.c:45; it is the orthonormal-gain bound 255 * sqrt(W*H) * scale of the AV1 forward
//     transforms);  (kind 2, 3; quantizers only) ramps around the decision thresholds / quantization step boundaries of the
//     quantizer row in use;
//   * n_coeffs = av1_get_max_eob(tx_size) (EbFullLoop.c:1493): 16..1024, 1024 for 64x64/64x32/32x64, 512 for 64x16/16x64;
//   * coefficient buffers are 64-byte aligned: EbPictureBufferDesc planes are allocated with EB_CALLOC_ALIGNED_ARRAY (ALVALUE 64,
//     EbPictureBufferDesc.c:94) and the per-block offsets (txb_1d_offset, coded_area_sb, coded_area_sb_uv) are sums of transform
//     areas, i.e. multiples of 16 coefficients = 64 bytes (EbFullLoop.c:1677-1684, EbCodingLoop.c:396-402); the TPL caller uses
//     DECLARE_ALIGNED(32) arrays (EbRateControlProcess.c:360-363).
#include "EbDefinitions.h"
#include "EbCoefficients.h"
#include "EbInvTransforms.h"
#include "EbCabacContextModel.h"
#include "EbCommonUtils.h"
#include "EbFullLoop.h"
#include "EbPictureControlSet.h"
#include "kern_core.h"

#define ALIGN64 __attribute__((aligned(64)))

const Kern *kc_find_kern(const char *ptr);

static const char *TXN[TX_TYPES] = {"DCT_DCT", "ADST_DCT", "DCT_ADST", "ADST_ADST", "FLIPADST_DCT", "DCT_FLIPADST", "FLIPADST_FLIPADST",
                                    "ADST_FLIPADST", "FLIPADST_ADST", "IDTX", "V_DCT", "H_DCT", "V_ADST", "H_ADST", "V_FLIPADST", "H_FLIPADST"};

// a transform type is in the domain when the bitstream syntax can select it for the size (inter or intra set)
static int tx_type_valid(int tx_size, int tx_type) {
    return av1_ext_tx_used[get_ext_tx_set_type((TxSize)tx_size, 1, 0)][tx_type] || av1_ext_tx_used[get_ext_tx_set_type((TxSize)tx_size, 0, 0)][tx_type];
}

// ------------------------------------------------------------------------------------------------ quantizer tables
// The library's own tables: svt_av1_build_quantizer (EbModeDecisionConfigurationProcess.c:205) called the way
// initial_rate_control_kernel does for picture 0 with the default delta_q = 0 (svt_av1_set_quantizer zeroes all deltas), luma
// rows.  Chroma rows are the same function of (qindex + delta) and add nothing with delta 0.  Rows are 8 x int16, 16-byte aligned.
void svt_av1_build_quantizer(AomBitDepth bit_depth, int32_t y_dc_delta_q, int32_t u_dc_delta_q, int32_t u_ac_delta_q, int32_t v_dc_delta_q,
                             int32_t v_ac_delta_q, Quants *const quants, Dequants *const deq);
static Quants   QT[2] ALIGN64;
static Dequants DQT[2] ALIGN64;
static int      qt_ready;
static void     tables_init(void) {
    if (qt_ready) return;
    svt_av1_build_quantizer(AOM_BITS_8, 0, 0, 0, 0, 0, &QT[0], &DQT[0]);
    svt_av1_build_quantizer(AOM_BITS_10, 0, 0, 0, 0, 0, &QT[1], &DQT[1]);
    qt_ready = 1;
}
// qindex alphabet: quick = both ends, the q == 0 special case (qrounding_factor 64, qzbin_factor 64), and a spread over the range
// (the qzbin_factor switches 84 -> 80 at quant >= 148 (bd 8) / 592 (bd 10)); thorough = every qindex 0..255
static const int QIDX_Q[] = {0, 1, 8, 32, 64, 128, 192, 254, 255};
static int       QIDX_T[QINDEX_RANGE];
static int       qidx_list(Run *r, const int **l) {
    if (r->thorough) {
        for (int i = 0; i < QINDEX_RANGE; i++) QIDX_T[i] = i;
        *l = QIDX_T;
        return QINDEX_RANGE;
    }
    *l = QIDX_Q;
    return (int)(sizeof QIDX_Q / sizeof QIDX_Q[0]);
}

// ------------------------------------------------------------------------------------------------ coefficient sources
typedef void (*fwd_fn)(int16_t *input, int32_t *output, uint32_t stride, TxType tx_type, uint8_t bd);
typedef uint64_t (*handle_fn)(int32_t *output);

static int16_t RES16[64 * 64 + 128] ALIGN64;
static int32_t COEF[64 * 64 + 128] ALIGN64; // data at COEF + 64
// 64 junk entries before and after the n coefficients (deterministic per case; over-reads must not influence results)
static void coef_guard(int n) {
    kc_junk(COEF, 256, 21);
    kc_junk(COEF + 64 + n, 256, 22);
}

// direct coefficient patterns (kind 1): constants, alternating signs, ramps, texture, then the walking single values
static const int DIRPAT[9] = {PAT_LO, PAT_HI, PAT_CHECK, PAT_CHECK_INV, PAT_ALT_COL, PAT_ALT_ROW, PAT_ROWRAMP, PAT_COLRAMP, PAT_TEXTURE};
static long      coef_extreme(int bd) { return (long)((1 << bd) - 1) << 7; }
static int       n_direct(Run *r, int bd) { return 9 + kc_npat(r, -coef_extreme(bd), coef_extreme(bd)) - PAT_BASE_N; }
static int       direct_pat(int i) { return i < 9 ? DIRPAT[i] : PAT_WALK0 + (i - 9); }
// one residual pattern beyond the shared alphabet: "binary texture" = +-(2^bd - 1) with the sign taken from the texture pattern,
// the maximum-energy residual with a flat spectrum (every coefficient of the block is large)
#define PAT_BINTEX 1000
// and "mirrored period-8 binary texture": the same with column x replaced by min(x mod 8, 7 - x mod 8); every row is a period-8,
// mirror-symmetric +-max signal, so a DCT puts the (maximal) energy into the columns 0, 4, 8, 12, .. only
#define PAT_BINTEX8 1001
#define NXRES 2
// source index -> kind / pattern: [0, np) residual alphabet, then the NXRES extra residuals, then the nd direct coefficient patterns
static void src_of(int si, int np, int *kind, int *pat) {
    if (si < np) { *kind = 0; *pat = si; }
    else if (si < np + NXRES) { *kind = 0; *pat = PAT_BINTEX + (si - np); }
    else { *kind = 1; *pat = direct_pat(si - np - NXRES); }
}
static void fill_residual(int16_t *dst, int w, int h, int pat, long hi) {
    if (pat < PAT_BINTEX) { kc_fill_i16(dst, w, h, w, pat, -hi, hi); return; }
    for (int y = 0; y < h; y++)
        for (int x = 0; x < w; x++) {
            int xx = pat == PAT_BINTEX8 ? ((x & 7) < 4 ? (x & 7) : 7 - (x & 7)) : x;
            dst[y * w + x] = (int16_t)(kc_pat_value(PAT_TEXTURE, xx, y, w, h, 0, 1) ? hi : -hi);
        }
}
static const char *res_name(int pat, long hi, char *pn) {
    return pat == PAT_BINTEX ? "binary texture: +-max, sign = texture(x,y) in 0..1" :
           pat == PAT_BINTEX8 ? "mirrored period-8 binary texture: +-max, sign = texture(min(x%8,7-x%8),y) in 0..1" : kc_pat_name(pat, -hi, hi, pn);
}

// dimensions of the coefficient array the quantizer / entropy coder sees (64 -> 32)
static int cw(int ts) { return tx_size_wide[ts] > 32 ? 32 : tx_size_wide[ts]; }
static int ch(int ts) { return tx_size_high[ts] > 32 ? 32 : tx_size_high[ts]; }

// kind 0: C forward transform of residual pattern `pat` (+ C repack for 64-point sizes); returns 0 when the helper kernels are not
// in the table
static int coef_from_residual(int ts, int tt, int bd, int pat) {
    char nm[64];
    int  w = tx_size_wide[ts], h = tx_size_high[ts];
    long hi = (1 << bd) - 1;
    snprintf(nm, sizeof nm, "svt_av1_fwd_txfm2d_%dx%d", w, h);
    const Kern *fk = kc_find_kern(nm);
    if (!fk) return 0;
    fill_residual(RES16 + 64, w, h, pat, hi);
    ((fwd_fn)fk->c)(RES16 + 64, COEF + 64, (uint32_t)w, (TxType)tt, (uint8_t)bd);
    if (w == 64 || h == 64) {
        snprintf(nm, sizeof nm, "svt_handle_transform%dx%d", w, h);
        const Kern *hk = kc_find_kern(nm);
        if (!hk) return 0;
        ((handle_fn)hk->c)(COEF + 64);
    }
    coef_guard(av1_get_max_eob((TxSize)ts));
    return 1;
}
// kind 1: direct pattern over +-E on the cw x ch coefficient array
static void coef_direct(int ts, int bd, int pat) {
    long e = coef_extreme(bd);
    kc_fill_i32(COEF + 64, cw(ts), ch(ts), cw(ts), pat, -e, e);
    coef_guard(cw(ts) * ch(ts));
}
static const char *src_name(int kind, int pat, int bd, char *buf, size_t n) {
    char pn[32];
    long hi = (1 << bd) - 1, e = coef_extreme(bd);
    if (kind == 0) snprintf(buf, n, "svt_av1_fwd_txfm2d_c(residual pattern '%s', range +-%ld)", res_name(pat, hi, pn), hi);
    else if (kind == 1) snprintf(buf, n, "direct coefficient pattern '%s' over +-%ld", kc_pat_name(pat, -e, e, pn), e);
    else if (kind == 2) snprintf(buf, n, "threshold ramp: coeff[i] = ((i+q/5)&1 ? -1 : 1) * (T(dc|ac) + (i/2+q)%%5 - 2), T = zero-bin threshold of the row, q = qindex");
    else snprintf(buf, n, "step ramp: coeff[i] = ((i+q/3)&4 ? -1 : 1) * ((((1 + (7i+q)%%61) * dequant - round) >> log_scale) + (i+q)%%3 - 1), q = qindex");
    return buf;
}

// ------------------------------------------------------------------------------------------------ quantizers
// svt_aom_quantize_b / svt_aom_highbd_quantize_b: av1_quantize_b_facade_ii / svt_av1_highbd_quantize_b_facade (EbFullLoop.c:227-312)
// pass qm_ptr = iqm_ptr = NULL always: qparam.qmatrix comes from gqmatrix[NUM_QM_LEVELS - 1][0][txsize] (EbFullLoop.c:1419), which
// svt_av1_qm_init sets to NULL (EbModeDecisionConfigurationProcess.c:299-301); log_scale = av1_get_tx_scale_tab[txsize]
// (EbFullLoop.c:1497); rows: zbin/round/quant/quant_shift/dequant of one qindex (EbFullLoop.c:1430-1487).
// svt_av1_quantize_fp / _32x32 / _64x64: svt_av1_quantize_fp_facade (EbFullLoop.c:603-672) dispatches on log_scale 0/1/2 with
// round_fp / quant_fp rows; svt_av1_quantize_fp is also called by the TPL dispenser for 16x16 DCT_DCT coefficients of 8-bit
// residuals (EbRateControlProcess.c:94; svt_av1_wht_fwd_txfm is svt_av1_fwd_txfm2d_16x16 with DCT_DCT) - part of the enumeration.
// svt_av1_highbd_quantize_fp: svt_av1_highbd_quantize_fp_facade (EbFullLoop.c:674-711), log_scale passed as an argument.
typedef void (*qb_fn)(const TranLow *coeff_ptr, intptr_t n_coeffs, const int16_t *zbin_ptr, const int16_t *round_ptr, const int16_t *quant_ptr,
                      const int16_t *quant_shift_ptr, TranLow *qcoeff_ptr, TranLow *dqcoeff_ptr, const int16_t *dequant_ptr, uint16_t *eob_ptr,
                      const int16_t *scan, const int16_t *iscan, const QmVal *qm_ptr, const QmVal *iqm_ptr, const int32_t log_scale);
typedef void (*qfp_fn)(const TranLow *coeff_ptr, intptr_t n_coeffs, const int16_t *zbin_ptr, const int16_t *round_ptr, const int16_t *quant_ptr,
                       const int16_t *quant_shift_ptr, TranLow *qcoeff_ptr, TranLow *dqcoeff_ptr, const int16_t *dequant_ptr, uint16_t *eob_ptr,
                       const int16_t *scan, const int16_t *iscan);
typedef void (*qfph_fn)(const TranLow *coeff_ptr, intptr_t n_coeffs, const int16_t *zbin_ptr, const int16_t *round_ptr, const int16_t *quant_ptr,
                        const int16_t *quant_shift_ptr, TranLow *qcoeff_ptr, TranLow *dqcoeff_ptr, const int16_t *dequant_ptr, uint16_t *eob_ptr,
                        const int16_t *scan, const int16_t *iscan, int16_t log_scale);

#define QN (1024 + 128)
static int32_t QA[QN] ALIGN64, DA[QN] ALIGN64, QB[QN] ALIGN64, DB[QN] ALIGN64, QJ[QN] ALIGN64, DJ[QN] ALIGN64; // QJ/DJ: output poison

typedef struct {
    const int16_t *zbin, *round, *quant, *shift, *dequant, *round_fp, *quant_fp;
} QRow;
static QRow qrow(int bdi, int qi) {
    QRow q = {QT[bdi].y_zbin[qi], QT[bdi].y_round[qi], QT[bdi].y_quant[qi], QT[bdi].y_quant_shift[qi], DQT[bdi].y_dequant_qtx[qi],
              QT[bdi].y_round_fp[qi], QT[bdi].y_quant_fp[qi]};
    return q;
}

// mode 0: quantize_b family, 1: quantize_fp low bit depth (fixed log_scale), 2: highbd quantize_fp
static void quant_call(void *f, int mode, const QRow *q, int n, int ls, const ScanOrder *so, int32_t *qc, int32_t *dqc, uint16_t *eob) {
    if (mode == 0) ((qb_fn)f)(COEF + 64, n, q->zbin, q->round, q->quant, q->shift, qc, dqc, q->dequant, eob, so->scan, so->iscan, NULL, NULL, ls);
    else if (mode == 1) ((qfp_fn)f)(COEF + 64, n, q->zbin, q->round_fp, q->quant_fp, q->shift, qc, dqc, q->dequant, eob, so->scan, so->iscan);
    else ((qfph_fn)f)(COEF + 64, n, q->zbin, q->round_fp, q->quant_fp, q->shift, qc, dqc, q->dequant, eob, so->scan, so->iscan, (int16_t)ls);
}

// kinds 2 / 3: ramps that depend on the quantizer row (zero-bin thresholds, step boundaries); ph (= qindex) shifts the phase so that
// the single DC position sees every offset / sign over the qindex alphabet
static void coef_ramp(int kind, int mode, const QRow *q, int n, int ls, int bd, int ph) {
    long e = coef_extreme(bd);
    coef_guard(n);
    for (int i = 0; i < n; i++) {
        int  ac = i != 0;
        long v;
        if (kind == 2) {
            long t = mode == 0 ? ((q->zbin[ac] + ((1 << ls) >> 1)) >> ls) : ((q->dequant[ac] + (1 << (1 + ls)) - 1) >> (1 + ls));
            v      = t + (i / 2 + ph) % 5 - 2;
            if (v < 0) v = 0;
            if ((i + ph / 5) & 1) v = -v;
        } else {
            long rnd = mode == 0 ? q->round[ac] : q->round_fp[ac];
            long m   = 1 + (7L * i + ph) % 61;
            v        = ((m * q->dequant[ac] - rnd) >> ls) + (i + ph) % 3 - 1;
            if (v < 0) v = 0;
            if ((i + ph / 3) & 4) v = -v;
        }
        COEF[64 + i] = (int32_t)(v > e ? e : v < -e ? -e : v);
    }
}

static void quant_driver(Run *r, int mode, int fixed_ls, int hbd) {
    const Kern *k = r->k;
    const int  *ql;
    int         nq = qidx_list(r, &ql);
    char        sn[200];
    tables_init();
    kc_junk(QJ, sizeof QJ, 31);
    kc_junk(DJ, sizeof DJ, 32);
    for (int bdi = 0; bdi < (hbd ? 2 : 1); bdi++) {
        int  bd = bdi ? 10 : 8;
        long rhi = (1 << bd) - 1;
        int  np = kc_npat(r, -rhi, rhi), nd = n_direct(r, bd);
        for (int ts = 0; ts < TX_SIZES_ALL; ts++) {
            int ls = av1_get_tx_scale_tab[ts], n = av1_get_max_eob((TxSize)ts);
            if (fixed_ls >= 0 && ls != fixed_ls) continue; // svt_av1_quantize_fp_facade: one kernel per log_scale
            for (int tt = 0; tt < TX_TYPES; tt++) {
                if (!tx_type_valid(ts, tt)) continue;
                const ScanOrder *so = &av1_scan_orders[ts][tt];
                for (int si = 0; si < np + NXRES + nd + 2; si++) {
                    int kind, pat = 0, ready = 0;
                    if (si < np + NXRES + nd) src_of(si, np, &kind, &pat);
                    else kind = si - (np + NXRES + nd) + 2;
                    for (int qx = 0; qx < nq; qx++) {
                        if (r->stop) return;
                        if (case_skip_fast(r)) continue;
                        int  qi = ql[qx];
                        QRow q = qrow(bdi, qi);
                        if (kind >= 2) coef_ramp(kind, mode, &q, n, ls, bd, qi);
                        else if (!ready) {
                            if (kind == 0) { if (!coef_from_residual(ts, tt, bd, pat)) { r->case_idx++; continue; } }
                            else coef_direct(ts, bd, pat);
                            ready = 1;
                        }
                        if (!case_begin(r, kind == 0 ? kc_pat_nontrivial(pat) : kind == 1 ? kc_pat_nontrivial(pat) : 1)) continue;
                        size_t   tot = (size_t)n + 128;
                        uint16_t c_eob = 0xA5A5;
                        memcpy(QA, QJ, tot * 4);
                        memcpy(DA, DJ, tot * 4);
                        quant_call(k->c, mode, &q, n, ls, so, QA + 64, DA + 64, &c_eob);
                        char row[160];
                        if (mode == 0)
                            snprintf(row, sizeof row, "zbin{%d,%d} round{%d,%d} quant{%d,%d} quant_shift{%d,%d} dequant{%d,%d}", q.zbin[0], q.zbin[1], q.round[0], q.round[1],
                                     q.quant[0], q.quant[1], q.shift[0], q.shift[1], q.dequant[0], q.dequant[1]);
                        else
                            snprintf(row, sizeof row, "round_fp{%d,%d} quant_fp{%d,%d} dequant{%d,%d}", q.round_fp[0], q.round_fp[1], q.quant_fp[0], q.quant_fp[1], q.dequant[0],
                                     q.dequant[1]);
                        VERBOSE(r, "case %lld: tx %dx%d %s bd=%d qindex=%d log_scale=%d n_coeffs=%d coefficients = %s; luma row (dc,ac) %s -> c eob=%u q[0..3]=%d %d %d %d dq[0..3]=%d %d %d %d",
                                r->case_idx - 1, tx_size_wide[ts], tx_size_high[ts], TXN[tt], bd, qi, ls, n, src_name(kind, pat, bd, sn, sizeof sn), row, c_eob, QA[64], QA[65],
                                QA[66], QA[67], DA[64], DA[65], DA[66], DA[67]);
                        for (int vi = 0; vi < k->nv; vi++) {
                            if (!var_on(r, vi)) continue;
                            uint16_t v_eob = 0xA5A5;
                            memcpy(QB, QJ, tot * 4);
                            memcpy(DB, DJ, tot * 4);
                            quant_call(k->v[vi].fn, mode, &q, n, ls, so, QB + 64, DB + 64, &v_eob);
                            long dq_ = kc_diff(QA, QB, tot * 4), dd = kc_diff(DA, DB, tot * 4);
                            if (dq_ < 0 && dd < 0 && c_eob == v_eob) continue;
                            long at = dq_ >= 0 ? dq_ / 4 : dd >= 0 ? dd / 4 : 64;
                            if (dq_ >= 0 && dd >= 0 && dd / 4 < at) at = dd / 4;
                            long idx = at - 64;
                            int  inb = idx >= 0 && idx < n;
                            MISMATCH(r, vi, "tx %dx%d %s bd=%d qindex=%d log_scale=%d n_coeffs=%d, coefficients = %s; luma row (dc,ac) %s: eob c=%u simd=%u; first difference at raster index %ld%s (scan position %d): coeff=%d c qcoeff=%d dqcoeff=%d, simd qcoeff=%d dqcoeff=%d",
                                     tx_size_wide[ts], tx_size_high[ts], TXN[tt], bd, qi, ls, n, src_name(kind, pat, bd, sn, sizeof sn), row, c_eob, v_eob, idx,
                                     inb ? "" : " (OUTSIDE the n_coeffs area)", inb ? so->iscan[idx] : -1, inb ? COEF[64 + idx] : 0, QA[at], DA[at], QB[at], DB[at]);
                        }
                    }
                }
            }
        }
    }
}
// k->a: 0 low bit depth (bd 8), 1 high bit depth (bd 8, 10)
void drv_quant_b(Run *r) { quant_driver(r, 0, -1, r->k->a); }
// k->a: 0/1/2 = low bit depth kernel for that log_scale, 3 = highbd kernel (log_scale argument)
void drv_quant_fp(Run *r) {
    if (r->k->a == 3) quant_driver(r, 2, -1, 1);
    else quant_driver(r, 1, r->k->a, 0);
}

// ------------------------------------------------------------------------------------------------ satd
// svt_aom_satd(coeff, n_coeffs): EbFullLoop.c:1513 (every tx size, n_coeffs = av1_get_max_eob; 8-bit coefficients, 10-bit ones in
// hbd mode decision), EbMotionEstimation.c:3138 and EbRateControlProcess.c:566/642 (16x16 DCT_DCT of 8-bit residuals, length 256).
typedef int (*satd_fn)(const TranLow *coeff, int length);
void drv_coef_satd(Run *r) {
    const Kern *k = r->k;
    char        sn[200];
    for (int bdi = 0; bdi < 2; bdi++) {
        int  bd = bdi ? 10 : 8;
        long rhi = (1 << bd) - 1;
        int  np = kc_npat(r, -rhi, rhi), nd = n_direct(r, bd);
        for (int ts = 0; ts < TX_SIZES_ALL; ts++) {
            int n = av1_get_max_eob((TxSize)ts);
            for (int tt = 0; tt < TX_TYPES; tt++) {
                if (!tx_type_valid(ts, tt)) continue;
                for (int si = 0; si < np + NXRES + nd; si++) {
                    int kind, pat;
                    src_of(si, np, &kind, &pat);
                    if (r->stop) return;
                    if (kind == 1 && tt != DCT_DCT) continue; // direct patterns do not depend on the type
                    if (case_skip_fast(r)) continue;
                    if (kind == 0) { if (!coef_from_residual(ts, tt, bd, pat)) { r->case_idx++; continue; } }
                    else coef_direct(ts, bd, pat);
                    if (!case_begin(r, kc_pat_nontrivial(pat))) continue;
                    int c_ret = ((satd_fn)k->c)(COEF + 64, n);
                    VERBOSE(r, "case %lld: tx %dx%d %s bd=%d length=%d coefficients = %s -> c satd=%d", r->case_idx - 1, tx_size_wide[ts], tx_size_high[ts],
                            TXN[tt], bd, n, src_name(kind, pat, bd, sn, sizeof sn), c_ret);
                    for (int vi = 0; vi < k->nv; vi++) {
                        if (!var_on(r, vi)) continue;
                        int v_ret = ((satd_fn)k->v[vi].fn)(COEF + 64, n);
                        if (v_ret != c_ret)
                            MISMATCH(r, vi, "length=%d (tx %dx%d %s, bd=%d), coefficients = %s: c returns %d, simd returns %d", n, tx_size_wide[ts],
                                     tx_size_high[ts], TXN[tt], bd, src_name(kind, pat, bd, sn, sizeof sn), c_ret, v_ret);
                    }
                }
            }
        }
    }
}

// ------------------------------------------------------------------------------------------------ block error
// svt_av1_block_error(coeff, dqcoeff, block_size, &ssz): the only caller is get_quantize_error of the TPL dispenser
// (EbRateControlProcess.c:107): block_size = 256 (tx_size is the constant TX_16X16, EbRateControlProcess.c:350), coeff = 16x16
// DCT_DCT coefficients of 8-bit residuals, dqcoeff = the dqcoeff output of svt_av1_quantize_fp for the same coeff with an 8-bit luma
// row.  The driver enumerates that domain first (tx 16x16, all its transform types) and then the same construction for every
// other transform size with the fp quantizer of the size's log_scale (block_size 16..1024; not passed by a current caller, the
// case description says so).
typedef int64_t (*berr_fn)(const TranLow *coeff, const TranLow *dqcoeff, intptr_t block_size, int64_t *ssz);
void drv_coef_block_error(Run *r) {
    const Kern *k = r->k;
    const int  *ql;
    int         nq = qidx_list(r, &ql), bd = 8;
    long        rhi = 255;
    int         np = kc_npat(r, -rhi, rhi), nd = n_direct(r, bd);
    char        sn[200];
    static const char *FPN[3] = {"svt_av1_quantize_fp", "svt_av1_quantize_fp_32x32", "svt_av1_quantize_fp_64x64"};
    tables_init();
    for (int pass = 0; pass < 2; pass++)
        for (int ts = 0; ts < TX_SIZES_ALL; ts++) {
            if ((pass == 0) != (ts == TX_16X16)) continue;
            int         ls = av1_get_tx_scale_tab[ts], n = av1_get_max_eob((TxSize)ts);
            const Kern *fk = kc_find_kern(FPN[ls]);
            if (!fk) continue;
            for (int tt = 0; tt < TX_TYPES; tt++) {
                if (!tx_type_valid(ts, tt)) continue;
                const ScanOrder *so = &av1_scan_orders[ts][tt];
                for (int si = 0; si < np + NXRES + nd; si++) {
                    int kind, pat, ready = 0;
                    src_of(si, np, &kind, &pat);
                    if (kind == 1 && tt != DCT_DCT) continue;
                    for (int qx = 0; qx < nq; qx++) {
                        if (r->stop) return;
                        if (case_skip_fast(r)) continue;
                        if (!ready) {
                            if (kind == 0) { if (!coef_from_residual(ts, tt, bd, pat)) { r->case_idx++; continue; } }
                            else coef_direct(ts, bd, pat);
                            ready = 1;
                        }
                        QRow     q = qrow(0, ql[qx]);
                        uint16_t eob = 0;
                        quant_call(fk->c, 1, &q, n, ls, so, QA + 64, DA + 64, &eob);
                        if (!case_begin(r, kc_pat_nontrivial(pat))) continue;
                        int64_t c_ssz = 0x5A5A5A5A5A5A5A5ALL, c_ret = ((berr_fn)k->c)(COEF + 64, DA + 64, n, &c_ssz);
                        VERBOSE(r, "case %lld: block_size=%d (tx %dx%d %s%s) coeff = %s, dqcoeff = %s_c(coeff, 8-bit luma row of qindex %d) -> c error=%lld ssz=%lld",
                                r->case_idx - 1, n, tx_size_wide[ts], tx_size_high[ts], TXN[tt], pass ? ", size not passed by a current caller" : "",
                                src_name(kind, pat, bd, sn, sizeof sn), FPN[ls], ql[qx], (long long)c_ret, (long long)c_ssz);
                        for (int vi = 0; vi < k->nv; vi++) {
                            if (!var_on(r, vi)) continue;
                            int64_t v_ssz = 0x5A5A5A5A5A5A5A5ALL, v_ret = ((berr_fn)k->v[vi].fn)(COEF + 64, DA + 64, n, &v_ssz);
                            if (v_ret != c_ret || v_ssz != c_ssz)
                                MISMATCH(r, vi, "block_size=%d (tx %dx%d %s%s), coeff = %s, dqcoeff = %s_c(coeff, 8-bit luma row of qindex %d): c returns %lld (ssz %lld), simd returns %lld (ssz %lld)",
                                         n, tx_size_wide[ts], tx_size_high[ts], TXN[tt], pass ? ", size not passed by a current caller" : "",
                                         src_name(kind, pat, bd, sn, sizeof sn), FPN[ls], ql[qx], (long long)c_ret, (long long)c_ssz, (long long)v_ret,
                                         (long long)v_ssz);
                        }
                    }
                }
            }
        }
}

// ------------------------------------------------------------------------------------------------ sum of squares (int16)
// aom_sum_squares_i16(src, n): pick_wedge (EbEncInterPrediction.c:605): src = 32-byte aligned residual (src - pred, 8 or 10 bit
// pixels: +-255 / +-1023), n = bw * bh of the block sizes that have wedge masks (8x8 .. 32x32, n = 64 .. 1024, assert(N >= 64)).
typedef uint64_t (*ssq_fn)(const int16_t *src, uint32_t n);
void drv_sum_squares_i16(Run *r) {
    const Kern      *k = r->k;
    static const int WB[9][2] = {{8, 8}, {8, 16}, {16, 8}, {16, 16}, {16, 32}, {32, 16}, {32, 32}, {8, 32}, {32, 8}};
    char             pn[32];
    for (int bdi = 0; bdi < 2; bdi++) {
        long hi = bdi ? 1023 : 255;
        int  np = kc_npat(r, -hi, hi);
        for (int b = 0; b < 9; b++)
            for (int p = 0; p < np; p++) {
                int w = WB[b][0], h = WB[b][1];
                if (r->stop) return;
                if (case_skip_fast(r)) continue;
                kc_junk(RES16, sizeof RES16, 7);
                kc_fill_i16(RES16 + 64, w, h, w, p, -hi, hi);
                if (!case_begin(r, kc_pat_nontrivial(p))) continue;
                uint64_t c_ret = ((ssq_fn)k->c)(RES16 + 64, (uint32_t)(w * h));
                VERBOSE(r, "case %lld: n=%d (block %dx%d) residual pattern '%s' range +-%ld -> c %llu", r->case_idx - 1, w * h, w, h,
                        kc_pat_name(p, -hi, hi, pn), hi, (unsigned long long)c_ret);
                for (int vi = 0; vi < k->nv; vi++) {
                    if (!var_on(r, vi)) continue;
                    uint64_t v_ret = ((ssq_fn)k->v[vi].fn)(RES16 + 64, (uint32_t)(w * h));
                    if (v_ret != c_ret)
                        MISMATCH(r, vi, "n=%d (wedge block %dx%d), residual pattern '%s' over +-%ld: c returns %llu, simd returns %llu", w * h, w, h,
                                 kc_pat_name(p, -hi, hi, pn), hi, (unsigned long long)c_ret, (unsigned long long)v_ret);
                }
            }
    }
}

// ------------------------------------------------------------------------------------------------ txb_init_levels
// svt_av1_txb_init_levels(qcoeff, width, height, levels): svt_av1_cost_coeffs_txb (EbRateDistortionCost.c:450) and
// svt_av1_optimize_b (EbFullLoop.c:1245): width / height = get_txb_wide_tab / get_txb_high_tab[tx_size] (<= 32), levels =
// set_levels(levels_buf, width) inside an unaligned uint8_t levels_buf[TX_PAD_2D] on the stack (-> offsets 0 and 1), coeff = the
// quantized coefficients: |qcoeff| <= (1023 << 7) / 4 = 32736 (largest coefficient over the smallest dequant value 4).
// Ranges enumerated: +-1, +-3, +-127, +-128, +-255, +-32736 (the C code clamps at 127).
// Output comparison: the whole allocation, EXCEPT that in the last TX_PAD_END (16) bytes of the padded array the SIMD kernel may
// either write what C writes (zeros) or leave the bytes untouched: TX_PAD_END exists only to keep SIMD over-reads inside the
// buffer ("Pad 16 extra bytes to avoid reading overflow in SIMD optimization", EbDefinitions.h:243) and no consumer's result
// depends on it; svt_av1_txb_init_levels_avx2 does not clear it while the C code does (reported by the group author).
typedef void (*til_fn)(const TranLow *const coeff, const int32_t width, const int32_t height, uint8_t *const levels);
#define LVN (64 + 1 + TX_PAD_2D + 64)
static uint8_t LVA[LVN] ALIGN64, LVB[LVN] ALIGN64, LV0[LVN] ALIGN64;
void drv_txb_init_levels(Run *r) {
    const Kern       *k = r->k;
    static const long RNG_Q[] = {1, 3, 127, 128, 255, 32736}, RNG_T[] = {1, 2, 3, 4, 126, 127, 128, 129, 255, 256, 4095, 32736};
    const long       *rng = r->thorough ? RNG_T : RNG_Q;
    int               nr = r->thorough ? 12 : 6;
    char              pn[32];
    unsigned          seen = 0;
    kc_junk(LV0, LVN, 41);
    for (int ts = 0; ts < TX_SIZES_ALL; ts++) {
        int w = get_txb_wide_tab[ts], h = get_txb_high_tab[ts], key = (get_txb_bwl_tab[ts] - 2) * 4 + (h == 4 ? 0 : h == 8 ? 1 : h == 16 ? 2 : 3);
        if (seen & (1u << key)) continue; // 64-point sizes map to the 32-point arrays
        seen |= 1u << key;
        int stride = w + TX_PAD_HOR;
        for (int ri = 0; ri < nr; ri++) {
            long hi = rng[ri];
            int  np = kc_npat(r, -hi, hi);
            for (int p = 0; p < np; p++)
                for (int off = 0; off < 2; off++) {
                    if (r->stop) return;
                    if (case_skip_fast(r)) continue;
                    kc_fill_i32(COEF + 64, w, h, w, p, -hi, hi);
                    coef_guard(w * h);
                    if (!case_begin(r, kc_pat_nontrivial(p))) continue;
                    memcpy(LVA, LV0, LVN);
                    uint8_t *la = set_levels(LVA + 64 + off, w);
                    ((til_fn)k->c)(COEF + 64, w, h, la);
                    VERBOSE(r, "case %lld: width=%d height=%d levels offset=%d qcoeff pattern '%s' over +-%ld -> c levels[0..3] = %d %d %d %d", r->case_idx - 1, w, h,
                            off, kc_pat_name(p, -hi, hi, pn), hi, la[0], la[1], la[2], la[3]);
                    long tail0 = 64 + off + (long)(h + TX_PAD_VER) * stride, tail1 = tail0 + TX_PAD_END;
                    for (int vi = 0; vi < k->nv; vi++) {
                        if (!var_on(r, vi)) continue;
                        memcpy(LVB, LV0, LVN);
                        ((til_fn)k->v[vi].fn)(COEF + 64, w, h, set_levels(LVB + 64 + off, w));
                        long bad = -1, untouched = 0;
                        for (long i = 0; i < LVN && bad < 0; i++)
                            if (LVA[i] != LVB[i]) {
                                if (i >= tail0 && i < tail1 && LVB[i] == LV0[i]) untouched++;
                                else bad = i;
                            }
                        if (untouched) VERBOSE(r, "  note: %s left %ld of the %d TX_PAD_END bytes untouched (C zeroes them)", k->v[vi].name, untouched, TX_PAD_END);
                        if (bad >= 0) {
                            long rel = bad - (64 + off) - TX_PAD_TOP * stride; // relative to `levels`
                            MISMATCH(r, vi, "width=%d height=%d levels buffer offset %d (levels_buf of TX_PAD_2D bytes, levels = levels_buf + %d), qcoeff pattern '%s' over +-%ld: first difference at levels[%ld] (padded row %ld col %ld; the C code writes levels[%d .. %ld)): c=%d simd=%d (before the call: %d)",
                                     w, h, off, TX_PAD_TOP * stride, kc_pat_name(p, -hi, hi, pn), hi, rel, rel >= 0 ? rel / stride : -1, rel >= 0 ? rel % stride : -1,
                                     -TX_PAD_TOP * stride, (long)(h + TX_PAD_BOTTOM) * stride + TX_PAD_END, LVA[bad], LVB[bad], LV0[bad]);
                        }
                    }
                }
        }
    }
}

// ------------------------------------------------------------------------------------------------ get_nz_map_contexts
// svt_av1_get_nz_map_contexts(levels, scan, eob, tx_size, tx_class, coeff_contexts): svt_av1_cost_coeffs_txb
// (EbRateDistortionCost.c:475) and av1_write_coeffs_txb_1d (EbEntropyCoding.c:651): levels = output of svt_av1_txb_init_levels
// for the quantized coefficients of a block whose coefficients at scan positions >= eob are zero and whose coefficient at scan
// position eob - 1 is not, in an unaligned levels_buf (offsets 0, 1); scan = av1_scan_orders[tx_size][tx_type].scan; tx_class =
// tx_type_to_class[tx_type]; eob >= 1 ("don't call this function when eob is 0"); coeff_contexts 16-byte aligned
// (DECLARE_ALIGNED(16, int8_t, coeff_contexts[MAX_TX_SQUARE])).
// Output comparison: the C reference writes coeff_contexts[scan[i]] for i < eob only and callers read only those; the SSE2 kernel
// computes every position of the block.  Compared: every position scan[0 .. eob), and the guard bytes before / after the
// width * height block (must be untouched by both); positions of the block at scan index >= eob are not compared.
typedef void (*nzm_fn)(const uint8_t *const levels, const int16_t *const scan, const uint16_t eob, const TxSize tx_size, const TxClass tx_class,
                       int8_t *const coeff_contexts);
static int32_t QC0[1024] ALIGN64;
static int8_t  CCA[1024 + 128] ALIGN64, CCB[1024 + 128] ALIGN64, CCJ[1024 + 128] ALIGN64;
void drv_nz_map_ctx(Run *r) {
    const Kern       *k = r->k;
    static const long RNG_Q[] = {1, 2, 3, 127}, RNG_T[] = {1, 2, 3, 4, 5, 127, 32736};
    const long       *rng = r->thorough ? RNG_T : RNG_Q;
    int               nr = r->thorough ? 7 : 4;
    char              pn[32];
    const Kern       *tk = kc_find_kern("svt_av1_txb_init_levels");
    static const char *CLS[3] = {"TX_CLASS_2D", "TX_CLASS_HORIZ", "TX_CLASS_VERT"};
    kc_junk(LV0, LVN, 41);
    kc_junk(CCJ, sizeof CCJ, 43);
    for (int ts = 0; ts < TX_SIZES_ALL; ts++) {
        int w = get_txb_wide_tab[ts], h = get_txb_high_tab[ts], n = w * h, eobs[64], ne = 0;
        if (n <= 16 || (r->thorough && n <= 64)) for (int e = 1; e <= n; e++) eobs[ne++] = e;
        else {
            int cand[11] = {1, 2, 3, 4, n / 8, n / 8 + 1, n / 4, n / 4 + 1, n / 2, n - 1, n};
            for (int i = 0; i < 11; i++) eobs[ne++] = cand[i];
        }
        for (int tt = 0; tt < TX_TYPES; tt++) {
            if (!tx_type_valid(ts, tt)) continue;
            const int16_t *scan = av1_scan_orders[ts][tt].scan;
            int            cls = tx_type_to_class[tt];
            for (int ri = 0; ri < nr; ri++) {
                long hi = rng[ri];
                int  np = kc_npat(r, -hi, hi);
                for (int p = 0; p < np; p++) {
                    int ready = 0;
                    for (int ei = 0; ei < ne; ei++)
                        for (int off = 0; off < 2; off++) {
                            if (r->stop) return;
                            if (case_skip_fast(r)) continue;
                            int eob = eobs[ei];
                            if (!ready) { kc_fill_i32(QC0, w, h, w, p, -hi, hi); ready = 1; }
                            // quantized block consistent with eob: zero at scan positions >= eob, non-zero at eob - 1
                            memcpy(COEF + 64, QC0, (size_t)n * 4);
                            for (int i = eob; i < n; i++) COEF[64 + scan[i]] = 0;
                            if (!COEF[64 + scan[eob - 1]]) COEF[64 + scan[eob - 1]] = 1;
                            coef_guard(n);
                            memcpy(LVA, LV0, LVN);
                            uint8_t *lv = set_levels(LVA + 64 + off, w);
                            if (tk) ((til_fn)tk->c)(COEF + 64, w, h, lv);
                            else svt_av1_txb_init_levels_c(COEF + 64, w, h, lv);
                            if (!case_begin(r, kc_pat_nontrivial(p))) continue;
                            memcpy(CCA, CCJ, sizeof CCA);
                            ((nzm_fn)k->c)(lv, scan, (uint16_t)eob, (TxSize)ts, (TxClass)cls, CCA + 64);
                            VERBOSE(r, "case %lld: tx %dx%d %s (%s) eob=%d levels offset=%d levels = txb_init_levels_c(qcoeff pattern '%s' over +-%ld, zeroed from scan position eob, |q|=1 forced at eob-1) -> c ctx[scan[0..2]] = %d %d %d",
                                    r->case_idx - 1, tx_size_wide[ts], tx_size_high[ts], TXN[tt], CLS[cls], eob, off, kc_pat_name(p, -hi, hi, pn), hi, CCA[64 + scan[0]],
                                    eob > 1 ? CCA[64 + scan[1]] : -1, eob > 2 ? CCA[64 + scan[2]] : -1);
                            for (int vi = 0; vi < k->nv; vi++) {
                                if (!var_on(r, vi)) continue;
                                memcpy(CCB, CCJ, sizeof CCB);
                                ((nzm_fn)k->v[vi].fn)(lv, scan, (uint16_t)eob, (TxSize)ts, (TxClass)cls, CCB + 64);
                                int bad = -1;
                                for (int i = 0; i < eob && bad < 0; i++)
                                    if (CCA[64 + scan[i]] != CCB[64 + scan[i]]) bad = i;
                                if (bad >= 0) {
                                    int pos = scan[bad];
                                    MISMATCH(r, vi, "tx %dx%d %s (%s) eob=%d levels buffer offset %d, levels = txb_init_levels_c(qcoeff pattern '%s' over +-%ld zeroed from scan position eob, |q|=1 forced at eob-1): coeff_contexts[scan[%d] = %d (row %d col %d)]: c=%d simd=%d",
                                             tx_size_wide[ts], tx_size_high[ts], TXN[tt], CLS[cls], eob, off, kc_pat_name(p, -hi, hi, pn), hi, bad, pos, pos / w, pos % w,
                                             CCA[64 + pos], CCB[64 + pos]);
                                    continue;
                                }
                                long g = kc_diff(CCA, CCB, 64);
                                if (g < 0) { g = kc_diff(CCA + 64 + n, CCB + 64 + n, sizeof CCA - 64 - (size_t)n); if (g >= 0) g += 64 + n; }
                                if (g >= 0)
                                    MISMATCH(r, vi, "tx %dx%d %s (%s) eob=%d levels buffer offset %d, qcoeff pattern '%s' over +-%ld: write outside the %d-entry coeff_contexts block at index %ld: c leaves %d, simd %d",
                                             tx_size_wide[ts], tx_size_high[ts], TXN[tt], CLS[cls], eob, off, kc_pat_name(p, -hi, hi, pn), hi, n, g - 64, CCA[g], CCB[g]);
                            }
                        }
                }
            }
        }
    }
}

// ------------------------------------------------------------------------------------------------ 64-point repack helpers
// svt_handle_transformWxH(coeff_buffer) is called right after svt_av1_fwd_txfm2d_WxH on its output (DCT_DCT is the only type of
// the 64-point sizes; av1_estimate_transform_default, EbTransforms.c:3446-3568); handle_transformWxH_N2_N4 right after
// svt_av1_fwd_txfm2d_WxH_N2 / _N4 (av1_estimate_transform_N2 / _N4, EbTransforms.c:3068-3190, 3246-3366).  The buffer holds W*H
// int32 (64-byte aligned, see the file header), is read and written in place; the returned energy and the whole buffer (with guards) are
// compared.  Inputs: the C forward transform (full / N2 / N4 according to the kernel) of every residual pattern for bd 8 and 10,
// and direct coefficient patterns over +-E on the whole W x H array.
static int32_t HA[64 * 64 + 128] ALIGN64, HB[64 * 64 + 128] ALIGN64;
void drv_handle_txfm64(Run *r) {
    const Kern *k = r->k;
    int         w = k->w, h = k->h, n2n4 = k->a;
    size_t      tot = (size_t)w * h + 128;
    char        pn[32], nm[64];
    static const char *SUF[3] = {"", "_N2", "_N4"};
    for (int bdi = 0; bdi < 2; bdi++) {
        int  bd = bdi ? 10 : 8;
        long rhi = (1 << bd) - 1, e = coef_extreme(bd);
        int  np = kc_npat(r, -rhi, rhi), nd = n_direct(r, bd);
        for (int fv = n2n4 ? 1 : 0; fv <= (n2n4 ? 2 : 0); fv++) {
            snprintf(nm, sizeof nm, "svt_av1_fwd_txfm2d_%dx%d%s", w, h, SUF[fv]);
            const Kern *fk = kc_find_kern(nm);
            for (int si = 0; si < np + NXRES + nd; si++) {
                int kind, pat;
                src_of(si, np, &kind, &pat);
                if (r->stop) return;
                if (kind == 1 && fv == 2) continue; // direct patterns once per bit depth
                if (case_skip_fast(r)) continue;
                coef_guard(w * h);
                if (kind == 0) {
                    if (!fk) { r->case_idx++; continue; }
                    fill_residual(RES16 + 64, w, h, pat, rhi);
                    ((fwd_fn)fk->c)(RES16 + 64, COEF + 64, (uint32_t)w, DCT_DCT, (uint8_t)bd);
                } else kc_fill_i32(COEF + 64, w, h, w, pat, -e, e);
                if (!case_begin(r, kc_pat_nontrivial(pat))) continue;
                memcpy(HA, COEF, tot * 4);
                uint64_t c_ret = ((handle_fn)k->c)(HA + 64);
                if (kind == 0)
                    VERBOSE(r, "case %lld: %dx%d bd=%d buffer = %s_c(residual pattern '%s' over +-%ld, DCT_DCT) -> c energy=%llu out[0..1]=%d %d", r->case_idx - 1, w, h, bd,
                            nm, res_name(pat, rhi, pn), rhi, (unsigned long long)c_ret, HA[64], HA[65]);
                else
                    VERBOSE(r, "case %lld: %dx%d bd=%d buffer = direct coefficient pattern '%s' over +-%ld -> c energy=%llu out[0..1]=%d %d", r->case_idx - 1, w, h, bd,
                            kc_pat_name(pat, -e, e, pn), e, (unsigned long long)c_ret, HA[64], HA[65]);
                for (int vi = 0; vi < k->nv; vi++) {
                    if (!var_on(r, vi)) continue;
                    memcpy(HB, COEF, tot * 4);
                    uint64_t v_ret = ((handle_fn)k->v[vi].fn)(HB + 64);
                    long     d = kc_diff(HA, HB, tot * 4);
                    if (d < 0 && v_ret == c_ret) continue;
                    long at = d >= 0 ? d / 4 : 64;
                    if (kind == 0)
                        MISMATCH(r, vi, "%dx%d bd=%d, in/out buffer = %s_c(residual pattern '%s' over +-%ld, DCT_DCT): c returns %llu, simd returns %llu; first buffer difference at index %ld (row %ld col %ld of the %d-wide input layout): c=%d simd=%d (input %d)",
                                 w, h, bd, nm, res_name(pat, rhi, pn), rhi, (unsigned long long)c_ret, (unsigned long long)v_ret, d >= 0 ? at - 64 : -1,
                                 (at - 64) / w, (at - 64) % w, w, HA[at], HB[at], COEF[at]);
                    else
                        MISMATCH(r, vi, "%dx%d, in/out buffer = direct coefficient pattern '%s' over +-%ld (bd %d range): c returns %llu, simd returns %llu; first buffer difference at index %ld (row %ld col %ld of the %d-wide input layout): c=%d simd=%d (input %d)",
                                 w, h, kc_pat_name(pat, -e, e, pn), e, bd, (unsigned long long)c_ret, (unsigned long long)v_ret, d >= 0 ? at - 64 : -1, (at - 64) / w,
                                 (at - 64) % w, w, HA[at], HB[at], COEF[at]);
                }
            }
        }
    }
}
