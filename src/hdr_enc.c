/* hdr_enc: minimal SVT-AV1 encode driver for C20's global-motion 'on' runs: the shared driver (encdrv.c) has no content
 * with a rotating / zooming camera, without which the encoder never selects a non-identity global motion model.
 *
 * usage: hdr_enc out=<prefix> w= h= n= content=rotzoom|pan [<EbSvtAv1EncConfiguration field>=value ...]
 * Writes <prefix>.obu / <prefix>.sz like encdrv and prints a JSON line with the same keys the checks read
 * (init_handle, set_parameter, init, npk, completed, pkt_hash).  One packet per picture, drained with blocking calls.
 */
#define _GNU_SOURCE
#include <math.h>
#include <stdio.h>
#include <stdlib.h>
#include <string.h>
#include <stdint.h>
#include <stddef.h>
#include "EbSvtAv1Enc.h"
#include "vutil.h"

typedef EbSvtAv1EncConfiguration Cfg;
typedef struct { const char *name; size_t off, size; } Field;
#define FLD(n) { #n, offsetof(Cfg, n), sizeof(((Cfg *)0)->n) }
static const Field fields[] = {
    FLD(enc_mode), FLD(intra_period_length), FLD(intra_refresh_type), FLD(hierarchical_levels), FLD(qp), FLD(rate_control_mode),
    FLD(enable_global_motion), FLD(enable_warped_motion), FLD(screen_content_mode), FLD(enable_tpl_la), FLD(logical_processors),
    FLD(tile_rows), FLD(tile_columns), FLD(obmc_level), FLD(inter_intra_compound), FLD(superres_mode), FLD(tf_level),
};
static int set_field(Cfg *c, const char *k, const char *v) {
    for (size_t i = 0; i < sizeof fields / sizeof fields[0]; i++)
        if (!strcmp(fields[i].name, k)) {
            long long x = strtoll(v, NULL, 0);
            char *p = (char *)c + fields[i].off;
            switch (fields[i].size) {
            case 1: *(uint8_t *)p = (uint8_t)x; return 0;
            case 2: *(uint16_t *)p = (uint16_t)x; return 0;
            case 4: *(uint32_t *)p = (uint32_t)x; return 0;
            case 8: *(uint64_t *)p = (uint64_t)x; return 0;
            }
        }
    return -1;
}
static uint32_t mix(uint32_t a, uint32_t b) {
    uint32_t h = a * 0x9E3779B1u ^ (b + 0x7F4A7C15u) * 0x85EBCA6Bu;
    h ^= h >> 15; h *= 0x2C1B3C6Du; h ^= h >> 12; h *= 0x297A2D39u; h ^= h >> 15;
    return h;
}
/* static texture: 12x12-sample cells of random brightness (many corners), bilinearly sampled at real coordinates */
static double cell(int cx, int cy) { return 40.0 + (double)(mix((uint32_t)(cx + 4096), (uint32_t)(cy + 4096)) % 176); }
static double tex(double x, double y) {
    double fx = floor(x), fy = floor(y), ax = x - fx, ay = y - fy;
    int x0 = (int)fx, y0 = (int)fy;
    double v00 = cell((int)floor(x0 / 12.0), (int)floor(y0 / 12.0)), v10 = cell((int)floor((x0 + 1) / 12.0), (int)floor(y0 / 12.0));
    double v01 = cell((int)floor(x0 / 12.0), (int)floor((y0 + 1) / 12.0)), v11 = cell((int)floor((x0 + 1) / 12.0), (int)floor((y0 + 1) / 12.0));
    return (v00 * (1 - ax) + v10 * ax) * (1 - ay) + (v01 * (1 - ax) + v11 * ax) * ay;
}

int main(int argc, char **argv) {
    int W = 256, H = 256, N = 10;
    const char *out = NULL, *content = "rotzoom";
    Cfg *cfg = calloc(1, sizeof *cfg);
    EbComponentType *h = NULL;
    if (svt_av1_enc_init_handle(&h, NULL, cfg) != EB_ErrorNone) { printf("{\"init_handle\":1}\n"); return 0; }
    cfg->logical_processors = 1; cfg->enc_mode = 8;
    for (int i = 1; i < argc; i++) {
        char *eq = strchr(argv[i], '=');
        if (!eq) return 4;
        *eq = 0;
        const char *k = argv[i], *v = eq + 1;
        if (!strcmp(k, "w")) W = atoi(v); else if (!strcmp(k, "h")) H = atoi(v); else if (!strcmp(k, "n")) N = atoi(v);
        else if (!strcmp(k, "out")) out = v; else if (!strcmp(k, "content")) content = v;
        else if (set_field(cfg, k, v)) { fprintf(stderr, "unknown field %s\n", k); return 4; }
    }
    cfg->source_width = (uint32_t)W; cfg->source_height = (uint32_t)H; cfg->encoder_bit_depth = 8;
    EbErrorType e = svt_av1_enc_set_parameter(h, cfg);
    if (e != EB_ErrorNone) { svt_av1_enc_deinit_handle(h); printf("{\"init_handle\":0,\"set_parameter\":%d}\n", (int)e); return 0; }
    e = svt_av1_enc_init(h);
    if (e != EB_ErrorNone) { svt_av1_enc_deinit(h); svt_av1_enc_deinit_handle(h); printf("{\"init_handle\":0,\"set_parameter\":0,\"init\":%d}\n", (int)e); return 0; }
    int cw = (W + 1) / 2, ch = (H + 1) / 2;
    size_t ysz = (size_t)W * H, csz = (size_t)cw * ch;
    uint8_t *obu = NULL; size_t olen = 0, ocap = 0; uint32_t *szs = calloc((size_t)N + 8, 4); int npk = 0, eos = 0;
    uint64_t pkh = 0;
    for (int f = 0; f <= N; f++) {
        EbBufferHeaderType ih; memset(&ih, 0, sizeof ih);
        EbSvtIOFormat io; memset(&io, 0, sizeof io);
        uint8_t *buf = NULL;
        ih.size = sizeof ih; ih.pic_type = EB_AV1_INVALID_PICTURE;
        if (f < N) {
            buf = malloc(ysz + 2 * csz);
            double ang = !strcmp(content, "rotzoom") ? 0.015 * f : 0.0, zoom = !strcmp(content, "rotzoom") ? 1.0 + 0.012 * f : 1.0;
            double tx = !strcmp(content, "pan") ? 2.5 * f : 0.0, ca = cos(ang) / zoom, sa = sin(ang) / zoom;
            for (int y = 0; y < H; y++)
                for (int x = 0; x < W; x++) {
                    double dx = x - W / 2.0, dy = y - H / 2.0;
                    double v = tex(ca * dx - sa * dy + W / 2.0 + tx + 1000.0, sa * dx + ca * dy + H / 2.0 + 1000.0);
                    buf[(size_t)y * W + x] = (uint8_t)(v + 0.5);
                }
            memset(buf + ysz, 128, 2 * csz);
            io.luma = buf; io.cb = buf + ysz; io.cr = buf + ysz + csz;
            io.y_stride = (uint32_t)W; io.cb_stride = io.cr_stride = (uint32_t)cw;
            io.width = (uint32_t)W; io.height = (uint32_t)H; io.color_fmt = EB_YUV420; io.bit_depth = EB_EIGHT_BIT;
            ih.p_buffer = (uint8_t *)&io; ih.n_filled_len = ih.n_alloc_len = (uint32_t)(ysz + 2 * csz); ih.pts = f;
        } else
            ih.flags = EB_BUFFERFLAG_EOS;
        svt_av1_enc_send_picture(h, &ih);
        free(buf);
        for (;;) {
            EbBufferHeaderType *p = NULL;
            EbErrorType g = svt_av1_enc_get_packet(h, &p, f == N && !eos);
            if (g == EB_NoErrorEmptyQueue || !p) break;
            if (olen + p->n_filled_len > ocap) { ocap = (olen + p->n_filled_len) * 2 + 65536; obu = realloc(obu, ocap); }
            memcpy(obu + olen, p->p_buffer, p->n_filled_len); olen += p->n_filled_len;
            if (npk < N + 8) szs[npk] = p->n_filled_len;
            { uint64_t t[4] = { vu_fnv(p->p_buffer, p->n_filled_len, 0), (uint64_t)p->pts, p->flags, p->n_filled_len }; pkh = vu_fnv(t, sizeof t, pkh); }
            npk++;
            if (p->flags & EB_BUFFERFLAG_EOS) eos = 1;
            svt_av1_enc_release_out_buffer(&p);
            if (eos) break;
        }
    }
    svt_av1_enc_deinit(h);
    svt_av1_enc_deinit_handle(h);
    if (out) {
        char fn[1024]; FILE *fp;
        snprintf(fn, sizeof fn, "%s.obu", out); fp = fopen(fn, "wb"); if (olen) fwrite(obu, 1, olen, fp); fclose(fp);
        snprintf(fn, sizeof fn, "%s.sz", out); fp = fopen(fn, "wb"); fwrite(szs, 4, (size_t)npk, fp); fclose(fp);
    }
    printf("{\"init_handle\":0,\"set_parameter\":0,\"init\":0,\"n\":%d,\"npk\":%d,\"completed\":%d,\"pkt_hash\":\"%016llx\"}\n", N, npk, eos ? 1 : 0,
           (unsigned long long)pkh);
    return 0;
}
