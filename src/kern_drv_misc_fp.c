// C07 drivers (group misc, sub-worker miscfp): float 2-D FFT / IFFT of the film-grain denoiser and the palette k-means kernels.
#include <math.h>
#include <stdlib.h>
#include "kern_core.h"
#include "EbDefinitions.h"
#include "noise_model.h"

const Kern *kc_find_kern(const char *ptr);

#define ALIGN64 __attribute__((aligned(64)))

static uint32_t f2u(float f) { uint32_t u; memcpy(&u, &f, 4); return u; }

// ================================================================================================ FFT / IFFT (float)
// void svt_aom_[i]fftNxN_float(const float *input, float *temp, float *output), N = 4 (SSE2), 8, 16, 32 (AVX2).
//
// Call sites: only through struct aom_noise_tx_t (Source/Lib/Encoder/Codec/noise_util.c:38-70 selects the pair by block size):
//   forward  noise_util.c:87   fft(data, temp, tx_block)       data = 32-byte aligned "block" of noise_model.c:1343 (2*N*N floats),
//   inverse  noise_util.c:112  ifft(tx_block, temp, data)      temp / tx_block = svt_aom_memalign(32, 2*N*N floats) (noise_util.c:71-74).
//   All SIMD loads/stores are unaligned ones; the harness passes 64-byte aligned buffers of 2*N*N floats like the callers.
//   temp is pure scratch: no caller reads it (noise_util.c passes noise_tx->temp and never looks at it), so its CONTENT is not
//   compared - only the guard areas around its 2*N*N floats (out-of-bounds writes).  The forward output (tx_block) is read
//   completely by svt_aom_noise_tx_filter (noise_util.c:90-108, all N*N complex entries, also those the transform only used as
//   scratch), the inverse output is read for N*N floats (noise_util.c:113, noise_model.c:1413-1416): outputs are compared bit-exactly
//   (memcmp) over the whole poisoned allocation (64 guard floats + 2*N*N floats + 64 guard floats).
//   The only caller in the encoder (svt_aom_wiener_denoise_2d, noise_model.c:1347/1353, block size DENOISING_BlockSize = 32,
//   noise_model.h:24, chroma 32 >> 1) uses N = 32 (luma) and N = 16 (chroma); N = 4 and 8 are reachable only through
//   svt_aom_noise_tx_malloc(4 / 8), which nothing in the library calls.
// Input value domain of the forward transform (noise_model.c:1384-1399): block = (float)(pixel / (2^bd - 1) - planar fit) * half
//   cosine window, i.e. reals of magnitude <= 1.  Enumerated domains ("dom"):
//     0  integers 0..255     1  integers 0..1023     2  signed integers -255..255   (exactly representable, the pattern alphabet)
//     3  the caller pipeline for 8-bit pixels: pattern 0..255 -> svt_aom_flat_block_finder_extract_block -> (float) -> * window
//     4  the caller pipeline for 10-bit pixels (use_highbd = 1, pattern 0..1023)
//   For each domain: every pattern of the kern_core alphabet, then an impulse (one sample max, all others min) at every one of
//   the N*N positions; for N = 4 additionally the complete {min,max}^16 cube; thorough tier, N >= 8: additionally two impulses at
//   every unordered pair of positions (N = 32: every pair within one row or one column; inverse: sp = 0 only).
// Input of the inverse transform (noise_util.c:112): the spectrum produced by the forward transform, scaled in place by the
//   Wiener gain of svt_aom_noise_tx_filter.  Enumerated: C forward transform (kc_find_kern) of every forward input above, "sp" =
//   0 unfiltered, 1 / 2 filtered exactly as noise_util.c:90-108 with the flat psd of noise_model.c:1564-1571 for
//   film_grain_denoise_strength 10 / 50; plus "direct" patterns written straight into the 2N x N float layout (domains 0..2).
//   (quick tier: the 4x4 cube only with sp = 0.)  The spectrum buffer is junk-filled before the C forward transform so that the entries the inverse never reads hold garbage.
typedef void (*fft_fn)(const float *input, float *temp, float *output);

#define FFT_MAXN 32
#define FFT_BUF (64 + 2 * FFT_MAXN * FFT_MAXN + 64)
static float   F_in[FFT_BUF] ALIGN64, F_spec[FFT_BUF] ALIGN64, F_tmp0[FFT_BUF] ALIGN64;
static float   F_out_c[FFT_BUF] ALIGN64, F_out_v[FFT_BUF] ALIGN64, F_tmp_c[FFT_BUF] ALIGN64, F_tmp_v[FFT_BUF] ALIGN64;
static float   F_win[FFT_MAXN * FFT_MAXN];
static double  F_blk[FFT_MAXN * FFT_MAXN], F_pln[FFT_MAXN * FFT_MAXN];
static uint8_t  F_px8[FFT_MAXN * FFT_MAXN];
static uint16_t F_px16[FFT_MAXN * FFT_MAXN];

static const long FFT_LO[5] = {0, 0, -255, 0, 0}, FFT_HI[5] = {255, 1023, 255, 255, 1023};
static const char *FFT_DOM[5] = {"integers 0..255", "integers 0..1023", "integers -255..255",
                                 "8-bit pixels -> extract_block (planar fit removed, /255) -> * half-cos window",
                                 "10-bit pixels -> extract_block (planar fit removed, /1023) -> * half-cos window"};

// same computation as get_half_cos_window (noise_model.c:1262-1273)
static void fft_window(int n) {
    const double pi = 3.141592653589793238462643383279502884;
    for (int y = 0; y < n; ++y) {
        const double cos_yd = cos((.5 + y) * pi / n - pi / 2);
        for (int x = 0; x < n; ++x) {
            const double cos_xd = cos((.5 + x) * pi / n - pi / 2);
            F_win[y * n + x]    = (float)(cos_yd * cos_xd);
        }
    }
}

// kind 0: alphabet pattern `sel`; 1: impulse at sample `sel`; 2: cube, bit i of `sel` = sample i is max; 3: impulses at samples
// sel / N^2 and sel % N^2
static long fft_sample(int kind, int sel, int x, int y, int n, long lo, long hi) {
    if (kind == 0) return kc_pat_value(sel, x, y, n, n, lo, hi);
    if (kind == 1) return (y * n + x == sel) ? hi : lo;
    if (kind == 3) return (y * n + x == sel / (n * n) || y * n + x == sel % (n * n)) ? hi : lo;
    return ((sel >> (y * n + x)) & 1) ? hi : lo;
}
static const char *fft_in_name(int kind, int sel, int n, long lo, long hi, char *buf) {
    if (kind == 0) {
        char b2[32];
        sprintf(buf, "pattern '%s'", kc_pat_name(sel, lo, hi, b2));
    } else if (kind == 1)
        sprintf(buf, "impulse: sample (x=%d,y=%d) = max, all others min", sel % n, sel / n);
    else if (kind == 3)
        sprintf(buf, "two impulses: samples (x=%d,y=%d) and (x=%d,y=%d) = max, all others min", sel / (n * n) % n, sel / (n * n) / n, sel % (n * n) % n, sel % (n * n) / n);
    else
        sprintf(buf, "cube: samples with bit set in 0x%04x (bit = y*4+x) = max, others min", sel);
    return buf;
}
// build the forward-transform input for (dom, kind, sel) in dst[0..n*n)
static void fft_make_input(float *dst, int n, int dom, int kind, int sel, const AomFlatBlockFinder *bf8, const AomFlatBlockFinder *bf10) {
    long lo = FFT_LO[dom], hi = FFT_HI[dom];
    if (dom < 3) {
        for (int y = 0; y < n; y++)
            for (int x = 0; x < n; x++) dst[y * n + x] = (float)fft_sample(kind, sel, x, y, n, lo, hi);
        return;
    }
    for (int y = 0; y < n; y++)
        for (int x = 0; x < n; x++) {
            long v = fft_sample(kind, sel, x, y, n, lo, hi);
            F_px8[y * n + x]  = (uint8_t)v;
            F_px16[y * n + x] = (uint16_t)v;
        }
    if (dom == 3) svt_aom_flat_block_finder_extract_block(bf8, F_px8, n, n, n, 0, 0, F_pln, F_blk);
    else svt_aom_flat_block_finder_extract_block(bf10, (const uint8_t *)F_px16, n, n, n, 0, 0, F_pln, F_blk);
    for (int j = 0; j < n * n; j++) {
        dst[j] = (float)F_blk[j]; // noise_model.c:1395
        dst[j] *= F_win[j];       // pointwise_multiply, noise_model.c:1398
    }
}
// svt_aom_noise_tx_filter (noise_util.c:90-108) with the flat psd of noise_model.c:1564-1571
static void fft_wiener(float *tx_block, int n, int strength) {
    const float noise_level = (float)(strength / 10.0); // noise_model.c:1505
    const float psd         = (noise_level * noise_level / 10000) * n * n / 8; // noise_util.c:23-25
    const float k_beta = 1.1f, k_eps = 1e-6f;
    for (int i = 0; i < n * n; i++) {
        float      *c = tx_block + 2 * i;
        const float p = c[0] * c[0] + c[1] * c[1];
        if (p > k_beta * psd && p > 1e-6) {
            const float pm = p > k_eps ? p : k_eps;
            tx_block[2 * i + 0] *= (p - psd) / pm;
            tx_block[2 * i + 1] *= (p - psd) / pm;
        } else {
            tx_block[2 * i + 0] *= (k_beta - 1.0f) / k_beta;
            tx_block[2 * i + 1] *= (k_beta - 1.0f) / k_beta;
        }
    }
}

// one argument tuple: input already in `in`; compares all variants.  A difference that is ONLY the sign of zero (+0.0 vs -0.0)
// in some outputs is recorded as a mismatch like any other, but the first difference in a non-zero value replaces the stored
// description (it is the more informative one).
static void fft_one(Run *r, const float *in, int n, const char *what) {
    const Kern  *k    = r->k;
    const size_t body = 2 * (size_t)n * n, len = 64 + body + 64, nb = sizeof(float) * len;
    kc_junk(F_out_c, nb, 11);
    kc_junk(F_tmp_c, nb, 12);
    ((fft_fn)k->c)(in, F_tmp_c + 64, F_out_c + 64);
    VERBOSE(r, "case %lld: %s -> c out[0..3] = %g %g %g %g", r->case_idx - 1, what, F_out_c[64], F_out_c[65], F_out_c[66], F_out_c[67]);
    for (int vi = 0; vi < k->nv; vi++) {
        if (!var_on(r, vi)) continue;
        kc_junk(F_out_v, nb, 11);
        kc_junk(F_tmp_v, nb, 12);
        ((fft_fn)k->v[vi].fn)(in, F_tmp_v + 64, F_out_v + 64);
        if (memcmp(F_out_c, F_out_v, nb)) {
            long first = -1, firstv = -1, nz = 0, nv = 0;
            for (size_t i = 0; i < len; i++) {
                uint32_t a = f2u(F_out_c[i]), b = f2u(F_out_v[i]);
                if (a == b) continue;
                if (((a | b) & 0x7fffffffu) == 0) { nz++; if (first < 0) first = (long)i; }
                else { nv++; if (firstv < 0) firstv = (long)i; }
            }
            long d = firstv >= 0 ? firstv : first, i = d - 64;
            char msg[600];
            snprintf(msg, sizeof msg, "%s: %ld outputs differ only in the sign of zero, %ld differ in value; first %s at output float index %ld (%s): c %.9g (0x%08x), simd %.9g (0x%08x); in[0..3] = %.9g %.9g %.9g %.9g",
                     what, nz, nv, firstv >= 0 ? "value difference" : "sign-of-zero difference", i,
                     i < 0 || i >= (long)body ? "GUARD AREA" : k->a ? "sample y*N+x" : "re/im interleaved: (y*N+x)*2+im", F_out_c[d], f2u(F_out_c[d]),
                     F_out_v[d], f2u(F_out_v[d]), in[0], in[1], in[2], in[3]);
            // only the sign of zero differs (numerically equal outputs): reported under its own key class
            if (nv) MISMATCH(r, vi, "%s", msg);
            else SOFTDIFF(r, vi, "%s", msg);
            continue;
        }
        if (memcmp(F_tmp_c, F_tmp_v, 64 * 4) || memcmp(F_tmp_c + 64 + body, F_tmp_v + 64 + body, 64 * 4))
            MISMATCH(r, vi, "%s: write outside the 2*N*N floats of the temp buffer", what);
    }
}

void drv_misc_fft(Run *r) {
    const Kern *k = r->k;
    const int   n = k->w, inverse = k->a;
    char        what[400], nm[120], pname[80];
    if (n != k->h || n < 4 || n > FFT_MAXN) return;
    fft_fn fwd_c = NULL;
    if (inverse) {
        snprintf(pname, sizeof pname, "svt_aom_fft%dx%d_float", n, n);
        const Kern *fk = kc_find_kern(pname);
        if (!fk) return;
        fwd_c = (fft_fn)fk->c;
    }
    AomFlatBlockFinder bf8, bf10;
    if (!svt_aom_flat_block_finder_init(&bf8, n, 8, 0)) return;
    if (!svt_aom_flat_block_finder_init(&bf10, n, 10, 1)) { svt_aom_flat_block_finder_free(&bf8); return; }
    fft_window(n);
    const size_t nb = sizeof(float) * (64 + 2 * (size_t)n * n + 64);
    kc_junk(F_in, sizeof F_in, 13);
    static const int STRENGTH[3] = {0, 10, 50};
    const int nsp = inverse ? 3 : 1;
    for (int kind = 0; kind < 4; kind++) {
        if (kind == 2 && n != 4) continue;
        if (kind == 3 && (n == 4 || !r->thorough)) continue;
        for (int sp = 0; sp < nsp; sp++)
            for (int dom = 0; dom < 5; dom++) {
                if (kind == 2 && sp && !r->thorough) continue; // quick tier: the 4x4 cube of filtered spectra is left to thorough
                if (kind == 3 && sp) continue;                  // impulse pairs: unfiltered spectra only
                long lo = FFT_LO[dom], hi = FFT_HI[dom];
                int  nsel = kind == 0 ? kc_npat(r, lo, hi) : kind == 1 ? n * n : kind == 2 ? 65536 : n * n * n * n;
                for (int sel = 0; sel < nsel; sel++) {
                    if (r->stop) goto done;
                    if (kind == 3) { // unordered pairs; 32x32: only pairs in the same row or the same column
                        int a = sel / (n * n), b = sel % (n * n);
                        if (a >= b || (n == 32 && a / n != b / n && a % n != b % n)) continue;
                    }
                    if (case_skip_fast(r)) continue;
                    const float *in = F_in + 64;
                    fft_make_input(F_in + 64, n, dom, kind, sel, &bf8, &bf10);
                    if (inverse) {
                        kc_junk(F_spec, nb, 14);
                        kc_junk(F_tmp0, nb, 15);
                        fwd_c(F_in + 64, F_tmp0 + 64, F_spec + 64);
                        if (sp) fft_wiener(F_spec + 64, n, STRENGTH[sp]);
                        in = F_spec + 64;
                    }
                    if (!case_begin(r, kind != 0 || kc_pat_nontrivial(sel))) continue;
                    if (inverse)
                        snprintf(what, sizeof what, "%dx%d inverse of [C forward transform of {%s, %s}%s%s]", n, n, FFT_DOM[dom], fft_in_name(kind, sel, n, lo, hi, nm),
                                 sp ? ", Wiener-filtered as svt_aom_noise_tx_filter with flat psd for film_grain_denoise_strength " : "", sp == 1 ? "10" : sp == 2 ? "50" : "");
                    else
                        snprintf(what, sizeof what, "%dx%d forward of {%s, %s}", n, n, FFT_DOM[dom], fft_in_name(kind, sel, n, lo, hi, nm));
                    fft_one(r, in, n, what);
                }
            }
    }
    // inverse only: patterns written directly into the spectrum layout (2N floats per row: re,im interleaved; N rows)
    if (inverse)
        for (int dom = 0; dom < 3; dom++) {
            long lo = FFT_LO[dom], hi = FFT_HI[dom];
            int  np = kc_npat(r, lo, hi);
            for (int pat = 0; pat < np; pat++) {
                if (r->stop) goto done;
                if (case_skip_fast(r)) continue;
                kc_junk(F_spec, nb, 14);
                for (int y = 0; y < n; y++)
                    for (int x = 0; x < 2 * n; x++) F_spec[64 + y * 2 * n + x] = (float)kc_pat_value(pat, x, y, 2 * n, n, lo, hi);
                if (!case_begin(r, kc_pat_nontrivial(pat))) continue;
                snprintf(what, sizeof what, "%dx%d inverse of the direct spectrum pattern '%s' over the 2N x N float layout, %s", n, n, kc_pat_name(pat, lo, hi, nm), FFT_DOM[dom]);
                fft_one(r, F_spec + 64, n, what);
            }
        }
done:
    svt_aom_flat_block_finder_free(&bf8);
    svt_aom_flat_block_finder_free(&bf10);
}

// ================================================================================================ palette k-means
// void svt_av1_calc_indices_dim{1,2}(const int *data, const int *centroids, uint8_t *indices, int n, int k)
// void svt_av1_k_means_dim{1,2}(const int *data, int *centroids, uint8_t *indices, int n, int k, int max_itr)
//
// Call sites (Source/Lib/Encoder/Codec/palette.c): only dim 1 is ever used:
//   palette.c:310  av1_calc_indices(data, centroids, color_map, rows * cols, k, 1)   (palette_rd_y)
//   palette.c:476  av1_k_means(data, centroids, color_map, rows * cols, n, 1, max_itr)  (search_palette_luma, max_itr = 50, :400)
//   The dim 2 kernels have NO caller in this snapshot (the dispatching inlines palette.c:39-63 are only invoked with dim = 1);
//   they are enumerated over the analogous domain (libaom uses them for the interleaved U,V samples of a chroma palette).
// Domain the callers guarantee and the AVX2 code relies on (palette_avx2.c: loops step 8 / 16 samples, assert((n & 15) == 0)):
//   * n = rows * cols of a luma block for which svt_av1_allow_palette holds (EbModeDecision.c:5052-5057: 8x8 .. 64x64), rows / cols
//     clipped to the picture (palette.c:211-241) whose aligned dimensions are multiples of 8 (EbResize.c:1068-1069), so rows and
//     cols are multiples of 8 and n is a multiple of 64, n <= 4096.  Enumerated: all 14 AV1 block sizes with 8 <= w,h <= 64; the
//     thorough tier adds every picture-edge crop (cols, rows) in {8,16,..,64}^2.
//   * data = the source pixels as int (palette.c:405-423): 0..255, or 0..1023 when hbd_mode_decision is on (encoder_bit_depth 8 / 10).
//   * k = 2..8 (PALETTE_MIN_SIZE..PALETTE_MAX_SIZE), every value.
//   * k-means start centroids (palette.c:474): centroids[i] = lb + (2 * i + 1) * (ub - lb) / k / 2 from the data bounds lb / ub
//     (ascending, may contain duplicates when ub - lb is small -> empty clusters -> the lcg_rand16 re-seeding path, which is
//     also taken for e.g. data {lo, lo+1, hi}).  k_means is only called when the block has 3..64 distinct colours and k <= colours
//     (palette.c:398, :466-468); the enumeration is a superset (the kernels' semantics do not depend on the number of colours):
//     every data pattern is run with every k.  Extra start sets outside the caller domain, labelled in the messages: all
//     centroids equal, descending order; thorough also max_itr 1 and 2 (callers: 50 only).
//   * calc_indices centroids (palette_rd_y): sorted ascending, duplicates removed (palette.c:290, :74-86); they are the most frequent
//     colours (palette.c:428-448) or the k-means result (:476), possibly snapped to palette-cache colours (:289).  Generators
//     enumerated: k-means start formula; C k-means result (sorted for dim 1); the k most frequent colours (dim 1); lo..lo+k-1;
//     hi-k+1..hi; even spread lo..hi; extras outside the caller domain (labelled): all equal, descending.
//   * centroids live in a 4-byte aligned stack array (palette.c:402 int centroids[PALETTE_MAX_SIZE]): quick runs k_means with the
//     centroid array at +4 bytes from a 64-byte boundary and calc_indices with an aligned one; thorough runs both placements
//     (dim 1: the 14 block sizes, not the crops; dim 2: only where the pair product is complete, k_means only n = 64), and the
//     same holds for the extra max_itr values.
// Data patterns: the kern_core alphabet over the w x h block laid out linearly, plus 7 few-colour textures typical for palette
//   blocks (see PALX).  dim 1: every pattern x every k x every generator (x max_itr x placement).  dim 2: two independent patterns
//   interleaved; the product "all pattern pairs x every k x every generator" is complete for the small blocks (quick: n <= 128
//   for calc_indices, n = 64 for k_means; thorough: n <= 512 / n <= 128); for larger blocks the pair set is reduced to the pairs
//   in which at least one pattern is all-min / texture / 3-colour texture (calc_indices: or all-max) or both are equal, still
//   with every k (k_means and the thorough crops: only the pairs with a texture or both equal); in the quick tier and for
//   the thorough crops the generator then cycles with
//   (p1 + p2 + k) instead of multiplying.  See pal_plan().
// Outputs compared: the whole centroid allocation (64 guard ints + 16 + 64) and the whole index allocation (64 + n + 64 bytes),
//   both junk-filled identically before each call.
typedef void (*calc_indices_fn)(const int *data, const int *centroids, uint8_t *indices, int n, int k);
typedef void (*k_means_fn)(const int *data, int *centroids, uint8_t *indices, int n, int k, int max_itr);

#define PAL_MAXN 4096
static int     P_plane[2][PAL_MAXN];
static int     P_data[64 + 2 * PAL_MAXN + 64] ALIGN64;
static int     P_cen_in[2 * PALETTE_MAX_SIZE], P_cen_c[64 + 16 + 1 + 64] ALIGN64, P_cen_v[64 + 16 + 1 + 64] ALIGN64;
static uint8_t P_idx_c[64 + PAL_MAXN + 64] ALIGN64, P_idx_v[64 + PAL_MAXN + 64] ALIGN64, P_idx_t[64 + PAL_MAXN + 64] ALIGN64;

static const uint8_t PAL_SIZES[14][2] = {{8, 8},   {8, 16},  {16, 8},  {16, 16}, {16, 32}, {32, 16}, {32, 32},
                                         {32, 64}, {64, 32}, {64, 64}, {8, 32},  {32, 8},  {16, 64}, {64, 16}};
#define PALX_N 7
static const char *PALX[PALX_N] = {"3 colours {min,min+1,max} by texture", "3 adjacent colours mid-1..mid+1 by texture", "5 colours evenly spread by texture",
                                   "8 colours evenly spread by texture", "9 colours evenly spread by texture", "64 colours evenly spread by texture",
                                   "8 colours in two groups {min..min+3, max-3..max} by texture"};
static int pal_npat(Run *r, long hi) { return kc_npat(r, 0, hi) + PALX_N; }
static const char *pal_pat_name(Run *r, int pat, long hi, char *buf) {
    int nb = kc_npat(r, 0, hi);
    return pat < nb ? kc_pat_name(pat, 0, hi, buf) : PALX[pat - nb];
}
static long pal_pat_value(Run *r, int pat, int x, int y, int w, int h, long hi) {
    int nb = kc_npat(r, 0, hi);
    if (pat < nb) return kc_pat_value(pat, x, y, w, h, 0, hi);
    static const int M[PALX_N] = {3, 3, 5, 8, 9, 64, 8};
    int  m = M[pat - nb];
    long t = kc_pat_value(PAT_TEXTURE, x, y, w, h, 0, m - 1), mid = (hi + 1) / 2;
    if (pat - nb == 0) return t == 0 ? 0 : t == 1 ? 1 : hi;
    if (pat - nb == 1) return mid - 1 + t;
    if (pat - nb == 6) return t < 4 ? t : hi - 7 + t;
    return t * hi / (m - 1);
}
static int pal_pat_nontrivial(Run *r, int pat, long hi) { return pat >= kc_npat(r, 0, hi) || kc_pat_nontrivial(pat); }
static int pal_cmp_int(const void *a, const void *b) { return *(const int *)a - *(const int *)b; }

enum { PG_INIT, PG_KMEANS, PG_LOADJ, PG_HIADJ, PG_SPREAD, PG_EQUAL, PG_DESC, PG_TOP, PG_N };
static const char *PG_NAME[PG_N] = {"k-means start formula lb+(2i+1)(ub-lb)/k/2", "C k-means result of the start formula (max_itr 50)", "min..min+k-1", "max-k+1..max",
                                    "even spread min..max", "all equal mid [outside caller domain]", "descending spread max..min [outside caller domain]",
                                    "k most frequent colours (0 when fewer colours), sorted"};
// centroid generator; data in P_data+64 (n samples of `dim` ints); result in P_cen_in[0..k*dim)
static void pal_centroids(int gen, int dim, int n, int k, long hi, const int lb[2], const int ub[2], k_means_fn km_c) {
    const int *data = P_data + 64;
    for (int i = 0; i < k; i++)
        for (int ch = 0; ch < dim; ch++) {
            int v = 0;
            switch (gen) {
            case PG_INIT:
            case PG_KMEANS: v = lb[ch] + (2 * i + 1) * (ub[ch] - lb[ch]) / k / 2; break;
            case PG_LOADJ: v = i; break;
            case PG_HIADJ: v = (int)hi - k + 1 + i; break;
            case PG_SPREAD: v = (int)(i * hi / (k - 1)); break;
            case PG_EQUAL: v = (int)(hi + 1) / 2; break;
            case PG_DESC: v = ch == 0 ? (int)((k - 1 - i) * hi / (k - 1)) : (int)(i * hi / (k - 1)); break;
            default: break;
            }
            P_cen_in[i * dim + ch] = v;
        }
    if (gen == PG_KMEANS) {
        km_c(data, P_cen_in, P_idx_t + 64, n, k, 50);
        if (dim == 1) qsort(P_cen_in, k, sizeof(int), pal_cmp_int);
    }
    if (gen == PG_TOP) { // palette.c:428-448 (dim 1 only)
        static int cnt[1024];
        memset(cnt, 0, sizeof cnt);
        for (int i = 0; i < n; i++) cnt[data[i]]++;
        for (int i = 0; i < k; i++) {
            int best = 0, bv = 0;
            for (int j = 0; j <= hi; j++)
                if (cnt[j] > best) { best = cnt[j]; bv = j; }
            P_cen_in[i] = bv;
            cnt[bv]     = 0;
        }
        qsort(P_cen_in, k, sizeof(int), pal_cmp_int);
    }
}
static const char *pal_cen_str(const int *c, int k, int dim, char *buf) {
    int o = 0;
    for (int i = 0; i < k; i++) o += dim == 1 ? sprintf(buf + o, "%s%d", i ? "," : "", c[i]) : sprintf(buf + o, "%s(%d,%d)", i ? "," : "", c[2 * i], c[2 * i + 1]);
    return buf;
}
static int pal_colours(int dim, int n) {
    static uint8_t seen[1024 * 1024 / 8];
    int            c = 0;
    if (dim == 1) {
        memset(seen, 0, 1024 / 8);
        for (int i = 0; i < n; i++) { int v = P_data[64 + i]; if (!(seen[v >> 3] & (1 << (v & 7)))) { seen[v >> 3] |= 1 << (v & 7); c++; } }
    } else {
        memset(seen, 0, sizeof seen);
        for (int i = 0; i < n; i++) { int v = P_data[64 + 2 * i] * 1024 + P_data[64 + 2 * i + 1]; if (!(seen[v >> 3] & (1 << (v & 7)))) { seen[v >> 3] |= 1 << (v & 7); c++; } }
    }
    return c;
}

// enumeration plan for one (tier, kernel, block): which parts of the product are complete
typedef struct { int pairs_reduced, tex_only, gens_cycle, extras; } PalPlan;
static PalPlan pal_plan(Run *r, int mode, int dim, int n, int crop) {
    PalPlan p = {0, 0, 0, 0};
    if (dim == 1) { p.extras = r->thorough && !crop; return p; }
    const int full_thr = r->thorough ? (mode ? 128 : 512) : (mode ? 64 : 128);
    p.pairs_reduced = crop || n > full_thr;
    p.tex_only      = crop || mode;
    p.gens_cycle    = p.pairs_reduced && (!r->thorough || crop);
    p.extras        = r->thorough && !p.pairs_reduced && (mode == 0 || n <= 64);
    return p;
}

// mode 0: calc_indices, 1: k_means
static void palette_drv(Run *r, int mode) {
    const Kern *k = r->k;
    const int   dim = k->a;
    char        n1[48], n2[48], cs[200], cs2[200], cs3[200];
    if (dim != 1 && dim != 2) return;
    const Kern *kmk = kc_find_kern(dim == 1 ? "svt_av1_k_means_dim1" : "svt_av1_k_means_dim2");
    if (!kmk) return;
    k_means_fn km_c = (k_means_fn)kmk->c;
    kc_junk(P_data, sizeof P_data, 21);
    const int nsizes = r->thorough ? 14 + 64 : 14;
    for (int bd = 8; bd <= 10; bd += 2) {
        const long hi = (1L << bd) - 1;
        const int  np = pal_npat(r, hi), nbase = kc_npat(r, 0, hi);
        for (int si = 0; si < nsizes; si++) {
            int w, h;
            if (si < 14) { w = PAL_SIZES[si][0]; h = PAL_SIZES[si][1]; }
            else {
                w = 8 * (1 + (si - 14) % 8); h = 8 * (1 + (si - 14) / 8);
                int dup = 0;
                for (int j = 0; j < 14; j++) dup |= PAL_SIZES[j][0] == w && PAL_SIZES[j][1] == h;
                if (dup) continue;
            }
            const int     n = w * h;
            const PalPlan plan = pal_plan(r, mode, dim, n, si >= 14);
            for (int p1 = 0; p1 < np; p1++)
                for (int p2 = 0; p2 < (dim == 2 ? np : 1); p2++) {
                    if (r->stop) return;
                    if (plan.pairs_reduced) {
                        int s1 = p1 == PAT_TEXTURE || (!plan.tex_only && (p1 == PAT_LO || p1 == nbase || (!mode && p1 == PAT_HI)));
                        int s2 = p2 == PAT_TEXTURE || (!plan.tex_only && (p2 == PAT_LO || p2 == nbase || (!mode && p2 == PAT_HI)));
                        if (!s1 && !s2 && p1 != p2) continue;
                    }
                    int built = 0, lb[2] = {0, 0}, ub[2] = {0, 0}, colours = 0;
                    for (int kk = 2; kk <= PALETTE_MAX_SIZE; kk++) {
                        const int ngen = mode == 0 ? (dim == 1 ? PG_N : PG_N - 1) : 3;
                        for (int g = 0; g < ngen; g++) {
                            if (plan.gens_cycle && g != (p1 + p2 + kk) % ngen) continue;
                            static const int KM_GEN[3] = {PG_INIT, PG_EQUAL, PG_DESC};
                            static const int KM_ITR[3] = {50, 1, 2};
                            const int        gen = mode == 0 ? g : KM_GEN[g];
                            const int        nitr = mode == 1 && plan.extras ? 3 : 1, noff = plan.extras ? 2 : 1;
                            for (int it = 0; it < nitr; it++)
                                for (int oi = 0; oi < noff; oi++) {
                                    if (r->stop) return;
                                    if (case_skip_fast(r)) continue;
                                    const int coff = plan.extras ? oi : mode; // ints of misalignment of the centroid array
                                    const int max_itr = KM_ITR[it];
                                    if (!built) {
                                        built = 1;
                                        for (int y = 0; y < h; y++)
                                            for (int x = 0; x < w; x++) {
                                                P_data[64 + (y * w + x) * dim] = (int)pal_pat_value(r, p1, x, y, w, h, hi);
                                                if (dim == 2) P_data[64 + (y * w + x) * 2 + 1] = (int)pal_pat_value(r, p2, x, y, w, h, hi);
                                            }
                                        for (int ch = 0; ch < dim; ch++) {
                                            lb[ch] = ub[ch] = P_data[64 + ch];
                                            for (int i = 0; i < n; i++) {
                                                int v = P_data[64 + i * dim + ch];
                                                if (v < lb[ch]) lb[ch] = v;
                                                if (v > ub[ch]) ub[ch] = v;
                                            }
                                        }
                                        colours = pal_colours(dim, n);
                                    }
                                    pal_centroids(gen, dim, n, kk, hi, lb, ub, km_c);
                                    if (!case_begin(r, pal_pat_nontrivial(r, p1, hi) || (dim == 2 && pal_pat_nontrivial(r, p2, hi)))) continue;
                                    const int *data = P_data + 64;
                                    int       *cc = P_cen_c + 64 + coff, *cv = P_cen_v + 64 + coff;
                                    kc_junk(P_cen_c, sizeof P_cen_c, 22);
                                    kc_junk(P_idx_c, 64 + n + 64, 23);
                                    memcpy(cc, P_cen_in, sizeof(int) * kk * dim);
                                    if (mode == 0) ((calc_indices_fn)k->c)(data, cc, P_idx_c + 64, n, kk);
                                    else ((k_means_fn)k->c)(data, cc, P_idx_c + 64, n, kk, max_itr);
                                    VERBOSE(r, "case %lld: dim=%d %dx%d n=%d bd=%d k=%d%s data=%s%s%s (%d distinct colours) centroids(+%d bytes)={%s} [%s] -> c centroids {%s} idx[0..3]=%d %d %d %d",
                                            r->case_idx - 1, dim, w, h, n, bd, kk, mode ? (max_itr == 50 ? " max_itr=50" : max_itr == 1 ? " max_itr=1" : " max_itr=2") : "",
                                            pal_pat_name(r, p1, hi, n1), dim == 2 ? " / " : "", dim == 2 ? pal_pat_name(r, p2, hi, n2) : "", colours, coff * 4,
                                            pal_cen_str(P_cen_in, kk, dim, cs), PG_NAME[gen], pal_cen_str(cc, kk, dim, cs2), P_idx_c[64], P_idx_c[65], P_idx_c[66], P_idx_c[67]);
                                    for (int vi = 0; vi < k->nv; vi++) {
                                        if (!var_on(r, vi)) continue;
                                        kc_junk(P_cen_v, sizeof P_cen_v, 22);
                                        kc_junk(P_idx_v, 64 + n + 64, 23);
                                        memcpy(cv, P_cen_in, sizeof(int) * kk * dim);
                                        if (mode == 0) ((calc_indices_fn)k->v[vi].fn)(data, cv, P_idx_v + 64, n, kk);
                                        else ((k_means_fn)k->v[vi].fn)(data, cv, P_idx_v + 64, n, kk, max_itr);
                                        long di = kc_diff(P_idx_c, P_idx_v, 64 + n + 64), dc = kc_diff(P_cen_c, P_cen_v, sizeof P_cen_c);
                                        if (di < 0 && dc < 0) continue;
                                        long ii = di - 64;
                                        MISMATCH(r, vi, "dim=%d block %dx%d n=%d bd=%d k=%d max_itr=%d data pattern '%s'%s%s%s (%d distinct colours), start centroids (array at +%d bytes) {%s} [%s]: "
                                                 "centroids c {%s} simd {%s}%s; first differing index at sample %ld%s: data %d c %d simd %d",
                                                 dim, w, h, n, bd, kk, mode ? max_itr : 0, pal_pat_name(r, p1, hi, n1), dim == 2 ? " / '" : "", dim == 2 ? pal_pat_name(r, p2, hi, n2) : "",
                                                 dim == 2 ? "'" : "", colours, coff * 4, pal_cen_str(P_cen_in, kk, dim, cs), PG_NAME[gen], pal_cen_str(cc, kk, dim, cs2),
                                                 pal_cen_str(cv, kk, dim, cs3), dc >= 0 && (dc / 4 < 64 + coff || dc / 4 >= 64 + coff + kk * dim) ? " (centroid GUARD AREA differs)" : "",
                                                 di < 0 ? -1 : ii, di >= 0 && (ii < 0 || ii >= n) ? " (GUARD AREA)" : "", di >= 0 && ii >= 0 && ii < n ? data[ii * dim] : -1,
                                                 di >= 0 ? P_idx_c[di] : -1, di >= 0 ? P_idx_v[di] : -1);
                                    }
                                }
                        }
                    }
                }
        }
    }
}
void drv_misc_calc_indices(Run *r) { palette_drv(r, 0); }
void drv_misc_kmeans(Run *r) { palette_drv(r, 1); }
