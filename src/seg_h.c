/* seg_h: EncDec segment scheduling (C24).
 *
 * mode=init  wmax= hmax= [rmax= cmax=] : for every picture size (in superblocks) and every segment grid, the real
 *     enc_dec_segments_ctor/init is checked (per-segment superblock sets of the kernel's traversal rule partition the
 *     picture and agree with the initialiser's assignment), and the real assign_enc_dec_segments + real SRM feedback
 *     FIFO are run to completion by one worker with the dependency oracle.
 * mode=sched w= h= cols= rows= workers= : every interleaving of <workers> worker threads running the
 *     mode_decision_kernel loop skeleton over the real assign_enc_dec_segments / SRM (explicit-state mode of sched.c).
 * Oracle: every non-empty segment is handed out exactly once; when a segment starts, the left, upper and upper-right
 * neighbour of each of its superblocks is finished (or inside the segment); the picture completes. */
#define _GNU_SOURCE
#include <stdio.h>
#include <stdlib.h>
#include <string.h>
#include <stdint.h>
#include "EbEncDecSegments.h"
#include "EbEncDecTasks.h"
#include "EbSystemResourceManager.h"
#include "vsched.h"
#include "vutil.h"

extern EbBool assign_enc_dec_segments(EncDecSegments *segmentPtr, uint16_t *segmentInOutIndex, EncDecTasks *taskPtr, EbFifo *srmFifoPtr);

#define ARENA_SZ (1 << 20)
static char   arena[ARENA_SZ] __attribute__((aligned(64)));
static size_t arena_used;
static int    arena_on;
void *__real_malloc(size_t);
void *__real_calloc(size_t, size_t);
void  __real_free(void *);
static void *arena_alloc(size_t n) {
    size_t a = (arena_used + 15) & ~(size_t)15;
    if (a + n > ARENA_SZ) { fprintf(stderr, "arena exhausted\n"); abort(); }
    arena_used = a + n;
    return arena + a;
}
void *__wrap_malloc(size_t n) { return arena_on ? arena_alloc(n) : __real_malloc(n); }
void *__wrap_calloc(size_t a, size_t b) {
    if (!arena_on) return __real_calloc(a, b);
    void *p = arena_alloc(a * b); memset(p, 0, a * b); return p;
}
void __wrap_free(void *p) { if ((char *)p >= arena && (char *)p < arena + ARENA_SZ) return; __real_free(p); }

#define MAXSB 4096
#define MAXSEG 4096
#define MAXW 4
static unsigned PW = 3, PH = 2, COLS = 2, ROWS = 2, NW = 2;
static struct Mon {
    unsigned char sb_done[MAXSB];
    unsigned char seg_state[MAXSEG]; /* 0 never handed out, 1 running, 2 finished */
    unsigned      sb_count, seg_started;
    uint16_t      segidx[MAXW];      /* the kernel's segment_index variable of each worker */
    int           phase[MAXW];
    uint64_t      order_hash;
} mon;
static EncDecSegments   *segs;
static EbSystemResource *tasks;
static char msgbuf[512];
static int  sequential;
static char seq_err[512];
#define FAIL(...) do { snprintf(msgbuf, sizeof msgbuf, __VA_ARGS__); if (sequential) { if (!seq_err[0]) snprintf(seq_err, sizeof seq_err, "%s", msgbuf); return -1; } vs_violation(msgbuf); } while (0)

/* processes one segment the way mode_decision_kernel walks it; yields once in the middle */
static int process_segment(int w, unsigned seg) {
    const EncDecSegments *s = segs;
    if (seg >= s->segment_ttl_count) FAIL("worker %d was handed segment index %u, only %u exist", w, seg, s->segment_ttl_count);
    if (mon.seg_state[seg] != 0) FAIL("segment %u handed out twice (state %d)", seg, mon.seg_state[seg]);
    mon.seg_state[seg] = 1; mon.seg_started++;
    unsigned x0 = s->x_start_array[seg], y0 = s->y_start_array[seg], cnt = s->valid_sb_count_array[seg];
    unsigned row = seg / s->segment_band_count, band = seg - row * s->segment_band_count;
    unsigned band_size = (s->sb_band_count * (band + 1) + s->segment_band_count - 1) / s->segment_band_count;
    if (cnt == 0) FAIL("empty segment %u handed out", seg);
    /* collect the superblocks */
    unsigned list[MAXSB], n = 0, guard = 0;
    for (unsigned y = y0; n < cnt; ++y) {
        if (++guard > 10000) FAIL("segment %u: kernel traversal does not terminate", seg);
        for (unsigned x = x0; x < PW && (x + y < band_size) && n < cnt; ++x) {
            if (y >= PH) FAIL("segment %u: kernel traversal leaves the picture at (%u,%u)", seg, x, y);
            list[n++] = y * PW + x;
        }
        x0 = x0 > 0 ? x0 - 1 : 0;
    }
    /* dependency check at segment start: neighbours outside the segment must be finished */
    for (unsigned k = 0; k < n; k++) {
        unsigned x = list[k] % PW, y = list[k] / PW;
        int nb[3][2] = { { (int)x - 1, (int)y }, { (int)x, (int)y - 1 }, { (int)x + 1, (int)y - 1 } };
        for (int q = 0; q < 3; q++) {
            int nx = nb[q][0], ny = nb[q][1];
            if (nx < 0 || ny < 0 || nx >= (int)PW) continue;
            unsigned ni = (unsigned)ny * PW + (unsigned)nx;
            int inside = 0;
            for (unsigned j = 0; j < k; j++) if (list[j] == ni) inside = 1; /* earlier in this segment's own order */
            if (!inside && !mon.sb_done[ni])
                FAIL("segment %u started before superblock (%d,%d), the %s neighbour of its superblock (%u,%u), was finished",
                     seg, nx, ny, q == 0 ? "left" : q == 1 ? "upper" : "upper-right", x, y);
        }
    }
    if (!sequential) vs_yield(); /* the segment takes time: other workers may run */
    for (unsigned k = 0; k < n; k++) {
        if (mon.sb_done[list[k]]) FAIL("superblock (%u,%u) processed twice", list[k] % PW, list[k] / PW);
        mon.sb_done[list[k]] = 1; mon.sb_count++;
    }
    mon.seg_state[seg] = 2;
    mon.order_hash = mon.order_hash * 1000003u + seg + 1;
    return 0;
}

static void *worker(void *a) {
    int w = (int)(intptr_t)a;
    EbFifo *in = svt_system_resource_get_consumer_fifo(tasks, (uint32_t)w);
    EbFifo *fb = svt_system_resource_get_producer_fifo(tasks, (uint32_t)(1 + w));
    mon.segidx[w] = 0;
    for (;;) {
        EbObjectWrapper *tw = NULL;
        if (svt_get_full_object(in, &tw) == EB_NoErrorFifoShutdown) break;
        EncDecTasks *t = (EncDecTasks *)tw->object_ptr;
        while (assign_enc_dec_segments(segs, &mon.segidx[w], t, fb) == EB_TRUE) process_segment(w, mon.segidx[w]);
        svt_release_object(tw);
    }
    return NULL;
}

static void setup(void) {
    memset(arena, 0, arena_used); arena_used = 0; memset(&mon, 0, sizeof mon);
    arena_on = 1;
    segs = arena_alloc(sizeof *segs); memset(segs, 0, sizeof *segs);
    if (enc_dec_segments_ctor(segs, COLS, ROWS) != EB_ErrorNone) { fprintf(stderr, "ctor failed\n"); abort(); }
    enc_dec_segments_init(segs, COLS, ROWS, PW, PH);
    tasks = arena_alloc(sizeof *tasks); memset(tasks, 0, sizeof *tasks);
    EncDecTasksInitData id = { ROWS };
    /* as in the encoder: one initial task + at most one feedback task per segment row can be in flight */
    if (svt_system_resource_ctor(tasks, ROWS + 2, 1 + NW, NW, enc_dec_tasks_creator, &id, NULL) != EB_ErrorNone) { fprintf(stderr, "srm ctor failed\n"); abort(); }
    arena_on = 0;
}

static void body(void *arg) {
    (void)arg;
    setup();
    vs_hash_region(arena, arena_used);
    vs_hash_region(&mon, sizeof mon);
    void *h[MAXW] = {0};
    for (unsigned w = 0; w < NW; w++) h[w] = vs_thread_create(worker, (void *)(intptr_t)w);
    EbObjectWrapper *tw = NULL;
    svt_get_empty_object(svt_system_resource_get_producer_fifo(tasks, 0), &tw);
    EncDecTasks *t = (EncDecTasks *)tw->object_ptr;
    t->input_type = ENCDEC_TASKS_MDC_INPUT; t->enc_dec_segment_row = 0; t->tile_group_index = 0; t->pcs_wrapper_ptr = NULL;
    svt_post_full_object(tw);
    vs_quiesce();
    if (mon.sb_count != PW * PH) {
        snprintf(msgbuf, sizeof msgbuf, "picture never completes: %u of %u superblocks processed, %u segments started, all workers idle", mon.sb_count, PW * PH, mon.seg_started);
        vs_violation(msgbuf);
    }
    svt_shutdown_process(tasks);
    for (unsigned w = 0; w < NW; w++) vs_thread_join(h[w]);
    vs_outcome(mon.order_hash);
}

/* ---- mode=init */
static int check_init(void) {
    const EncDecSegments *s = segs;
    static int owner[MAXSB];
    for (unsigned i = 0; i < PW * PH; i++) owner[i] = -1;
    unsigned total = 0;
    for (unsigned seg = 0; seg < s->segment_ttl_count; seg++) {
        unsigned cnt = s->valid_sb_count_array[seg];
        if (!cnt) continue;
        total += cnt;
        unsigned x0 = s->x_start_array[seg], y0 = s->y_start_array[seg];
        unsigned row = seg / s->segment_band_count, band = seg - row * s->segment_band_count;
        unsigned band_size = (s->sb_band_count * (band + 1) + s->segment_band_count - 1) / s->segment_band_count;
        unsigned n = 0, guard = 0;
        for (unsigned y = y0; n < cnt; ++y) {
            if (++guard > 10000) FAIL("segment %u: kernel traversal does not terminate", seg);
            for (unsigned x = x0; x < PW && (x + y < band_size) && n < cnt; ++x, ++n) {
                if (y >= PH) FAIL("segment %u: kernel traversal leaves the picture", seg);
                if (owner[y * PW + x] >= 0) FAIL("superblock (%u,%u) belongs to segments %d and %u", x, y, owner[y * PW + x], seg);
                owner[y * PW + x] = (int)seg;
            }
            x0 = x0 > 0 ? x0 - 1 : 0;
        }
    }
    if (total != PW * PH) FAIL("valid_sb_count sums to %u, picture has %u superblocks", total, PW * PH);
    for (unsigned y = 0; y < PH; y++) for (unsigned x = 0; x < PW; x++) {
        unsigned b = BAND_INDEX(x, y, s->segment_band_count, s->sb_band_count), r = ROW_INDEX(y, s->segment_row_count, s->sb_row_count);
        if (owner[y * PW + x] < 0) FAIL("superblock (%u,%u) is in no segment's traversal", x, y);
        if ((unsigned)owner[y * PW + x] != SEGMENT_INDEX(r, b, s->segment_band_count))
            FAIL("superblock (%u,%u) traversed by segment %d but assigned to segment %u by the initialiser", x, y, owner[y * PW + x], SEGMENT_INDEX(r, b, s->segment_band_count));
    }
    return 0;
}
static int run_sequential(void) {
    /* one worker, real assign_enc_dec_segments + real SRM, no scheduler choices */
    EbFifo *in = svt_system_resource_get_consumer_fifo(tasks, 0), *fb = svt_system_resource_get_producer_fifo(tasks, 1);
    EbObjectWrapper *tw = NULL;
    svt_get_empty_object(svt_system_resource_get_producer_fifo(tasks, 0), &tw);
    EncDecTasks *t = (EncDecTasks *)tw->object_ptr;
    t->input_type = ENCDEC_TASKS_MDC_INPUT; t->enc_dec_segment_row = 0; t->tile_group_index = 0; t->pcs_wrapper_ptr = NULL;
    svt_post_full_object(tw);
    uint16_t segidx = 0;
    for (int guard = 0; guard < 100000; guard++) {
        tw = NULL;
        svt_get_full_object_non_blocking(in, &tw);
        if (!tw) break;
        t = (EncDecTasks *)tw->object_ptr;
        while (assign_enc_dec_segments(segs, &segidx, t, fb) == EB_TRUE) if (process_segment(0, segidx)) return -1;
        svt_release_object(tw);
    }
    if (mon.sb_count != PW * PH) FAIL("picture never completes: %u of %u superblocks processed, %u segments started", mon.sb_count, PW * PH, mon.seg_started);
    return 0;
}

/* ---- mode=conform: a trace of real encodes (hook H2) against the model used by modes init/sched */
typedef struct { uint64_t kind, a, b, c, d; } TraceRec;
static int conform(const char *file) {
    FILE *f = fopen(file, "rb");
    if (!f) { printf("{\"error\":\"cannot open trace\"}\n"); return 2; }
    fseek(f, 0, SEEK_END); long sz = ftell(f); fseek(f, 0, SEEK_SET);
    long n = sz / (long)sizeof(TraceRec);
    TraceRec *t = malloc((size_t)sz + 8);
    if (fread(t, sizeof(TraceRec), (size_t)n, f) != (size_t)n) { fclose(f); return 2; }
    fclose(f);
    /* distinct (picture, tile group) */
    unsigned long groups = 0, segs_checked = 0, sbs = 0, bad = 0, multi = 0;
    char first[400] = "";
    static unsigned char used[1 << 20];
    memset(used, 0, sizeof used);
    for (long i = 0; i < n; i++) {
        if (t[i].kind != 0 || used[i]) continue;
        uint64_t pic = t[i].a, tg = t[i].b >> 16;
        PW = (unsigned)(t[i].c >> 16); PH = (unsigned)(t[i].c & 0xffff);
        unsigned bandc = (unsigned)(t[i].d >> 16); ROWS = (unsigned)(t[i].d & 0xffff); COLS = bandc - ROWS + 1;
        groups++;
        if (PW * PH > MAXSB) continue;
        sequential = 1; NW = 1; seq_err[0] = 0;
        setup();
        if (segs->segment_band_count != bandc || segs->segment_row_count != ROWS) snprintf(seq_err, sizeof seq_err, "model grid %ux%u differs from traced band/row count %u/%u", segs->segment_band_count, segs->segment_row_count, bandc, ROWS);
        if (segs->segment_ttl_count > 1) multi++;
        /* replay the events of this (picture, tile group) in real order */
        static long fin_seq[MAXSB]; static unsigned char started[MAXSB];
        for (unsigned k = 0; k < PW * PH; k++) { fin_seq[k] = -1; started[k] = 0; }
        static unsigned pos[MAXSEG]; static unsigned char seg_seen[MAXSEG];
        memset(pos, 0, sizeof pos); memset(seg_seen, 0, sizeof seg_seen);
        unsigned nstart = 0;
        for (long j = i; j < n && !seq_err[0]; j++) {
            if (t[j].a != pic || (t[j].b >> 16) != tg) continue;
            unsigned seg = (unsigned)(t[j].b & 0xffff);
            if (t[j].kind == 0) { used[j] = 1; if (seg >= segs->segment_ttl_count || seg_seen[seg]) snprintf(seq_err, sizeof seq_err, "segment %u started twice or out of range", seg); else seg_seen[seg] = 1; segs_checked++; continue; }
            unsigned x = (unsigned)(t[j].c >> 16), y = (unsigned)(t[j].c & 0xffff);
            if (x >= PW || y >= PH) { snprintf(seq_err, sizeof seq_err, "superblock (%u,%u) outside the %ux%u tile group", x, y, PW, PH); break; }
            unsigned idx = y * PW + x;
            if (t[j].kind == 1) {
                /* model: the pos[seg]-th superblock of this segment's traversal */
                unsigned x0 = segs->x_start_array[seg], y0 = segs->y_start_array[seg], cnt = segs->valid_sb_count_array[seg];
                unsigned row = seg / segs->segment_band_count, band = seg - row * segs->segment_band_count;
                unsigned band_size = (segs->sb_band_count * (band + 1) + segs->segment_band_count - 1) / segs->segment_band_count;
                unsigned k = 0, mx = 0, my = 0, found = 0;
                for (unsigned yy = y0; k < cnt && !found && yy < y0 + PH + 2; ++yy) {
                    for (unsigned xx = x0; xx < PW && (xx + yy < band_size) && k < cnt; ++xx, ++k) if (k == pos[seg]) { mx = xx; my = yy; found = 1; break; }
                    x0 = x0 > 0 ? x0 - 1 : 0;
                }
                if (!found || mx != x || my != y) { snprintf(seq_err, sizeof seq_err, "segment %u: superblock #%u processed by the kernel is (%u,%u), the model's traversal gives (%u,%u)", seg, pos[seg], x, y, mx, my); break; }
                pos[seg]++;
                if (started[idx]) { snprintf(seq_err, sizeof seq_err, "superblock (%u,%u) processed twice", x, y); break; }
                started[idx] = 1; nstart++; sbs++;
                int nb[3][2] = { { (int)x - 1, (int)y }, { (int)x, (int)y - 1 }, { (int)x + 1, (int)y - 1 } };
                for (int q = 0; q < 3; q++) {
                    int nx = nb[q][0], ny = nb[q][1];
                    if (nx < 0 || ny < 0 || nx >= (int)PW) continue;
                    if (fin_seq[ny * (int)PW + nx] < 0) { snprintf(seq_err, sizeof seq_err, "superblock (%u,%u) of segment %u started before its %s neighbour (%d,%d) was finished", x, y, seg, q == 0 ? "left" : q == 1 ? "upper" : "upper-right", nx, ny); break; }
                }
            } else if (t[j].kind == 2) fin_seq[idx] = j;
        }
        if (!seq_err[0] && nstart != PW * PH) snprintf(seq_err, sizeof seq_err, "%u of %u superblocks processed", nstart, PW * PH);
        if (seq_err[0]) { bad++; if (!first[0]) snprintf(first, sizeof first, "picture %llu tile group %llu (%ux%u SB, grid %ux%u): %s", (unsigned long long)pic, (unsigned long long)tg, PW, PH, COLS, ROWS, seq_err); }
    }
    printf("{\"events\":%ld,\"groups\":%lu,\"multi_segment_groups\":%lu,\"segments\":%lu,\"superblocks\":%lu,\"bad\":%lu,\"first\":\"%s\"}\n", n, groups, multi, segs_checked, sbs, bad, first);
    return 0;
}

int main(int argc, char **argv) {
    const char *mode = "sched", *replay = NULL; double dl = 600; int workers = 16; const char *trace = NULL;
    unsigned wmax = 8, hmax = 6, reach = 0;
    for (int i = 1; i < argc; i++) {
        char *eq = strchr(argv[i], '='); if (!eq) continue;
        unsigned v = (unsigned)atoi(eq + 1);
        if (!strncmp(argv[i], "mode=", 5)) mode = eq + 1; else if (!strncmp(argv[i], "w=", 2)) PW = v; else if (!strncmp(argv[i], "h=", 2)) PH = v;
        else if (!strncmp(argv[i], "cols=", 5)) COLS = v; else if (!strncmp(argv[i], "rows=", 5)) ROWS = v; else if (!strncmp(argv[i], "nw=", 3)) NW = v;
        else if (!strncmp(argv[i], "wmax=", 5)) wmax = v; else if (!strncmp(argv[i], "hmax=", 5)) hmax = v; else if (!strncmp(argv[i], "reach=", 6)) reach = v;
        else if (!strncmp(argv[i], "replay=", 7)) replay = eq + 1; else if (!strncmp(argv[i], "deadline=", 9)) dl = atof(eq + 1);
        else if (!strncmp(argv[i], "workers=", 8)) workers = (int)v;
        else if (!strncmp(argv[i], "trace=", 6)) trace = eq + 1;
    }
    if (!strcmp(mode, "conform")) { vs_init(); return conform(trace); }
    if (!strcmp(mode, "init")) {
        vs_init();
        sequential = 1; NW = 1;
        unsigned long cases = 0, bad = 0, multi = 0;
        printf("{\"failures\":[");
        for (PW = 1; PW <= wmax; PW++) for (PH = 1; PH <= hmax; PH++)
            /* requested grids up to 2 beyond the picture in each direction: the initialiser clamps the request to the picture (the
             * encoder requests one grid per sequence and applies it to every tile group, the last of which may be smaller) */
            for (COLS = 1; COLS <= PW + 2 && COLS <= ENCDEC_SEGMENTS_MAX_COL_COUNT; COLS++)
                for (ROWS = 1; ROWS <= PH + 2 && ROWS <= ENCDEC_SEGMENTS_MAX_ROW_COUNT; ROWS++) {
                    if (PW * PH > MAXSB) continue;
                    (void)reach;
                    setup();
                    seq_err[0] = 0; cases++;
                    if (segs->segment_ttl_count > 1) multi++;
                    if (check_init() == 0) run_sequential();
                    if (seq_err[0]) { if (bad < 60) printf("%s{\"w\":%u,\"h\":%u,\"cols\":%u,\"rows\":%u,\"msg\":\"%s\"}", bad ? "," : "", PW, PH, COLS, ROWS, seq_err); bad++; }
                }
        printf("],\"cases\":%lu,\"bad\":%lu,\"multi_segment_cases\":%lu}\n", cases, bad, multi);
        return 0;
    }
    if (PW * PH > MAXSB || NW > MAXW) return 4;
    if (replay) return vs_replay_path(body, NULL, replay);
    return vs_explore(body, NULL, workers, dl);
}
