/* Interface between harnesses and the controlled scheduler (sched.c) or its free-running stub (vs_stub.c). */
#ifndef VSCHED_H
#define VSCHED_H
#include <stdint.h>
#include <stddef.h>

/* Registers the calling thread as thread 0 and reads the schedule (VS_DELAYS / VS_CHOICES) from the environment. */
void vs_init(void);
/* 1 when the controlled scheduler is linked in, 0 for the free-running stub. */
int vs_active(void);
/* Returns when every other thread is blocked (controlled) / after a short sleep (free-running). */
void vs_quiesce(void);
/* A visible operation without effect (explicit scheduling point). */
void vs_yield(void);
/* Report: writes the decision trace summary; returns number of decision points. */
long vs_fini(void);
/* Harness-level threads (run under the scheduler when active). */
typedef void *(*vs_fn)(void *);
void *vs_thread_create(vs_fn f, void *arg);
void vs_thread_join(void *h);
/* hashed harness state (explicit-state mode): bytes the harness wants included in the state hash */
void vs_hash_region(void *p, size_t n);
/* deadlock notification: called by the scheduler in the context of an arbitrary thread when no
 * thread is enabled; default prints state and _exit(3). */
extern void (*vs_on_deadlock)(void);
/* Threads created (svt_create_thread / vs_thread_create) and not yet joined (svt_destroy_thread / vs_thread_join); -1 free-running */
int vs_unjoined(void);
/* Number of decision points so far */
long vs_points(void);
/* explicit-state exploration of body over all interleavings (fork per execution, shared visited set) */
int vs_explore(void (*body)(void *), void *arg, int workers, double deadline_s);
int vs_replay_path(void (*body)(void *), void *arg, const char *digits);
/* report a property violation from a harness monitor (records the choice path, terminates the execution) */
void vs_violation(const char *msg);
/* record a terminal outcome fingerprint (counted as distinct outcomes) */
void vs_outcome(uint64_t h);
#endif
