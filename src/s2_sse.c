/* s2_sse: per-plane sum of squared differences between the submitted pictures and the decoded pictures (C26 oracle).
 *
 * usage: s2_sse <prefix> w h [bits]
 *   <prefix>.src : the N submitted pictures, planar 4:2:0, visible samples only (encdrv with ENCDRV_DUMPSRC=1)
 *   <prefix>.dec : the decoded pictures in output order, repeated {u32 w,h,bpc,len; planar samples} (refdec dump=1)
 * Prints {"nsrc":N,"ndec":M,"bad_dim":k,"sse":[[y,cb,cr],...]} : entry k = SSE(source picture k, decoded picture k),
 * as exact 64-bit integers; the caller truncates to 32 bits.  Nothing of the library under test is linked.
 */
#include <stdint.h>
#include <stdio.h>
#include <stdlib.h>
#include <string.h>

static uint8_t *readall(const char *pre, const char *suf, size_t *n) {
    char fn[1024];
    snprintf(fn, sizeof fn, "%s%s", pre, suf);
    FILE *f = fopen(fn, "rb");
    if (!f) { perror(fn); exit(4); }
    fseek(f, 0, SEEK_END);
    long l = ftell(f);
    fseek(f, 0, SEEK_SET);
    uint8_t *b = malloc((size_t)l + 16);
    if (l && fread(b, 1, (size_t)l, f) != (size_t)l) { perror("read"); exit(4); }
    fclose(f);
    *n = (size_t)l;
    return b;
}

int main(int argc, char **argv) {
    if (argc < 4) { fprintf(stderr, "usage: s2_sse prefix w h [bits]\n"); return 4; }
    int w = atoi(argv[2]), h = atoi(argv[3]), bits = argc > 4 ? atoi(argv[4]) : 8;
    int bps = bits > 8 ? 2 : 1, cw = (w + 1) / 2, ch = (h + 1) / 2;
    size_t pl[3] = { (size_t)w * h, (size_t)cw * ch, (size_t)cw * ch };
    size_t flen = (pl[0] + pl[1] + pl[2]) * (size_t)bps;
    size_t sn, dn;
    uint8_t *src = readall(argv[1], ".src", &sn), *dec = readall(argv[1], ".dec", &dn);
    int nsrc = (int)(sn / flen), ndec = 0, bad_dim = -1;
    printf("{\"nsrc\":%d,\"sse\":[", nsrc);
    size_t o = 0;
    while (o + 16 <= dn) {
        uint32_t hd[4];
        memcpy(hd, dec + o, 16);
        o += 16;
        if (o + hd[3] > dn) break;
        const uint8_t *d = dec + o;
        o += hd[3];
        if ((int)hd[0] != w || (int)hd[1] != h || hd[3] != flen || (hd[2] > 8) != (bits > 8)) {
            if (bad_dim < 0) bad_dim = ndec;
            if (ndec < nsrc) printf("%s[-1,-1,-1]", ndec ? "," : "");
            ndec++;
            continue;
        }
        if (ndec < nsrc) {
            const uint8_t *s = src + (size_t)ndec * flen;
            printf("%s[", ndec ? "," : "");
            for (int p = 0; p < 3; p++) {
                uint64_t sse = 0;
                if (bps == 1) {
                    for (size_t i = 0; i < pl[p]; i++) { int64_t df = (int64_t)s[i] - (int64_t)d[i]; sse += (uint64_t)(df * df); }
                } else {
                    const uint16_t *s16 = (const uint16_t *)s, *d16 = (const uint16_t *)d;
                    for (size_t i = 0; i < pl[p]; i++) { int64_t df = (int64_t)s16[i] - (int64_t)d16[i]; sse += (uint64_t)(df * df); }
                }
                printf("%s%llu", p ? "," : "", (unsigned long long)sse);
                s += pl[p] * (size_t)bps;
                d += pl[p] * (size_t)bps;
            }
            printf("]");
        }
        ndec++;
    }
    printf("],\"ndec\":%d,\"bad_dim\":%d}\n", ndec, bad_dim);
    return 0;
}
