// C07 drivers (group blend, part 3): chroma-from-luma kernels and block subtract / sse / mse
//   svt_cfl_luma_subsampling_420_lbd / _hbd, svt_subtract_average, svt_cfl_predict_lbd / _hbd,
//   svt_aom_subtract_block, svt_aom_highbd_subtract_block, svt_aom_sse, svt_aom_highbd_sse, svt_aom_highbd_8_mse16x16.
//
// Valid domain:
//  * CfL is allowed for luma blocks up to 32x32 (EbDecIntraPrediction.c:183 is_cfl_allowed_with_frame_header; encoder: blk_geom <= 32x32).
//    luma_subsampling_420: width x height of a luma transform block (decoder, EbDecIntraPrediction.c:136/151: tx_size_wide/high, 4..32)
//    or of the luma block (encoder, EbCodingLoop.c:448/831, EbProductCodingLoop.c:3100/3111, >= 8): {4,8,16,32}^2 without 4x32 / 32x4;
//    the input is the reconstructed picture (any stride, position a multiple of 4 pixels), the output a position inside the
//    32x32 int16 CfL buffer (row stride CFL_BUF_LINE; the decoder stores at (row, col) offsets that are multiples of the output block).
//  * svt_subtract_average (EbCodingLoop.c:463/846, EbProductCodingLoop.c:3124): chroma transform / block size {4,8,16,32}^2 (valid
//    transform shapes), round_offset = w*h/2, num_pel_log2 = log2(w*h); input = output of the luma sub-sampling: NON-NEGATIVE Q3
//    values 0 .. 8*(2^bd-1) (the SIMD code zero-extends them).  Inputs are manufactured with the C sub-sampling functions from
//    pixel patterns (luma resolution) and as 8 * pattern (chroma resolution, i.e. luma constant inside each 2x2 quad: reaches the extremes).
//  * svt_cfl_predict_*: every caller passes dst == pred (in place), and pred holds the DC prediction of the chroma transform block,
//    i.e. ONE constant value over the block (EbCodingLoop.c:479, EbProductCodingLoop.c:3151, EbDecIntraPrediction.c:205/217; the SIMD
//    code only reads pred[0] / the first 16 samples).  alpha_q3 = cfl_idx_to_alpha() in -16..16; pred_buf_q3 = AC contribution, the
//    output of svt_subtract_average on valid Q3 luma (manufactured as described); bit_depth 8 (lbd), 8/10/12 (hbd).
//  * subtract_block: (rows, cols) = AV1 block sizes (EbEncInterPrediction.c:589/601/6124.., EbModeDecision.c:227.., 16x16 in
//    EbMotionEstimation.c:3136 / EbRateControlProcess.c); src points into the source picture (multiple of 4 pixels), pred / diff
//    are block buffers.  highbd variant: (uint8_t *) casts of uint16_t pointers, bd 10 by the callers (8/12 have the same code).
//  * svt_aom_sse / svt_aom_highbd_sse (EbEncInterPrediction.c:845/847): (bw, bh) of AV1 block sizes; highbd pointers are plain casts.
//  * svt_aom_highbd_8_mse16x16 (EbPsnr.c:159, used by the restoration search on 16-bit pictures): CONVERT_TO_BYTEPTR pointers,
//    samples of the encoder's bit depths (8 in 16-bit containers, 10), any position / stride.
#include "EbDefinitions.h"
#include "kern_core.h"

#define ALIGN64 __attribute__((aligned(64)))
#define GUARD 64
#define NPMAX 40

const Kern *kc_find_kern(const char *ptr);

static int strides4(int w, int *s) {
    s[0] = w; s[1] = w + 1; s[2] = w + 16; s[3] = 2 * w;
    return 4;
}
static int is_anchor(int p) { return p == PAT_LO || p == PAT_HI || p == PAT_TEXTURE; }
static int ilog2(int v) { int l = 0; while ((1 << l) < v) l++; return l; }

// CfL block shapes: {4,8,16,32}^2 without 4x32 / 32x4 (not transform sizes)
static int cfl_sizes(int (*sz)[2]) {
    int n = 0;
    for (int a = 16; a <= 1024; a *= 2)
        for (int w = 4; w <= 32; w *= 2) {
            int h = a / w;
            if (h * w != a || h < 4 || h > 32 || w > 4 * h || h > 4 * w) continue;
            sz[n][0] = w; sz[n][1] = h; n++;
        }
    return n;
}

// ------------------------------------------------------------------------------------------------ luma sub-sampling
typedef void (*sub_lbd_fn)(const uint8_t *input, int32_t input_stride, int16_t *output_q3, int32_t width, int32_t height);
typedef void (*sub_hbd_fn)(const uint16_t *input, int32_t input_stride, int16_t *output_q3, int32_t width, int32_t height);
typedef void (*subavg_fn)(int16_t *pred_buf_q3, int32_t width, int32_t height, int32_t round_offset, int32_t num_pel_log2);

#define LUMA_ELEMS (GUARD + 64 * 128 + 2 * GUARD)
#define Q3_ELEMS (CFL_BUF_SQUARE + 2 * GUARD)
static uint16_t L16[LUMA_ELEMS] ALIGN64;
static int16_t  Q3C[Q3_ELEMS] ALIGN64, Q3V[Q3_ELEMS] ALIGN64, Q3J[Q3_ELEMS] ALIGN64, Q3I[Q3_ELEMS] ALIGN64;

static void luma_subsampling(Run *r, int hbd) {
    const Kern      *k = r->k;
    static const int BD_L[1] = {8}, BD_H[3] = {8, 10, 12};
    const int       *bds = hbd ? BD_H : BD_L;
    int              nbd = hbd ? 3 : 1, es = hbd ? 2 : 1, sz[16][2], nsz = cfl_sizes(sz);
    char             n0[64];
    kc_junk(Q3J, sizeof Q3J, 7);
    kc_junk(L16, sizeof L16, 3);
    for (int zi = 0; zi < nsz; zi++) {
        int w = sz[zi][0], h = sz[zi][1], st[4];
        strides4(w, st);
        for (int bi = 0; bi < nbd; bi++) {
            long hi = (1L << bds[bi]) - 1;
            int  np = kc_npat(r, 0, hi), ncube = w * h <= 16 ? 1 << (w * h) : 0;
            if (hbd)
                for (size_t i = 0; i < LUMA_ELEMS; i++) L16[i] &= (uint16_t)hi;
            for (int si = 0; si < 4; si++)
                for (int io = 0; io < 2; io++)      // input position: aligned / + 4 pixels
                    for (int oo = 0; oo < 2; oo++)  // output position inside the CfL buffer: 0 / the block to the lower right
                        for (int p = 0; p < np + ((si | io | oo) ? 0 : ncube); p++) {
                            if (r->stop) return;
                            if (case_skip_fast(r)) continue;
                            uint8_t *in = (uint8_t *)L16 + (size_t)(GUARD + io * 4) * es;
                            int      ooff = oo ? (h / 2) * CFL_BUF_LINE + w / 2 : 0;
                            for (int y = 0; y < h; y++)
                                for (int x = 0; x < w; x++) {
                                    long v = p < np ? kc_pat_value(p, x, y, w, h, 0, hi) : (((unsigned)(p - np) >> (y * w + x)) & 1 ? hi : 0);
                                    if (hbd) ((uint16_t *)in)[(size_t)y * st[si] + x] = (uint16_t)v;
                                    else in[(size_t)y * st[si] + x] = (uint8_t)v;
                                }
                            if (!case_begin(r, p >= np ? (p != np && p != np + ncube - 1) : kc_pat_nontrivial(p))) continue;
                            if (p < np) snprintf(n0, sizeof n0, "%s", kc_pat_name(p, 0, hi, n0 + 32));
                            else snprintf(n0, sizeof n0, "cube 0x%x (bit i: sample i = max)", p - np);
                            memcpy(Q3C, Q3J, sizeof Q3C);
                            if (hbd) ((sub_hbd_fn)k->c)((uint16_t *)in, st[si], Q3C + GUARD + ooff, w, h);
                            else ((sub_lbd_fn)k->c)(in, st[si], Q3C + GUARD + ooff, w, h);
                            VERBOSE(r, "case %lld: luma %dx%d pixel range 0..%ld input_stride=%d input offset %d output offset %d input=%s -> c out[0..1] = %d %d",
                                    r->case_idx - 1, w, h, hi, st[si], io * 4, ooff, n0, Q3C[GUARD + ooff], Q3C[GUARD + ooff + 1]);
                            for (int vi = 0; vi < k->nv; vi++) {
                                if (!var_on(r, vi)) continue;
                                memcpy(Q3V, Q3J, sizeof Q3V);
                                if (hbd) ((sub_hbd_fn)k->v[vi].fn)((uint16_t *)in, st[si], Q3V + GUARD + ooff, w, h);
                                else ((sub_lbd_fn)k->v[vi].fn)(in, st[si], Q3V + GUARD + ooff, w, h);
                                long d = kc_diff(Q3C, Q3V, sizeof Q3C);
                                if (d >= 0) {
                                    d /= 2;
                                    long o = d - GUARD - ooff;
                                    MISMATCH(r, vi, "luma block %dx%d, pixel range 0..%ld, input_stride=%d, input offset %d pixels, output at CfL buffer offset %d (row stride %d), input pattern '%s': first difference at output offset %ld relative to output_q3 (row %ld col %ld): c=%d simd=%d",
                                             w, h, hi, st[si], io * 4, ooff, CFL_BUF_LINE, n0, o, o >= 0 ? o / CFL_BUF_LINE : -1, o >= 0 ? o % CFL_BUF_LINE : o, Q3C[d], Q3V[d]);
                                }
                            }
                        }
        }
    }
}
void drv_cfl_subsample_lbd(Run *r) { luma_subsampling(r, 0); }
void drv_cfl_subsample_hbd(Run *r) { luma_subsampling(r, 1); }

// Q3 luma of a w x h chroma block in Q3I + GUARD (row stride CFL_BUF_LINE). q < np: 8 * chroma-resolution pattern q;
// q >= np: C sub-sampling of luma-resolution (2w x 2h) pattern q - np
static int make_q3(int q, int np, int w, int h, int bd) {
    long hi = (1L << bd) - 1;
    if (q < np) {
        for (int y = 0; y < h; y++)
            for (int x = 0; x < w; x++) Q3I[GUARD + y * CFL_BUF_LINE + x] = (int16_t)(8 * kc_pat_value(q, x, y, w, h, 0, hi));
        return kc_pat_nontrivial(q);
    }
    const Kern *sk = kc_find_kern(bd == 8 ? "svt_cfl_luma_subsampling_420_lbd" : "svt_cfl_luma_subsampling_420_hbd");
    int         lw = 2 * w, lh = 2 * h;
    for (int y = 0; y < lh; y++)
        for (int x = 0; x < lw; x++) {
            long v = kc_pat_value(q - np, x, y, lw, lh, 0, hi);
            if (bd == 8) ((uint8_t *)L16)[GUARD + y * lw + x] = (uint8_t)v;
            else L16[GUARD + y * lw + x] = (uint16_t)v;
        }
    if (bd == 8) ((sub_lbd_fn)sk->c)((uint8_t *)L16 + GUARD, lw, Q3I + GUARD, lw, lh);
    else ((sub_hbd_fn)sk->c)(L16 + GUARD, lw, Q3I + GUARD, lw, lh);
    return kc_pat_nontrivial(q - np);
}
static const char *q3_name(int q, int np, long hi, char *buf) {
    char t[32];
    if (q < np) sprintf(buf, "8 * chroma-resolution pattern '%s'", kc_pat_name(q, 0, hi, t));
    else sprintf(buf, "C 4:2:0 sub-sampling of luma pattern '%s'", kc_pat_name(q - np, 0, hi, t));
    return buf;
}

void drv_cfl_subtract_average(Run *r) {
    const Kern      *k = r->k;
    static const int BD[3] = {8, 10, 12};
    int              sz[16][2], nsz = cfl_sizes(sz);
    char             n0[96];
    if (!kc_find_kern("svt_cfl_luma_subsampling_420_lbd") || !kc_find_kern("svt_cfl_luma_subsampling_420_hbd")) return;
    kc_junk(Q3J, sizeof Q3J, 7);
    for (int zi = 0; zi < nsz; zi++) {
        int w = sz[zi][0], h = sz[zi][1];
        for (int bi = 0; bi < 3; bi++) {
            int  bd = BD[bi];
            long hi = (1L << bd) - 1;
            int  np = kc_npat(r, 0, hi);
            // + 9 rounding-boundary inputs: luma constant p (0, mid, near max) except the top-left 2x2 quad, raised so that the Q3 sum is
            // N * 8p + N/2 + {-2, 0, +2} (the average is exactly on / next to the rounding boundary)
            for (int q = 0; q < 2 * np + 9; q++) {
                if (r->stop) return;
                if (case_skip_fast(r)) continue;
                memcpy(Q3I, Q3J, sizeof Q3I);
                int nt = 1;
                if (q < 2 * np) nt = make_q3(q, np, w, h, bd);
                else {
                    int  j = q - 2 * np, N = w * h;
                    long pv = j / 3 == 0 ? 0 : j / 3 == 1 ? (hi + 1) / 2 : hi - N / 16 - 1, delta = N / 2 + (j % 3 - 1) * 2;
                    for (int y = 0; y < h; y++)
                        for (int x = 0; x < w; x++) Q3I[GUARD + y * CFL_BUF_LINE + x] = (int16_t)(8 * pv);
                    Q3I[GUARD] = (int16_t)(8 * pv + delta);
                    snprintf(n0, sizeof n0, "Q3 of luma constant %ld, first sample + %ld", pv, delta);
                }
                if (!case_begin(r, nt)) continue;
                if (q < 2 * np) q3_name(q, np, hi, n0);
                int ro = w * h / 2, nl = ilog2(w) + ilog2(h);
                memcpy(Q3C, Q3I, sizeof Q3C);
                ((subavg_fn)k->c)(Q3C + GUARD, w, h, ro, nl);
                VERBOSE(r, "case %lld: %dx%d bd=%d round_offset=%d num_pel_log2=%d input=%s; in[0]=%d -> c out[0..1] = %d %d", r->case_idx - 1, w, h, bd, ro,
                        nl, n0, Q3I[GUARD], Q3C[GUARD], Q3C[GUARD + 1]);
                for (int vi = 0; vi < k->nv; vi++) {
                    if (!var_on(r, vi)) continue;
                    memcpy(Q3V, Q3I, sizeof Q3V);
                    ((subavg_fn)k->v[vi].fn)(Q3V + GUARD, w, h, ro, nl);
                    long d = kc_diff(Q3C, Q3V, sizeof Q3C);
                    if (d >= 0) {
                        d /= 2;
                        long o = d - GUARD;
                        MISMATCH(r, vi, "%dx%d (Q3 luma of %d-bit pixels, row stride %d) round_offset=%d num_pel_log2=%d, input %s: first difference at offset %ld (row %ld col %ld): input %d, c=%d simd=%d",
                                 w, h, bd, CFL_BUF_LINE, ro, nl, n0, o, o >= 0 ? o / CFL_BUF_LINE : -1, o >= 0 ? o % CFL_BUF_LINE : o, Q3I[d],
                                 Q3C[d], Q3V[d]);
                    }
                }
            }
        }
    }
}

// ------------------------------------------------------------------------------------------------ CfL prediction
typedef void (*pred_lbd_fn)(const int16_t *q3, uint8_t *pred, int32_t pred_stride, uint8_t *dst, int32_t dst_stride, int32_t alpha_q3, int32_t bd,
                            int32_t w, int32_t h);
typedef void (*pred_hbd_fn)(const int16_t *q3, uint16_t *pred, int32_t pred_stride, uint16_t *dst, int32_t dst_stride, int32_t alpha_q3, int32_t bd,
                            int32_t w, int32_t h);
#define PD_ELEMS (GUARD + 32 * 64 + 2 * GUARD)
static uint16_t PDP[PD_ELEMS] ALIGN64, PDC[PD_ELEMS] ALIGN64, PDV[PD_ELEMS] ALIGN64, PDJ[PD_ELEMS] ALIGN64;

static void cfl_predict(Run *r, int hbd) {
    const Kern      *k = r->k;
    static const int BD_L[1] = {8}, BD_H[3] = {8, 10, 12};
    const int       *bds = hbd ? BD_H : BD_L;
    int              nbd = hbd ? 3 : 1, es = hbd ? 2 : 1, sz[16][2], nsz = cfl_sizes(sz);
    char             n0[96];
    const Kern      *ak = kc_find_kern("svt_subtract_average");
    if (!ak || !kc_find_kern("svt_cfl_luma_subsampling_420_lbd") || !kc_find_kern("svt_cfl_luma_subsampling_420_hbd")) return;
    kc_junk(Q3J, sizeof Q3J, 7);
    kc_junk(PDJ, sizeof PDJ, 9);
    for (int zi = 0; zi < nsz; zi++) {
        int w = sz[zi][0], h = sz[zi][1], st[4];
        strides4(w, st);
        for (int bi = 0; bi < nbd; bi++) {
            int  bd = bds[bi];
            long hi = (1L << bd) - 1, mid = (hi + 1) / 2;
            int  np = kc_npat(r, 0, hi);
            long dcs[6] = {0, 1, mid - 1, mid, hi - 1, hi};
            for (int q = 0; q < 2 * np; q++) {
                int made = 0, nt = 0;
                // stride configurations 0,1,3: in place (dst == pred, as every caller); 2: separate prediction buffer
                for (int cfg = 0; cfg < 4; cfg++)
                    for (int di = 0; di < 6; di++)
                        for (int alpha = -16; alpha <= 16; alpha++) {
                            if (r->stop) return;
                            if (case_skip_fast(r)) continue;
                            if (!made) {
                                memcpy(Q3I, Q3J, sizeof Q3I);
                                nt = make_q3(q, np, w, h, bd);
                                ((subavg_fn)ak->c)(Q3I + GUARD, w, h, w * h / 2, ilog2(w) + ilog2(h));
                                made = 1;
                            }
                            if (!case_begin(r, nt)) continue;
                            int    stride = st[cfg], inplace = cfg != 2;
                            size_t nb = (size_t)(GUARD + h * stride + GUARD) * es;
                            for (int run = 0; run <= k->nv; run++) {
                                uint16_t *D = run ? PDV : PDC;
                                void     *fn = run ? k->v[run - 1].fn : k->c;
                                if (run && !var_on(r, run - 1)) continue;
                                memcpy(D, PDJ, nb);
                                uint8_t *d8 = (uint8_t *)D + GUARD * es, *p8 = inplace ? d8 : (uint8_t *)PDP + GUARD * es;
                                for (int y = 0; y < h; y++)
                                    for (int x = 0; x < w; x++) {
                                        if (hbd) ((uint16_t *)p8)[y * stride + x] = (uint16_t)dcs[di];
                                        else p8[y * stride + x] = (uint8_t)dcs[di];
                                    }
                                if (hbd) ((pred_hbd_fn)fn)(Q3I + GUARD, (uint16_t *)p8, stride, (uint16_t *)d8, stride, alpha, bd, w, h);
                                else ((pred_lbd_fn)fn)(Q3I + GUARD, p8, stride, d8, stride, alpha, bd, w, h);
                                if (!run) {
                                    VERBOSE(r, "case %lld: %dx%d bd=%d alpha_q3=%d dc=%ld stride=%d %s ac = subtract_average_c(%s); ac[0..1] = %d %d -> c dst[0..1] = %d %d",
                                            r->case_idx - 1, w, h, bd, alpha, dcs[di], stride, inplace ? "in place" : "pred separate", q3_name(q, np, hi, n0),
                                            Q3I[GUARD], Q3I[GUARD + 1], hbd ? PDC[GUARD] : ((uint8_t *)PDC)[GUARD], hbd ? PDC[GUARD + 1] : ((uint8_t *)PDC)[GUARD + 1]);
                                    continue;
                                }
                                long d = kc_diff(PDC, PDV, nb);
                                if (d >= 0) {
                                    d /= es;
                                    long o = d - GUARD, row = o >= 0 ? o / stride : -1, col = o >= 0 ? o % stride : o;
                                    MISMATCH(r, run - 1, "%dx%d bit_depth=%d alpha_q3=%d DC prediction value %ld, stride=%d, %s, pred_buf_q3 = svt_subtract_average_c(%s): first difference at dst offset %ld (row %ld col %ld; ac there %d): c=%d simd=%d",
                                             w, h, bd, alpha, dcs[di], stride, inplace ? "in place (dst == pred)" : "pred in a separate buffer", q3_name(q, np, hi, n0), o,
                                             row, col, (row >= 0 && row < h && col < w) ? Q3I[GUARD + row * CFL_BUF_LINE + col] : 0,
                                             hbd ? PDC[d] : ((uint8_t *)PDC)[d], hbd ? PDV[d] : ((uint8_t *)PDV)[d]);
                                }
                            }
                        }
            }
        }
    }
}
void drv_cfl_predict_lbd(Run *r) { cfl_predict(r, 0); }
void drv_cfl_predict_hbd(Run *r) { cfl_predict(r, 1); }

// ------------------------------------------------------------------------------------------------ subtract / sse / mse
#define MAXW 128
#define BLK_ELEMS (GUARD + MAXW * 2 * MAXW + 2 * GUARD)
static uint16_t BA[BLK_ELEMS] ALIGN64, BB[BLK_ELEMS] ALIGN64;
static int16_t  DFC[BLK_ELEMS] ALIGN64, DFV[BLK_ELEMS] ALIGN64, DFJ[BLK_ELEMS] ALIGN64;
static uint16_t PC[NPMAX][MAXW * MAXW];

static int av1_sizes(int (*sz)[2]) {
    int n = 0;
    for (int a = 16; a <= 128 * 128; a *= 2)
        for (int w = 4; w <= 128; w *= 2) {
            int h = a / w;
            if (h * w != a || h < 4 || h > 128 || w > 4 * h || h > 4 * w) continue;
            if ((w == 128 || h == 128) && (w < 64 || h < 64)) continue;
            sz[n][0] = w; sz[n][1] = h; n++;
        }
    return n;
}
static void cache_build(int np, int w, int h, long lo, long hi) {
    for (int p = 0; p < np; p++)
        for (int y = 0; y < h; y++)
            for (int x = 0; x < w; x++) PC[p][y * w + x] = (uint16_t)kc_pat_value(p, x, y, w, h, lo, hi);
}
// pattern p (< np) from the cache, or value-pair sweep block (p >= np): sample i of sweep block t is the a- (which = 0) / b- (which = 1)
// component of pair number (t * w * h + i) of the (hi+1)^2 value pairs
static void put_block(void *dst, int stride, int w, int h, int es, int p, int np, long hi, int which) {
    for (int y = 0; y < h; y++)
        for (int x = 0; x < w; x++) {
            long v;
            if (p < np) v = PC[p][y * w + x];
            else {
                long pair = ((long)(p - np) * w * h + y * w + x) % ((hi + 1) * (hi + 1));
                v = which ? pair % (hi + 1) : pair / (hi + 1);
            }
            if (es == 2) ((uint16_t *)dst)[(size_t)y * stride + x] = (uint16_t)v;
            else ((uint8_t *)dst)[(size_t)y * stride + x] = (uint8_t)v;
        }
}
static const char *blk_name(int p, int np, long hi, int which, char *buf) {
    if (p < np) return kc_pat_name(p, 0, hi, buf);
    sprintf(buf, "sweep %d: sample i = %s of value pair (%d*w*h + i)", p - np, which ? "b" : "a", p - np);
    return buf;
}

typedef void (*subblk_fn)(int rows, int cols, int16_t *diff, ptrdiff_t diff_stride, const uint8_t *src, ptrdiff_t src_stride, const uint8_t *pred,
                          ptrdiff_t pred_stride);
typedef void (*subblk_hbd_fn)(int rows, int cols, int16_t *diff, ptrdiff_t diff_stride, const uint8_t *src, ptrdiff_t src_stride, const uint8_t *pred,
                              ptrdiff_t pred_stride, int bd);
typedef int64_t (*sse_fn)(const uint8_t *a, int a_stride, const uint8_t *b, int b_stride, int width, int height);
typedef void (*mse_fn)(const uint8_t *a, int32_t a_stride, const uint8_t *b, int32_t b_stride, uint32_t *sse);

// number of value-pair sweep blocks of a size: all (hi+1)^2 (a, b) pairs; only for one size per width class and bounded work
static int sweep_blocks(Run *r, int w, int h, long hi) {
    static const int SW[6][2] = {{4, 16}, {8, 32}, {16, 64}, {32, 64}, {64, 64}, {128, 128}};
    int              ok = 0;
    for (int i = 0; i < 6; i++) ok |= SW[i][0] == w && SW[i][1] == h;
    if (!ok) return 0;
    long pairs = (hi + 1) * (hi + 1);
    if (pairs > (r->thorough ? (1L << 24) : (1L << 20))) return 0; // 12-bit pairs only in the thorough tier
    if (hi > 1023 && !(w == 64 && h == 64)) return 0;                // and only for one size
    return (int)((pairs + (long)w * h - 1) / ((long)w * h));
}

// kind 0: subtract_block, 1: highbd_subtract_block, 2: sse, 3: highbd_sse
static void two_blocks(Run *r, int kind) {
    const Kern      *k = r->k;
    static const int BD_L[1] = {8}, BD_H[3] = {8, 10, 12};
    int              hbd = kind & 1, es = hbd ? 2 : 1, sz[32][2], nsz = av1_sizes(sz);
    const int       *bds = hbd ? BD_H : BD_L;
    int              nbd = hbd ? 3 : 1;
    char             n0[96], n1[96];
    kc_junk(DFJ, sizeof DFJ, 7);
    kc_junk(BA, sizeof BA, 3);
    kc_junk(BB, sizeof BB, 4);
    for (int zi = 0; zi < nsz; zi++) {
        int w = sz[zi][0], h = sz[zi][1], st[4];
        strides4(w, st);
        for (int bi = 0; bi < nbd; bi++) {
            int  bd = bds[bi];
            long hi = (1L << bd) - 1;
            int  np = kc_npat(r, 0, hi), nsw = sweep_blocks(r, w, h, hi);
            cache_build(np, w, h, 0, hi);
            if (hbd)
                for (size_t i = 0; i < BLK_ELEMS; i++) { BA[i] &= (uint16_t)hi; BB[i] &= (uint16_t)hi; }
            // configuration: strides rotated over (diff, a, b); a (the source picture) additionally at +4 pixels in configurations 1 and 3
            for (int cfg = 0; cfg < 4; cfg++) {
                int ds = st[cfg], as = st[(cfg + 1) & 3], bs = st[(cfg + 2) & 3], aoff = (cfg & 1) ? 4 : 0;
                // pair set levels: 2 all pairs, 1 an anchor (min, max, texture) on either side or equal patterns, 0 both anchors or equal.
                // quick: blocks <= 1024 samples level 2, larger blocks level 1 (configuration 0) / 0; thorough: level 2, larger blocks 2 / 1
                int small = w * h <= 1024;
                int level = r->thorough ? ((small || cfg == 0) ? 2 : 1) : (small ? 2 : (cfg == 0 ? 1 : 0));
                for (int pa = 0; pa < np + (cfg == 0 ? nsw : 0); pa++) {
                    int loaded = 0;
                    for (int pb = 0; pb < (pa < np ? np : 1); pb++) {
                        if (r->stop) return;
                        if (pa < np && level == 1 && !(is_anchor(pa) || is_anchor(pb) || pa == pb)) continue;
                        if (pa < np && level == 0 && !((is_anchor(pa) && is_anchor(pb)) || pa == pb)) continue;
                        if (case_skip_fast(r)) continue;
                        int      pbb = pa < np ? pb : pa;
                        uint8_t *a8 = (uint8_t *)BA + (size_t)(GUARD + aoff) * es, *b8 = (uint8_t *)BB + (size_t)GUARD * es;
                        if (!loaded) { put_block(a8, as, w, h, es, pa, np, hi, 0); loaded = 1; }
                        put_block(b8, bs, w, h, es, pbb, np, hi, 1);
                        if (!case_begin(r, pa >= np || kc_pat_nontrivial(pa) || kc_pat_nontrivial(pb))) continue;
                        size_t  nb = (size_t)(GUARD + h * ds + GUARD) * 2;
                        int64_t c_ret = 0;
                        if (kind < 2) {
                            memcpy(DFC, DFJ, nb);
                            if (kind == 0) ((subblk_fn)k->c)(h, w, DFC + GUARD, ds, a8, as, b8, bs);
                            else ((subblk_hbd_fn)k->c)(h, w, DFC + GUARD, ds, a8, as, b8, bs, bd);
                        } else c_ret = ((sse_fn)k->c)(a8, as, b8, bs, w, h);
                        VERBOSE(r, "case %lld: %dx%d pixel range 0..%ld strides diff=%d a=%d b=%d a offset %d a=%s b=%s -> c %s %lld", r->case_idx - 1, w, h, hi,
                                kind < 2 ? ds : 0, as, bs, aoff, blk_name(pa, np, hi, 0, n0), blk_name(pbb, np, hi, 1, n1), kind < 2 ? "diff[0] =" : "returns",
                                kind < 2 ? (long long)DFC[GUARD] : (long long)c_ret);
                        for (int vi = 0; vi < k->nv; vi++) {
                            if (!var_on(r, vi)) continue;
                            if (kind < 2) {
                                memcpy(DFV, DFJ, nb);
                                if (kind == 0) ((subblk_fn)k->v[vi].fn)(h, w, DFV + GUARD, ds, a8, as, b8, bs);
                                else ((subblk_hbd_fn)k->v[vi].fn)(h, w, DFV + GUARD, ds, a8, as, b8, bs, bd);
                                long d = kc_diff(DFC, DFV, nb);
                                if (d >= 0) {
                                    d /= 2;
                                    long o = d - GUARD;
                                    MISMATCH(r, vi, "rows=%d cols=%d pixel range 0..%ld diff_stride=%d src_stride=%d pred_stride=%d src offset %d, src '%s' pred '%s': first difference at diff offset %ld (row %ld col %ld): c=%d simd=%d",
                                             h, w, hi, ds, as, bs, aoff, blk_name(pa, np, hi, 0, n0), blk_name(pbb, np, hi, 1, n1), o, o >= 0 ? o / ds : -1,
                                             o >= 0 ? o % ds : o, DFC[d], DFV[d]);
                                }
                            } else {
                                int64_t v_ret = ((sse_fn)k->v[vi].fn)(a8, as, b8, bs, w, h);
                                if (v_ret != c_ret)
                                    MISMATCH(r, vi, "width=%d height=%d pixel range 0..%ld a_stride=%d b_stride=%d a offset %d, a '%s' b '%s': c returns %lld, simd returns %lld",
                                             w, h, hi, as, bs, aoff, blk_name(pa, np, hi, 0, n0), blk_name(pbb, np, hi, 1, n1), (long long)c_ret, (long long)v_ret);
                            }
                        }
                    }
                }
            }
        }
    }
}
void drv_subtract_block(Run *r) { two_blocks(r, 0); }
void drv_subtract_block_hbd(Run *r) { two_blocks(r, 1); }
void drv_sse_wxh(Run *r) { two_blocks(r, 2); }
void drv_sse_wxh_hbd(Run *r) { two_blocks(r, 3); }

// svt_aom_highbd_8_mse16x16: CONVERT_TO_BYTEPTR pointers, *sse only
void drv_mse_void_hbd8(Run *r) {
    const Kern      *k = r->k;
    static const int BD[2] = {8, 10};
    int              w = 16, h = 16, st[4];
    char             n0[32], n1[32];
    strides4(w, st);
    kc_junk(BA, sizeof BA, 3);
    kc_junk(BB, sizeof BB, 4);
    for (int bi = 0; bi < 2; bi++) {
        long hi = (1L << BD[bi]) - 1;
        int  np = kc_npat(r, 0, hi);
        cache_build(np, w, h, 0, hi);
        for (size_t i = 0; i < BLK_ELEMS; i++) { BA[i] &= (uint16_t)hi; BB[i] &= (uint16_t)hi; }
        for (int sa = 0; sa < 4; sa++)
            for (int sb = 0; sb < 4; sb++)
                for (int off = 0; off < 4; off++) // pictures are addressed at arbitrary sample positions
                    for (int pa = 0; pa < np; pa++)
                        for (int pb = 0; pb < np; pb++) {
                            if (r->stop) return;
                            if (case_skip_fast(r)) continue;
                            uint16_t *a = BA + GUARD + (off & 1), *b = BB + GUARD + (off >> 1);
                            put_block(a, st[sa], w, h, 2, pa, np, hi, 0);
                            put_block(b, st[sb], w, h, 2, pb, np, hi, 1);
                            if (!case_begin(r, kc_pat_nontrivial(pa) || kc_pat_nontrivial(pb))) continue;
                            uint32_t c_sse = 0xA5A5A5A5u;
                            ((mse_fn)k->c)(CONVERT_TO_BYTEPTR_(a), st[sa], CONVERT_TO_BYTEPTR_(b), st[sb], &c_sse);
                            VERBOSE(r, "case %lld: 16x16 pixel range 0..%ld strides %d/%d offsets %d/%d src=%s ref=%s -> c sse=%u", r->case_idx - 1, hi, st[sa], st[sb],
                                    off & 1, off >> 1, kc_pat_name(pa, 0, hi, n0), kc_pat_name(pb, 0, hi, n1), c_sse);
                            for (int vi = 0; vi < k->nv; vi++) {
                                if (!var_on(r, vi)) continue;
                                uint32_t v_sse = 0xA5A5A5A5u;
                                ((mse_fn)k->v[vi].fn)(CONVERT_TO_BYTEPTR_(a), st[sa], CONVERT_TO_BYTEPTR_(b), st[sb], &v_sse);
                                if (v_sse != c_sse)
                                    MISMATCH(r, vi, "16x16 pixel range 0..%ld (uint16 samples, CONVERT_TO_BYTEPTR pointers) src_stride=%d ref_stride=%d src offset %d ref offset %d src pattern '%s' ref pattern '%s': c sse %u, simd sse %u",
                                             hi, st[sa], st[sb], off & 1, off >> 1, kc_pat_name(pa, 0, hi, n0), kc_pat_name(pb, 0, hi, n1), c_sse, v_sse);
                            }
                        }
    }
}
