/* api_h: executes a history of public API calls (C14).  usage: api_h op op op ...
 * Prints "<op> <return code>" after each call; a watchdog alarm (API_WATCHDOG_S, default 20 s) aborts calls that block
 * (exit 9 + line "WATCHDOG <op>"); the Python side re-runs such a history alone with a long limit before calling it blocked. */
#define _GNU_SOURCE
#include <stdio.h>
#include <stdlib.h>
#include <string.h>
#include <signal.h>
#include <unistd.h>
#include "EbSvtAv1Enc.h"
#include "EbSvtAv1Dec.h"
#include "param_fields.h"

static const char *cur_op = "";
static void on_alarm(int s) { (void)s; printf("WATCHDOG %s\n", cur_op); fflush(stdout); _exit(9); }
static void on_sig(int s) { printf("SIGNAL %d %s\n", s, cur_op); fflush(stdout); _exit(10); }

static EbComponentType *eh, *dh;
static EbSvtAv1EncConfiguration ecfg;
static EbSvtAv1DecConfiguration dcfg;
static EbBufferHeaderType *held; /* packet obtained and not yet released */
static int sent, got, eos_sent;
static uint8_t *tu; static size_t tu_len;

static void valid_cfg(void) {
    ecfg.source_width = 64; ecfg.source_height = 64; ecfg.logical_processors = 1; ecfg.enc_mode = 8;
    ecfg.hierarchical_levels = 0; ecfg.recon_enabled = 1; ecfg.qp = 30; ecfg.encoder_bit_depth = 8;
}
static EbErrorType send_pic(int eos) {
    static uint8_t buf[64 * 64 * 3 / 2];
    EbSvtIOFormat io; memset(&io, 0, sizeof io);
    for (int i = 0; i < 64 * 64; i++) buf[i] = (uint8_t)(i * 7 + sent * 13);
    memset(buf + 64 * 64, 128, 64 * 64 / 2);
    io.luma = buf; io.cb = buf + 64 * 64; io.cr = buf + 64 * 64 + 32 * 32; io.y_stride = 64; io.cb_stride = io.cr_stride = 32;
    io.width = 64; io.height = 64; io.color_fmt = EB_YUV420; io.bit_depth = EB_EIGHT_BIT;
    EbBufferHeaderType h; memset(&h, 0, sizeof h);
    h.size = sizeof h; h.pic_type = EB_AV1_INVALID_PICTURE;
    if (eos) h.flags = EB_BUFFERFLAG_EOS; else { h.p_buffer = (uint8_t *)&io; h.n_filled_len = sizeof buf; h.pts = sent; }
    EbErrorType e = svt_av1_enc_send_picture(eh, &h);
    if (!eos) sent++; else eos_sent = 1;
    return e;
}

int main(int argc, char **argv) {
    signal(SIGALRM, on_alarm);
    signal(SIGSEGV, on_sig); signal(SIGBUS, on_sig); signal(SIGABRT, on_sig); signal(SIGFPE, on_sig); signal(SIGILL, on_sig);
    setvbuf(stdout, NULL, _IOLBF, 0);
    { FILE *f = fopen(getenv("API_TU") ? getenv("API_TU") : "/nonexistent", "rb");
      if (f) { tu = malloc(1 << 20); tu_len = fread(tu, 1, 1 << 20, f); fclose(f); } }
    static uint8_t reconbuf[64 * 64 * 4];
    if (argc > 1 && !strcmp(argv[1], "LAYOUT")) { /* names of every configuration element */
        char nb[160];
        for (int k = 0; k < P_NFIELDS; k++) for (int a = 0; a < pfields[k].outer; a++) for (int b = 0; b < pfields[k].inner; b++)
            printf("%s\n", pf_name(&pfields[k], a, b, nb, sizeof nb));
        return 0;
    }
    for (int i = 1; i < argc; i++) {
        const char *op = argv[i];
        long rc = -12345;
        cur_op = op;
        alarm(getenv("API_WATCHDOG_S") ? (unsigned)atoi(getenv("API_WATCHDOG_S")) : 20);
        /* ---------------- encoder */
        if (!strcmp(op, "IH_NULLP")) rc = svt_av1_enc_init_handle(NULL, NULL, &ecfg);
        else if (!strcmp(op, "IH_NULLC")) { EbComponentType *t = NULL; rc = svt_av1_enc_init_handle(&t, NULL, NULL); if (rc == 0 && t) { svt_av1_enc_deinit_handle(t); } }
        else if (!strcmp(op, "IH")) { memset(&ecfg, 0, sizeof ecfg); rc = svt_av1_enc_init_handle(&eh, NULL, &ecfg); }
        else if (!strcmp(op, "SP_NULLH")) { valid_cfg(); rc = svt_av1_enc_set_parameter(NULL, &ecfg); }
        else if (!strcmp(op, "SP_NULLC")) rc = svt_av1_enc_set_parameter(eh, NULL);
        else if (!strcmp(op, "SP_BAD1")) { valid_cfg(); ecfg.qp = 100; rc = svt_av1_enc_set_parameter(eh, &ecfg); }
        else if (!strcmp(op, "SP_BAD2")) { valid_cfg(); ecfg.source_width = 0; rc = svt_av1_enc_set_parameter(eh, &ecfg); }
        else if (!strcmp(op, "SP_BAD3")) { valid_cfg(); ecfg.hierarchical_levels = 9; rc = svt_av1_enc_set_parameter(eh, &ecfg); }
        else if (!strncmp(op, "SPX:", 4)) { /* SPX:field=value[,field=value]: valid configuration with the named elements overwritten */
            valid_cfg();
            EbSvtAv1EncConfiguration xc = ecfg; /* the deviation must not leak into later SP calls */
            char *a = strdup(op + 4), *sv = NULL;
            for (char *t = strtok_r(a, ",", &sv); t; t = strtok_r(NULL, ",", &sv)) {
                char *eq = strchr(t, '='); int pi, pj, k;
                if (!eq) { printf("UNKNOWN %s\n", op); return 4; }
                *eq = 0;
                if ((k = pf_find(t, &pi, &pj)) < 0) { printf("UNKNOWN %s\n", op); return 4; }
                pf_put(&xc, &pfields[k], pi, pj, strtoll(eq + 1, NULL, 0));
            }
            free(a);
            rc = svt_av1_enc_set_parameter(eh, &xc);
        }
        else if (!strcmp(op, "SP")) { valid_cfg(); rc = svt_av1_enc_set_parameter(eh, &ecfg); }
        else if (!strcmp(op, "IN_NULL")) rc = svt_av1_enc_init(NULL);
        else if (!strcmp(op, "IN")) rc = svt_av1_enc_init(eh);
        else if (!strcmp(op, "SH_NULLH")) { EbBufferHeaderType *o = NULL; rc = svt_av1_enc_stream_header(NULL, &o); }
        else if (!strcmp(op, "SH_NULLO")) rc = svt_av1_enc_stream_header(eh, NULL);
        else if (!strcmp(op, "SH")) { EbBufferHeaderType *o = NULL; rc = svt_av1_enc_stream_header(eh, &o); if (rc == 0 && o) { long r2 = svt_av1_enc_stream_header_release(o); if (r2) rc = 0x70000000 | r2; } }
        else if (!strcmp(op, "SHR_NULL")) rc = svt_av1_enc_stream_header_release(NULL);
        else if (!strcmp(op, "EOSNAL_NULLH")) { EbBufferHeaderType *o = NULL; rc = svt_av1_enc_eos_nal(NULL, &o); }
        else if (!strcmp(op, "SEND_NULLH")) { EbBufferHeaderType h; memset(&h, 0, sizeof h); rc = svt_av1_enc_send_picture(NULL, &h); }
        else if (!strcmp(op, "SEND_NULLB")) rc = svt_av1_enc_send_picture(eh, NULL);
        else if (!strcmp(op, "SEND")) rc = send_pic(0);
        else if (!strcmp(op, "EOS")) rc = send_pic(1);
        else if (!strcmp(op, "GP_NULLH")) { EbBufferHeaderType *o = NULL; rc = svt_av1_enc_get_packet(NULL, &o, 0); }
        else if (!strcmp(op, "GP_NULLO")) rc = svt_av1_enc_get_packet(eh, NULL, 0);
        else if (!strcmp(op, "GP_NB") || !strcmp(op, "GP_B")) {
            EbBufferHeaderType *o = NULL;
            if (!strcmp(op, "GP_NB")) usleep(300000);
            if (!strcmp(op, "GP_B") && !(eos_sent && got < sent)) { printf("GP_B-not-owed 0\n"); alarm(0); continue; }
            rc = svt_av1_enc_get_packet(eh, &o, !strcmp(op, "GP_B"));
            if (o) { got++; printf("PACKET %u %lld %#x\n", o->n_filled_len, (long long)o->pts, o->flags); svt_av1_enc_release_out_buffer(&o); }
        }
        else if (!strcmp(op, "DRAIN")) { rc = 0; while (eos_sent && got < sent) { EbBufferHeaderType *o = NULL; rc = svt_av1_enc_get_packet(eh, &o, 1); if (!o) break; got++; svt_av1_enc_release_out_buffer(&o); } }
        else if (!strcmp(op, "DRAIN_HOLD_REL2")) { /* retrieve every owed packet, keep them all, then (pipeline idle) release each one twice */
            EbBufferHeaderType *keep[8]; int nk = 0; rc = 0;
            while (eos_sent && got < sent && nk < 8) { EbBufferHeaderType *o = NULL; rc = svt_av1_enc_get_packet(eh, &o, 1); if (!o) break; got++; keep[nk++] = o; }
            for (int k = 0; k < nk; k++) { EbBufferHeaderType *o = keep[k]; svt_av1_enc_release_out_buffer(&o); o = keep[k]; svt_av1_enc_release_out_buffer(&o); }
        }
        else if (!strcmp(op, "REL_NULL")) { svt_av1_enc_release_out_buffer(NULL); rc = 0; }
        else if (!strcmp(op, "REL_PNULL")) { EbBufferHeaderType *o = NULL; svt_av1_enc_release_out_buffer(&o); rc = 0; }
        else if (!strcmp(op, "GR_NULLH")) { EbBufferHeaderType h; memset(&h, 0, sizeof h); h.p_buffer = reconbuf; h.n_alloc_len = sizeof reconbuf; rc = svt_av1_get_recon(NULL, &h); }
        else if (!strcmp(op, "GR_NULLB")) rc = svt_av1_get_recon(eh, NULL);
        else if (!strcmp(op, "GR")) { EbBufferHeaderType h; memset(&h, 0, sizeof h); h.size = sizeof h; h.p_buffer = reconbuf; h.n_alloc_len = sizeof reconbuf; usleep(100000); rc = svt_av1_get_recon(eh, &h); }
        else if (!strcmp(op, "GSI_NULLH")) { SvtAv1FixedBuf fb; rc = svt_av1_enc_get_stream_info(NULL, SVT_AV1_STREAM_INFO_FIRST_PASS_STATS_OUT, &fb); }
        else if (!strcmp(op, "GSI_BADID")) { SvtAv1FixedBuf fb; rc = svt_av1_enc_get_stream_info(eh, 99, &fb); }
        else if (!strcmp(op, "GSI_NULLINFO")) rc = svt_av1_enc_get_stream_info(eh, SVT_AV1_STREAM_INFO_FIRST_PASS_STATS_OUT, NULL);
        else if (!strcmp(op, "GSI")) { SvtAv1FixedBuf fb; rc = svt_av1_enc_get_stream_info(eh, SVT_AV1_STREAM_INFO_FIRST_PASS_STATS_OUT, &fb); }
        else if (!strcmp(op, "DEINIT_NULL")) rc = svt_av1_enc_deinit(NULL);
        else if (!strcmp(op, "DEINIT")) rc = svt_av1_enc_deinit(eh);
        else if (!strcmp(op, "DH_NULL")) rc = svt_av1_enc_deinit_handle(NULL);
        else if (!strcmp(op, "DH")) { rc = svt_av1_enc_deinit_handle(eh); eh = NULL; }
        /* ---------------- decoder */
        else if (!strcmp(op, "DIH_NULLP")) rc = svt_av1_dec_init_handle(NULL, NULL, &dcfg);
        else if (!strcmp(op, "DIH_NULLC")) { EbComponentType *t = NULL; rc = svt_av1_dec_init_handle(&t, NULL, NULL); if (rc == 0 && t) { svt_av1_dec_deinit(t); svt_av1_dec_deinit_handle(t); } }
        else if (!strcmp(op, "DIH")) { memset(&dcfg, 0, sizeof dcfg); rc = svt_av1_dec_init_handle(&dh, NULL, &dcfg); }
        else if (!strcmp(op, "DSP_NULLH")) rc = svt_av1_dec_set_parameter(NULL, &dcfg);
        else if (!strcmp(op, "DSP_NULLC")) rc = svt_av1_dec_set_parameter(dh, NULL);
        else if (!strcmp(op, "DSP")) { dcfg.threads = 1; dcfg.operating_point = -1; dcfg.num_p_frames = 1; dcfg.max_color_format = EB_YUV420; dcfg.max_bit_depth = EB_EIGHT_BIT; rc = svt_av1_dec_set_parameter(dh, &dcfg); }
        else if (!strcmp(op, "DIN_NULL")) rc = svt_av1_dec_init(NULL);
        else if (!strcmp(op, "DIN")) rc = svt_av1_dec_init(dh);
        else if (!strcmp(op, "DF_NULLH")) rc = svt_av1_dec_frame(NULL, tu, tu_len, 0);
        else if (!strcmp(op, "DF_NULLD")) rc = svt_av1_dec_frame(dh, NULL, 0, 0);
        else if (!strcmp(op, "DF")) rc = svt_av1_dec_frame(dh, tu, tu_len, 0);
        else if (!strcmp(op, "DGP_NULLH")) { EbBufferHeaderType rb; EbSvtIOFormat img; EbAV1StreamInfo si; EbAV1FrameInfo fi; memset(&rb, 0, sizeof rb); memset(&img, 0, sizeof img); rb.p_buffer = (uint8_t *)&img; rc = svt_av1_dec_get_picture(NULL, &rb, &si, &fi); }
        else if (!strcmp(op, "DGP_NULLB")) { EbAV1StreamInfo si; EbAV1FrameInfo fi; rc = svt_av1_dec_get_picture(dh, NULL, &si, &fi); }
        else if (!strcmp(op, "DGP")) { static EbBufferHeaderType rb; static EbSvtIOFormat img; static EbAV1StreamInfo si; static EbAV1FrameInfo fi; rb.p_buffer = (uint8_t *)&img; rc = svt_av1_dec_get_picture(dh, &rb, &si, &fi); }
        else if (!strcmp(op, "DDE_NULL")) rc = svt_av1_dec_deinit(NULL);
        else if (!strcmp(op, "DDE")) rc = svt_av1_dec_deinit(dh);
        else if (!strcmp(op, "DDH_NULL")) rc = svt_av1_dec_deinit_handle(NULL);
        else if (!strcmp(op, "DDH")) { rc = svt_av1_dec_deinit_handle(dh); dh = NULL; }
        else { printf("UNKNOWN %s\n", op); return 4; }
        alarm(0);
        printf("%s %ld\n", op, rc);
    }
    printf("END\n");
    (void)held;
    return 0;
}
