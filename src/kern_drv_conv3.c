// C07 driver: affine warp filter svt_av1_warp_affine (k->a = 0) / svt_av1_highbd_warp_affine (k->a = 1).
//
// VALID DOMAIN (callers svt_warp_plane / svt_highbd_warp_plane, Common/Codec/EbWarpedMotion.c:700-880, reached from
// svt_av1_warp_plane <- Encoder/Codec/EbEncInterPrediction.c:2650-2760 (plane_warped_motion_prediction),
// Encoder/Codec/EbEncWarpedMotion.c:122,180, Decoder/Codec/EbDecInterPrediction.c:548-566):
//  * mat = wm->wmmat of a ROTZOOM / AFFINE model that passed svt_get_shear_params(): mat[2] > 0, (alpha,beta,gamma,delta) are the
//    values that function computes (multiples of 64) and satisfy 4|alpha| + 7|beta| < 2^16, 4|gamma| + 4|delta| < 2^16.  The
//    non-translational parameters are within 2^13 of the identity (WARPEDMODEL_NONDIAGAFFINE_CLAMP for local warps,
//    GM_ALPHA_MAX * GM_ALPHA_DECODE_FACTOR for global motion), the translation within +-128 pixels (WARPEDMODEL_TRANS_CLAMP).
//    The driver builds models from a grid, asks the library's svt_get_shear_params() and keeps what it accepts.
//  * ref / width / height / stride describe a whole reference plane with >= 32 padded columns on both sides (the AVX2 kernels load
//    16 samples starting at column ix4 - 7 for -7 < ix4 < width + 6 and replace the out-of-picture ones by shuffles); rows are
//    clamped before any access.  The driver fills the padding with junk so any dependence on it shows up.
//  * warp is only used for blocks with both plane dimensions >= 8 (EbDecInterPrediction.c:889 do_warp; the encoder predicts
//    chroma of 8x8 luma blocks without warp): p_width, p_height in {8,16,32,64,128}, AV1 block shapes (ratio <= 4), block
//    position a multiple of 8 inside the plane, subsampling (0,0) or (1,1).
//  * conv_params from get_conv_params_no_round(0, do_average, 0, tmp_dst, 128, is_compound, bd); compound modes and CONV_BUF
//    contents as for the jnt convolve kernels (see kern_drv_conv.c).  p_stride: prediction buffer stride.
//  * bd 8 for the 8-bit kernel; 8, 10, 12 for the highbd kernel.
#include "EbDefinitions.h"
#include "EbWarpedMotion.h"
#include "convolve.h"
#include "kern_core.h"

#define ALIGN64 __attribute__((aligned(64)))
#define PADX 32
#define PADY 8
#define MAXF 136
#define REFN ((MAXF + 2 * PADY) * 2 * (MAXF + 2 * PADX) + 256)
#define DSTN (64 + 128 * 256 + 128)
#define CNVN (64 + 128 * 128 + 64)

static uint16_t REF[REFN] ALIGN64, REFJ[REFN] ALIGN64;
static uint16_t DSTC[DSTN] ALIGN64, DSTV[DSTN] ALIGN64, DSTJ[DSTN] ALIGN64;
static uint16_t CNVC[CNVN] ALIGN64, CNVV[CNVN] ALIGN64, CNVM[CNVN] ALIGN64;

void conv_buf_range(int hbd, int bd, long *lo, long *hi);

typedef void (*warp_fn)(const int32_t *mat, const uint8_t *ref, int width, int height, int stride, uint8_t *pred, int p_col, int p_row, int p_width, int p_height,
                        int p_stride, int subsampling_x, int subsampling_y, ConvolveParams *conv_params, int16_t alpha, int16_t beta, int16_t gamma, int16_t delta);
typedef void (*warp_hbd_fn)(const int32_t *mat, const uint16_t *ref, int width, int height, int stride, uint16_t *pred, int p_col, int p_row, int p_width,
                            int p_height, int p_stride, int subsampling_x, int subsampling_y, int bd, ConvolveParams *conv_params, int16_t alpha, int16_t beta,
                            int16_t gamma, int16_t delta);

static const int WGT[8][2] = {{9, 7}, {7, 9}, {11, 5}, {5, 11}, {12, 4}, {4, 12}, {13, 3}, {3, 13}};
// mode 0: not compound; 1: compound no-avg; 2: compound no-avg, dist-wtd flags set; 3: avg; 4..11: dist-wtd avg WGT[mode-4]
#define NMODE 12

typedef struct { int32_t m2, m3, m4, m5; int16_t a, b, c, d; } Model;
static Model MOD[4096];
static int   nmod;

static void build_models(int thorough) {
    static const int GQ[5] = {0, -6000, 2048, 8191, -8191}, GT[8] = {0, -6000, 2048, 8191, -8191, 64, -3000, 5000};
    const int       *g = thorough ? GT : GQ;
    int              n = thorough ? 8 : 5;
    nmod = 0;
    for (int i2 = 0; i2 < n; i2++)
        for (int i3 = 0; i3 < n; i3++)
            for (int i4 = 0; i4 < n; i4++)
                for (int i5 = 0; i5 < n; i5++) {
                    EbWarpedMotionParams wm;
                    memset(&wm, 0, sizeof wm);
                    wm.wmtype = AFFINE;
                    wm.wmmat[2] = (1 << 16) + g[i2]; wm.wmmat[3] = g[i3]; wm.wmmat[4] = g[i4]; wm.wmmat[5] = (1 << 16) + g[i5];
                    if (!svt_get_shear_params(&wm)) continue;
                    Model *m = &MOD[nmod++];
                    m->m2 = wm.wmmat[2]; m->m3 = wm.wmmat[3]; m->m4 = wm.wmmat[4]; m->m5 = wm.wmmat[5];
                    m->a = wm.alpha; m->b = wm.beta; m->c = wm.gamma; m->d = wm.delta;
                }
}

typedef struct {
    int fw, fh;          // plane size
    int pw, ph, pc, pr;  // block
    int ss;              // subsampling (both directions)
    int model;
    int tix, tiy;        // integer position the centre of the first 8x8 sub-block is projected to
    int fracx, fracy;    // its fractional position (1/65536)
    int pat, sidx, didx, mode, cpat, bd;
} WT;

typedef struct {
    Run *r;
    int  hbd, np, npc;
    long clo, chi;
    int  ref_valid;
    int  k_fw, k_fh, k_pat, k_sidx, k_bd;
    int  c_pw, c_ph, c_pat, c_bd;
} WCtx;

static int ref_stride(const WT *t) {
    int W = t->fw + 2 * PADX;
    return t->sidx == 0 ? W : t->sidx == 1 ? W + 1 : t->sidx == 2 ? W + 16 : 2 * W;
}
static int pred_stride(const WT *t) { return t->didx == 0 ? t->pw : t->didx == 1 ? t->pw + 1 : t->didx == 2 ? t->pw + 16 : 2 * t->pw; }

static void warp_emit(WCtx *c, const WT *t) {
    Run        *r = c->r;
    const Kern *k = r->k;
    if (r->stop) return;
    // the translation that projects the centre of the first sub-block to (tix + fracx/65536, tiy + fracy/65536)
    const Model *m = &MOD[t->model];
    int64_t      sx = (int64_t)(t->pc + 4) << t->ss, sy = (int64_t)(t->pr + 4) << t->ss;
    int64_t      m0 = ((((int64_t)t->tix << 16) + t->fracx) << t->ss) - (m->m2 * sx + m->m3 * sy);
    int64_t      m1 = ((((int64_t)t->tiy << 16) + t->fracy) << t->ss) - (m->m4 * sx + m->m5 * sy);
    if (m0 <= -(128LL << 16) || m0 >= (128LL << 16) || m1 <= -(128LL << 16) || m1 >= (128LL << 16)) return; // outside WARPEDMODEL_TRANS_CLAMP: not a tuple
    if (case_skip_fast(r)) return;
    long hi = (1L << t->bd) - 1;
    int  rs = ref_stride(t), ps = pred_stride(t);
    long ro = 64 + (long)PADY * rs + PADX + (t->sidx & 1), dorg = 64 + ((t->didx & 1) ? t->pw : 0);
    if (!(c->ref_valid && c->k_fw == t->fw && c->k_fh == t->fh && c->k_pat == t->pat && c->k_sidx == t->sidx && c->k_bd == t->bd)) {
        long n = 64 + (long)(t->fh + 2 * PADY) * rs + 128;
        if (c->hbd) for (long i = 0; i < n; i++) REF[i] = (uint16_t)(REFJ[i] & hi);
        else memcpy(REF, REFJ, n);
        for (int y = 0; y < t->fh; y++)
            for (int x = 0; x < t->fw; x++) {
                long v = kc_pat_value(t->pat, x, y, t->fw, t->fh, 0, hi);
                if (c->hbd) REF[ro + (long)y * rs + x] = (uint16_t)v;
                else ((uint8_t *)REF)[ro + (long)y * rs + x] = (uint8_t)v;
            }
        c->ref_valid = 1; c->k_fw = t->fw; c->k_fh = t->fh; c->k_pat = t->pat; c->k_sidx = t->sidx; c->k_bd = t->bd;
    }
    int comp = t->mode > 0, avg = t->mode >= 3, jnt = t->mode == 2 || t->mode >= 4, cpat = avg ? t->cpat : -1;
    if (!(c->c_pw == t->pw && c->c_ph == t->ph && c->c_pat == cpat && c->c_bd == t->bd)) {
        kc_junk(CNVM, sizeof CNVM, 51);
        if (cpat >= 0) kc_fill_u16(CNVM + 64, t->pw, t->ph, 128, cpat, c->clo, c->chi);
        c->c_pw = t->pw; c->c_ph = t->ph; c->c_pat = cpat; c->c_bd = t->bd;
    }
    if (!case_begin(r, kc_pat_nontrivial(t->pat))) return;
    int32_t mat[8] = {(int32_t)m0, (int32_t)m1, m->m2, m->m3, m->m4, m->m5, 0, 0};
    int     es = c->hbd ? 2 : 1;
    size_t  dlen = (size_t)(dorg + (long)t->ph * ps + 64) * es, clen = (size_t)(64 + (long)t->ph * 128 + 64) * 2;
    ConvolveParams cp0 = get_conv_params_no_round(0, avg, 0, NULL, 128, comp, t->bd), cp;
    cp0.ref = cp0.plane = 0;
    cp0.use_jnt_comp_avg = cp0.use_dist_wtd_comp_avg = jnt;
    cp0.fwd_offset = WGT[t->mode >= 4 ? t->mode - 4 : 0][0];
    cp0.bck_offset = WGT[t->mode >= 4 ? t->mode - 4 : 0][1];
    char desc[900], pn[32], pn2[32];
    int  o = snprintf(desc, sizeof desc, "%splane %dx%d ref_stride=%d ref_misalign=%d block p_col=%d p_row=%d p_width=%d p_height=%d p_stride=%d pred_column_offset=%d subsampling=%d,%d mat={%d,%d,%d,%d,%d,%d} alpha=%d beta=%d gamma=%d delta=%d (first 8x8 centre -> x=%d+%d/65536 y=%d+%d/65536) ref pattern '%s' over [0,%ld]",
                      !c->hbd ? "" : t->bd == 8 ? "bd=8 " : t->bd == 10 ? "bd=10 " : "bd=12 ", t->fw, t->fh, rs, t->sidx & 1, t->pc, t->pr, t->pw, t->ph, ps,
                      (t->didx & 1) ? t->pw : 0, t->ss, t->ss, mat[0], mat[1], mat[2], mat[3], mat[4], mat[5], m->a, m->b, m->c, m->d, t->tix, t->fracx, t->tiy, t->fracy,
                      kc_pat_name(t->pat, 0, hi, pn), hi);
    if (comp) {
        o += snprintf(desc + o, sizeof desc - o, " conv_params{is_compound=1 do_average=%d use_jnt_comp_avg=%d fwd_offset=%d bck_offset=%d round_0=%d round_1=%d dst_stride=128}", avg, jnt,
                      cp0.fwd_offset, cp0.bck_offset, cp0.round_0, cp0.round_1);
        if (avg) snprintf(desc + o, sizeof desc - o, " CONV_BUF pre-filled with pattern '%s' over [%ld,%ld]", kc_pat_name(t->cpat, c->clo, c->chi, pn2), c->clo, c->chi);
    } else
        snprintf(desc + o, sizeof desc - o, " conv_params{is_compound=0 round_0=%d round_1=%d}", cp0.round_0, cp0.round_1);
#define CALL(fn, D, C)                                                                                                                              \
    do {                                                                                                                                            \
        cp = cp0;                                                                                                                                   \
        cp.dst = (C) + 64;                                                                                                                          \
        if (c->hbd)                                                                                                                                 \
            ((warp_hbd_fn)(fn))(mat, REF + ro, t->fw, t->fh, rs, (D) + dorg, t->pc, t->pr, t->pw, t->ph, ps, t->ss, t->ss, t->bd, &cp, m->a, m->b, m->c, m->d); \
        else                                                                                                                                        \
            ((warp_fn)(fn))(mat, (uint8_t *)REF + ro, t->fw, t->fh, rs, (uint8_t *)(D) + dorg, t->pc, t->pr, t->pw, t->ph, ps, t->ss, t->ss, &cp, m->a, m->b, m->c, m->d); \
    } while (0)
    memcpy(DSTC, DSTJ, dlen);
    memcpy(CNVC, CNVM, clen);
    CALL(k->c, DSTC, CNVC);
    VERBOSE(r, "case %lld: %s -> c pred[0..1] = %u %u conv_buf[0..1] = %u %u", r->case_idx - 1, desc, c->hbd ? DSTC[dorg] : ((uint8_t *)DSTC)[dorg],
            c->hbd ? DSTC[dorg + 1] : ((uint8_t *)DSTC)[dorg + 1], CNVC[64], CNVC[65]);
    for (int vi = 0; vi < k->nv; vi++) {
        if (!var_on(r, vi)) continue;
        memcpy(DSTV, DSTJ, dlen);
        memcpy(CNVV, CNVM, clen);
        CALL(k->v[vi].fn, DSTV, CNVV);
        long dd = kc_diff(DSTC, DSTV, dlen), cd = kc_diff(CNVC, CNVV, clen);
        if (dd < 0 && cd < 0) continue;
        if (dd >= 0) {
            long     e = dd / es - dorg, y = e >= 0 ? e / ps : -1, x = e >= 0 ? e % ps : e;
            unsigned cv = c->hbd ? DSTC[dd / 2] : ((uint8_t *)DSTC)[dd], vv = c->hbd ? DSTV[dd / 2] : ((uint8_t *)DSTV)[dd], jv = c->hbd ? DSTJ[dd / 2] : ((uint8_t *)DSTJ)[dd];
            MISMATCH(r, vi, "%s: pred differs first at (x=%ld,y=%ld)%s: c %u simd %u (poison was %u)", desc, x, y, (e < 0 || x >= t->pw || y >= t->ph) ? " OUTSIDE the block" : "",
                     cv, vv, jv);
        } else {
            long e = cd / 2 - 64, y = e >= 0 ? e / 128 : -1, x = e >= 0 ? e % 128 : e;
            MISMATCH(r, vi, "%s: CONV_BUF differs first at (x=%ld,y=%ld)%s: c %u simd %u (before the call %u)", desc, x, y,
                     (e < 0 || x >= t->pw || y >= t->ph) ? " OUTSIDE the block" : "", CNVC[cd / 2], CNVV[cd / 2], CNVM[cd / 2]);
        }
    }
#undef CALL
}

// ENUMERATION (per bit depth): planes {32x24, 80x72} (thorough: + 136x136); blocks p_width x p_height in {8,16,32,64}^2 of AV1 shape
// that fit the plane (thorough, 136x136 plane: + 128x128, 128x64, 64x128); models = every (mat[2]-2^16, mat[3], mat[4], mat[5]-2^16)
// of G^4 (G quick {0,-6000,2048,8191,-8191}, thorough + {64,-3000,5000}) that svt_get_shear_params() accepts.
//  slice 1 (picture-edge logic) plane x subsampling {0,1} x block {8x8, 16x16} at (0,0) x 6 edge models (first accepted model with
//          alpha==0&&beta==0, alpha!=0&&beta==0, alpha==0&&beta!=0, both != 0, gamma==0&&delta==0, gamma!=0&&delta!=0) x first
//          sub-block centre column in {-24,-9..8, w/2, w-11..w+8, w+24} x row in {-20, 0, h/2, h-1, h+20} x patterns {texture,
//          col-ramp, checker} (quick highbd: one of the three, cycling) (fraction, strides, mode cycle)
//  slice 2 (models) every model x fraction {(0,0), (0x5A3C,0xC3A5), (0xFFFF,0xFFFF)} x 2 tuples whose block shape / position
//          {(0,0), bottom-right, middle} / plane / subsampling / target column (interior and both edges) / pattern {texture, all-max,
//          checker, alt-columns, alt-rows} / mode (12) / strides cycle
//  slice 3 (patterns x strides) every ref pattern (kern_core alphabet) x 4 ref strides/misalignments x 4 pred strides/columns (rest cycles)
//  slice 4 (compound) modes 1..11 x every CONV_BUF pattern (one tuple for no-avg modes) x 2 (model, block, position cycle)
void drv_warp_aff(Run *r) {
    WCtx c;
    memset(&c, 0, sizeof c);
    c.r = r; c.hbd = r->k->a; c.c_pw = -1;
    build_models(r->thorough);
    kc_junk(REFJ, sizeof REFJ, 61);
    kc_junk(DSTJ, sizeof DSTJ, 63);
    static const int BD[3] = {8, 10, 12}, FW[3] = {32, 80, 136}, FH[3] = {24, 72, 136};
    static const int FRX[3] = {0, 0x5A3C, 0xFFFF}, FRY[3] = {0, 0xC3A5, 0xFFFF};
    static const int P2[5] = {PAT_TEXTURE, PAT_HI, PAT_CHECK, PAT_ALT_COL, PAT_ALT_ROW}, P1[3] = {PAT_TEXTURE, PAT_COLRAMP, PAT_CHECK};
    int              nfr = r->thorough ? 3 : 2;
    // edge models
    int em[6] = {-1, -1, -1, -1, -1, -1};
    for (int i = 0; i < nmod; i++) {
        const Model *m = &MOD[i];
        int          cls = (m->a != 0) + 2 * (m->b != 0);
        if (em[cls] < 0) em[cls] = i;
        if (m->c == 0 && m->d == 0 && (m->a || m->b) && em[4] < 0) em[4] = i;
        if (m->c != 0 && m->d != 0 && em[5] < 0) em[5] = i;
    }
    // block shapes
    int bw[24], bh[24], nb = 0;
    for (int w = 8; w <= 128; w *= 2)
        for (int h = 8; h <= 128; h *= 2)
            if (w <= 4 * h && h <= 4 * w && (w + h < 256 - 64 || r->thorough) && !(w == 128 && h < 64) && !(h == 128 && w < 64)) { bw[nb] = w; bh[nb++] = h; }
    for (int bi = 0; bi < (c.hbd ? 3 : 1); bi++) {
        int  bd = BD[bi];
        long hi = (1L << bd) - 1;
        c.np = kc_npat(r, 0, hi);
        conv_buf_range(c.hbd, bd, &c.clo, &c.chi);
        c.npc = kc_npat(r, c.clo, c.chi);
        unsigned cnt = 0;
        WT       t;
        memset(&t, 0, sizeof t);
        t.bd = bd;
#define CYC_COMMON() do { t.sidx = cnt & 3; t.didx = (cnt >> 2) & 3; t.mode = (int)(cnt % NMODE); t.cpat = (int)((cnt * 5 + 3) % (unsigned)c.npc); } while (0)
        // slice 1
        for (int fi = 0; fi < nfr; fi++)
            for (int ss = 0; ss < 2; ss++)
                for (int b = 0; b < 2; b++)
                    for (int e = 0; e < 6; e++) {
                        if (em[e] < 0) continue;
                        int w = FW[fi], h = FH[fi];
                        int cols[48], nc = 0;
                        cols[nc++] = -24;
                        for (int x = -9; x <= 8; x++) cols[nc++] = x;
                        cols[nc++] = w / 2;
                        for (int x = w - 11; x <= w + 8; x++) cols[nc++] = x;
                        cols[nc++] = w + 24;
                        int rows[5] = {-20, 0, h / 2, h - 1, h + 20};
                        for (int ci = 0; ci < nc; ci++)
                            for (int ri = 0; ri < 5; ri++)
                                for (int p = 0; p < (c.hbd && !r->thorough ? 1 : 3); p++) {
                                    if (r->stop) return;
                                    t.fw = w; t.fh = h; t.ss = ss; t.pw = t.ph = b ? 16 : 8; t.pc = t.pr = 0; t.model = em[e];
                                    t.tix = cols[ci]; t.tiy = rows[ri]; t.fracx = FRX[cnt % 3]; t.fracy = FRY[(cnt / 3) % 3];
                                    t.pat = (c.hbd && !r->thorough) ? P1[cnt % 3] : P1[p];
                                    CYC_COMMON();
                                    cnt++;
                                    warp_emit(&c, &t);
                                }
                    }
        // slice 2
        for (int mi = 0; mi < nmod; mi++)
            for (int f = 0; f < 3; f++)
                for (int rep = 0; rep < 2; rep++) {
                    if (r->stop) return;
                    int fi = (int)(cnt % (unsigned)nfr), b = (int)((cnt / 2) % (unsigned)nb), tries = 0;
                    while ((bw[b] > FW[fi] || bh[b] > FH[fi]) && tries++ < nb) b = (b + 1) % nb;
                    if (bw[b] > FW[fi] || bh[b] > FH[fi]) { b = 0; }
                    t.fw = FW[fi]; t.fh = FH[fi]; t.ss = (cnt >> 1) & 1; t.pw = bw[b]; t.ph = bh[b];
                    int pos = (int)((cnt / 3) % 3);
                    t.pc = pos == 0 ? 0 : pos == 1 ? (t.fw - t.pw) & ~7 : ((t.fw - t.pw) / 2) & ~7;
                    t.pr = pos == 0 ? 0 : pos == 1 ? (t.fh - t.ph) & ~7 : ((t.fh - t.ph) / 2) & ~7;
                    t.model = mi;
                    int tc = (int)((cnt / 5) % 7);
                    t.tix = tc == 0 ? t.pc + 4 : tc == 1 ? -3 : tc == 2 ? t.fw - 4 : tc == 3 ? t.pc + 9 : tc == 4 ? 5 : tc == 5 ? t.fw + 3 : t.pc - 2;
                    t.tiy = (cnt / 7) % 4 == 0 ? -5 : (cnt / 7) % 4 == 1 ? t.fh - 3 : t.pr + 4;
                    t.fracx = FRX[f]; t.fracy = FRY[f];
                    t.pat = P2[cnt % 5];
                    CYC_COMMON();
                    cnt++;
                    warp_emit(&c, &t);
                }
        // slice 3
        for (int p = 0; p < c.np; p++)
            for (int si = 0; si < 4; si++)
                for (int di = 0; di < 4; di++) {
                    if (r->stop) return;
                    int fi = (int)(cnt % (unsigned)nfr), b = (int)(cnt % 4); // 8x8 8x16 8x32 16x8 ...
                    while (bw[b] > FW[fi] || bh[b] > FH[fi]) b = (b + 1) % nb;
                    t.fw = FW[fi]; t.fh = FH[fi]; t.ss = (cnt >> 1) & 1; t.pw = bw[b]; t.ph = bh[b]; t.pc = 0; t.pr = 0;
                    t.model = (int)((cnt * 7) % (unsigned)nmod);
                    t.tix = 4 + (int)(cnt % 11); t.tiy = 4 + (int)(cnt % 5); t.fracx = FRX[cnt % 3]; t.fracy = FRY[(cnt + 1) % 3];
                    t.pat = p;
                    CYC_COMMON();
                    t.sidx = si; t.didx = di;
                    cnt++;
                    warp_emit(&c, &t);
                }
        // slice 4
        for (int mode = 1; mode < NMODE; mode++)
            for (int cp = 0; cp < (mode >= 3 ? c.npc : 1); cp++)
                for (int rep = 0; rep < 2; rep++) {
                    if (r->stop) return;
                    int fi = (int)(cnt % (unsigned)nfr), b = (int)(cnt % (unsigned)nb);
                    while (bw[b] > FW[fi] || bh[b] > FH[fi]) b = (b + 1) % nb;
                    t.fw = FW[fi]; t.fh = FH[fi]; t.ss = (cnt >> 1) & 1; t.pw = bw[b]; t.ph = bh[b];
                    t.pc = rep ? (t.fw - t.pw) & ~7 : 0; t.pr = rep ? (t.fh - t.ph) & ~7 : 0;
                    t.model = (int)((cnt * 11 + 1) % (unsigned)nmod);
                    t.tix = t.pc + 4 + (int)(cnt % 3) - 1; t.tiy = t.pr + 4; t.fracx = FRX[cnt % 3]; t.fracy = FRY[(cnt + 2) % 3];
                    t.pat = P2[cnt % 5];
                    CYC_COMMON();
                    t.mode = mode; t.cpat = cp;
                    cnt++;
                    warp_emit(&c, &t);
                }
#undef CYC_COMMON
    }
}
