// C07 drivers: svt_aom_convolve8_horiz / svt_aom_convolve8_vert (conv8_1d) and the Wiener loop-restoration convolve (wiener_conv).
#include "EbDefinitions.h"
#include "EbInterPrediction.h"
#include "convolve.h"
#include "common_dsp_rtcd.h"
#include "kern_core.h"

#define ALIGN64 __attribute__((aligned(64)))
#define BRD 8
#define SRCN ((128 + 2 * BRD + 8) * 2 * (128 + 2 * BRD) + 512)
#define DSTN (64 + 160 * 256 + 128)

static uint16_t SRC[SRCN] ALIGN64, SRCJ[SRCN] ALIGN64;
static uint16_t DSTC[DSTN] ALIGN64, DSTV[DSTN] ALIGN64, DSTJ[DSTN] ALIGN64;

// ====================================================================================================== svt_aom_convolve8_*
// VALID DOMAIN: the only callers are svt_aom_upsampled_pred_sse2 / _c (Encoder/ASM_SSE2/variance_sse2.c:255-345,
// Encoder/C_DEFAULT/variance.c:225-262), reached from the sub-pel motion search (Encoder/Codec/mcomp.c:125, av1me.c:1001,1018):
//  * the filter is row 2*subpel_q3 (subpel_q3 in 1..7) of a 256-byte aligned 16-row table: bilinear (USE_2_TAPS), 4-tap regular
//    (USE_4_TAPS) or 8-tap regular (USE_8_TAPS); the file-local copies in variance_sse2.c have the same values as the library's
//    bilinear_filters / sub_pel_filters_4 / sub_pel_filters_8, which the driver passes.  step_q4 = 16 for the used direction, the
//    other direction gets (NULL, -1).
//  * horiz is called with (src = reference picture, unaligned, picture stride; dst = comp_pred, dst_stride = w, h = H) when only x is
//    fractional, and with (dst = temp, dst_stride = MAX_SB_SIZE = 128, h = H + taps - 1 with taps = 4 for the 2- and 4-tap
//    searches, 8 otherwise) as the first stage of the 2-D case.  vert is called with dst_stride = w, h = H and src = reference
//    picture (picture stride) or src = temp (stride 128).  (w, H) = block_size_wide/high of every BlockSize.
//  * dst buffers are 16-byte aligned arrays, the block at offset 0.
typedef void (*conv8_fn)(const uint8_t *src, ptrdiff_t src_stride, uint8_t *dst, ptrdiff_t dst_stride, const int16_t *filter_x, int x_step_q4,
                         const int16_t *filter_y, int y_step_q4, int w, int h);

// ENUMERATION: every BlockSize (w,H) x call form {1-D, 2-D stage} x table {bilinear, 4-tap, 8-tap} x row {2,4,..,14} x source
// pattern (kern_core alphabet of the tier + tap-sign max / min) x source stride: 1-D form and horiz {W, W+1 (+1 misaligned), W+16,
// 2W (+1)} with W = w + 16 (quick: one of the four, cycling; thorough: all four); vert 2-D form: 128.
void drv_conv8_1d(Run *r) {
    const Kern           *k = r->k;
    int                   vert = k->a;
    static const int16_t *TAB[3];
    static const char    *TABN[3] = {"bilinear_filters", "sub_pel_filters_4", "sub_pel_filters_8"};
    static const int      TAPS[3] = {4, 4, 8}; // filter_taps of svt_aom_upsampled_pred for the 2-D intermediate height
    TAB[0] = (const int16_t *)bilinear_filters; TAB[1] = (const int16_t *)sub_pel_filters_4; TAB[2] = (const int16_t *)sub_pel_filters_8;
    int      np = kc_npat(r, 0, 255);
    char     pn[32];
    unsigned cnt = 0;
    kc_junk(SRCJ, sizeof SRCJ, 31);
    kc_junk(DSTJ, sizeof DSTJ, 33);
    uint8_t *S = (uint8_t *)SRC, *DC = (uint8_t *)DSTC, *DV = (uint8_t *)DSTV;
    for (int bs = 0; bs < BlockSizeS_ALL; bs++) {
        int w = block_size_wide[bs], H = block_size_high[bs];
        for (int form = 0; form < 2; form++)
            for (int ti = 0; ti < 3; ti++)
                for (int row = 2; row <= 14; row += 2)
                    for (int p = 0; p < np + 2; p++)
                        for (int sq = 0; sq < ((r->thorough && !(vert && form)) ? 4 : 1); sq++) {
                            if (r->stop) return;
                            int sidx = (vert && form) ? -1 : r->thorough ? sq : (int)(cnt++ & 3);
                            if (case_skip_fast(r)) continue;
                            const int16_t *f = TAB[ti] + 8 * row;
                            int            h = (!vert && form) ? H + TAPS[ti] - 1 : H;
                            int            W = w + 2 * BRD;
                            int            ss = sidx < 0 ? 128 : sidx == 0 ? W : sidx == 1 ? W + 1 : sidx == 2 ? W + 16 : 2 * W;
                            int            ds = (!vert && form) ? 128 : w;
                            long           so = 64 + (long)BRD * ss + BRD + (sidx > 0 ? (sidx & 1) : 0);
                            long           sn = 64 + (long)(h + 2 * BRD) * ss + 64 + 16;
                            memcpy(S, SRCJ, sn);
                            int x0 = vert ? 0 : -3, y0 = vert ? -3 : 0, rw = w + (vert ? 0 : 8), rh = h + (vert ? 8 : 0);
                            for (int y = 0; y < rh; y++)
                                for (int x = 0; x < rw; x++) {
                                    long v;
                                    if (p < np) v = kc_pat_value(p, x, y, rw, rh, 0, 255);
                                    else {
                                        int c = f[(vert ? y : x) & 7], s = (c > 0) - (c < 0);
                                        v = (p == np ? s : -s) > 0 ? 255 : 0;
                                    }
                                    S[so + (long)(y + y0) * ss + (x + x0)] = (uint8_t)v;
                                }
                            if (!case_begin(r, p >= np || kc_pat_nontrivial(p))) continue;
                            size_t      dlen = 64 + (size_t)h * ds + 64;
                            const char *pname = p < np ? kc_pat_name(p, 0, 255, pn) : p == np ? "tap-sign(max under positive taps)" : "tap-sign(max under negative taps)";
                            memcpy(DC, DSTJ, dlen);
                            if (vert) ((conv8_fn)k->c)(S + so, ss, DC + 64, ds, NULL, -1, f, 16, w, h);
                            else ((conv8_fn)k->c)(S + so, ss, DC + 64, ds, f, 16, NULL, -1, w, h);
                            VERBOSE(r, "case %lld: w=%d h=%d (block %dx%d, %s form) src_stride=%d src_misalign=%d dst_stride=%d filter=%s[%d] src pattern '%s' -> c dst[0..1] = %u %u",
                                    r->case_idx - 1, w, h, w, H, form ? "2-D stage" : "1-D", ss, sidx > 0 ? (sidx & 1) : 0, ds, TABN[ti], row, pname, DC[64], DC[65]);
                            for (int vi = 0; vi < k->nv; vi++) {
                                if (!var_on(r, vi)) continue;
                                memcpy(DV, DSTJ, dlen);
                                if (vert) ((conv8_fn)k->v[vi].fn)(S + so, ss, DV + 64, ds, NULL, -1, f, 16, w, h);
                                else ((conv8_fn)k->v[vi].fn)(S + so, ss, DV + 64, ds, f, 16, NULL, -1, w, h);
                                long d = kc_diff(DC, DV, dlen);
                                if (d < 0) continue;
                                long e = d - 64, y = e >= 0 ? e / ds : -1, x = e >= 0 ? e % ds : e;
                                MISMATCH(r, vi, "w=%d h=%d (block %dx%d, %s form) src_stride=%d src_misalign=%d dst_stride=%d filter=%s[%d]={%d,%d,%d,%d,%d,%d,%d,%d} step_q4=16 src pattern '%s' over [0,255]: dst differs first at (x=%ld,y=%ld)%s: c %u simd %u (poison was %u)",
                                         w, h, w, H, form ? "2-D stage" : "1-D", ss, sidx > 0 ? (sidx & 1) : 0, ds, TABN[ti], row, f[0], f[1], f[2], f[3], f[4], f[5],
                                         f[6], f[7], pname, x, y, (e < 0 || x >= w || y >= h) ? " OUTSIDE the block" : "", DC[d], DV[d], ((uint8_t *)DSTJ)[d]);
                            }
                        }
    }
}

// ====================================================================================================== Wiener convolve
// VALID DOMAIN (callers wiener_filter_stripe / wiener_filter_stripe_highbd, Common/Codec/EbRestoration.c:507-530,1108-1131, driven by
// svt_av1_loop_restoration_filter_unit ibid.:1163-1250; decoder Decoder/Codec/EbDecRestoration.c uses the same stripe functions):
//  * w = min(procunit_width, (remaining + 15) & ~15), procunit_width = 64 >> ss_x: w in {16, 32, 48, 64};
//    h = stripe height: 1..64 (64 >> ss_y nominal, 8 less for the first stripe of a tile, any remainder for the last one).
//  * filter_x = rui->wiener_info.hfilter, filter_y = vfilter: 16-byte aligned int16[8] = {f0,f1,f2,f3,f2,f1,f0,0} with
//    f0 in [-5,10] (0 for the 5-tap chroma window), f1 in [-23,8], f2 in [-17,46], f3 = -2(f0+f1+f2)
//    (read_wiener_filter, Decoder/Codec/EbDecParseBlock.c:2690-2752; encoder search clamps to the same tap_min/tap_max,
//    Encoder/Codec/EbRestorationPick.c:1150-1185).
//  * conv_params = get_conv_params_wiener(bd): round_0 = 3, round_1 = 11 (bd 12: 5 / 9).  bd 8 for the 8-bit kernel; 8, 10, 12 for the
//    highbd kernel (pointers are CONVERT_TO_BYTEPTR(uint16_t *)).
//  * src / dst are positions inside picture-sized buffers (arbitrary alignment); 3 rows / columns of border are readable (the
//    caller sets up the stripe boundary rows); the driver adds 5 more junk rows / columns and 64 bytes.
typedef void (*wiener_fn)(const uint8_t *src, ptrdiff_t src_stride, uint8_t *dst, ptrdiff_t dst_stride, const int16_t *filter_x, const int16_t *filter_y,
                          int32_t w, int32_t h, const ConvolveParams *conv_params);
typedef void (*wiener_hbd_fn)(const uint8_t *src, ptrdiff_t src_stride, uint8_t *dst, ptrdiff_t dst_stride, const int16_t *filter_x, const int16_t *filter_y,
                              int32_t w, int32_t h, const ConvolveParams *conv_params, int32_t bd);

#define NWF 28
static void wiener_taps(int i, int16_t *f) {
    static const int T0[3] = {-5, 0, 10}, T1[3] = {-23, 0, 8}, T2[3] = {-17, 0, 46};
    int              a, b, c;
    if (i == 27) { a = 3; b = -7; c = 15; }  // the default (mid) filter
    else { a = T0[i / 9]; b = T1[(i / 3) % 3]; c = T2[i % 3]; }
    f[0] = f[6] = (int16_t)a; f[1] = f[5] = (int16_t)b; f[2] = f[4] = (int16_t)c;
    f[3] = (int16_t)(-2 * (a + b + c));
    f[7] = 0;
}

typedef struct {
    int w, h, bd, hf, vf, pat, sidx, didx;
} WTup;

static struct { int16_t v[8], h[8]; } WF __attribute__((aligned(16)));

static void wiener_emit(Run *r, int hbd, int np, const WTup *t) {
    const Kern *k = r->k;
    if (r->stop) return;
    if (case_skip_fast(r)) return;
    long hi = (1L << t->bd) - 1;
    int  W = t->w + 2 * BRD;
    int  ss = t->sidx == 0 ? W : t->sidx == 1 ? W + 1 : t->sidx == 2 ? W + 16 : 2 * W;
    int  ds = t->didx == 0 ? t->w : t->didx == 1 ? t->w + 1 : t->didx == 2 ? t->w + 16 : 2 * t->w;
    long so = 64 + (long)BRD * ss + BRD + (t->sidx & 1), dorg = 64 + (t->didx & 1);
    long sn = 64 + (long)(t->h + 2 * BRD) * ss + 64 + 16;
    wiener_taps(t->hf, WF.h);
    wiener_taps(t->vf, WF.v);
    if (hbd) for (long i = 0; i < sn; i++) SRC[i] = (uint16_t)(SRCJ[i] & hi);
    else memcpy(SRC, SRCJ, sn);
    int rw = t->w + 7, rh = t->h + 7;
    for (int y = 0; y < rh; y++)
        for (int x = 0; x < rw; x++) {
            long v;
            if (t->pat < np) v = kc_pat_value(t->pat, x, y, rw, rh, 0, hi);
            else {
                // effective taps: the centre tap carries the implicit +128 ("add_src")
                int cx = x % 8 == 7 ? 0 : WF.h[x % 8] + (x % 8 == 3 ? 128 : 0), cy = y % 8 == 7 ? 0 : WF.v[y % 8] + (y % 8 == 3 ? 128 : 0);
                int s = ((cx > 0) - (cx < 0)) * ((cy > 0) - (cy < 0));
                v = (t->pat == np ? s : -s) > 0 ? hi : 0;
            }
            long at = so + (long)(y - 3) * ss + (x - 3);
            if (hbd) SRC[at] = (uint16_t)v;
            else ((uint8_t *)SRC)[at] = (uint8_t)v;
        }
    if (!case_begin(r, t->pat >= np || kc_pat_nontrivial(t->pat))) return;
    int            es = hbd ? 2 : 1;
    size_t         dlen = (size_t)(dorg + (long)t->h * ds + 64) * es;
    ConvolveParams cp = get_conv_params_wiener(t->bd);
    cp.fwd_offset = cp.bck_offset = cp.use_jnt_comp_avg = cp.use_dist_wtd_comp_avg = 0;
    char        pn[32], desc[700];
    const char *pname = t->pat < np ? kc_pat_name(t->pat, 0, hi, pn) : t->pat == np ? "tap-sign(max where tapx*tapy>0, period 8)" : "tap-sign(max where tapx*tapy<0, period 8)";
    snprintf(desc, sizeof desc, "w=%d h=%d%s src_stride=%d src_misalign=%d dst_stride=%d dst_misalign=%d filter_x={%d,%d,%d,%d,%d,%d,%d,0} filter_y={%d,%d,%d,%d,%d,%d,%d,0} round_0=%d round_1=%d src pattern '%s' over [0,%ld]",
             t->w, t->h, !hbd ? "" : t->bd == 8 ? " bd=8" : t->bd == 10 ? " bd=10" : " bd=12", ss, t->sidx & 1, ds, t->didx & 1, WF.h[0], WF.h[1], WF.h[2], WF.h[3], WF.h[4],
             WF.h[5], WF.h[6], WF.v[0], WF.v[1], WF.v[2], WF.v[3], WF.v[4], WF.v[5], WF.v[6], cp.round_0, cp.round_1, pname, hi);
    memcpy(DSTC, DSTJ, dlen);
    if (hbd) ((wiener_hbd_fn)k->c)(CONVERT_TO_BYTEPTR_(SRC + so), ss, CONVERT_TO_BYTEPTR_(DSTC + dorg), ds, WF.h, WF.v, t->w, t->h, &cp, t->bd);
    else ((wiener_fn)k->c)((uint8_t *)SRC + so, ss, (uint8_t *)DSTC + dorg, ds, WF.h, WF.v, t->w, t->h, &cp);
    VERBOSE(r, "case %lld: %s -> c dst[0..1] = %u %u", r->case_idx - 1, desc, hbd ? DSTC[dorg] : ((uint8_t *)DSTC)[dorg], hbd ? DSTC[dorg + 1] : ((uint8_t *)DSTC)[dorg + 1]);
    for (int vi = 0; vi < k->nv; vi++) {
        if (!var_on(r, vi)) continue;
        memcpy(DSTV, DSTJ, dlen);
        if (hbd) ((wiener_hbd_fn)k->v[vi].fn)(CONVERT_TO_BYTEPTR_(SRC + so), ss, CONVERT_TO_BYTEPTR_(DSTV + dorg), ds, WF.h, WF.v, t->w, t->h, &cp, t->bd);
        else ((wiener_fn)k->v[vi].fn)((uint8_t *)SRC + so, ss, (uint8_t *)DSTV + dorg, ds, WF.h, WF.v, t->w, t->h, &cp);
        long d = kc_diff(DSTC, DSTV, dlen);
        if (d < 0) continue;
        long     e = d / es - dorg, y = e >= 0 ? e / ds : -1, x = e >= 0 ? e % ds : e;
        unsigned cv = hbd ? DSTC[d / 2] : ((uint8_t *)DSTC)[d], vv = hbd ? DSTV[d / 2] : ((uint8_t *)DSTV)[d], jv = hbd ? DSTJ[d / 2] : ((uint8_t *)DSTJ)[d];
        MISMATCH(r, vi, "%s: dst differs first at (x=%ld,y=%ld)%s: c %u simd %u (poison was %u)", desc, x, y, (e < 0 || x >= t->w || y >= t->h) ? " OUTSIDE the block" : "", cv,
                 vv, jv);
    }
}

// ENUMERATION: filter alphabet per direction F = {min,0,max}^3 over (f0,f1,f2) + the default (3,-7,15) = 28 filters; w in
// {16,32,48,64}; H = stripe heights, thorough 1..64, quick {1..8,15,16,31,32,55,56,63,64}; bd 8 (8-bit kernel) / 8,10,12 (highbd).
//  slice A  every w x every h of H x filter pairs {(i,i), (i,(7i+3) mod 28) : i < 28} x patterns {tap-sign max, tap-sign min, texture}
//  slice B  every w x h in {7, 64} x all 28x28 (filter_x, filter_y) pairs x patterns {tap-sign max, tap-sign min}
//  slice C  every w x every source pattern (kern_core alphabet of the tier + 2 tap-sign) x 4 source strides/misalignments x 4
//           destination strides/misalignments (h and the filter pair cycle)
void drv_wiener_conv(Run *r) {
    int              hbd = r->k->a;
    static const int QH[16] = {1, 2, 3, 4, 5, 6, 7, 8, 15, 16, 31, 32, 55, 56, 63, 64}, BD[3] = {8, 10, 12};
    int              hs[64], nh = 0;
    if (r->thorough) for (int i = 1; i <= 64; i++) hs[nh++] = i;
    else for (int i = 0; i < 16; i++) hs[nh++] = QH[i];
    kc_junk(SRCJ, sizeof SRCJ, 41);
    kc_junk(DSTJ, sizeof DSTJ, 43);
    for (int bi = 0; bi < (hbd ? 3 : 1); bi++) {
        int      bd = BD[bi], np = kc_npat(r, 0, (1L << bd) - 1);
        unsigned cnt = 0;
        WTup     t;
        memset(&t, 0, sizeof t);
        t.bd = bd;
        for (int w = 16; w <= 64; w += 16) {
            t.w = w;
            for (int hi = 0; hi < nh; hi++)
                for (int i = 0; i < NWF; i++)
                    for (int j = 0; j < 2; j++)
                        for (int p = 0; p < 3; p++) {
                            if (r->stop) return;
                            t.h = hs[hi]; t.hf = i; t.vf = j ? (7 * i + 3) % NWF : i;
                            t.pat = p == 0 ? np : p == 1 ? np + 1 : PAT_TEXTURE;
                            t.sidx = cnt & 3; t.didx = (cnt >> 2) & 3; cnt++;
                            wiener_emit(r, hbd, np, &t);
                        }
            for (int hh = 0; hh < 2; hh++)
                for (int i = 0; i < NWF; i++)
                    for (int j = 0; j < NWF; j++)
                        for (int p = 0; p < 2; p++) {
                            if (r->stop) return;
                            t.h = hh ? 64 : 7; t.hf = i; t.vf = j; t.pat = np + p;
                            t.sidx = cnt & 3; t.didx = (cnt >> 2) & 3; cnt++;
                            wiener_emit(r, hbd, np, &t);
                        }
            for (int p = 0; p < np + 2; p++)
                for (int si = 0; si < 4; si++)
                    for (int di = 0; di < 4; di++) {
                        if (r->stop) return;
                        t.h = hs[cnt % (unsigned)nh]; t.hf = (int)(cnt % NWF); t.vf = (int)((cnt * 5 + 11) % NWF); t.pat = p;
                        t.sidx = si; t.didx = di; cnt++;
                        wiener_emit(r, hbd, np, &t);
                    }
        }
    }
}
