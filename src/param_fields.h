/* param_fields.h: offset/size table of every member of EbSvtAv1EncConfiguration, including array elements and the
 * nested structures (rc_twopass_stats_in {buf,sz}, pred_struct[] entries).  Shared by param_set_h.c (C12) and
 * param_def_h.c (C13).  The table started as a copy of the one in encdrv.c; completeness (every byte of the
 * structure that is not alignment padding belongs to exactly one row) is verified at run time by the "layout"
 * mode of both harnesses and checked by the Python side.
 */
#ifndef PARAM_FIELDS_H
#define PARAM_FIELDS_H
#include <stddef.h>
#include <stdint.h>
#include <string.h>
#include <stdio.h>
#include <stdlib.h>
#include "EbSvtAv1Enc.h"

typedef EbSvtAv1EncConfiguration Cfg;
/* name: member name; elements live at off + i*stride + j*size for i < outer, j < inner.
 * printed element names: scalar "name"; 1-d array "name.j"; pred_struct member "pred_struct.i.member[.j]" */
typedef struct { const char *name; const char *group; size_t off, size; int sgn, outer, inner; size_t stride; int ptr; } PField;

#define P_SGN(e) (((__typeof__(e))-1) < 0)
#define P_FLD(n) { #n, #n, offsetof(Cfg, n), sizeof(((Cfg *)0)->n), P_SGN(((Cfg *)0)->n), 1, 1, 0, 0 }
#define P_ARR(n) { #n, #n, offsetof(Cfg, n), sizeof(((Cfg *)0)->n[0]), P_SGN(((Cfg *)0)->n[0]), 1, \
                   (int)(sizeof(((Cfg *)0)->n) / sizeof(((Cfg *)0)->n[0])), 0, 0 }
#define P_NPS ((int)(sizeof(((Cfg *)0)->pred_struct) / sizeof(((Cfg *)0)->pred_struct[0])))
#define P_PS(m) { "pred_struct." #m, "pred_struct", offsetof(Cfg, pred_struct) + offsetof(PredictionStructureConfigEntry, m), \
                  sizeof(((PredictionStructureConfigEntry *)0)->m), P_SGN(((PredictionStructureConfigEntry *)0)->m), \
                  P_NPS, 1, sizeof(PredictionStructureConfigEntry), 0 }
#define P_PSA(m) { "pred_struct." #m, "pred_struct", offsetof(Cfg, pred_struct) + offsetof(PredictionStructureConfigEntry, m), \
                   sizeof(((PredictionStructureConfigEntry *)0)->m[0]), P_SGN(((PredictionStructureConfigEntry *)0)->m[0]), \
                   P_NPS, (int)(sizeof(((PredictionStructureConfigEntry *)0)->m) / sizeof(((PredictionStructureConfigEntry *)0)->m[0])), \
                   sizeof(PredictionStructureConfigEntry), 0 }

static const PField pfields[] = {
    P_FLD(enc_mode), P_FLD(intra_period_length), P_FLD(intra_refresh_type), P_FLD(hierarchical_levels),
    P_FLD(pred_structure), P_FLD(source_width), P_FLD(source_height), P_FLD(render_width), P_FLD(render_height),
    P_FLD(frame_rate), P_FLD(frame_rate_numerator), P_FLD(frame_rate_denominator), P_FLD(encoder_bit_depth),
    P_FLD(is_16bit_pipeline), P_FLD(encoder_color_format), P_FLD(compressed_ten_bit_format), P_FLD(sb_sz),
    P_FLD(super_block_size), P_FLD(partition_depth), P_FLD(stat_report), P_FLD(qp), P_FLD(use_qp_file),
    P_FLD(use_fixed_qindex_offsets), P_ARR(qindex_offsets), P_FLD(key_frame_chroma_qindex_offset),
    P_FLD(key_frame_qindex_offset), P_ARR(chroma_qindex_offsets),
    { "rc_twopass_stats_in.buf", "rc_twopass_stats_in", offsetof(Cfg, rc_twopass_stats_in) + offsetof(SvtAv1FixedBuf, buf),
      sizeof(void *), 0, 1, 1, 0, 1 },
    { "rc_twopass_stats_in.sz", "rc_twopass_stats_in", offsetof(Cfg, rc_twopass_stats_in) + offsetof(SvtAv1FixedBuf, sz),
      sizeof(uint64_t), 0, 1, 1, 0, 0 },
    P_FLD(rc_firstpass_stats_out),
    P_FLD(enable_qp_scaling_flag), P_FLD(disable_dlf_flag), P_FLD(enable_denoise_flag),
    P_FLD(film_grain_denoise_strength), P_FLD(enable_warped_motion), P_FLD(enable_global_motion),
    P_FLD(cdef_level), P_FLD(enable_restoration_filtering), P_FLD(sg_filter_mode), P_FLD(wn_filter_mode),
    P_FLD(intra_angle_delta), P_FLD(inter_intra_compound), P_FLD(enable_paeth), P_FLD(mrp_level),
    P_FLD(enable_smooth), P_FLD(enable_mfmv), P_FLD(enable_redundant_blk), P_FLD(spatial_sse_full_loop_level),
    P_FLD(over_bndry_blk), P_FLD(new_nearest_comb_inject), P_FLD(nsq_table), P_FLD(frame_end_cdf_update),
    P_FLD(pred_me), P_FLD(bipred_3x3_inject), P_FLD(compound_level), P_FLD(set_chroma_mode),
    P_FLD(disable_cfl_flag), P_FLD(obmc_level), P_FLD(rdoq_level), P_FLD(filter_intra_level),
    P_FLD(enable_intra_edge_filter), P_FLD(pic_based_rate_est), P_FLD(use_default_me_hme),
    P_FLD(enable_hme_flag), P_FLD(ext_block_flag), P_FLD(in_loop_me_flag), P_FLD(search_area_width),
    P_FLD(search_area_height), P_FLD(enable_hbd_mode_decision), P_FLD(palette_level),
    P_FLD(rate_control_mode), P_FLD(scene_change_detection), P_FLD(look_ahead_distance), P_FLD(enable_tpl_la),
    P_FLD(target_bit_rate), P_FLD(vbv_bufsize), P_FLD(max_qp_allowed), P_FLD(min_qp_allowed),
    P_FLD(vbr_bias_pct), P_FLD(vbr_min_section_pct), P_FLD(vbr_max_section_pct), P_FLD(under_shoot_pct),
    P_FLD(over_shoot_pct), P_FLD(recode_loop), P_FLD(screen_content_mode), P_FLD(intrabc_mode),
    P_FLD(enable_adaptive_quantization), P_FLD(high_dynamic_range_input), P_FLD(profile), P_FLD(tier),
    P_FLD(level), P_FLD(use_cpu_flags), P_FLD(channel_id), P_FLD(active_channel_count),
    P_FLD(speed_control_flag), P_FLD(injector_frame_rate), P_FLD(unrestricted_motion_vector),
    P_FLD(logical_processors), P_FLD(unpin), P_FLD(target_socket), P_FLD(recon_enabled), P_FLD(tile_columns),
    P_FLD(tile_rows), P_FLD(enable_hme_level0_flag), P_FLD(enable_hme_level1_flag),
    P_FLD(enable_hme_level2_flag), P_FLD(number_hme_search_region_in_width),
    P_FLD(number_hme_search_region_in_height), P_FLD(hme_level0_total_search_area_width),
    P_FLD(hme_level0_total_search_area_height), P_ARR(hme_level0_search_area_in_width_array),
    P_ARR(hme_level0_search_area_in_height_array), P_ARR(hme_level1_search_area_in_width_array),
    P_ARR(hme_level1_search_area_in_height_array), P_ARR(hme_level2_search_area_in_width_array),
    P_ARR(hme_level2_search_area_in_height_array), P_FLD(ten_bit_format), P_FLD(tf_level),
    P_FLD(altref_strength), P_FLD(altref_nframes), P_FLD(enable_overlays), P_FLD(superres_mode),
    P_FLD(superres_denom), P_FLD(superres_kf_denom), P_FLD(superres_qthres),
    P_PS(temporal_layer_index), P_PS(decode_order), P_PSA(ref_list0), P_PSA(ref_list1),
    P_FLD(enable_manual_pred_struct), P_FLD(manual_pred_struct_entry_num),
};
#define P_NFIELDS ((int)(sizeof(pfields) / sizeof(pfields[0])))

static inline char *pf_addr(const void *c, const PField *f, int i, int j) {
    return (char *)c + f->off + (size_t)i * f->stride + (size_t)j * f->size;
}
static inline long long pf_get(const void *c, const PField *f, int i, int j) {
    const char *p = pf_addr(c, f, i, j);
    switch (f->size) {
    case 1: return f->sgn ? (long long)*(const int8_t *)p : (long long)*(const uint8_t *)p;
    case 2: return f->sgn ? (long long)*(const int16_t *)p : (long long)*(const uint16_t *)p;
    case 4: return f->sgn ? (long long)*(const int32_t *)p : (long long)*(const uint32_t *)p;
    default: { int64_t v; memcpy(&v, p, 8); return (long long)v; }
    }
}
static inline void pf_put(void *c, const PField *f, int i, int j, long long v) {
    char *p = pf_addr(c, f, i, j);
    switch (f->size) {
    case 1: *(uint8_t *)p = (uint8_t)v; break;
    case 2: *(uint16_t *)p = (uint16_t)v; break;
    case 4: *(uint32_t *)p = (uint32_t)v; break;
    default: { int64_t w = (int64_t)v; memcpy(p, &w, 8); }
    }
}
/* element name into buf */
static inline const char *pf_name(const PField *f, int i, int j, char *buf, size_t n) {
    if (f->outer > 1) {
        const char *m = strchr(f->name, '.');
        if (f->inner > 1) snprintf(buf, n, "%s.%d.%s.%d", f->group, i, m ? m + 1 : "", j);
        else snprintf(buf, n, "%s.%d.%s", f->group, i, m ? m + 1 : "");
    } else if (f->inner > 1) snprintf(buf, n, "%s.%d", f->name, j);
    else snprintf(buf, n, "%s", f->name);
    return buf;
}
/* parses "name", "name.j", "pred_struct.i.member", "pred_struct.i.member.j"; returns field index or -1 */
static inline int pf_find(const char *key, int *pi, int *pj) {
    for (int k = 0; k < P_NFIELDS; k++) {
        const PField *f = &pfields[k];
        if (f->outer > 1) {
            size_t gl = strlen(f->group);
            if (strncmp(key, f->group, gl) || key[gl] != '.') continue;
            char *e; long i = strtol(key + gl + 1, &e, 10);
            if (*e != '.' || i < 0 || i >= f->outer) continue;
            const char *m = strchr(f->name, '.') + 1;
            size_t ml = strlen(m);
            if (strncmp(e + 1, m, ml)) continue;
            const char *r = e + 1 + ml;
            long j = 0;
            if (f->inner > 1) { if (*r != '.') continue; j = strtol(r + 1, &e, 10); if (*e || j < 0 || j >= f->inner) continue; }
            else if (*r) continue;
            *pi = (int)i; *pj = (int)j; return k;
        }
        size_t l = strlen(f->name);
        if (strncmp(key, f->name, l)) continue;
        if (f->inner > 1) {
            if (key[l] != '.') continue;
            char *e; long j = strtol(key + l + 1, &e, 10);
            if (*e || j < 0 || j >= f->inner) continue;
            *pi = 0; *pj = (int)j; return k;
        }
        if (key[l]) continue;
        *pi = 0; *pj = 0; return k;
    }
    return -1;
}
/* layout report: one JSON object with sizeof(Cfg), the rows and the bytes not covered by any row */
static inline void pf_layout(FILE *o) {
    size_t n = sizeof(Cfg);
    unsigned char *map = calloc(n, 1);
    int overlap = 0;
    fprintf(o, "{\"sizeof\":%zu,\"rows\":[", n);
    for (int k = 0; k < P_NFIELDS; k++) {
        const PField *f = &pfields[k];
        fprintf(o, "%s{\"name\":\"%s\",\"group\":\"%s\",\"off\":%zu,\"size\":%zu,\"sgn\":%d,\"outer\":%d,\"inner\":%d,\"stride\":%zu,\"ptr\":%d}",
                k ? "," : "", f->name, f->group, f->off, f->size, f->sgn, f->outer, f->inner, f->stride, f->ptr);
        for (int i = 0; i < f->outer; i++)
            for (int j = 0; j < f->inner; j++) {
                size_t a = f->off + (size_t)i * f->stride + (size_t)j * f->size;
                for (size_t b = 0; b < f->size; b++) { if (a + b >= n || map[a + b]) overlap++; else map[a + b] = 1; }
            }
    }
    fprintf(o, "],\"overlap\":%d,\"holes\":[", overlap);
    int first = 1;
    for (size_t a = 0; a < n;) {
        if (map[a]) { a++; continue; }
        size_t b = a;
        while (b < n && !map[b]) b++;
        fprintf(o, "%s[%zu,%zu]", first ? "" : ",", a, b - a);
        first = 0;
        a = b;
    }
    fprintf(o, "]}\n");
    free(map);
}
#endif
