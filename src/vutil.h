#ifndef VUTIL_H
#define VUTIL_H
#include <stdint.h>
#include <stddef.h>
static inline uint64_t vu_fnv(const void *p, size_t n, uint64_t h) {
    const uint8_t *b = (const uint8_t *)p;
    h ^= 0xcbf29ce484222325ULL;
    for (size_t i = 0; i < n; i++) { h ^= b[i]; h *= 0x100000001b3ULL; }
    h ^= h >> 29; h *= 0xbf58476d1ce4e5b9ULL; h ^= h >> 32;
    return h;
}
#endif
