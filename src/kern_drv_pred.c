// C07 drivers: intra predictors (low and high bit depth).
#include "kern_core.h"

#define ALIGN64 __attribute__((aligned(64)))
#define MAXE 512

// number of edge patterns: base alphabet in 1-D over [left bottom .. left top, top-left, above left .. above right] + group patterns
enum { EP_A_HI_L_LO = 0, EP_A_LO_L_HI, EP_TL_HI, EP_TL_LO, EP_AEND_HI, EP_LEND_HI, EP_N };

// fills edge samples e[0..n) (n = h + 1 + w): left[h-1]..left[0], topleft, above[0]..above[w-1]; returns 0 when done
static int edge_value(int ep, int npat1d, int i, int w, int h, long lo, long hi) {
    int n = w + h + 1;
    if (ep < npat1d) return (int)kc_pat_value(ep, i, 0, n, 1, lo, hi);
    ep -= npat1d;
    int is_above = i > h, is_left = i < h, is_tl = i == h;
    switch (ep) {
    case EP_A_HI_L_LO: return is_above ? hi : is_left ? lo : (lo + hi + 1) / 2;
    case EP_A_LO_L_HI: return is_above ? lo : is_left ? hi : (lo + hi + 1) / 2;
    case EP_TL_HI: return is_tl ? hi : lo;
    case EP_TL_LO: return is_tl ? lo : hi;
    case EP_AEND_HI: return i == n - 1 ? hi : lo;
    default: return i == 0 ? hi : lo;
    }
}
static const char *edge_name(int ep, int npat1d, long lo, long hi, char *buf) {
    static const char *N[EP_N] = {"above=max,left=min", "above=min,left=max", "only top-left max", "only top-left min",
                                  "only above[w-1] max", "only left[h-1] max"};
    if (ep < npat1d) return kc_pat_name(ep, lo, hi, buf);
    return N[ep - npat1d];
}

static int strides4(int w, int *s) {
    s[0] = w; s[1] = w + 1; s[2] = w + 16; s[3] = 2 * w;
    return 4;
}

typedef void (*pred8_fn)(uint8_t *dst, ptrdiff_t stride, const uint8_t *above, const uint8_t *left);
typedef void (*pred16_fn)(uint16_t *dst, ptrdiff_t stride, const uint16_t *above, const uint16_t *left, int bd);

static uint8_t  A8[MAXE] ALIGN64, L8[MAXE] ALIGN64, D8a[64 * 2 * 160 + 256] ALIGN64, D8b[64 * 2 * 160 + 256] ALIGN64;
static uint16_t A16[MAXE] ALIGN64, L16[MAXE] ALIGN64, D16a[64 * 2 * 160 + 256] ALIGN64, D16b[64 * 2 * 160 + 256] ALIGN64;

// one edge configuration -> all strides, all variants
static void pred8_case(Run *r, int w, int h, const char *what, int nontrivial) {
    const Kern *k = r->k;
    int         st[4], ns = strides4(w, st);
    for (int si = 0; si < ns; si++) {
        if (!case_begin(r, nontrivial)) continue;
        size_t n = 64 + (size_t)h * st[si] + 64;
        kc_junk(D8a, n, 7);
        ((pred8_fn)k->c)(D8a + 64, st[si], A8 + 64, L8 + 64);
        VERBOSE(r, "case %lld: %dx%d stride=%d edge=%s; C output row0: %d %d %d %d ...", r->case_idx - 1, w, h, st[si], what, D8a[64], D8a[65],
                D8a[66], D8a[67]);
        for (int vi = 0; vi < k->nv; vi++) {
            if (!var_on(r, vi)) continue;
            kc_junk(D8b, n, 7);
            ((pred8_fn)k->v[vi].fn)(D8b + 64, st[si], A8 + 64, L8 + 64);
            long d = kc_diff(D8a, D8b, n);
            if (d >= 0)
                MISMATCH(r, vi, "%dx%d stride=%d edge pattern '%s': first difference at dst offset %ld (row %ld col %ld): c=%d simd=%d", w, h,
                         st[si], what, d - 64, (d - 64) / st[si], (d - 64) % st[si], D8a[d], D8b[d]);
        }
    }
}

void drv_intra_lbd(Run *r) {
    int  w = r->k->w, h = r->k->h, n = w + h + 1;
    long lo = 0, hi = 255;
    int  np = kc_npat(r, lo, hi);
    char nb[32];
    kc_junk(A8, sizeof A8, 1);
    kc_junk(L8, sizeof L8, 2);
    for (int ep = 0; ep < np + EP_N && !r->stop; ep++) {
        for (int i = 0; i < n; i++) {
            int v = edge_value(ep, np, i, w, h, lo, hi);
            if (i < h) L8[64 + (h - 1 - i)] = (uint8_t)v;
            else if (i == h) A8[63] = L8[63] = (uint8_t)v;
            else A8[64 + (i - h - 1)] = (uint8_t)v;
        }
        pred8_case(r, w, h, edge_name(ep, np, lo, hi, nb), ep > PAT_MID);
    }
    if (n <= 16) { // complete {min,max}^n cube
        char what[64];
        for (unsigned m = 0; m < (1u << n) && !r->stop; m++) {
            for (int i = 0; i < n; i++) {
                int v = (m >> i) & 1 ? hi : lo;
                if (i < h) L8[64 + (h - 1 - i)] = (uint8_t)v;
                else if (i == h) A8[63] = L8[63] = (uint8_t)v;
                else A8[64 + (i - h - 1)] = (uint8_t)v;
            }
            snprintf(what, sizeof what, "cube mask 0x%x (bit i: left[h-1-i] / top-left / above[i-h-1] = max)", m);
            pred8_case(r, w, h, what, m != 0 && m != (1u << n) - 1);
        }
    }
}

static void pred16_case(Run *r, int w, int h, int bd, const char *what, int nontrivial) {
    const Kern *k = r->k;
    int         st[4], ns = strides4(w, st);
    for (int si = 0; si < ns; si++) {
        if (!case_begin(r, nontrivial)) continue;
        size_t n = 64 + (size_t)h * st[si] + 64;
        kc_junk(D16a, n * 2, 7);
        ((pred16_fn)k->c)(D16a + 64, st[si], A16 + 64, L16 + 64, bd);
        VERBOSE(r, "case %lld: %dx%d bd=%d stride=%d edge=%s; C output row0: %d %d ...", r->case_idx - 1, w, h, bd, st[si], what, D16a[64], D16a[65]);
        for (int vi = 0; vi < k->nv; vi++) {
            if (!var_on(r, vi)) continue;
            kc_junk(D16b, n * 2, 7);
            ((pred16_fn)k->v[vi].fn)(D16b + 64, st[si], A16 + 64, L16 + 64, bd);
            long d = kc_diff(D16a, D16b, n * 2);
            if (d >= 0) {
                d /= 2;
                MISMATCH(r, vi, "%dx%d bd=%d stride=%d edge pattern '%s': first difference at dst offset %ld (row %ld col %ld): c=%d simd=%d", w, h,
                         bd, st[si], what, d - 64, (d - 64) / st[si], (d - 64) % st[si], D16a[d], D16b[d]);
            }
        }
    }
}

void drv_intra_hbd(Run *r) {
    int  w = r->k->w, h = r->k->h, n = w + h + 1;
    char nb[32];
    static const int BD[3] = {8, 10, 12};
    kc_junk(A16, sizeof A16, 1);
    kc_junk(L16, sizeof L16, 2);
    for (int bi = 0; bi < 3; bi++) {
        int  bd = BD[bi];
        long lo = 0, hi = (1 << bd) - 1;
        int  np = kc_npat(r, lo, hi);
        // junk outside the edges must still be valid pixels of this depth
        for (int i = 0; i < MAXE; i++) { A16[i] &= hi; L16[i] &= hi; }
        for (int ep = 0; ep < np + EP_N && !r->stop; ep++) {
            for (int i = 0; i < n; i++) {
                int v = edge_value(ep, np, i, w, h, lo, hi);
                if (i < h) L16[64 + (h - 1 - i)] = (uint16_t)v;
                else if (i == h) A16[63] = L16[63] = (uint16_t)v;
                else A16[64 + (i - h - 1)] = (uint16_t)v;
            }
            pred16_case(r, w, h, bd, edge_name(ep, np, lo, hi, nb), ep > PAT_MID);
        }
        if (n <= 16) {
            char what[64];
            for (unsigned m = 0; m < (1u << n) && !r->stop; m++) {
                for (int i = 0; i < n; i++) {
                    int v = (m >> i) & 1 ? hi : lo;
                    if (i < h) L16[64 + (h - 1 - i)] = (uint16_t)v;
                    else if (i == h) A16[63] = L16[63] = (uint16_t)v;
                    else A16[64 + (i - h - 1)] = (uint16_t)v;
                }
                snprintf(what, sizeof what, "cube mask 0x%x (bit i: left[h-1-i] / top-left / above[i-h-1] = max)", m);
                pred16_case(r, w, h, bd, what, m != 0 && m != (1u << n) - 1);
            }
        }
    }
}
