// C07 drivers: inter-prediction convolve family.
//   conv_lbd: svt_av1_convolve_{2d_copy,x,y,2d}_sr, svt_av1_jnt_convolve_{2d_copy,x,y,2d}                (8-bit pixels)
//   conv_hbd: svt_av1_highbd_convolve_{2d_copy,x,y,2d}_sr, svt_av1_highbd_jnt_convolve_{2d_copy,x,y,2d}  (uint16 pixels, bd 8/10/12)
// k->a: bit0 = horizontal filter used, bit1 = vertical filter used, bit2 = compound ("jnt") kernel.
//
// VALID DOMAIN (what the call sites can pass; all call sites go through the tables convolve[sx!=0][sy!=0][is_compound] /
// convolveHbd[..] of Common/Codec/EbInterPrediction.c:1146-1174, or through convolve_2d_for_intrabc ibid.:1274-1366):
//  * kernel selection: the x kernels are only reached with subpel_x in 1..15 and subpel_y == 0, the y kernels with subpel_y in
//    1..15 and subpel_x == 0, the 2d kernels with both in 1..15, the copy kernels with both 0 (EbInterPrediction.c:1419,1487,
//    Encoder/Codec/EbEncInterPrediction.c:190,1146,1289,2559,...).
//  * filter_params_x/y are the library's own InterpFilterParams objects returned by
//    av1_get_interp_filter_params_with_block_size(filter, w or h) (EbInterPrediction.c:1254-1270): for a dimension <= 4 the 4-tap
//    tables (regular and sharp share one), BILINEAR always the 2-tap table. The AVX2 kernels derive the tap count from the identity
//    of filter_ptr (ASM_AVX2/convolve_avx2.h:84), so only these objects are valid. x and y filters are independent (dual filter).
//    Intra block copy (EbInterPrediction.c:1274-1366) calls the non-compound x / y / 2d kernels with the BILINEAR table, subpel 8
//    and a NULL pointer for the filter of the unused direction.
//  * (w,h): luma blocks of every AV1 BlockSize; 4:2:0 chroma blocks (W/2 x H/2; for luma blocks with a dimension of 4 either
//    the merged chroma block max(W,8)/2 x max(H,8)/2 or, "sub8x8" (EbEncInterPrediction.c:4200-4345,
//    Decoder/Codec/EbDecInterPrediction.c:840-860), the pieces W/2 x H/2 = 2x2, 2x4, 4x2, 2x8, 8x2; non-compound only);
//    OBMC neighbour predictions (EbEncInterPrediction.c:918-996,1394-1480: width min(W, 8..64) x height clamp(H/2,4,32) luma and
//    half of that, not below 4, for chroma; transposed for the left neighbours; non-compound only).  Compound prediction needs
//    min(W,H) >= 8 luma, i.e. >= 4 chroma.  The driver derives the two size sets from block_size_wide/high with exactly these rules.
//  * ConvolveParams as built by get_conv_params_no_round(0, do_average, 0, dst, dst_stride, is_compound, bd)
//    (Common/Codec/convolve.h:44): round_0 = 3 (5 for bd 12), round_1 = 7 compound / 11 (9 for bd 12) otherwise.  CONV_BUF dst is a
//    32-byte aligned uint16 array with stride 128 (luma, decoder all planes) or 64 (encoder chroma) and the block at offset 0
//    (EbEncInterPrediction.c:1142,1196,2550; EbDecInterPrediction.c:868).  do_average = 1 only on the second reference of a
//    compound block, use_jnt_comp_avg == use_dist_wtd_comp_avg with (fwd_offset, bck_offset) one row of quant_dist_lookup_table
//    (svt_av1_dist_wtd_comp_weight_assign, EbInterPrediction.c:303-347; order_idx is always 0 but both orders occur, so the 8
//    ordered pairs (9,7) (7,9) (11,5) (5,11) (12,4) (4,12) (13,3) (3,13)).
//  * for do_average = 1 the CONV_BUF holds the first reference's do_average = 0 output: any value the four compound C kernels can
//    produce for that bit depth.  The driver measures that range by calling the C kernels on worst-case 8x8 patches for every
//    filter table row pair and draws the pattern alphabet over [min, max].
//  * the source block lies inside a padded reference picture at an arbitrary (unaligned) position: C reads columns -3..w+3 and rows
//    -3..h+3; the driver provides 8 more rows / columns + 64 bytes of (valid-pixel) junk around for SIMD over-reads.
//  * bit depth for the highbd kernels: 8 (16-bit pipeline on 8-bit content), 10, 12.
#include "EbDefinitions.h"
#include "EbInterPrediction.h"
#include "convolve.h"
#include "filter.h"
#include "common_dsp_rtcd.h"
#include "kern_core.h"

#define ALIGN64 __attribute__((aligned(64)))
#define BRD 8 // border rows / columns of junk around the region the C kernels read
#define SRCN ((128 + 2 * BRD) * 2 * (128 + 2 * BRD) + 256)
#define DSTN (64 + 128 + 128 * 256 + 64 + 64)
#define CNVN (64 + 128 * 128 + 64)

static uint16_t SRC[SRCN] ALIGN64, SRCJ[SRCN] ALIGN64;                       // source (u8 view or u16), junk master
static uint16_t DSTC[DSTN] ALIGN64, DSTV[DSTN] ALIGN64, DSTJ[DSTN] ALIGN64;  // dst of the C call, of the SIMD call, junk master
static uint16_t CNVC[CNVN] ALIGN64, CNVV[CNVN] ALIGN64, CNVM[CNVN] ALIGN64;  // CONV_BUF of the C call, of the SIMD call, master

static const char *FNAME[4] = {"EIGHTTAP_REGULAR", "EIGHTTAP_SMOOTH", "MULTITAP_SHARP", "BILINEAR"};
static const int   WGT[8][2] = {{9, 7}, {7, 9}, {11, 5}, {5, 11}, {12, 4}, {4, 12}, {13, 3}, {3, 13}};
#define NCM 11 // compound modes: 0 no-avg, 1 no-avg (dist-wtd flags set), 2 avg, 3..10 dist-wtd avg with WGT[cm-3]

typedef struct { uint8_t w, h; } WH;

typedef struct {
    InterpFilterParams p[4];
    int                id[4];
    int                n;
} FList;

// the distinct InterpFilterParams the library hands out for a block dimension
static void filt_list(int dim, FList *l) {
    l->n = 0;
    for (int f = 0; f < 4; f++) {
        InterpFilterParams p = av1_get_interp_filter_params_with_block_size((InterpFilter)f, dim);
        int                dup = 0;
        for (int i = 0; i < l->n; i++) dup |= l->p[i].filter_ptr == p.filter_ptr;
        if (dup) continue;
        l->p[l->n] = p;
        l->id[l->n++] = f;
    }
}
static const char *filt_name(const InterpFilterParams *p, int id, char *buf) {
    if (!p) return "NULL";
    int t4 = (const void *)p->filter_ptr == (const void *)sub_pel_filters_4 || (const void *)p->filter_ptr == (const void *)sub_pel_filters_4smooth;
    sprintf(buf, "%s%s", FNAME[id], t4 ? "(4-tap table)" : "");
    return buf;
}

// ---------------------------------------------------------------------------------------------------------------- sizes
static int cl(int v, int lo, int hi) { return v < lo ? lo : v > hi ? hi : v; }
static int size_cmp(const void *a, const void *b) {
    const WH *x = a, *y = b;
    int       d = x->w * x->h - y->w * y->h;
    return d ? d : x->w - y->w;
}
static int build_sizes(int compound, WH *out) {
    uint8_t v[129][129];
    memset(v, 0, sizeof v);
    for (int bs = 0; bs < BlockSizeS_ALL; bs++) {
        int W = block_size_wide[bs], H = block_size_high[bs];
        if (compound) {
            if (W < 8 || H < 8) continue;
            v[W][H] = v[W / 2][H / 2] = 1;
            continue;
        }
        v[W][H] = 1;
        if (W >= 8 && H >= 8) v[W / 2][H / 2] = 1;
        else {
            v[(W < 8 ? 8 : W) / 2][(H < 8 ? 8 : H) / 2] = 1; // chroma of the merged 8xN / Nx8 area
            v[W / 2][H / 2] = 1;                             // sub8x8 pieces
        }
        if (W >= 8 && H >= 8) { // OBMC neighbour predictions for a WxH block
            for (int n = 8; n <= 64 && n <= W; n *= 2) { v[n][cl(H / 2, 4, 32)] = 1; v[n / 2][cl(H / 4, 4, 16)] = 1; }
            for (int n = 8; n <= 64 && n <= H; n *= 2) { v[cl(W / 2, 4, 32)][n] = 1; v[cl(W / 4, 4, 16)][n / 2] = 1; }
        }
    }
    int n = 0;
    for (int w = 2; w <= 128; w *= 2)
        for (int h = 2; h <= 128; h *= 2)
            if (v[w][h]) { out[n].w = (uint8_t)w; out[n++].h = (uint8_t)h; }
    qsort(out, n, sizeof *out, size_cmp);
    return n;
}

// ---------------------------------------------------------------------------------------------------------------- tuple
typedef struct {
    int                       w, h, bd;
    int                       sidx, didx;   // source / destination stride choice 0..3
    const InterpFilterParams *fx, *fy;      // NULL: intra block copy passes NULL for the unused direction
    int                       fxid, fyid;
    int                       sx, sy;
    int                       pat;          // < np: kern_core pattern; np: tap-sign max; np + 1: tap-sign min
    int                       cm;           // compound mode (0 for the sr kernels)
    int                       cstride;      // CONV_BUF stride 64 / 128
    int                       cpat;         // CONV_BUF pre-fill pattern for do_average = 1
} Tup;

typedef struct {
    Run *r;
    int  hbd, ux, uy, comp;
    int  np;           // kern_core patterns for the pixel range of the current bit depth
    long clo, chi;     // CONV_BUF value range for the current bit depth
    int  npc;          // kern_core patterns over [clo, chi]
    // cache keys of the prepared buffers
    Tup  src_key;
    int  src_valid;
    const int16_t *src_fxp, *src_fyp;
    int  cnv_w, cnv_h, cnv_stride, cnv_pat, cnv_bd;
    int  dj_bd;
} Ctx;

static void call_kernel(const Ctx *c, void *fn, const Tup *t, const void *src, int sstride, void *dst, int dstride, ConvolveParams *cp) {
    if (c->hbd)
        ((aom_highbd_convolve_fn_t)fn)((const uint16_t *)src, sstride, (uint16_t *)dst, dstride, t->w, t->h, t->fx, t->fy, t->sx, t->sy, cp, t->bd);
    else {
        InterpFilterParams fx, fy; // the 8-bit prototypes take non-const pointers: hand out copies
        if (t->fx) fx = *t->fx;
        if (t->fy) fy = *t->fy;
        ((AomConvolveFn)fn)((const uint8_t *)src, sstride, (uint8_t *)dst, dstride, t->w, t->h, t->fx ? &fx : NULL, t->fy ? &fy : NULL, t->sx, t->sy, cp);
    }
}

// ---- CONV_BUF value range: extremes of the do_average = 0 output of the four compound C kernels for this bit depth
static void conv_range(Ctx *c, int bd) {
    static long cache[2][13][2];
    static int  have[2][13];
    if (have[c->hbd][bd]) { c->clo = cache[c->hbd][bd][0]; c->chi = cache[c->hbd][bd][1]; return; }
    void *fn[4];
    if (c->hbd) {
        fn[0] = (void *)svt_av1_highbd_jnt_convolve_2d_copy_c; fn[1] = (void *)svt_av1_highbd_jnt_convolve_x_c;
        fn[2] = (void *)svt_av1_highbd_jnt_convolve_y_c;       fn[3] = (void *)svt_av1_highbd_jnt_convolve_2d_c;
    } else {
        fn[0] = (void *)svt_av1_jnt_convolve_2d_copy_c; fn[1] = (void *)svt_av1_jnt_convolve_x_c;
        fn[2] = (void *)svt_av1_jnt_convolve_y_c;       fn[3] = (void *)svt_av1_jnt_convolve_2d_c;
    }
    FList l8, l4;
    filt_list(8, &l8);
    filt_list(4, &l4);
    InterpFilterParams P[8];
    int                np = 0;
    for (int i = 0; i < l8.n; i++) P[np++] = l8.p[i];
    for (int i = 0; i < l4.n; i++) {
        int dup = 0;
        for (int j = 0; j < np; j++) dup |= P[j].filter_ptr == l4.p[i].filter_ptr;
        if (!dup) P[np++] = l4.p[i];
    }
    long           lo = 1 << 30, hi = -1, pmax = (1L << bd) - 1;
    uint16_t       patch16[8 * 8], out[4];
    uint8_t        patch8[8 * 8], d8[8];
    uint16_t       d16[8];
    ConvolveParams cp = get_conv_params_no_round(0, 0, 0, out, 1, 1, bd);
    cp.use_jnt_comp_avg = cp.use_dist_wtd_comp_avg = 0;
    cp.fwd_offset = cp.bck_offset = 8;
    Ctx cc = *c;
    for (int kind = 0; kind < 4; kind++)
        for (int ix = 0; ix < (kind & 1 ? np : 1); ix++)
            for (int sx = 0; sx < (kind & 1 ? 16 : 1); sx++)
                for (int iy = 0; iy < (kind & 2 ? np : 1); iy++)
                    for (int sy = 0; sy < (kind & 2 ? 16 : 1); sy++)
                        for (int inv = 0; inv < 2; inv++) {
                            const int16_t *fx = P[ix].filter_ptr + 8 * sx, *fy = P[iy].filter_ptr + 8 * sy;
                            for (int y = 0; y < 8; y++)
                                for (int x = 0; x < 8; x++) {
                                    int s = (kind & 1 ? (fx[x] > 0) - (fx[x] < 0) : x == 3) * (kind & 2 ? (fy[y] > 0) - (fy[y] < 0) : y == 3);
                                    long v = (inv ? -s : s) > 0 ? pmax : 0;
                                    patch8[y * 8 + x] = (uint8_t)v;
                                    patch16[y * 8 + x] = (uint16_t)v;
                                }
                            Tup t;
                            memset(&t, 0, sizeof t);
                            t.w = t.h = 1; t.bd = bd; t.fx = &P[ix]; t.fy = &P[iy]; t.sx = sx; t.sy = sy;
                            out[0] = 0;
                            call_kernel(&cc, fn[kind], &t, c->hbd ? (void *)(patch16 + 3 * 8 + 3) : (void *)(patch8 + 3 * 8 + 3), 8,
                                        c->hbd ? (void *)d16 : (void *)d8, 4, &cp);
                            if (out[0] < lo) lo = out[0];
                            if (out[0] > hi) hi = out[0];
                        }
    have[c->hbd][bd] = 1;
    c->clo = cache[c->hbd][bd][0] = lo;
    c->chi = cache[c->hbd][bd][1] = hi;
}

// ---- source preparation
static long pat_value(const Ctx *c, const Tup *t, int x, int y, int rw, int rh, long hi) {
    if (t->pat < c->np) return kc_pat_value(t->pat, x, y, rw, rh, 0, hi);
    // tap-sign patterns: the sample under tap (i,j) of the output pixels at (8m, 8n) is max when the product of the two taps is
    // positive (pattern np) / negative (pattern np + 1) and min otherwise: those output pixels reach the largest / smallest
    // intermediate and final sums the filter pair can produce
    int sgx = 1, sgy = 1;
    if (c->ux && t->fx) { int k = t->fx->filter_ptr[8 * t->sx + (x & 7)]; sgx = (k > 0) - (k < 0); }
    if (c->uy && t->fy) { int k = t->fy->filter_ptr[8 * t->sy + (y & 7)]; sgy = (k > 0) - (k < 0); }
    int s = sgx * sgy;
    if (t->pat == c->np + 1) s = -s;
    return s > 0 ? hi : 0;
}
static const char *pat_name(const Ctx *c, const Tup *t, long hi, char *buf) {
    if (t->pat < c->np) return kc_pat_name(t->pat, 0, hi, buf);
    return t->pat == c->np ? "tap-sign(max where tapx*tapy>0 else min, period 8)" : "tap-sign(max where tapx*tapy<0 else min, period 8)";
}
static int pat_nontrivial(const Ctx *c, const Tup *t) { return t->pat >= c->np || kc_pat_nontrivial(t->pat); }

static int src_stride_of(const Tup *t) {
    int W = t->w + 2 * BRD;
    return t->sidx == 0 ? W : t->sidx == 1 ? W + 1 : t->sidx == 2 ? W + 16 : 2 * W;
}
static int dst_stride_of(const Tup *t) {
    return t->didx == 0 ? t->w : t->didx == 1 ? t->w + 1 : t->didx == 2 ? t->w + 16 : 2 * t->w;
}
// element offset of the block origin in SRC
static long src_origin(const Tup *t) { return 64 + (long)BRD * src_stride_of(t) + BRD + (t->sidx & 1); }
static long dst_origin(const Tup *t) { return 64 + ((t->didx & 1) ? t->w : 0); }

static void prep_src(Ctx *c, const Tup *t) {
    Tup k = *t; // key: everything the source content depends on
    if (t->pat < c->np) { k.fx = k.fy = NULL; k.sx = k.sy = 0; }
    const Tup *q = &c->src_key;
    if (c->src_valid && k.w == q->w && k.h == q->h && k.bd == q->bd && k.sidx == q->sidx && k.pat == q->pat && k.fx == q->fx && k.fy == q->fy &&
        k.sx == q->sx && k.sy == q->sy && (k.fx == NULL || k.fx->filter_ptr == c->src_fxp) && (k.fy == NULL || k.fy->filter_ptr == c->src_fyp))
        return;
    c->src_fxp = k.fx ? k.fx->filter_ptr : NULL;
    c->src_fyp = k.fy ? k.fy->filter_ptr : NULL;
    long hi = (1L << t->bd) - 1;
    int  ss = src_stride_of(t);
    long n = 64 + (long)(t->h + 2 * BRD) * ss + 64 + 1;
    if (c->hbd) {
        for (long i = 0; i < n; i++) SRC[i] = (uint16_t)(SRCJ[i] & hi);
    } else
        memcpy(SRC, SRCJ, n);
    int  x0 = c->ux ? -3 : 0, y0 = c->uy ? -3 : 0, rw = t->w + (c->ux ? 7 : 0), rh = t->h + (c->uy ? 7 : 0);
    long o = src_origin(t);
    for (int y = 0; y < rh; y++)
        for (int x = 0; x < rw; x++) {
            long v = pat_value(c, t, x, y, rw, rh, hi), at = o + (long)(y + y0) * ss + (x + x0);
            if (c->hbd) SRC[at] = (uint16_t)v;
            else ((uint8_t *)SRC)[at] = (uint8_t)v;
        }
    c->src_key = k;
    c->src_valid = 1;
}
// CONV_BUF master: junk, and for do_average = 1 the w x h block holds pattern cpat over [clo, chi]
static void prep_cnv(Ctx *c, const Tup *t) {
    int pat = (c->comp && t->cm >= 2) ? t->cpat : -1;
    if (c->cnv_w == t->w && c->cnv_h == t->h && c->cnv_stride == t->cstride && c->cnv_pat == pat && c->cnv_bd == t->bd) return;
    kc_junk(CNVM, sizeof CNVM, 21);
    if (pat >= 0) kc_fill_u16(CNVM + 64, t->w, t->h, t->cstride, pat, c->clo, c->chi);
    c->cnv_w = t->w; c->cnv_h = t->h; c->cnv_stride = t->cstride; c->cnv_pat = pat; c->cnv_bd = t->bd;
}

static void describe(const Ctx *c, const Tup *t, char *out, size_t n) {
    char b1[64], b2[64], b3[32], b4[32];
    long hi = (1L << t->bd) - 1;
    int  o = snprintf(out, n, "w=%d h=%d%s src_stride=%d src_misalign=%d dst_stride=%d dst_column_offset=%d filter_x=%s filter_y=%s subpel_x_q4=%d subpel_y_q4=%d src pattern '%s' over [0,%ld]",
                      t->w, t->h, c->hbd ? (t->bd == 8 ? " bd=8" : t->bd == 10 ? " bd=10" : " bd=12") : "", src_stride_of(t),
                      t->sidx & 1, dst_stride_of(t), (t->didx & 1) ? t->w : 0, filt_name(t->fx, t->fxid, b1),
                      filt_name(t->fy, t->fyid, b2), t->sx, t->sy, pat_name(c, t, hi, b3), hi);
    ConvolveParams cp = get_conv_params_no_round(0, 0, 0, NULL, 0, c->comp, t->bd);
    if (c->comp) {
        int avg = t->cm >= 2, jnt = t->cm == 1 || t->cm >= 3;
        const int *wg = WGT[t->cm >= 3 ? t->cm - 3 : 0];
        o += snprintf(out + o, n - o, " conv_params{is_compound=1 do_average=%d use_jnt_comp_avg=%d fwd_offset=%d bck_offset=%d round_0=%d round_1=%d dst_stride=%d}", avg,
                      jnt, wg[0], wg[1], cp.round_0, cp.round_1, t->cstride);
        if (avg) snprintf(out + o, n - o, " CONV_BUF pre-filled with pattern '%s' over [%ld,%ld]", kc_pat_name(t->cpat, c->clo, c->chi, b4), c->clo, c->chi);
    } else
        snprintf(out + o, n - o, " conv_params{is_compound=0 round_0=%d round_1=%d}", cp.round_0, cp.round_1);
}

// one argument tuple: prepare, call C, call and compare every variant
static void emit(Ctx *c, const Tup *t) {
    Run        *r = c->r;
    const Kern *k = r->k;
    if (r->stop) return;
    if (case_skip_fast(r)) return;
    prep_src(c, t);
    prep_cnv(c, t);
    if (!case_begin(r, pat_nontrivial(c, t))) return;
    int    es = c->hbd ? 2 : 1, ss = src_stride_of(t), ds = dst_stride_of(t);
    long   so = src_origin(t), dorg = dst_origin(t);
    size_t dlen = (size_t)(dorg + (long)t->h * ds + 64) * es, clen = (size_t)(64 + (long)t->h * t->cstride + 64) * 2;
    void  *src = c->hbd ? (void *)(SRC + so) : (void *)((uint8_t *)SRC + so);
    ConvolveParams cp0 = get_conv_params_no_round(0, c->comp && t->cm >= 2, 0, NULL, t->cstride, c->comp, t->bd), cp;
    cp0.ref = cp0.plane = 0;
    cp0.use_jnt_comp_avg = cp0.use_dist_wtd_comp_avg = c->comp && (t->cm == 1 || t->cm >= 3);
    cp0.fwd_offset = WGT[t->cm >= 3 ? t->cm - 3 : 0][0];
    cp0.bck_offset = WGT[t->cm >= 3 ? t->cm - 3 : 0][1];

    memcpy(DSTC, DSTJ, dlen);
    memcpy(CNVC, CNVM, clen);
    cp = cp0;
    cp.dst = CNVC + 64;
    call_kernel(c, k->c, t, src, ss, c->hbd ? (void *)(DSTC + dorg) : (void *)((uint8_t *)DSTC + dorg), ds, &cp);
    if (r->verbose) {
        char d[900];
        describe(c, t, d, sizeof d);
        unsigned d0 = c->hbd ? DSTC[dorg] : ((uint8_t *)DSTC)[dorg], d1 = c->hbd ? DSTC[dorg + 1] : ((uint8_t *)DSTC)[dorg + 1];
        VERBOSE(r, "case %lld: %s -> c dst[0..1] = %u %u conv_buf[0..1] = %u %u", r->case_idx - 1, d, d0, d1, CNVC[64], CNVC[65]);
    }
    for (int vi = 0; vi < k->nv; vi++) {
        if (!var_on(r, vi)) continue;
        memcpy(DSTV, DSTJ, dlen);
        memcpy(CNVV, CNVM, clen);
        cp = cp0;
        cp.dst = CNVV + 64;
        call_kernel(c, k->v[vi].fn, t, src, ss, c->hbd ? (void *)(DSTV + dorg) : (void *)((uint8_t *)DSTV + dorg), ds, &cp);
        long dd = kc_diff(DSTC, DSTV, dlen), cd = kc_diff(CNVC, CNVV, clen);
        if (dd < 0 && cd < 0) continue;
        char d[900], where[200];
        describe(c, t, d, sizeof d);
        if (dd >= 0) {
            long e = dd / es - dorg, y = e >= 0 ? e / ds : -1, x = e >= 0 ? e % ds : e;
            unsigned cv = c->hbd ? DSTC[dd / 2] : ((uint8_t *)DSTC)[dd], vv = c->hbd ? DSTV[dd / 2] : ((uint8_t *)DSTV)[dd];
            unsigned jv = c->hbd ? DSTJ[dd / 2] : ((uint8_t *)DSTJ)[dd];
            snprintf(where, sizeof where, "dst differs first at (x=%ld,y=%ld)%s: c %u simd %u (poison was %u)", x, y,
                     (e < 0 || x >= t->w || y >= t->h) ? " OUTSIDE the block" : "", cv, vv, jv);
        } else {
            long e = cd / 2 - 64, y = e >= 0 ? e / t->cstride : -1, x = e >= 0 ? e % t->cstride : e;
            snprintf(where, sizeof where, "CONV_BUF differs first at (x=%ld,y=%ld)%s: c %u simd %u (before the call %u)", x, y,
                     (e < 0 || x >= t->w || y >= t->h) ? " OUTSIDE the block" : "", CNVC[cd / 2], CNVV[cd / 2], CNVM[cd / 2]);
        }
        MISMATCH(r, vi, "%s: %s", d, where);
    }
}

// ---------------------------------------------------------------------------------------------------------------- enumeration
// ENUMERATION per kernel: for every valid (w,h) in order of area, for every bit depth (highbd: 8, 10, 12), four slices.  Dimensions a
// slice does not enumerate are cycled by a running counter (deterministic).  S = tier subpel set: thorough {1..15} (highbd 2d
// kernels: {1..15} at bd 10, {1,4,8,15} at bd 8 and 12); quick {1,4,8,15} (8-bit kernels) / {1,8,15} (highbd kernels).  F(d) = the distinct filter objects for dimension d (4, or 3 for d <= 4).
//  slice 1  every filter [pair] F(w) [x F(h)] x every subpel [pair] of S [x S] x stress patterns P1 (2d kernels: tap-sign max,
//           tap-sign min, texture; x / y kernels additionally checker, alt-columns, alt-rows, all-max), and for compound kernels the
//           class {no average, average, distance-weighted average (weight pair cycling)} rotating against the pattern so that every
//           (filter, subpel) tuple meets every class and every P1 pattern.  Strides, CONV_BUF stride and pattern cycle.
//  slice 2  every source pattern (kern_core alphabet of the tier + the two tap-sign patterns) x source stride/misalignment
//           {W,W+1(+1),W+16,2W(+1)} (W = w + 16) x destination stride/column {w, w+1 (column w), w+16, 2w (column w)}; filters, subpels
//           (all of 1..15), the 11 compound modes, CONV_BUF stride/pattern cycle.  Quick highbd: the 4x4 stride product only for
//           bd 10, one stride pair per pattern (cycling) for bd 8 and 12.
//  slice 3  (compound) every compound mode (no-avg with flags clear / set, avg, dist-wtd avg x 8 weight pairs) x CONV_BUF stride
//           {128, 64 if w <= 64} x every CONV_BUF pattern (kern_core alphabet of the tier over the measured CONV_BUF range; one
//           tuple for the no-avg modes) x source pattern {texture, tap-sign max, all-max} (quick: one of the three, cycling).
//  slice 4  (non-compound x / y / 2d) intra block copy form: BILINEAR, subpel 8, NULL filter for an unused direction, every
//           source pattern.
static void enumerate_size(Ctx *c, int w, int h, int bd) {
    Run  *r = c->r;
    FList lx, ly;
    filt_list(w, &lx);
    filt_list(h, &ly);
    long hi = (1L << bd) - 1;
    c->np = kc_npat(r, 0, hi);
    if (c->comp) { conv_range(c, bd); c->npc = kc_npat(r, c->clo, c->chi); }
    else { c->clo = 0; c->chi = 1; c->npc = 1; }
    static const int QL[4] = {1, 4, 8, 15}, QH[3] = {1, 8, 15};
    int              sp[15], nsp = 0;
    if (r->thorough && !(c->hbd && c->ux && c->uy && bd != 10)) for (int i = 1; i <= 15; i++) sp[nsp++] = i;
    else if (c->hbd && !r->thorough) for (int i = 0; i < 3; i++) sp[nsp++] = QH[i];
    else for (int i = 0; i < 4; i++) sp[nsp++] = QL[i];
    int nfx = c->ux ? lx.n : 1, nfy = c->uy ? ly.n : 1;
    int nsx = c->ux ? nsp : 1, nsy = c->uy ? nsp : 1;
    int ncs = w <= 64 ? 2 : 1; // CONV_BUF strides {128, 64}
    int ncls = c->comp ? 3 : 1;
    Tup t;
    memset(&t, 0, sizeof t);
    t.w = w; t.h = h; t.bd = bd; t.cstride = 128;
    unsigned cnt = 0; // cycles the dimensions a slice does not enumerate
#define CYCLE_STRIDES() do { t.sidx = cnt & 3; t.didx = (cnt >> 2) & 3; t.cstride = (ncs == 2 && (cnt >> 4 & 1)) ? 64 : 128; } while (0)
#define SET_F(ix, iy) do { t.fx = &lx.p[ix]; t.fxid = lx.id[ix]; t.fy = &ly.p[iy]; t.fyid = ly.id[iy]; } while (0)

    // slice 1
    if (c->ux || c->uy) {
        int P1[8], n1 = 0;
        P1[n1++] = c->np; P1[n1++] = c->np + 1; P1[n1++] = PAT_TEXTURE;
        if (!(c->ux && c->uy)) { P1[n1++] = PAT_CHECK; P1[n1++] = PAT_ALT_COL; P1[n1++] = PAT_ALT_ROW; P1[n1++] = PAT_HI; }
        int      nrep = n1 > ncls ? n1 : ncls;
        unsigned fs = 0;
        for (int ix = 0; ix < nfx; ix++)
            for (int iy = 0; iy < nfy; iy++)
                for (int jx = 0; jx < nsx; jx++)
                    for (int jy = 0; jy < nsy; jy++, fs++)
                        for (int j = 0; j < nrep; j++) {
                            if (r->stop) return;
                            int cls = (int)((j + fs) % (unsigned)ncls);
                            SET_F(ix, iy);
                            t.sx = c->ux ? sp[jx] : 0;
                            t.sy = c->uy ? sp[jy] : 0;
                            t.pat = P1[j % n1];
                            CYCLE_STRIDES();
                            t.cm = !c->comp ? 0 : cls == 0 ? (int)(cnt & 1) : cls == 1 ? 2 : 3 + (int)(cnt % 8);
                            t.cpat = (int)((cnt * 5 + 3) % (unsigned)c->npc);
                            cnt++;
                            emit(c, &t);
                        }
    }
    // slice 2
    {
        int full = r->thorough || !c->hbd || bd == 10;
        for (int p = 0; p < c->np + ((c->ux || c->uy) ? 2 : 0); p++)
            for (int q = 0; q < (full ? 16 : 1); q++) {
                if (r->stop) return;
                SET_F(cnt % nfx, (cnt / nfx) % nfy);
                t.sx = c->ux ? 1 + (int)((cnt * 7) % 15) : 0;
                t.sy = c->uy ? 1 + (int)((cnt * 11 + 4) % 15) : 0;
                t.pat = p;
                t.sidx = full ? q >> 2 : (int)(cnt & 3);
                t.didx = full ? q & 3 : (int)((cnt >> 2) & 3);
                t.cstride = (ncs == 2 && (cnt & 1)) ? 64 : 128;
                t.cm = c->comp ? (int)(cnt % NCM) : 0;
                t.cpat = (int)((cnt * 5 + 1) % (unsigned)c->npc);
                cnt++;
                emit(c, &t);
            }
    }
    // slice 3
    if (c->comp) {
        static const int P3[3] = {PAT_TEXTURE, -1, PAT_HI};
        for (int cm = 0; cm < NCM; cm++)
            for (int cs = 0; cs < ncs; cs++)
                for (int cpat = 0; cpat < (cm >= 2 ? c->npc : 1); cpat++)
                    for (int p = 0; p < (r->thorough ? 3 : 1); p++) {
                        if (r->stop) return;
                        int pp = P3[r->thorough ? p : (int)(cnt % 3)];
                        SET_F(cnt % nfx, (cnt / nfx) % nfy);
                        t.sx = c->ux ? 1 + (int)((cnt * 7) % 15) : 0;
                        t.sy = c->uy ? 1 + (int)((cnt * 11 + 4) % 15) : 0;
                        t.pat = pp < 0 ? ((c->ux || c->uy) ? c->np : PAT_CHECK) : pp;
                        t.sidx = cnt & 3; t.didx = (cnt >> 2) & 3;
                        t.cstride = cs ? 64 : 128;
                        t.cm = cm; t.cpat = cpat;
                        cnt++;
                        emit(c, &t);
                    }
    }
    // slice 4
    if (!c->comp && (c->ux || c->uy)) {
        InterpFilterParams bil = av1_interp_filter_params_list[BILINEAR];
        for (int p = 0; p < c->np + 2; p++) {
            if (r->stop) return;
            t.fx = c->ux ? &bil : NULL; t.fy = c->uy ? &bil : NULL; t.fxid = t.fyid = BILINEAR;
            t.sx = c->ux ? 8 : 0; t.sy = c->uy ? 8 : 0;
            t.pat = p;
            CYCLE_STRIDES();
            t.cm = 0; t.cpat = 0;
            cnt++;
            emit(c, &t);
        }
    }
#undef CYCLE_STRIDES
#undef SET_F
}

static void conv_driver(Run *r, int hbd) {
    static WH sizes[64];
    Ctx       c;
    memset(&c, 0, sizeof c);
    c.r = r; c.hbd = hbd;
    c.ux = r->k->a & 1; c.uy = (r->k->a >> 1) & 1; c.comp = (r->k->a >> 2) & 1;
    c.cnv_w = -1;
    int ns = build_sizes(c.comp, sizes);
    kc_junk(SRCJ, sizeof SRCJ, 17);
    kc_junk(DSTJ, sizeof DSTJ, 19);
    static const int BD[3] = {8, 10, 12};
    for (int si = 0; si < ns; si++)
        for (int bi = 0; bi < (hbd ? 3 : 1); bi++) {
            if (r->stop) return;
            enumerate_size(&c, sizes[si].w, sizes[si].h, BD[bi]);
        }
}
void drv_conv_lbd(Run *r) { conv_driver(r, 0); }
void drv_conv_hbd(Run *r) { conv_driver(r, 1); }

// CONV_BUF value range of compound prediction for (hbd, bd); also used by the warp driver (kern_drv_conv3.c)
void conv_buf_range(int hbd, int bd, long *lo, long *hi) {
    Ctx c;
    memset(&c, 0, sizeof c);
    c.hbd = hbd;
    conv_range(&c, bd);
    *lo = c.clo;
    *hi = c.chi;
}
