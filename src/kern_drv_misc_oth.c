// C07 drivers (group misc, sub-group "oth"): global-motion frame error, corner-match cross correlation, Haar AC SAD, intra gradient
// histogram, CDEF dual strength search, plane-wise temporal filter.
#include <stdlib.h>
#include <math.h>
#include "kern_core.h"
#include "EbDefinitions.h"
#include "EbMotionEstimationContext.h"

#define ALIGN64 __attribute__((aligned(64)))

static int strides4(int w, int *s) {
    s[0] = w; s[1] = w + 1; s[2] = w + 16; s[3] = 2 * w;
    return 4;
}
static void fill_u64(uint64_t *p, int w, int h, int stride, int pat, long lo, long hi) {
    for (int y = 0; y < h; y++)
        for (int x = 0; x < w; x++) p[(long)y * stride + x] = (uint64_t)kc_pat_value(pat, x, y, w, h, lo, hi);
}

// ------------------------------------------------------------------------------------------------ svt_av1_calc_frame_error
// int64_t f(const uint8_t *ref, int stride, const uint8_t *dst, int p_width, int p_height, int p_stride)
// Call sites:
//  (A) warp_error(), EbEncWarpedMotion.c:204: ref = tmp[WARP_ERROR_BLOCK * WARP_ERROR_BLOCK] (stride 32, the warped block),
//      dst = frame + j + i * p_stride (frame stride), p_width = warp_w in 1..32, p_height = warp_h in 1..32 (last block column / row
//      of the (down-sampled) frame is the frame size mod 32; ERRORADV_BORDER is 0, global_motion.c:29).
//  (B) svt_av1_frame_error(), EbEncWarpedMotion.c:224 <- EbGlobalMotionEstimation.c:376: ref / dst = two whole luma planes of the
//      same geometry (full, quarter or sixteenth resolution input pictures), p_width x p_height = picture size, both strides =
//      picture stride.
// Both C and AVX2 accept any width / height (the AVX2 version has scalar tails for width % 16 and height % 4).
typedef int64_t (*frame_error_fn)(const uint8_t *ref, int stride, const uint8_t *dst, int p_width, int p_height, int p_stride);
#define FE_BUF (704 * 288 + 2048)
static uint8_t FE_REF[FE_BUF] ALIGN64, FE_DST[FE_BUF] ALIGN64;

static void frame_error_one(Run *r, int w, int h, int rs, int ds, const char *site) {
    const Kern *k = r->k;
    int         np = kc_npat(r, 0, 255);
    char        n1[32], n2[32];
    for (int pa = 0; pa < np; pa++) {
        if (r->stop) return;
        kc_fill_u8(FE_REF + 64, w, h, rs, pa, 0, 255);
        for (int pb = 0; pb < np; pb++) {
            if (r->stop) return;
            if (case_skip_fast(r)) continue;
            kc_fill_u8(FE_DST + 64, w, h, ds, pb, 0, 255);
            if (!case_begin(r, kc_pat_nontrivial(pa) || kc_pat_nontrivial(pb))) continue;
            int64_t c_ret = ((frame_error_fn)k->c)(FE_REF + 64, rs, FE_DST + 64, w, h, ds);
            VERBOSE(r, "case %lld: %s p_width=%d p_height=%d ref_stride=%d dst_stride=%d ref=%s dst=%s -> c ret=%lld", r->case_idx - 1, site, w, h, rs,
                    ds, kc_pat_name(pa, 0, 255, n1), kc_pat_name(pb, 0, 255, n2), (long long)c_ret);
            for (int vi = 0; vi < k->nv; vi++) {
                if (!var_on(r, vi)) continue;
                int64_t v_ret = ((frame_error_fn)k->v[vi].fn)(FE_REF + 64, rs, FE_DST + 64, w, h, ds);
                if (v_ret != c_ret)
                    MISMATCH(r, vi, "%s p_width=%d p_height=%d ref_stride=%d dst_stride=%d ref pattern '%s' dst pattern '%s': c returns %lld, simd returns %lld",
                             site, w, h, rs, ds, kc_pat_name(pa, 0, 255, n1), kc_pat_name(pb, 0, 255, n2), (long long)c_ret, (long long)v_ret);
            }
        }
    }
}
void drv_misc_frame_error(Run *r) {
    kc_junk(FE_REF, sizeof FE_REF, 11);
    kc_junk(FE_DST, sizeof FE_DST, 12);
    // (A) warped block against the frame: ref stride is always WARP_ERROR_BLOCK (32)
    static const int HQ[] = {1, 2, 3, 4, 5, 6, 7, 8, 12, 16, 31, 32};
    int              st[4];
    for (int hi = 0; hi < (r->thorough ? 32 : (int)(sizeof HQ / sizeof HQ[0])); hi++) {
        int h = r->thorough ? hi + 1 : HQ[hi];
        for (int w = 1; w <= 32; w++) {
            int ns = strides4(w, st);
            for (int si = 0; si < ns; si++) {
                if (r->stop) return;
                frame_error_one(r, w, h, 32, st[si], "warp_error(A)");
            }
        }
    }
    // (B) whole planes of equal geometry: sample of picture sizes (the full / quarter / sixteenth planes of small pictures)
    static const int FS[][2] = {{16, 16}, {40, 24}, {64, 64}, {88, 72}, {176, 144}, {352, 288}};
    for (int fi = 0; fi < (r->thorough ? 6 : 5); fi++) {
        int w = FS[fi][0], h = FS[fi][1], ns = strides4(w, st);
        for (int si = 0; si < ns; si++) {
            if (r->stop) return;
            frame_error_one(r, w, h, st[si], st[si], "frame_error(B)");
        }
    }
}

// ------------------------------------------------------------------------------------------------ svt_av1_compute_cross_correlation
// double f(unsigned char *im1, int stride1, int x1, int y1, unsigned char *im2, int stride2, int x2, int y2)
// Call sites corner_match.c:99, :132, :176: im1 / im2 are whole luma planes, (x, y) are corner positions that passed
// is_eligible_point() (corner_match.c:68: MATCH_SZ_BY2 <= x, x + MATCH_SZ_BY2 < width, same for y), so the 13x13 window is inside
// the picture; strides are picture strides (>= width).  The AVX2 version loads 16 bytes per row and masks 3 (reads inside the
// picture padding).  Results are doubles: compared bit-exactly.
typedef double (*cross_corr_fn)(unsigned char *im1, int stride1, int x1, int y1, unsigned char *im2, int stride2, int x2, int y2);
#define CC_W 20 // picture width of the synthetic planes
static uint8_t CC_A[64 + 40 * 24 + 64] ALIGN64, CC_B[64 + 40 * 24 + 64] ALIGN64;
void drv_misc_cross_corr(Run *r) {
    const Kern *k = r->k;
    int         st[4], ns = strides4(CC_W, st), np = kc_npat(r, 0, 255);
    char        n1[32], n2[32];
    // window centres: (6,6) = top-left most eligible point, (13,9) = right-most eligible column of a 20 wide picture
    static const int POS[3][2] = {{6, 6}, {13, 9}, {7, 15}};
    for (int s1 = 0; s1 < ns; s1++)
        for (int s2 = 0; s2 < ns; s2++)
            for (int p1 = 0; p1 < 3; p1++)
                for (int p2 = 0; p2 < 3; p2++)
                    for (int pa = 0; pa < np; pa++)
                        for (int pb = 0; pb < np; pb++) {
                            if (r->stop) return;
                            if (case_skip_fast(r)) continue;
                            int x1 = POS[p1][0], y1 = POS[p1][1], x2 = POS[p2][0], y2 = POS[p2][1];
                            kc_junk(CC_A, sizeof CC_A, 21);
                            kc_junk(CC_B, sizeof CC_B, 22);
                            kc_fill_u8(CC_A + 64 + (y1 - 6) * st[s1] + (x1 - 6), 13, 13, st[s1], pa, 0, 255);
                            kc_fill_u8(CC_B + 64 + (y2 - 6) * st[s2] + (x2 - 6), 13, 13, st[s2], pb, 0, 255);
                            if (!case_begin(r, kc_pat_nontrivial(pa) || kc_pat_nontrivial(pb))) continue;
                            double   c_ret = ((cross_corr_fn)k->c)(CC_A + 64, st[s1], x1, y1, CC_B + 64, st[s2], x2, y2);
                            uint64_t c_bits;
                            memcpy(&c_bits, &c_ret, 8);
                            VERBOSE(r, "case %lld: stride1=%d (x1,y1)=(%d,%d) stride2=%d (x2,y2)=(%d,%d) window1=%s window2=%s -> c ret=%.17g (bits %016llx)",
                                    r->case_idx - 1, st[s1], x1, y1, st[s2], x2, y2, kc_pat_name(pa, 0, 255, n1), kc_pat_name(pb, 0, 255, n2), c_ret,
                                    (unsigned long long)c_bits);
                            for (int vi = 0; vi < k->nv; vi++) {
                                if (!var_on(r, vi)) continue;
                                double   v_ret = ((cross_corr_fn)k->v[vi].fn)(CC_A + 64, st[s1], x1, y1, CC_B + 64, st[s2], x2, y2);
                                uint64_t v_bits;
                                memcpy(&v_bits, &v_ret, 8);
                                if (v_bits != c_bits)
                                    MISMATCH(r, vi, "stride1=%d (x1,y1)=(%d,%d) stride2=%d (x2,y2)=(%d,%d) 13x13 window1 pattern '%s' window2 pattern '%s' (rest junk): c returns %.17g (bits %016llx), simd returns %.17g (bits %016llx)",
                                             st[s1], x1, y1, st[s2], x2, y2, kc_pat_name(pa, 0, 255, n1), kc_pat_name(pb, 0, 255, n2), c_ret,
                                             (unsigned long long)c_bits, v_ret, (unsigned long long)v_bits);
                            }
                        }
}

// ------------------------------------------------------------------------------------------------ svt_av1_haar_ac_sad_8x8_uint8_input
// int f(uint8_t *input, int stride, int hbd)
// Only call site firstpass.c:863: input = 8x8 block inside the 8-bit luma plane, stride = picture stride, hbd = 0.  hbd = 1
// (input = CONVERT_TO_BYTEPTR(uint16_t *)) is implemented by both versions but no caller passes it; it is enumerated as well (10-bit
// samples) and labelled as such.
typedef int (*haar_fn)(uint8_t *input, int stride, int hbd);
static uint8_t  HA8[64 + 8 * 32 + 64] ALIGN64;
static uint16_t HA16[64 + 8 * 32 + 64] ALIGN64;
// sub-enumerations: 0 pattern alphabet; 1 one row is a complete {min,max}^8 cube (others mid); 2 one column is a complete cube;
// 3 one sample takes {min, min+1, mid-1, mid, max-1, max} on a {min, mid, max} background
static long haar_ncases(int sub, int np) { return sub == 0 ? np : sub == 1 || sub == 2 ? 8 * 256 : 64 * 6 * 3; }
static void haar_desc(int sub, long idx, long hi, char *buf, size_t n) {
    char nb[32];
    if (sub == 0) snprintf(buf, n, "pattern '%s'", kc_pat_name((int)idx, 0, hi, nb));
    else if (sub == 1) snprintf(buf, n, "all mid except row %ld = bits 0x%02lx (bit x set: sample x = max, else min)", idx >> 8, idx & 255);
    else if (sub == 2) snprintf(buf, n, "all mid except column %ld = bits 0x%02lx (bit y set: sample y = max, else min)", idx >> 8, idx & 255);
    else {
        long pos = idx / 18, vv = (idx / 3) % 6, bg = idx % 3;
        static const char *BG[3] = {"min", "mid", "max"}, *VV[6] = {"min", "min+1", "mid-1", "mid", "max-1", "max"};
        snprintf(buf, n, "background %s, sample (x=%ld,y=%ld) = %s", BG[bg], pos & 7, pos >> 3, VV[vv]);
    }
}
static long haar_value(int sub, long idx, int x, int y, long hi) {
    long mid = (hi + 1) / 2;
    if (sub == 0) return kc_pat_value((int)idx, x, y, 8, 8, 0, hi);
    if (sub == 1) return y == (idx >> 8) ? (((idx >> x) & 1) ? hi : 0) : mid;
    if (sub == 2) return x == (idx >> 8) ? (((idx >> y) & 1) ? hi : 0) : mid;
    long pos = idx / 18, vv = (idx / 3) % 6, bg = idx % 3;
    long B[3] = {0, mid, hi}, V[6] = {0, 1, mid - 1, mid, hi - 1, hi};
    return (y * 8 + x) == pos ? V[vv] : B[bg];
}
void drv_misc_haar_ac_sad(Run *r) {
    const Kern *k = r->k;
    int         st[4], ns = strides4(8, st);
    char        d[160];
    for (int hbd = 0; hbd < 2; hbd++) {
        long hi = hbd ? 1023 : 255;
        int  np = kc_npat(r, 0, hi);
        for (int si = 0; si < ns; si++)
            for (int sub = 0; sub < 4; sub++)
                for (long idx = 0; idx < haar_ncases(sub, np); idx++) {
                    if (r->stop) return;
                    if (case_skip_fast(r)) continue;
                    kc_junk(HA8, sizeof HA8, 31);
                    for (size_t i = 0; i < sizeof HA16 / 2; i++) HA16[i] = (uint16_t)((i * 2654435761u >> 7) & 1023);
                    for (int y = 0; y < 8; y++)
                        for (int x = 0; x < 8; x++) {
                            long v = haar_value(sub, idx, x, y, hi);
                            if (hbd) HA16[64 + y * st[si] + x] = (uint16_t)v;
                            else HA8[64 + y * st[si] + x] = (uint8_t)v;
                        }
                    uint8_t *in = hbd ? CONVERT_TO_BYTEPTR_(HA16 + 64) : HA8 + 64;
                    if (!case_begin(r, sub != 0 || kc_pat_nontrivial((int)idx))) continue;
                    int c_ret = ((haar_fn)k->c)(in, st[si], hbd);
                    haar_desc(sub, idx, hi, d, sizeof d);
                    VERBOSE(r, "case %lld: hbd=%d%s stride=%d input %s -> c ret=%d", r->case_idx - 1, hbd, hbd ? " (no caller passes hbd=1)" : "", st[si], d,
                            c_ret);
                    for (int vi = 0; vi < k->nv; vi++) {
                        if (!var_on(r, vi)) continue;
                        int v_ret = ((haar_fn)k->v[vi].fn)(in, st[si], hbd);
                        if (v_ret != c_ret)
                            MISMATCH(r, vi, "hbd=%d%s stride=%d 8x8 input (0..%ld) %s: c returns %d, simd returns %d", hbd,
                                     hbd ? " (no caller passes hbd=1)" : "", st[si], hi, d, c_ret, v_ret);
                    }
                }
    }
}

// ------------------------------------------------------------------------------------------------ svt_av1_get_gradient_hist
// void f(const uint8_t *src, int src_stride, int rows, int cols, uint64_t *hist)
// Only user: angle_estimation() (EbModeDecision.c:4669), which has NO caller in this tree (dead code); it passes the source block of the
// current coding block (rows x cols = block height x width, picture stride) and a zero-initialised hist[DIRECTIONAL_MODES].  The unit test
// (test/EbHighbdIntraPredictionTests.cc:938) uses every AV1 block size.  The AVX2 version supports cols == 4, cols == 8 and cols % 16 == 0
// with rows % 4 == 0: exactly the AV1 block sizes, which is what is enumerated.  hist is accumulated (+=): both copies start from
// zero as in angle_estimation() and are compared including 8 guard words on each side.
typedef void (*grad_hist_fn)(const uint8_t *src, int src_stride, int rows, int cols, uint64_t *hist);
static uint8_t GH[64 + 128 * 256 + 64] ALIGN64;
#define GH_N (8 + DIRECTIONAL_MODES + 8)
static struct { int kind, pat, v, dx, dy; } gh_in;
static const char *gh_desc(char *d, size_t n) {
    char nb[32];
    if (gh_in.kind == 0) snprintf(d, n, "src pattern '%s'", kc_pat_name(gh_in.pat, 0, 255, nb));
    else
        snprintf(d, n, "src(x,y) = %d for x+y even, %d for (x even,y odd), %d for (x odd,y even) [gradient dx=%d dy=%d]", gh_in.v, gh_in.v - gh_in.dx,
                 gh_in.v - gh_in.dy, gh_in.dx, gh_in.dy);
    return d;
}
static int grad_hist_call(Run *r, int rows, int cols, int stride, int nontrivial) {
    const Kern *k = r->k;
    char        desc[200];
    if (!case_begin(r, nontrivial)) return 0;
    if (r->verbose) gh_desc(desc, sizeof desc);
    uint64_t c_h[GH_N], v_h[GH_N];
    kc_junk(c_h, sizeof c_h, 41);
    memset(c_h + 8, 0, DIRECTIONAL_MODES * 8);
    ((grad_hist_fn)k->c)(GH + 64, stride, rows, cols, c_h + 8);
    VERBOSE(r, "case %lld: rows=%d cols=%d stride=%d %s -> c hist {%llu,%llu,%llu,%llu,%llu,%llu,%llu,%llu}", r->case_idx - 1, rows, cols, stride, desc,
            (unsigned long long)c_h[8], (unsigned long long)c_h[9], (unsigned long long)c_h[10], (unsigned long long)c_h[11],
            (unsigned long long)c_h[12], (unsigned long long)c_h[13], (unsigned long long)c_h[14], (unsigned long long)c_h[15]);
    for (int vi = 0; vi < k->nv; vi++) {
        if (!var_on(r, vi)) continue;
        kc_junk(v_h, sizeof v_h, 41);
        memset(v_h + 8, 0, DIRECTIONAL_MODES * 8);
        ((grad_hist_fn)k->v[vi].fn)(GH + 64, stride, rows, cols, v_h + 8);
        long df = kc_diff(c_h, v_h, sizeof c_h);
        if (df >= 0 && !r->verbose) gh_desc(desc, sizeof desc);
        if (df >= 0)
            MISMATCH(r, vi, "rows=%d cols=%d stride=%d %s, hist zero-initialised: first difference at hist[%ld]: c {%llu,%llu,%llu,%llu,%llu,%llu,%llu,%llu} simd {%llu,%llu,%llu,%llu,%llu,%llu,%llu,%llu}",
                     rows, cols, stride, desc, df / 8 - 8, (unsigned long long)c_h[8], (unsigned long long)c_h[9], (unsigned long long)c_h[10],
                     (unsigned long long)c_h[11], (unsigned long long)c_h[12], (unsigned long long)c_h[13], (unsigned long long)c_h[14],
                     (unsigned long long)c_h[15], (unsigned long long)v_h[8], (unsigned long long)v_h[9], (unsigned long long)v_h[10],
                     (unsigned long long)v_h[11], (unsigned long long)v_h[12], (unsigned long long)v_h[13], (unsigned long long)v_h[14],
                     (unsigned long long)v_h[15]);
    }
    return 1;
}
void drv_misc_gradient_hist(Run *r) {
    // {width, height} of every AV1 block size
    static const int BS[22][2] = {{4, 4},   {4, 8},   {8, 4},   {8, 8},    {8, 16},   {16, 8},    {16, 16}, {16, 32}, {32, 16}, {32, 32}, {32, 64},
                                  {64, 32}, {64, 64}, {64, 128}, {128, 64}, {128, 128}, {4, 16},  {16, 4},  {8, 32},  {32, 8},  {16, 64}, {64, 16}};
    int  st[4];
    kc_junk(GH, sizeof GH, 42);
    // 1. pattern alphabet on every block size
    int np = kc_npat(r, 0, 255);
    for (int bi = 0; bi < 22; bi++) {
        int cols = BS[bi][0], rows = BS[bi][1], ns = strides4(cols, st);
        for (int si = 0; si < ns; si++)
            for (int pa = 0; pa < np; pa++) {
                if (r->stop) return;
                if (case_skip_fast(r)) continue;
                kc_fill_u8(GH + 64, cols, rows, st[si], pa, 0, 255);
                gh_in.kind = 0; gh_in.pat = pa;
                grad_hist_call(r, rows, cols, st[si], kc_pat_nontrivial(pa));
            }
    }
    // 2. every gradient pair (dx, dy) in [-255,255]^2 on the three code paths of the AVX2 version (cols 4, 8, 16): sample (x,y) =
    //    v for x,y both odd or both even, v-dx for (x even,y odd), v-dy for (x odd, y even), v = max(0,dx,dy) (pairs whose three samples do
    //    not fit 0..255, i.e. max(0,dx,dy)-min(0,dx,dy) > 255, cannot occur and are left out); the samples then see the
    //    gradient pairs (dx,dy), (-dx,-dx), (-dy,-dy), (dy,dx) in every vector lane
    static const int SZ[3] = {4, 8, 16};
    for (int zi = 0; zi < 3; zi++) {
        int n = SZ[zi], stride = n + 16;
        for (int dx = -255; dx <= 255; dx++)
            for (int dy = -255; dy <= 255; dy++) {
                if (r->stop) return;
                int v = dx > dy ? dx : dy, lo = dx < dy ? dx : dy;
                if (v < 0) v = 0;
                if (lo > 0) lo = 0;
                if (v - lo > 255) continue; // the three samples v, v-dx, v-dy must fit 0..255
                if (case_skip_fast(r)) continue;
                for (int y = 0; y < n; y++)
                    for (int x = 0; x < n; x++) GH[64 + y * stride + x] = (uint8_t)(((x ^ y) & 1) == 0 ? v : (y & 1) ? v - dx : v - dy);
                gh_in.kind = 1; gh_in.v = v; gh_in.dx = dx; gh_in.dy = dy;
                grad_hist_call(r, n, n, stride, dx != 0 || dy != 0);
            }
    }
}

// ------------------------------------------------------------------------------------------------ svt_search_one_dual
// uint64_t f(int *lev0, int *lev1, int nb_strengths, uint64_t (**mse)[64], int sb_count, int start_gi, int end_gi)
// Call sites EbEncCdef.c:1148 and :1158 (joint_strength_search_dual, called from finish_cdef_search EbEncCdef.c:1255 with nb_strengths
// = 1, 2, 4, 8): first the greedy pass nb_strengths argument i = 0..n-1, then 4n refinement calls with argument n-1 after shifting the
// lev arrays left; lev0/lev1[0..i-1] are the results of the previous calls.  start_gi = 0, end_gi = nb_cdef_strengths[pick_method]
// in {64, 32, 20, 10} (EbDefinitions.h:1692, EbEncCdef.c:1197).  mse[0] / mse[1][sb][64]: luma / chroma squared error sums of
// one 64x64 filter block for every strength (EbCdefProcess.c:270), entries >= end_gi are never written (heap garbage); sb_count = number
// of non-skipped filter blocks (0 possible).  Value alphabet 0 .. 2^40 (a 64x64 12-bit block gives < 2^37).  The driver replays
// exactly this call sequence with the C function producing the lev arrays, and compares every call (return value, complete lev0 /
// lev1 arrays with guards).  Ties (constant / periodic mse) must give the same index.  sb_count in {0,1,3} (quick) / {0,1,2,3,5,17}
// (thorough); real pictures have up to thousands of filter blocks, but every block goes through the same accumulation and the sums
// stay far below 2^62 (the AVX2 version starts from 2^62 instead of 2^63 as 'infinity', equivalent while mse sums are < 2^62).
typedef uint64_t (*search_dual_fn)(int *lev0, int *lev1, int nb_strengths, uint64_t (**mse)[64], int sb_count, int start_gi, int end_gi);
#define SD_MAXSB 64
static uint64_t SD_M0[SD_MAXSB + 2][64] ALIGN64, SD_M1[SD_MAXSB + 2][64] ALIGN64;
#define SD_LEV (4 + CDEF_MAX_STRENGTHS + 4)
static void sd_one(Run *r, int *lev0, int *lev1, int nb, int sb_count, int end_gi, const char *desc, int nontrivial) {
    const Kern *k = r->k;
    uint64_t(*mse[2])[64] = {SD_M0 + 1, SD_M1 + 1};
    int c0[SD_LEV], c1[SD_LEV], v0[SD_LEV], v1[SD_LEV];
    if (!case_begin(r, nontrivial)) {
        // keep the chain going for the following calls of the sequence (replay of a later call needs the lev arrays)
        if (r->only_case >= 0 && !r->stop) ((search_dual_fn)k->c)(lev0 + 4, lev1 + 4, nb, mse, sb_count, 0, end_gi);
        return;
    }
    memcpy(c0, lev0, sizeof c0);
    memcpy(c1, lev1, sizeof c1);
    uint64_t c_ret = ((search_dual_fn)k->c)(c0 + 4, c1 + 4, nb, mse, sb_count, 0, end_gi);
    VERBOSE(r, "case %lld: %s nb_strengths=%d sb_count=%d start_gi=0 end_gi=%d lev0 in {%d,%d,%d,%d,%d,%d,%d} lev1 in {%d,%d,%d,%d,%d,%d,%d} -> c ret=%llu lev0[nb]=%d lev1[nb]=%d",
            r->case_idx - 1, desc, nb, sb_count, end_gi, lev0[4], lev0[5], lev0[6], lev0[7], lev0[8], lev0[9], lev0[10], lev1[4], lev1[5], lev1[6],
            lev1[7], lev1[8], lev1[9], lev1[10], (unsigned long long)c_ret, c0[4 + nb], c1[4 + nb]);
    for (int vi = 0; vi < k->nv; vi++) {
        if (!var_on(r, vi)) continue;
        memcpy(v0, lev0, sizeof v0);
        memcpy(v1, lev1, sizeof v1);
        uint64_t v_ret = ((search_dual_fn)k->v[vi].fn)(v0 + 4, v1 + 4, nb, mse, sb_count, 0, end_gi);
        if (v_ret != c_ret || memcmp(c0, v0, sizeof c0) || memcmp(c1, v1, sizeof c1))
            MISMATCH(r, vi, "%s nb_strengths=%d sb_count=%d start_gi=0 end_gi=%d lev0 in {%d,%d,%d,%d,%d,%d,%d} lev1 in {%d,%d,%d,%d,%d,%d,%d}: c returns %llu lev0[nb]=%d lev1[nb]=%d, simd returns %llu lev0[nb]=%d lev1[nb]=%d%s",
                     desc, nb, sb_count, end_gi, lev0[4], lev0[5], lev0[6], lev0[7], lev0[8], lev0[9], lev0[10], lev1[4], lev1[5], lev1[6], lev1[7],
                     lev1[8], lev1[9], lev1[10], (unsigned long long)c_ret, c0[4 + nb], c1[4 + nb], (unsigned long long)v_ret, v0[4 + nb], v1[4 + nb],
                     (memcmp(c0, v0, 16) || memcmp(c1, v1, 16) || memcmp(c0 + 4 + 8, v0 + 4 + 8, 16) || memcmp(c1 + 4 + 8, v1 + 4 + 8, 16)) ? " (guard words differ)" : "");
    }
    memcpy(lev0, c0, sizeof c0);
    memcpy(lev1, c1, sizeof c1);
}
void drv_misc_search_one_dual(Run *r) {
    static const int END[4] = {10, 20, 32, 64};
    static const int SBQ[] = {0, 1, 3}, SBT[] = {0, 1, 2, 3, 5, 17};
    // thorough: base alphabet + 8 of the 40 walking values (2^k), the full 56 x 56 pairs would take minutes
    static const int WK[8] = {0, 1, 8, 16, 24, 32, 38, 39};
    const long       hi = (1L << 40) - 1;
    int              np = r->thorough ? PAT_BASE_N + 8 : kc_npat(r, 0, hi), nsb = r->thorough ? 6 : 3;
    char             n1[32], n2[32], d[200];
    int              lev0[SD_LEV], lev1[SD_LEV];
    for (int ei = 0; ei < 4; ei++)
        for (int sbi = 0; sbi < nsb; sbi++)
            for (int pai = 0; pai < np; pai++)
                for (int pbi = 0; pbi < np; pbi++) {
                    if (r->stop) return;
                    int pa = r->thorough && pai >= PAT_BASE_N ? PAT_WALK0 + WK[pai - PAT_BASE_N] : pai;
                    int pb = r->thorough && pbi >= PAT_BASE_N ? PAT_WALK0 + WK[pbi - PAT_BASE_N] : pbi;
                    int end_gi = END[ei], sb_count = r->thorough ? SBT[sbi] : SBQ[sbi];
                    int nontrivial = (kc_pat_nontrivial(pa) || kc_pat_nontrivial(pb)) && sb_count > 0;
                    if (sb_count == 0 && (pa || pb)) continue; // mse is not read at all without filter blocks
                    // 75 + 21 calls per (end_gi, sb_count, pattern pair)
                    if (r->only_case >= 0) { // replay: skip whole blocks of 96 calls
                        if (r->only_case < r->case_idx) { r->stop = 1; return; }
                        if (r->only_case >= r->case_idx + 96) { r->case_idx += 96; continue; }
                    }
                    // entries >= end_gi and the rows around the used ones: garbage (never written by the encoder either)
                    kc_junk(SD_M0, sizeof SD_M0, 51);
                    kc_junk(SD_M1, sizeof SD_M1, 52);
                    if (sb_count) {
                        fill_u64(&SD_M0[1][0], end_gi, sb_count, 64, pa, 0, hi);
                        fill_u64(&SD_M1[1][0], end_gi, sb_count, 64, pb, 0, hi);
                    }
                    snprintf(d, sizeof d, "mse[0] pattern '%s' mse[1] pattern '%s' (0..2^40-1, %d x %d: x = strength, y = filter block)",
                             kc_pat_name(pa, 0, hi, n1), kc_pat_name(pb, 0, hi, n2), end_gi, sb_count);
                    // (1) the call sequence of joint_strength_search_dual for n = 1, 2, 4, 8 (EbEncCdef.c:1141-1163)
                    for (int n = 1; n <= 8; n *= 2) {
                        char d2[260];
                        snprintf(d2, sizeof d2, "%s, call sequence of joint_strength_search_dual(nb_strengths=%d)", d, n);
                        // best_lev0 is uninitialised, best_lev1 zero-initialised in finish_cdef_search (EbEncCdef.c:1253-1254)
                        for (int i = 0; i < SD_LEV; i++) { lev0[i] = 0x5A5A5A00 + i; lev1[i] = (i >= 4 && i < 4 + CDEF_MAX_STRENGTHS) ? 0 : 0x3C3C3C00 + i; }
                        for (int i = 0; i < n; i++) sd_one(r, lev0, lev1, i, sb_count, end_gi, d2, nontrivial);
                        for (int i = 0; i < 4 * n; i++) {
                            for (int j = 0; j < n - 1; j++) { lev0[4 + j] = lev0[4 + j + 1]; lev1[4 + j] = lev1[4 + j + 1]; }
                            sd_one(r, lev0, lev1, n - 1, sb_count, end_gi, d2, nontrivial);
                        }
                    }
                    // (2) synthetic already-selected sets: all 0, all end_gi-1, spread
                    for (int nb = 1; nb <= 7; nb++)
                        for (int lp = 0; lp < 3; lp++) {
                            char d2[260];
                            snprintf(d2, sizeof d2, "%s, synthetic selected set %d", d, lp);
                            for (int i = 0; i < SD_LEV; i++) { lev0[i] = 0x5A5A5A00 + i; lev1[i] = 0x3C3C3C00 + i; }
                            for (int i = 0; i < CDEF_MAX_STRENGTHS; i++) {
                                lev0[4 + i] = i >= nb ? 0 : lp == 0 ? 0 : lp == 1 ? end_gi - 1 : (i * 7 + 3) % end_gi;
                                lev1[4 + i] = i >= nb ? 0 : lp == 0 ? 0 : lp == 1 ? end_gi - 1 : (i * 5 + 1) % end_gi;
                            }
                            sd_one(r, lev0, lev1, nb, sb_count, end_gi, d2, nontrivial);
                        }
                }
}

// ------------------------------------------------------------------------------------------------ svt_av1_apply_temporal_filter_planewise(_hbd)
// void f(struct MeContext *ctx, const T *y_src, int y_src_stride, const T *y_pre, int y_pre_stride, const T *u_src, const T *v_src,
//        int uv_src_stride, const T *u_pre, const T *v_pre, int uv_pre_stride, unsigned block_width, unsigned block_height, int ss_x, int ss_y,
//        const double *noise_levels, const int decay_control, uint32_t *y_accum, uint16_t *y_count, uint32_t *u_accum, uint16_t *u_count,
//        uint32_t *v_accum, uint16_t *v_count [, uint32_t encoder_bit_depth])          T = uint8_t / uint16_t (plain pointers)
// Only call sites EbTemporalFiltering.c:1068 / :1106 (apply_filtering_block_plane_wise <- produce_temporally_filtered_pic :2360):
//  * block_width = block_height = BW >> 1 = 32, ss_x = ss_y = 1 (only 4:2:0 is accepted, EbEncHandle.c:2766); the four 32x32 quadrants
//    (block_row, block_col) of a 64x64 block: ctx->tf_block_row / tf_block_col in {0,1} (:2358) and all pointers offset accordingly;
//  * pred / accum / count: 64x64 (luma, stride 64) and 32x32 (chroma, stride 32) block buffers (:2046-2060, :2085); src: picture
//    planes, picture strides;
//  * fields of MeContext read by both versions: tf_chroma (0/1, :2718), tf_block_row/col, tf_32x32_block_split_flag[4] (0/1, :284),
//    tf_32x32_block_error[4] / tf_16x16_block_error[16] (variance of the 32x32 / 16x16 luma prediction error, :1603 -> <= 255^2*1024, hbd
//    <= 1023^2*1024), tf_32x32_mv_x/y[4], tf_16x16_mv_x/y[16] (1/8 pel, HME+ME range < 256 pixels -> |mv| < 2048), min_frame_size
//    (:2785); everything else in the context is zero here;
//  * decay_control in {2,3,4} (:2322-2328); noise_levels[3] = estimate_noise() results: -1.0 (unreliable) or >= 0 (:2416-2447);
//  * accum / count are += outputs: zero for the first frame (:2143), afterwards at most 12 earlier frames x weight <= 1000 each, so the
//    saturating (AVX2) vs wrapping (C) 16-bit count addition cannot differ in the callers' domain: initial count <= 12000 here;
//  * hbd: encoder_bit_depth = 10 (8 goes to the 8-bit kernel), samples 0..1023.
// The C version uses double / float arithmetic (log1p, sqrtf, powf, expf) and the AVX2 version re-associates some of it: no tolerance is
// applied, every difference in accum / count is reported.
typedef void (*tf_fn8)(struct MeContext *, const uint8_t *, int, const uint8_t *, int, const uint8_t *, const uint8_t *, int, const uint8_t *,
                       const uint8_t *, int, unsigned, unsigned, int, int, const double *, const int, uint32_t *, uint16_t *, uint32_t *, uint16_t *,
                       uint32_t *, uint16_t *);
typedef void (*tf_fn16)(struct MeContext *, const uint16_t *, int, const uint16_t *, int, const uint16_t *, const uint16_t *, int, const uint16_t *,
                        const uint16_t *, int, unsigned, unsigned, int, int, const double *, const int, uint32_t *, uint16_t *, uint32_t *,
                        uint16_t *, uint32_t *, uint16_t *, uint32_t);
#define TF_G 64
#define TF_SRCY (TF_G + 64 * 128 + TF_G)
#define TF_SRCC (TF_G + 32 * 64 + TF_G)
#define TF_PY (TF_G + 4096 + TF_G)
#define TF_PC (TF_G + 1024 + TF_G)
static uint16_t TF_S[3][TF_SRCY] ALIGN64, TF_P[3][TF_PY] ALIGN64; // samples kept as 16 bit, narrowed into the 8-bit copies below
static uint8_t  TF_S8[3][TF_SRCY] ALIGN64, TF_P8[3][TF_PY] ALIGN64;
static uint32_t TF_ACC0[3][TF_PY] ALIGN64, TF_ACCC[3][TF_PY] ALIGN64, TF_ACCV[3][TF_PY] ALIGN64;
static uint16_t TF_CNT0[3][TF_PY] ALIGN64, TF_CNTC[3][TF_PY] ALIGN64, TF_CNTV[3][TF_PY] ALIGN64;
static struct MeContext TF_CTX;

typedef struct {
    int tf_chroma, brow, bcol, split, decay, noise, err, mv, mfs, init, stride;
} TfScalars;
enum { TF_N_NOISE = 4, TF_N_ERR = 5, TF_N_MV = 4, TF_N_MFS = 3, TF_N_INIT = 2, TF_N_STRIDE = 4 };
static const double   TF_NOISE[TF_N_NOISE][3] = {{0.0, 0.0, 0.0}, {-1.0, -1.0, -1.0}, {0.62, 1.55, 2.41}, {3.7, 0.21, 8.0}};
static const uint64_t TF_ERR32[TF_N_ERR] = {0, 1023, 20000, 100000, 66585600};
static const uint64_t TF_ERR16[TF_N_ERR][4] = {{0, 0, 0, 0}, {255, 256, 4095, 4097}, {3000, 12000, 700, 40000}, {300, 70000, 5000, 16646400}, {16646400, 16646400, 16646400, 16646400}};
static const int16_t  TF_MV32[TF_N_MV][2] = {{0, 0}, {8, -8}, {100, 37}, {-2047, 2040}};
static const int16_t  TF_MV16[TF_N_MV][4][2] = {{{0, 0}, {0, 0}, {0, 0}, {0, 0}},
                                               {{8, 0}, {0, -8}, {-4, 4}, {12, 20}},
                                               {{100, 37}, {-64, 3}, {51, -77}, {5, 300}},
                                               {{-2047, 2040}, {2047, 2047}, {1, -1999}, {640, 480}}};
static const uint16_t TF_MFS[TF_N_MFS] = {64, 240, 1080};

// pixel pair modes: 0 .. np*np-1: (src pattern, pred pattern) of the alphabet; then "near" pairs: pred = src + small difference
#define TF_N_NEAR (3 * 6 * 3)
static long tf_near_src(int m, int x, int y, int w, long hi) {
    int base = m / 18;
    return base == 0 ? (hi + 1) / 2 : base == 1 ? kc_pat_value(PAT_COLRAMP, x, y, w, w, 0, hi) : kc_pat_value(PAT_TEXTURE, x, y, w, w, 0, hi);
}
static long tf_near_pred(int m, int x, int y, int w, long hi, int plane) {
    static const int AMP[6] = {1, 2, 4, 8, 16, 32};
    int  a = AMP[(m / 3) % 6] * (hi > 255 ? 4 : 1), kind = m % 3;
    long s = tf_near_src(m, x, y, w, hi), d;
    if (kind == 0) d = kc_pat_value(PAT_TEXTURE, x + 3 + plane, y + 7, w, w, -a, a);
    else if (kind == 1) d = plane == 1 ? -a : a;
    else d = (x == 5 + plane && y == 7) ? a : 0;
    s += d;
    return s < 0 ? 0 : s > hi ? hi : s;
}
static const char *tf_pair_name(int pm, int np, long hi, char *buf, size_t n) {
    char a[32], b[32];
    if (pm < np * np) snprintf(buf, n, "Y src pattern '%s' Y pred pattern '%s'", kc_pat_name(pm / np, 0, hi, a), kc_pat_name(pm % np, 0, hi, b));
    else {
        int                m = pm - np * np;
        static const char *B[3] = {"all-mid", "col-ramp", "texture"}, *K[3] = {"texture noise in [-A,A]", "+A (U: -A)", "+A at sample (5+plane,7) only"};
        static const int   AMP[6] = {1, 2, 4, 8, 16, 32};
        snprintf(buf, n, "all planes: src '%s', pred = src %s, A=%d", B[m / 18], K[m % 3], AMP[(m / 3) % 6] * (hi > 255 ? 4 : 1));
    }
    return buf;
}
static void tf_case(Run *r, int hbd, const TfScalars *sc, int pm, int np, int cyc) {
    const Kern *k = r->k;
    long        hi = hbd ? 1023 : 255;
    static const int HOLD[3] = {PAT_LO, PAT_HI, PAT_TEXTURE};
    static const int SY[4] = {64, 65, 80, 128}, SC[4] = {32, 33, 48, 64};
    int  sy = SY[sc->stride], scs = SC[sc->stride];
    char nm[200];
    if (case_skip_fast(r)) return;
    // ---- inputs
    for (int p = 0; p < 3; p++) {
        int bw = p ? 16 : 32, sstride = p ? scs : sy, pstride = p ? 32 : 64;
        for (size_t i = 0; i < TF_SRCY; i++) TF_S[p][i] = (uint16_t)(((i + p) * 2654435761u >> 9) & hi);
        for (size_t i = 0; i < TF_PY; i++) TF_P[p][i] = (uint16_t)(((i + 3 + p) * 40503u >> 3) & hi);
        uint16_t *s = TF_S[p] + TF_G + sc->brow * bw * sstride + sc->bcol * bw, *q = TF_P[p] + TF_G + sc->brow * bw * pstride + sc->bcol * bw;
        for (int y = 0; y < bw; y++)
            for (int x = 0; x < bw; x++) {
                long vs, vp;
                if (pm < np * np) {
                    int pa = p == 0 ? pm / np : HOLD[(cyc + p) % 3], pb = p == 0 ? pm % np : HOLD[(cyc / 3 + 2 * p) % 3];
                    vs = kc_pat_value(pa, x, y, bw, bw, 0, hi);
                    vp = kc_pat_value(pb, x, y, bw, bw, 0, hi);
                } else {
                    vs = tf_near_src(pm - np * np, x, y, bw, hi);
                    vp = tf_near_pred(pm - np * np, x, y, bw, hi, p);
                }
                s[y * sstride + x] = (uint16_t)vs;
                q[y * pstride + x] = (uint16_t)vp;
            }
        if (!hbd) {
            for (size_t i = 0; i < TF_SRCY; i++) TF_S8[p][i] = (uint8_t)TF_S[p][i];
            for (size_t i = 0; i < TF_PY; i++) TF_P8[p][i] = (uint8_t)TF_P[p][i];
        }
        // accumulators: zero (first frame) or the state after some earlier frames (count <= 12000, accum = count * sample value)
        for (size_t i = 0; i < TF_PY; i++) {
            uint32_t j = (uint32_t)((i + 17 * p) * 2246822519u >> 11);
            int      inside = i >= TF_G && i < TF_G + (size_t)(p ? 1024 : 4096);
            uint16_t c = sc->init == 0 && inside ? 0 : (uint16_t)(j % 12001);
            TF_CNT0[p][i] = c;
            TF_ACC0[p][i] = sc->init == 0 && inside ? 0 : (uint32_t)c * ((j >> 14) % (hi + 1));
        }
    }
    memset(&TF_CTX, 0, sizeof TF_CTX);
    int idx = sc->bcol + sc->brow * 2;
    TF_CTX.tf_chroma = (uint8_t)sc->tf_chroma;
    TF_CTX.tf_block_row = sc->brow;
    TF_CTX.tf_block_col = sc->bcol;
    TF_CTX.min_frame_size = TF_MFS[sc->mfs];
    for (int q = 0; q < 4; q++) { // the other quadrants hold different values (they must not be used)
        int o = (q - idx) & 3;
        TF_CTX.tf_32x32_block_split_flag[q] = q == idx ? sc->split : !sc->split;
        TF_CTX.tf_32x32_block_error[q] = (TF_ERR32[(sc->err + o) % TF_N_ERR] << (hbd ? 4 : 0)) + (hbd ? (uint64_t)(5 * o + 3) : 0);
        TF_CTX.tf_32x32_mv_x[q] = TF_MV32[(sc->mv + o) % TF_N_MV][0];
        TF_CTX.tf_32x32_mv_y[q] = TF_MV32[(sc->mv + o) % TF_N_MV][1];
        for (int i = 0; i < 4; i++) {
            TF_CTX.tf_16x16_block_error[q * 4 + i] = (TF_ERR16[(sc->err + o) % TF_N_ERR][i] << (hbd ? 4 : 0)) + (hbd ? (uint64_t)(3 * i + 1) : 0);
            TF_CTX.tf_16x16_mv_x[q * 4 + i] = TF_MV16[(sc->mv + o) % TF_N_MV][i][0];
            TF_CTX.tf_16x16_mv_y[q * 4 + i] = TF_MV16[(sc->mv + o) % TF_N_MV][i][1];
        }
    }
    int nontrivial = pm >= np * np || kc_pat_nontrivial(pm / np) || kc_pat_nontrivial(pm % np);
    if (!case_begin(r, nontrivial)) return;
    int offy_s = sc->brow * 32 * sy + sc->bcol * 32, offc_s = sc->brow * 16 * scs + sc->bcol * 16;
    int offy_p = sc->brow * 32 * 64 + sc->bcol * 32, offc_p = sc->brow * 16 * 32 + sc->bcol * 16;
#define TF_CALL(FN, ACC, CNT)                                                                                                                          \
    do {                                                                                                                                               \
        memcpy(ACC, TF_ACC0, sizeof TF_ACC0);                                                                                                          \
        memcpy(CNT, TF_CNT0, sizeof TF_CNT0);                                                                                                          \
        if (hbd)                                                                                                                                       \
            ((tf_fn16)(FN))(&TF_CTX, TF_S[0] + TF_G + offy_s, sy, TF_P[0] + TF_G + offy_p, 64, TF_S[1] + TF_G + offc_s, TF_S[2] + TF_G + offc_s, scs,   \
                            TF_P[1] + TF_G + offc_p, TF_P[2] + TF_G + offc_p, 32, 32, 32, 1, 1, TF_NOISE[sc->noise], sc->decay, ACC[0] + TF_G + offy_p, \
                            CNT[0] + TF_G + offy_p, ACC[1] + TF_G + offc_p, CNT[1] + TF_G + offc_p, ACC[2] + TF_G + offc_p, CNT[2] + TF_G + offc_p, 10); \
        else                                                                                                                                           \
            ((tf_fn8)(FN))(&TF_CTX, TF_S8[0] + TF_G + offy_s, sy, TF_P8[0] + TF_G + offy_p, 64, TF_S8[1] + TF_G + offc_s, TF_S8[2] + TF_G + offc_s, scs, \
                           TF_P8[1] + TF_G + offc_p, TF_P8[2] + TF_G + offc_p, 32, 32, 32, 1, 1, TF_NOISE[sc->noise], sc->decay, ACC[0] + TF_G + offy_p, \
                           CNT[0] + TF_G + offy_p, ACC[1] + TF_G + offc_p, CNT[1] + TF_G + offc_p, ACC[2] + TF_G + offc_p, CNT[2] + TF_G + offc_p);    \
    } while (0)
    TF_CALL(k->c, TF_ACCC, TF_CNTC);
    char desc[700];
    snprintf(desc, sizeof desc,
             "%s 32x32 quadrant (row %d,col %d) y_src_stride=%d uv_src_stride=%d pre strides 64/32 ss 1/1 tf_chroma=%d split_flag=%d decay_control=%d "
             "noise_levels={%g,%g,%g} tf_32x32_block_error=%llu tf_16x16_block_error={%llu,%llu,%llu,%llu} mv32=(%d,%d) mv16={(%d,%d),(%d,%d),(%d,%d),(%d,%d)} "
             "min_frame_size=%d accum/count %s; %s%s",
             hbd ? "bd=10" : "bd=8", sc->brow, sc->bcol, sy, scs, sc->tf_chroma, sc->split, sc->decay, TF_NOISE[sc->noise][0], TF_NOISE[sc->noise][1],
             TF_NOISE[sc->noise][2], (unsigned long long)TF_CTX.tf_32x32_block_error[idx], (unsigned long long)TF_CTX.tf_16x16_block_error[idx * 4],
             (unsigned long long)TF_CTX.tf_16x16_block_error[idx * 4 + 1], (unsigned long long)TF_CTX.tf_16x16_block_error[idx * 4 + 2],
             (unsigned long long)TF_CTX.tf_16x16_block_error[idx * 4 + 3], TF_CTX.tf_32x32_mv_x[idx], TF_CTX.tf_32x32_mv_y[idx], TF_CTX.tf_16x16_mv_x[idx * 4],
             TF_CTX.tf_16x16_mv_y[idx * 4], TF_CTX.tf_16x16_mv_x[idx * 4 + 1], TF_CTX.tf_16x16_mv_y[idx * 4 + 1], TF_CTX.tf_16x16_mv_x[idx * 4 + 2],
             TF_CTX.tf_16x16_mv_y[idx * 4 + 2], TF_CTX.tf_16x16_mv_x[idx * 4 + 3], TF_CTX.tf_16x16_mv_y[idx * 4 + 3], TF_CTX.min_frame_size,
             sc->init ? "pre-loaded (count<=12000)" : "zero", tf_pair_name(pm, np, hi, nm, sizeof nm),
             pm < np * np ? " (U/V src/pred cycle through min/max/texture)" : "");
    if (r->verbose) {
        unsigned long long sa = 0, sn = 0;
        for (int p = 0; p < 3; p++)
            for (size_t i = 0; i < TF_PY; i++) { sa += TF_ACCC[p][i] - TF_ACC0[p][i]; sn += (uint16_t)(TF_CNTC[p][i] - TF_CNT0[p][i]); }
        VERBOSE(r, "case %lld: %s -> c: sum of added weights %llu, sum of added accum %llu", r->case_idx - 1, desc, sn, sa);
    }
    for (int vi = 0; vi < k->nv; vi++) {
        if (!var_on(r, vi)) continue;
        TF_CALL(k->v[vi].fn, TF_ACCV, TF_CNTV);
        long da = kc_diff(TF_ACCC, TF_ACCV, sizeof TF_ACCC), dc = kc_diff(TF_CNTC, TF_CNTV, sizeof TF_CNTC);
        if (da >= 0 || dc >= 0) {
            // locate the first differing count / accum element
            int  p = 0, e = 0, isacc = dc < 0;
            long byte = isacc ? da : dc, el = byte / (isacc ? 4 : 2);
            p = (int)(el / TF_PY);
            e = (int)(el % TF_PY) - TF_G;
            int ps = p ? 32 : 64;
            MISMATCH(r, vi, "%s: first difference in %s plane %d element %d (row %d col %d of the 64x64/32x32 block buffer%s): c count %u accum %u, simd count %u accum %u (initial count %u accum %u)",
                     desc, isacc ? "accum" : "count", p, e, e >= 0 ? e / ps : -1, e >= 0 ? e % ps : -1, (e < 0 || e >= (p ? 1024 : 4096)) ? ", GUARD AREA" : "",
                     TF_CNTC[p][e + TF_G], TF_ACCC[p][e + TF_G], TF_CNTV[p][e + TF_G], TF_ACCV[p][e + TF_G], TF_CNT0[p][e + TF_G], TF_ACC0[p][e + TF_G]);
        }
    }
}
void drv_misc_tf_planewise(Run *r) {
    int       hbd = r->k->a;
    long      hi = hbd ? 1023 : 255;
    int       np = kc_npat(r, 0, hi), npm = np * np + TF_N_NEAR;
    TfScalars sc;
    long      t = 0;
    // (1) every combination of the scalar parameters; the pixel pair cycles through the "near" pairs (pred = src + small difference), the
    //     stride set and the accumulator initialisation cycle
    for (sc.tf_chroma = 0; sc.tf_chroma < 2; sc.tf_chroma++)
        for (sc.brow = 0; sc.brow < 2; sc.brow++)
            for (sc.bcol = 0; sc.bcol < 2; sc.bcol++)
                for (sc.split = 0; sc.split < 2; sc.split++)
                    for (sc.decay = 2; sc.decay <= 4; sc.decay++)
                        for (sc.noise = 0; sc.noise < TF_N_NOISE; sc.noise++)
                            for (sc.err = 0; sc.err < TF_N_ERR; sc.err++)
                                for (sc.mv = 0; sc.mv < TF_N_MV; sc.mv++)
                                    for (sc.mfs = 0; sc.mfs < (r->thorough ? TF_N_MFS : 2); sc.mfs++, t++) {
                                        if (r->stop) return;
                                        sc.init = (int)(t % TF_N_INIT);
                                        sc.stride = (int)((t / 2) % TF_N_STRIDE);
                                        tf_case(r, hbd, &sc, np * np + (int)(t % TF_N_NEAR), np, (int)t);
                                    }
    // (2) every pixel pair (all (src, pred) pattern pairs of the luma block + the near pairs) x every stride set; the scalar parameters
    //     cycle (thorough: x accumulator initialisation x tf_chroma as well)
    for (sc.stride = 0; sc.stride < TF_N_STRIDE; sc.stride++)
        for (int rep = 0; rep < (r->thorough ? 4 : 1); rep++)
            for (int pm = 0; pm < npm; pm++, t++) {
                if (r->stop) return;
                uint32_t m = (uint32_t)t * 2654435761u;
                sc.tf_chroma = r->thorough ? rep & 1 : (m >> 3) & 1;
                sc.init = r->thorough ? rep >> 1 : (m >> 4) & 1;
                sc.brow = (m >> 5) & 1;
                sc.bcol = (m >> 6) & 1;
                sc.split = (m >> 7) & 1;
                sc.decay = 2 + (int)((m >> 8) % 3);
                sc.noise = (int)((m >> 12) % TF_N_NOISE);
                sc.err = (int)((m >> 16) % TF_N_ERR);
                sc.mv = (int)((m >> 20) % TF_N_MV);
                sc.mfs = (int)((m >> 24) % TF_N_MFS);
                tf_case(r, hbd, &sc, pm, np, (int)t);
            }
}
