/* faultinj_h: single-fault enumeration for session set-up (C16).
 *
 * Every malloc / calloc / realloc / posix_memalign / pthread_create / sem_init / pthread_mutex_init / pthread_cond_init call made by
 * library code is a fault point (link-time interposition, ld --wrap).  usage:
 *   faultinj_h count enc|dec [<tu file>]        : one fault-free session; prints "POINT <k> <phase> <kind> <context hash>" per fault point
 *   faultinj_h run enc|dec <errdir> [<tu file>] : reads k values from stdin; for each k a forked child fails exactly the k-th
 *                                                fault point and runs the session; prints one result line per k. */
#define _GNU_SOURCE
#include <dirent.h>
#include <errno.h>
#include <fcntl.h>
#include <pthread.h>
#include <semaphore.h>
#include <signal.h>
#include <stdio.h>
#include <stdlib.h>
#include <string.h>
#include <stdint.h>
#include <sys/wait.h>
#include <unistd.h>
#include "EbSvtAv1Enc.h"
#include "EbSvtAv1Dec.h"

void *__real_malloc(size_t); void *__real_calloc(size_t, size_t); void *__real_realloc(void *, size_t);
int __real_posix_memalign(void **, size_t, size_t);
int __real_pthread_create(pthread_t *, const pthread_attr_t *, void *(*)(void *), void *);
int __real_sem_init(sem_t *, int, unsigned); int __real_pthread_mutex_init(pthread_mutex_t *, const pthread_mutexattr_t *);
int __real_pthread_cond_init(pthread_cond_t *, const pthread_condattr_t *);

static volatile long counter, fail_at = -1, fired_phase = -1;
static volatile int armed, phase, listing;
static __thread int reent;
static pthread_mutex_t cmu = PTHREAD_MUTEX_INITIALIZER;

static uint64_t context_hash(void) {
    /* frame-pointer walk: 6 innermost return addresses above the wrapper */
    uint64_t h = 1469598103934665603ULL;
    void **fp = __builtin_frame_address(0);
    for (int i = 0; i < 7 && fp; i++) {
        void *ra = fp[1];
        void **next = (void **)fp[0];
        if (i > 0) { h ^= (uint64_t)(uintptr_t)ra; h *= 1099511628211ULL; }
        if (next <= fp || (char *)next - (char *)fp > (1 << 20)) break;
        fp = next;
    }
    return h;
}
/* returns 1 when this call must fail */
static int point(const char *kind) {
    if (!armed || reent) return 0;
    reent = 1;
    __real_pthread_mutex_lock:;
    pthread_mutex_lock(&cmu);
    long k = counter++;
    int fail = (k == fail_at);
    if (fail) fired_phase = phase;
    pthread_mutex_unlock(&cmu);
    if (listing) { char b[96]; int n = snprintf(b, sizeof b, "POINT %ld %d %s %016llx\n", k, phase, kind, (unsigned long long)context_hash()); if (write(1, b, (size_t)n) < 0) _exit(12); }
    reent = 0;
    return fail;
}
void *__wrap_malloc(size_t n) { if (point("malloc")) return NULL; return __real_malloc(n); }
void *__wrap_calloc(size_t a, size_t b) { if (point("calloc")) return NULL; return __real_calloc(a, b); }
void *__wrap_realloc(void *p, size_t n) { if (point("realloc")) return NULL; return __real_realloc(p, n); }
int __wrap_posix_memalign(void **p, size_t a, size_t n) { if (point("posix_memalign")) return ENOMEM; return __real_posix_memalign(p, a, n); }
int __wrap_pthread_create(pthread_t *t, const pthread_attr_t *a, void *(*f)(void *), void *arg) { if (point("pthread_create")) return EAGAIN; return __real_pthread_create(t, a, f, arg); }
int __wrap_sem_init(sem_t *s, int sh, unsigned v) { if (point("sem_init")) { errno = ENOSPC; return -1; } return __real_sem_init(s, sh, v); }
int __wrap_pthread_mutex_init(pthread_mutex_t *m, const pthread_mutexattr_t *a) { if (point("pthread_mutex_init")) return ENOMEM; return __real_pthread_mutex_init(m, a); }
int __wrap_pthread_cond_init(pthread_cond_t *c, const pthread_condattr_t *a) { if (point("pthread_cond_init")) return ENOMEM; return __real_pthread_cond_init(c, a); }

static int ntasks(void) { int n = 0; DIR *d = opendir("/proc/self/task"); if (!d) return -1; struct dirent *e; while ((e = readdir(d))) if (e->d_name[0] != '.') n++; closedir(d); return n; }

static uint8_t *tu; static size_t tu_len;
static long rcs[8];
static void session_enc(void) {
    EbComponentType *h = NULL; static EbSvtAv1EncConfiguration cfg;
    for (int i = 0; i < 8; i++) rcs[i] = -99;
    armed = 1;
    phase = 0; rcs[0] = svt_av1_enc_init_handle(&h, NULL, &cfg);
    if (rcs[0] == 0 && h) {
        cfg.source_width = 64; cfg.source_height = 64; cfg.logical_processors = 1; cfg.enc_mode = 8; cfg.hierarchical_levels = 2; cfg.recon_enabled = 1;
        phase = 1; rcs[1] = svt_av1_enc_set_parameter(h, &cfg);
        if (rcs[1] == 0) { phase = 2; rcs[2] = svt_av1_enc_init(h); }
        phase = 3; rcs[3] = svt_av1_enc_deinit(h);
        phase = 4; rcs[4] = svt_av1_enc_deinit_handle(h);
    }
    armed = 0;
}
static void session_dec(void) {
    EbComponentType *h = NULL; static EbSvtAv1DecConfiguration cfg;
    for (int i = 0; i < 8; i++) rcs[i] = -99;
    armed = 1;
    phase = 0; rcs[0] = svt_av1_dec_init_handle(&h, NULL, &cfg);
    if (rcs[0] == 0 && h) {
        cfg.threads = 1; cfg.operating_point = -1; cfg.num_p_frames = 1; cfg.max_color_format = EB_YUV420; cfg.max_bit_depth = EB_EIGHT_BIT;
        phase = 1; rcs[1] = svt_av1_dec_set_parameter(h, &cfg);
        if (rcs[1] == 0) { phase = 2; rcs[2] = svt_av1_dec_init(h); }
        if (rcs[2] == 0 && tu) { phase = 5; rcs[5] = svt_av1_dec_frame(h, tu, tu_len, 0); }
        phase = 3; rcs[3] = svt_av1_dec_deinit(h);
        phase = 4; rcs[4] = svt_av1_dec_deinit_handle(h);
    }
    armed = 0;
}

int main(int argc, char **argv) {
    if (argc < 3) return 4;
    int is_enc = !strcmp(argv[2], "enc");
    const char *tuf = !strcmp(argv[1], "count") ? (argc > 3 ? argv[3] : NULL) : (argc > 4 ? argv[4] : NULL);
    if (tuf) { FILE *f = fopen(tuf, "rb"); if (f) { tu = __real_malloc(1 << 20); tu_len = fread(tu, 1, 1 << 20, f); fclose(f); } }
    if (!strcmp(argv[1], "count")) {
        listing = 1;
        if (is_enc) session_enc(); else session_dec();
        printf("TOTAL %ld rcs %ld %ld %ld %ld %ld %ld tasks %d\n", counter, rcs[0], rcs[1], rcs[2], rcs[5], rcs[3], rcs[4], ntasks());
        return 0;
    }
    const char *errdir = argv[3];
    char line[64];
    setvbuf(stdout, NULL, _IOLBF, 0);
    while (fgets(line, sizeof line, stdin)) {
        long k = atol(line);
        fflush(stdout);
        pid_t pid = fork();
        if (pid == 0) {
            char fn[512]; snprintf(fn, sizeof fn, "%s/err.%ld", errdir, k);
            int fd = open(fn, O_WRONLY | O_CREAT | O_TRUNC, 0644); if (fd >= 0) { dup2(fd, 2); close(fd); }
            alarm(getenv("FAULTINJ_ALARM_S") ? (unsigned)atoi(getenv("FAULTINJ_ALARM_S")) : 60); /* wall-clock guard; a hit is re-run alone with a long limit */
            fail_at = k;
            if (is_enc) session_enc(); else session_dec();
            printf("RESULT %ld fired_phase %ld rcs %ld %ld %ld %ld %ld %ld tasks %d\n", k, fired_phase, rcs[0], rcs[1], rcs[2], rcs[5], rcs[3], rcs[4], ntasks());
            fflush(stdout);
            exit(0); /* runs LeakSanitizer */
        }
        int st = 0; waitpid(pid, &st, 0);
        if (WIFSIGNALED(st)) printf("DIED %ld signal %d\n", k, WTERMSIG(st));
        else if (WEXITSTATUS(st) != 0) printf("DIED %ld exit %d\n", k, WEXITSTATUS(st));
        else { char fn[512]; snprintf(fn, sizeof fn, "%s/err.%ld", errdir, k); unlink(fn); }
    }
    return 0;
}
