/* decdrv: SVT-AV1 decoder session driver.
 * usage: decdrv <prefix> [threads=N] [pipe16=0|1] [skipgrain=0|1] [annexb=0|1] [dump=1] [teardown_after=<k TUs>] [raw=<file>]
 *   reads <prefix>.obu / <prefix>.sz (one temporal unit per size entry) unless raw= gives a single buffer.
 * Prints one JSON object: return codes, number of pictures, per-picture hashes. */
#define _GNU_SOURCE
#include <stdio.h>
#include <stdlib.h>
#include <string.h>
#include <stdint.h>
#include "EbSvtAv1Dec.h"
#include "vsched.h"
#include "vutil.h"

static uint8_t *readfile(const char *fn, size_t *n) {
    FILE *f = fopen(fn, "rb");
    if (!f) { perror(fn); exit(4); }
    fseek(f, 0, SEEK_END); long l = ftell(f); fseek(f, 0, SEEK_SET);
    uint8_t *b = malloc((size_t)l + 64);
    if (l && fread(b, 1, (size_t)l, f) != (size_t)l) exit(4);
    fclose(f); *n = (size_t)l; return b;
}
typedef struct { int w, h, bd; uint64_t hash; } Pic;
static Pic pics[16384]; static int npic;
static FILE *dumpf;

static void take_picture(EbBufferHeaderType *rb) {
    EbSvtIOFormat *img = (EbSvtIOFormat *)rb->p_buffer;
    int w = (int)img->width, h = (int)img->height, bd = (int)img->bit_depth, bps = bd > 8 ? 2 : 1;
    int cw = (w + 1) / 2, ch = (h + 1) / 2;
    size_t len = ((size_t)w * h + 2 * (size_t)cw * ch) * (size_t)bps;
    uint8_t *d = malloc(len), *q = d;
    uint8_t *pl[3] = { img->luma, img->cb, img->cr };
    uint32_t st[3] = { img->y_stride, img->cb_stride, img->cr_stride };
    for (int p = 0; p < 3; p++) {
        int pw = p ? cw : w, ph = p ? ch : h;
        for (int y = 0; y < ph; y++) { memcpy(q, pl[p] + (size_t)y * st[p] * (size_t)bps, (size_t)pw * bps); q += (size_t)pw * bps; }
    }
    if (npic < 16384) { pics[npic].w = w; pics[npic].h = h; pics[npic].bd = bd; pics[npic].hash = vu_fnv(d, len, 0); npic++; }
    if (dumpf) { uint32_t hd[4] = { (uint32_t)w, (uint32_t)h, (uint32_t)bd, (uint32_t)len }; fwrite(hd, 1, 16, dumpf); fwrite(d, 1, len, dumpf); }
    free(d);
}

int main(int argc, char **argv) {
    if (argc < 2) return 4;
    const char *pre = argv[1], *raw = NULL;
    int threads = 1, pipe16 = 0, skipgrain = 0, annexb = 0, dump = 0, teardown_after = -1;
    for (int i = 2; i < argc; i++) {
        if (!strncmp(argv[i], "threads=", 8)) threads = atoi(argv[i] + 8);
        else if (!strncmp(argv[i], "pipe16=", 7)) pipe16 = atoi(argv[i] + 7);
        else if (!strncmp(argv[i], "skipgrain=", 10)) skipgrain = atoi(argv[i] + 10);
        else if (!strncmp(argv[i], "annexb=", 7)) annexb = atoi(argv[i] + 7);
        else if (!strncmp(argv[i], "dump=", 5)) dump = atoi(argv[i] + 5);
        else if (!strncmp(argv[i], "teardown_after=", 15)) teardown_after = atoi(argv[i] + 15);
        else if (!strncmp(argv[i], "raw=", 4)) raw = argv[i] + 4;
    }
    vs_init();
    size_t on = 0, sn = 0; uint8_t *ob; uint32_t *sz; int ntu; uint32_t one;
    char fn[1024];
    if (raw) { ob = readfile(raw, &on); one = (uint32_t)on; sz = &one; ntu = 1; }
    else {
        snprintf(fn, sizeof fn, "%s.obu", pre); ob = readfile(fn, &on);
        snprintf(fn, sizeof fn, "%s.sz", pre); sz = (uint32_t *)readfile(fn, &sn); ntu = (int)(sn / 4);
    }
    if (dump) { snprintf(fn, sizeof fn, "%s.sdec", pre); dumpf = fopen(fn, "wb"); }
    EbComponentType *h = NULL;
    EbSvtAv1DecConfiguration *cfg = calloc(1, sizeof *cfg);
    int e_ih = (int)svt_av1_dec_init_handle(&h, NULL, cfg);
    if (e_ih) { printf("{\"init_handle\":%d}\n", e_ih); return 0; }
    cfg->threads = (uint32_t)threads; cfg->is_16bit_pipeline = (EbBool)pipe16; cfg->skip_film_grain = (EbBool)skipgrain;
    cfg->operating_point = -1; cfg->output_all_layers = 0; cfg->num_p_frames = 1;
    cfg->max_picture_width = 0; cfg->max_picture_height = 0; cfg->max_bit_depth = EB_EIGHT_BIT; cfg->max_color_format = EB_YUV420; cfg->eight_bit_output = 0;
    int e_sp = (int)svt_av1_dec_set_parameter(h, cfg);
    int e_in = e_sp ? -1 : (int)svt_av1_dec_init(h);
    EbBufferHeaderType *rb = calloc(1, sizeof *rb);
    EbSvtIOFormat *img = calloc(1, sizeof *img);
    rb->p_buffer = (uint8_t *)img;
    EbAV1StreamInfo *si = calloc(1, sizeof *si); EbAV1FrameInfo *fi = calloc(1, sizeof *fi);
    int first_err = 0, first_err_tu = -1, nerr = 0;
    size_t off = 0;
    if (e_sp == 0 && e_in == 0)
        for (int t = 0; t < ntu; t++) {
            if (teardown_after >= 0 && t >= teardown_after) break;
            if (sz[t]) {
                int e = (int)svt_av1_dec_frame(h, ob + off, sz[t], (uint32_t)annexb);
                if (e) { nerr++; if (!first_err) { first_err = e; first_err_tu = t; } }
                else if (svt_av1_dec_get_picture(h, rb, si, fi) != EB_DecNoOutputPicture) take_picture(rb);
            }
            off += sz[t];
        }
    int e_d = (int)svt_av1_dec_deinit(h);
    int e_dh = (int)svt_av1_dec_deinit_handle(h);
    long points = vs_fini();
    if (dumpf) fclose(dumpf);
    printf("{\"init_handle\":0,\"set_parameter\":%d,\"init\":%d,\"ntu\":%d,\"npic\":%d,\"nerr\":%d,\"first_err\":%d,\"first_err_tu\":%d,\"deinit\":%d,\"deinit_handle\":%d,\"points\":%ld,\"pics\":[",
           e_sp, e_in, ntu, npic, nerr, first_err, first_err_tu, e_d, e_dh, points);
    uint64_t all = 0;
    for (int i = 0; i < npic; i++) { printf("%s[%d,%d,%d,\"%016llx\"]", i ? "," : "", pics[i].w, pics[i].h, pics[i].bd, (unsigned long long)pics[i].hash); all = vu_fnv(&pics[i].hash, 8, all); }
    printf("],\"all_hash\":\"%016llx\"}\n", (unsigned long long)all);
    fflush(stdout);
    free(img->luma); free(img->cb); free(img->cr); free(img); free(rb); free(si); free(fi); free(cfg); free(ob);
    if (!raw) free(sz);
    return 0;
}
