// C07 drivers (group blend, part 2): compound difference-weighted masks and the wedge search helpers
//   svt_av1_build_compound_diffwtd_mask / _highbd / _d16,
//   svt_av1_wedge_sse_from_residuals, svt_av1_wedge_sign_from_residuals, svt_av1_wedge_compute_delta_squares.
//
// Valid domain:
//  * diffwtd masks are built for the luma block of a block that allows compound references (is_interinter_compound_used(),
//    EbInterPrediction.h:288: min(bw, bh) >= 8): the 16 AV1 block sizes 8x8 .. 128x128 (EbEncInterPrediction.c:218/303/730/733/2310,
//    EbDecInterPrediction.c:646).  mask_type in {DIFFWTD_38, DIFFWTD_38_INV}.  The output mask is contiguous (stride w).
//    lbd: uint8 predictions; highbd: (uint8_t *) casts of uint16_t predictions of the stated depth (the encoder passes 10, the function
//    accepts 8/10/12); d16: CONV_BUF_TYPE compound-convolve outputs with the ConvolveParams of get_conv_params_no_round
//    (round_0 3 / 5 for bd 12, round_1 7) - value range derived from the filter tables as in kern_drv_blend.c.
//  * wedge helpers (EbEncInterPrediction.c:562 pick_wedge, :635 pick_wedge_fixed_sign, :700 pick_interinter_seg): N = bw * bh, a
//    multiple of 64 (asserted); sse_from_residuals: N = 64 .. 16384 (all compound block sizes), sign_from_residuals and
//    compute_delta_squares: wedge block sizes only, N = 64 .. 1024 (sign asserts N < 8192).  Residuals / prediction differences are
//    differences of two pixels: [-255, 255] (8-bit mode decision) or [-1023, 1023] (10-bit mode decision); masks 0..64;
//    ds = clamp(r0^2 - r1^2) covers the whole int16 range; compute_delta_squares is called in place (d == a) by pick_wedge.
//    limit is any int64 (the caller passes (sum r0^2 - sum r1^2) * 32); the values enumerated straddle the exact accumulator value.
#include "EbDefinitions.h"
#include "kern_core.h"
#include <limits.h>

#define ALIGN64 __attribute__((aligned(64)))
#define GUARD 64
#define MAXW 128
#define SRC_ELEMS (GUARD + MAXW * 2 * MAXW + 2 * GUARD)
#define NPMAX 40

const Kern *kc_find_kern(const char *ptr);

extern const int16_t sub_pel_filters_8[16][8], sub_pel_filters_4[16][8], sub_pel_filters_8sharp[16][8], sub_pel_filters_8smooth[16][8],
    bilinear_filters[16][8], sub_pel_filters_4smooth[16][8];

static uint16_t A16[SRC_ELEMS] ALIGN64, B16[SRC_ELEMS] ALIGN64;
static uint8_t  OC[MAXW * MAXW + 2 * GUARD] ALIGN64, OV[MAXW * MAXW + 2 * GUARD] ALIGN64, OJ[MAXW * MAXW + 2 * GUARD] ALIGN64;
static uint16_t PC[NPMAX][MAXW * MAXW];
static uint8_t  PM[NPMAX][MAXW * MAXW];

static void d16_range(int bd, int r0, int r1, long *lo, long *hi) {
    const int16_t(*T[6])[8] = {sub_pel_filters_8, sub_pel_filters_8smooth, sub_pel_filters_8sharp, bilinear_filters, sub_pel_filters_4, sub_pel_filters_4smooth};
    long P = (1L << bd) - 1, mn = LONG_MAX, mx = LONG_MIN;
    int  offset_bits = bd + 2 * FILTER_BITS - r0;
    for (int tx = 0; tx < 6; tx++)
        for (int sx = 0; sx < 16; sx++) {
            long px = 0, nx = 0;
            for (int t = 0; t < 8; t++) { int c = T[tx][sx][t]; if (c > 0) px += c; else nx -= c; }
            long im_hi = (P * px + (1L << (bd + FILTER_BITS - 1)) + ((1L << r0) >> 1)) >> r0;
            long im_lo = (-P * nx + (1L << (bd + FILTER_BITS - 1)) + ((1L << r0) >> 1)) >> r0;
            for (int ty = 0; ty < 6; ty++)
                for (int sy = 0; sy < 16; sy++) {
                    long py = 0, ny = 0;
                    for (int t = 0; t < 8; t++) { int c = T[ty][sy][t]; if (c > 0) py += c; else ny -= c; }
                    long s_hi = (1L << offset_bits) + py * im_hi - ny * im_lo, s_lo = (1L << offset_bits) + py * im_lo - ny * im_hi;
                    long o_hi = (s_hi + ((1L << r1) >> 1)) >> r1, o_lo = (s_lo + ((1L << r1) >> 1)) >> r1;
                    if (o_hi > mx) mx = o_hi;
                    if (o_lo < mn) mn = o_lo;
                }
        }
    *lo = mn;
    *hi = mx;
}

static int strides4(int w, int *s) {
    s[0] = w; s[1] = w + 1; s[2] = w + 16; s[3] = 2 * w;
    return 4;
}
static void cache_build(int np, int w, int h, long lo, long hi) {
    for (int p = 0; p < np; p++)
        for (int y = 0; y < h; y++)
            for (int x = 0; x < w; x++) PC[p][y * w + x] = (uint16_t)kc_pat_value(p, x, y, w, h, lo, hi);
}
static void put_rows(void *dst, int stride, const uint16_t *src, int w, int h, int es) {
    if (es == 2) {
        uint16_t *d = dst;
        for (int y = 0; y < h; y++) memcpy(d + (size_t)y * stride, src + (size_t)y * w, (size_t)w * 2);
    } else {
        uint8_t *d = dst;
        for (int y = 0; y < h; y++)
            for (int x = 0; x < w; x++) d[(size_t)y * stride + x] = (uint8_t)src[(size_t)y * w + x];
    }
}
static int is_anchor(int p) { return p == PAT_LO || p == PAT_HI || p == PAT_TEXTURE; }

// ------------------------------------------------------------------------------------------------ diffwtd masks
typedef void (*dw_lbd_fn)(uint8_t *mask, DIFFWTD_MASK_TYPE t, const uint8_t *s0, int s0s, const uint8_t *s1, int s1s, int h, int w);
typedef void (*dw_hbd_fn)(uint8_t *mask, DIFFWTD_MASK_TYPE t, const uint8_t *s0, int s0s, const uint8_t *s1, int s1s, int h, int w, int bd);
typedef void (*dw_d16_fn)(uint8_t *mask, DIFFWTD_MASK_TYPE t, const CONV_BUF_TYPE *s0, int s0s, const CONV_BUF_TYPE *s1, int s1s, int h, int w,
                          ConvolveParams *cp, int bd);

// kind 0: lbd, 1: highbd, 2: d16
static void diffwtd(Run *r, int kind) {
    const Kern      *k = r->k;
    static const int BD_L[1] = {8}, BD_H[3] = {8, 10, 12};
    const int       *bds = kind ? BD_H : BD_L;
    int              nbd = kind ? 3 : 1, es = kind ? 2 : 1;
    char             n0[48], n1[48];
    ConvolveParams   cp;
    kc_junk(OJ, sizeof OJ, 7);
    kc_junk(A16, sizeof A16, 3);
    kc_junk(B16, sizeof B16, 4);
    for (int a = 64; a <= 128 * 128; a *= 2)
        for (int w = 8; w <= 128; w *= 2) {
            int h = a / w, st[4];
            if (h * w != a || h < 8 || h > 128 || w > 4 * h || h > 4 * w) continue;
            if ((w == 128 || h == 128) && (w < 64 || h < 64)) continue;
            strides4(w, st);
            for (int bi = 0; bi < nbd; bi++) {
                int  bd = bds[bi];
                long lo = 0, hi = (1L << bd) - 1;
                memset(&cp, 0, sizeof cp);
                cp.is_compound = 1;
                cp.round_0 = bd == 12 ? 5 : 3;
                cp.round_1 = 7;
                if (kind == 2) d16_range(bd, cp.round_0, cp.round_1, &lo, &hi);
                int np = kc_npat(r, lo, hi);
                if (np > NPMAX) np = NPMAX;
                cache_build(np, w, h, lo, hi);
                if (kind == 1)
                    for (size_t i = 0; i < SRC_ELEMS; i++) { A16[i] &= (uint16_t)hi; B16[i] &= (uint16_t)hi; }
                // value sweeps (stride configuration 0, one block size per width class): lbd / highbd: every (src0, src1) value pair,
                // pair number t*w*h + i at sample i of sweep block t (12-bit: 16M pairs, thorough tier, 8x32 and 16x64 only);
                // d16: every absolute difference d = t'*w*h + i in 0..hi-lo in the four forms (lo+d, lo), (lo, lo+d), (hi-d, hi), (hi, hi-d)
                int  sw_size = (w == 8 && h == 32) || (w == 16 && h == 64) || (w == 32 && h == 64) || (w == 64 && h == 64) || (w == 128 && h == 128);
                long n = (long)w * h, nsw = 0;
                if (sw_size && kind < 2 && (bd < 12 || (r->thorough && w <= 16))) nsw = ((hi + 1) * (hi + 1) + n - 1) / n;
                if (sw_size && kind == 2) nsw = 4 * ((hi - lo + 1 + n - 1) / n);
                for (int ty = 0; ty < 2; ty++)
                    for (int cfg = 0; cfg < 4; cfg++) {
                        int s0s = st[cfg], s1s = st[(cfg + 1) & 3];
                        // pair set levels as in kern_drv_blend.c: 2 all pairs, 1 an anchor (min, max, texture) on either side or equal, 0 both anchors or equal
                        int small = w * h <= 1024;
                        int level = r->thorough ? ((small || cfg == 0) ? 2 : 1) : (small ? 2 : (cfg == 0 ? 1 : 0));
                        for (long p0 = 0; p0 < np + (cfg == 0 ? nsw : 0); p0++) {
                            int loaded0 = 0;
                            for (int p1 = 0; p1 < (p0 < np ? np : 1); p1++) {
                                if (r->stop) return;
                                if (p0 < np && level == 1 && !(is_anchor(p0) || is_anchor(p1) || p0 == p1)) continue;
                                if (p0 < np && level == 0 && !((is_anchor(p0) && is_anchor(p1)) || p0 == p1)) continue;
                                if (case_skip_fast(r)) continue;
                                if (p0 >= np) {
                                    long t = p0 - np, form = kind == 2 ? t % 4 : 0, base = (kind == 2 ? t / 4 : t) * n;
                                    for (int y = 0; y < h; y++)
                                        for (int x = 0; x < w; x++) {
                                            long i = base + y * w + x, va, vb;
                                            if (kind < 2) { i %= (hi + 1) * (hi + 1); va = i / (hi + 1); vb = i % (hi + 1); }
                                            else {
                                                long d = i > hi - lo ? hi - lo : i;
                                                va = form == 0 ? lo + d : form == 1 ? lo : form == 2 ? hi - d : hi;
                                                vb = form == 0 ? lo : form == 1 ? lo + d : form == 2 ? hi : hi - d;
                                            }
                                            if (es == 2) { A16[GUARD + y * s0s + x] = (uint16_t)va; B16[GUARD + y * s1s + x] = (uint16_t)vb; }
                                            else { ((uint8_t *)A16)[GUARD + y * s0s + x] = (uint8_t)va; ((uint8_t *)B16)[GUARD + y * s1s + x] = (uint8_t)vb; }
                                        }
                                    snprintf(n0, sizeof n0, "sweep block %ld (a)", t);
                                    snprintf(n1, sizeof n1, "sweep block %ld (b)", t);
                                } else {
                                    if (!loaded0) { put_rows((uint8_t *)A16 + GUARD * es, s0s, PC[p0], w, h, es); loaded0 = 1; }
                                    put_rows((uint8_t *)B16 + GUARD * es, s1s, PC[p1], w, h, es);
                                }
                                if (!case_begin(r, p0 >= np || kc_pat_nontrivial((int)p0) || kc_pat_nontrivial(p1))) continue;
                                const char *na = p0 < np ? kc_pat_name((int)p0, lo, hi, n0) : n0, *nb_ = p0 < np ? kc_pat_name(p1, lo, hi, n1) : n1;
                                size_t   nb = (size_t)w * h + 2 * GUARD;
                                uint8_t *a8 = (uint8_t *)A16 + GUARD * es, *b8 = (uint8_t *)B16 + GUARD * es;
                                memcpy(OC, OJ, nb);
                                if (kind == 0) ((dw_lbd_fn)k->c)(OC + GUARD, (DIFFWTD_MASK_TYPE)ty, a8, s0s, b8, s1s, h, w);
                                else if (kind == 1) ((dw_hbd_fn)k->c)(OC + GUARD, (DIFFWTD_MASK_TYPE)ty, a8, s0s, b8, s1s, h, w, bd);
                                else ((dw_d16_fn)k->c)(OC + GUARD, (DIFFWTD_MASK_TYPE)ty, A16 + GUARD, s0s, B16 + GUARD, s1s, h, w, &cp, bd);
                                VERBOSE(r, "case %lld: %dx%d bd=%d mask_type=%s src0_stride=%d src1_stride=%d value range %ld..%ld src0=%s src1=%s -> c mask[0..3] = %d %d %d %d",
                                        r->case_idx - 1, w, h, bd, ty ? "DIFFWTD_38_INV" : "DIFFWTD_38", s0s, s1s, lo, hi, na, nb_, OC[GUARD], OC[GUARD + 1],
                                        OC[GUARD + 2], OC[GUARD + 3]);
                                for (int vi = 0; vi < k->nv; vi++) {
                                    if (!var_on(r, vi)) continue;
                                    memcpy(OV, OJ, nb);
                                    if (kind == 0) ((dw_lbd_fn)k->v[vi].fn)(OV + GUARD, (DIFFWTD_MASK_TYPE)ty, a8, s0s, b8, s1s, h, w);
                                    else if (kind == 1) ((dw_hbd_fn)k->v[vi].fn)(OV + GUARD, (DIFFWTD_MASK_TYPE)ty, a8, s0s, b8, s1s, h, w, bd);
                                    else ((dw_d16_fn)k->v[vi].fn)(OV + GUARD, (DIFFWTD_MASK_TYPE)ty, A16 + GUARD, s0s, B16 + GUARD, s1s, h, w, &cp, bd);
                                    long d = kc_diff(OC, OV, nb);
                                    if (d >= 0) {
                                        long o = d - GUARD, row = o >= 0 ? o / w : -1, col = o >= 0 ? o % w : o;
                                        int  inb = row >= 0 && row < h;
                                        MISMATCH(r, vi, "%dx%d bd=%d mask_type=%s src0_stride=%d src1_stride=%d round_0=%d round_1=%d, value range %ld..%ld, src0 '%s' src1 '%s': first difference at mask index %ld (row %ld col %ld; src0 %d src1 %d there): c=%d simd=%d",
                                                 w, h, bd, ty ? "DIFFWTD_38_INV" : "DIFFWTD_38", s0s, s1s, kind == 2 ? cp.round_0 : 0, kind == 2 ? cp.round_1 : 0, lo, hi,
                                                 na, nb_, o, row, col, !inb ? 0 : es == 2 ? A16[GUARD + row * s0s + col] : ((uint8_t *)A16)[GUARD + row * s0s + col],
                                                 !inb ? 0 : es == 2 ? B16[GUARD + row * s1s + col] : ((uint8_t *)B16)[GUARD + row * s1s + col], OC[d], OV[d]);
                                    }
                                }
                            }
                        }
                    }
            }
        }
}
void drv_diffwtd_lbd(Run *r) { diffwtd(r, 0); }
void drv_diffwtd_hbd(Run *r) { diffwtd(r, 1); }
void drv_diffwtd_d16(Run *r) { diffwtd(r, 2); }

// ------------------------------------------------------------------------------------------------ wedge helpers
typedef uint64_t (*wsse_fn)(const int16_t *r1, const int16_t *d, const uint8_t *m, int N);
typedef int8_t (*wsign_fn)(const int16_t *ds, const uint8_t *m, int N, int64_t limit);
typedef void (*wdelta_fn)(int16_t *d, const int16_t *a, const int16_t *b, int N);

static const int WN[9][2] = {{8, 8}, {16, 8}, {16, 16}, {32, 16}, {32, 32}, {64, 32}, {64, 64}, {128, 64}, {128, 128}};
static int16_t   WA[MAXW * MAXW + 2 * GUARD] ALIGN64, WB[MAXW * MAXW + 2 * GUARD] ALIGN64, WDC[MAXW * MAXW + 2 * GUARD] ALIGN64,
    WDV[MAXW * MAXW + 2 * GUARD] ALIGN64, WJ[MAXW * MAXW + 2 * GUARD] ALIGN64;
static uint8_t WM[MAXW * MAXW + 2 * GUARD] ALIGN64;

void drv_wedge_sse(Run *r) {
    const Kern      *k = r->k;
    static const int HOLD[3] = {PAT_LO, PAT_HI, PAT_TEXTURE};
    static const long RNG[2] = {255, 1023};
    char             n0[32], n1[32], n2[32];
    kc_junk(WA, sizeof WA, 3);
    kc_junk(WB, sizeof WB, 4);
    kc_junk(WM, sizeof WM, 5);
    for (int ni = 0; ni < 9; ni++) {
        int w = WN[ni][0], h = WN[ni][1], N = w * h;
        for (int ri = 0; ri < 2; ri++) {
            long hi = RNG[ri], lo = -hi;
            int  np = kc_npat(r, lo, hi), npm = kc_npat(r, 0, 64);
            cache_build(np, w, h, lo, hi);
            for (int p = 0; p < npm; p++)
                for (int i = 0; i < N; i++) PM[p][i] = (uint8_t)kc_pat_value(p, i % w, i / w, w, h, 0, 64);
            int full = N <= 1024 || r->thorough;
            for (int hold = 0; hold < 3; hold++)
                for (int p1 = 0; p1 < np; p1++)
                    for (int p2 = 0; p2 < (hold == 2 ? np : npm); p2++) {
                        if (r->stop) return;
                        if (!full && !(is_anchor(p1) || is_anchor(p2) || p1 == p2)) continue;
                        int hv = HOLD[(p1 + p2) % 3];
                        int pr = hold == 0 ? hv : p1, pd = hold == 0 ? p1 : hold == 1 ? hv : p2, pm = hold == 2 ? hv : p2;
                        if (case_skip_fast(r)) continue;
                        memcpy(WA + GUARD, PC[pr], (size_t)N * 2);
                        memcpy(WB + GUARD, PC[pd], (size_t)N * 2);
                        memcpy(WM + GUARD, PM[pm], (size_t)N);
                        if (!case_begin(r, kc_pat_nontrivial(pr) || kc_pat_nontrivial(pd) || kc_pat_nontrivial(pm))) continue;
                        uint64_t c = ((wsse_fn)k->c)(WA + GUARD, WB + GUARD, WM + GUARD, N);
                        VERBOSE(r, "case %lld: N=%d (%dx%d) residual range %ld..%ld r1=%s d=%s mask=%s -> c returns %llu", r->case_idx - 1, N, w, h, lo, hi,
                                kc_pat_name(pr, lo, hi, n0), kc_pat_name(pd, lo, hi, n1), kc_pat_name(pm, 0, 64, n2), (unsigned long long)c);
                        for (int vi = 0; vi < k->nv; vi++) {
                            if (!var_on(r, vi)) continue;
                            uint64_t v = ((wsse_fn)k->v[vi].fn)(WA + GUARD, WB + GUARD, WM + GUARD, N);
                            if (v != c)
                                MISMATCH(r, vi, "N=%d (patterns laid out %dx%d) residual range %ld..%ld r1 pattern '%s' d pattern '%s' mask(0..64) pattern '%s': c returns %llu, simd returns %llu",
                                         N, w, h, lo, hi, kc_pat_name(pr, lo, hi, n0), kc_pat_name(pd, lo, hi, n1), kc_pat_name(pm, 0, 64, n2),
                                         (unsigned long long)c, (unsigned long long)v);
                        }
                    }
        }
    }
}

// ds alphabet: patterns over the whole int16 range + ds manufactured by svt_av1_wedge_compute_delta_squares_c from residual patterns
void drv_wedge_sign(Run *r) {
    const Kern  *k = r->k;
    const Kern  *dk = kc_find_kern("svt_av1_wedge_compute_delta_squares");
    static const long RNG[2] = {255, 1023};
    char         n0[64], n1[32], nb[32], nc[32];
    kc_junk(WA, sizeof WA, 3);
    kc_junk(WM, sizeof WM, 5);
    for (int ni = 0; ni < 5; ni++) {
        int  w = WN[ni][0], h = WN[ni][1], N = w * h;
        long lo = -32768, hi = 32767;
        int  np = kc_npat(r, lo, hi), npm = kc_npat(r, 0, 64);
        for (int p = 0; p < npm; p++)
            for (int i = 0; i < N; i++) PM[p][i] = (uint8_t)kc_pat_value(p, i % w, i / w, w, h, 0, 64);
        // source 0: direct patterns; source 1, 2: clamp(a^2 - b^2) of residual patterns in +-255 / +-1023 (a = pattern index / npr, b = index % npr)
        for (int src = 0; src < (dk ? 3 : 1); src++) {
            long rh = src ? RNG[src - 1] : 0;
            int  npr = src ? kc_npat(r, -rh, rh) : 0, nds = src ? npr * npr : np;
            for (int pd = 0; pd < nds; pd++) {
                if (r->stop) return;
                int loaded = 0;
                for (int pm = 0; pm < npm; pm++)
                    for (int li = 0; li < 5; li++) {
                        if (r->stop) return;
                        if (case_skip_fast(r)) continue;
                        if (!loaded) {
                            if (!src) kc_fill_i16(WA + GUARD, w, h, w, pd, lo, hi);
                            else {
                                kc_fill_i16(WB + GUARD, w, h, w, pd / npr, -rh, rh);
                                kc_fill_i16(WDC + GUARD, w, h, w, pd % npr, -rh, rh);
                                ((wdelta_fn)dk->c)(WA + GUARD, WB + GUARD, WDC + GUARD, N);
                            }
                            loaded = 1;
                        }
                        memcpy(WM + GUARD, PM[pm], (size_t)N);
                        if (!case_begin(r, src || kc_pat_nontrivial(pd) || kc_pat_nontrivial(pm))) continue;
                        int64_t acc = 0;
                        for (int i = 0; i < N; i++) acc += (int64_t)WA[GUARD + i] * WM[GUARD + i];
                        int64_t limit = li == 0 ? acc - 1 : li == 1 ? acc : li == 2 ? acc + 1 : li == 3 ? 0 : -acc;
                        int8_t  c = ((wsign_fn)k->c)(WA + GUARD, WM + GUARD, N, limit);
                        if (src) snprintf(n0, sizeof n0, "clamp(a^2-b^2), a='%s' b='%s' in +-%ld", kc_pat_name(pd / npr, -rh, rh, nb), kc_pat_name(pd % npr, -rh, rh, nc), rh);
                        else snprintf(n0, sizeof n0, "%s", kc_pat_name(pd, lo, hi, nb));
                        VERBOSE(r, "case %lld: N=%d (%dx%d) ds=%s mask=%s limit=%lld (sum ds*m = %lld) -> c returns %d", r->case_idx - 1, N, w, h, n0,
                                kc_pat_name(pm, 0, 64, n1), (long long)limit, (long long)acc, c);
                        for (int vi = 0; vi < k->nv; vi++) {
                            if (!var_on(r, vi)) continue;
                            int8_t v = ((wsign_fn)k->v[vi].fn)(WA + GUARD, WM + GUARD, N, limit);
                            if (v != c)
                                MISMATCH(r, vi, "N=%d (patterns laid out %dx%d) ds (int16) = %s, mask(0..64) pattern '%s', limit=%lld (exact sum ds*m = %lld): c returns %d, simd returns %d",
                                         N, w, h, n0, kc_pat_name(pm, 0, 64, n1), (long long)limit, (long long)acc, c, v);
                        }
                    }
            }
        }
    }
}

void drv_wedge_delta_squares(Run *r) {
    const Kern       *k = r->k;
    static const long RNG[2] = {255, 1023};
    char              n0[32], n1[32];
    kc_junk(WJ, sizeof WJ, 7);
    kc_junk(WA, sizeof WA, 3);
    kc_junk(WB, sizeof WB, 4);
    for (int ni = 0; ni < 5; ni++) {
        int w = WN[ni][0], h = WN[ni][1], N = w * h;
        for (int ri = 0; ri < 2; ri++) {
            long hi = RNG[ri], lo = -hi;
            int  np = kc_npat(r, lo, hi);
            cache_build(np, w, h, lo, hi);
            for (int alias = 0; alias < 2; alias++)
                for (int pa = 0; pa < np; pa++)
                    for (int pb = 0; pb < np; pb++) {
                        if (r->stop) return;
                        if (case_skip_fast(r)) continue;
                        memcpy(WA + GUARD, PC[pa], (size_t)N * 2);
                        memcpy(WB + GUARD, PC[pb], (size_t)N * 2);
                        if (!case_begin(r, kc_pat_nontrivial(pa) || kc_pat_nontrivial(pb))) continue;
                        size_t nb = ((size_t)N + 2 * GUARD) * 2;
                        memcpy(WDC, WJ, nb);
                        if (alias) memcpy(WDC + GUARD, PC[pa], (size_t)N * 2);
                        ((wdelta_fn)k->c)(WDC + GUARD, alias ? WDC + GUARD : WA + GUARD, WB + GUARD, N);
                        VERBOSE(r, "case %lld: N=%d (%dx%d) range %ld..%ld %s a=%s b=%s -> c d[0..3] = %d %d %d %d", r->case_idx - 1, N, w, h, lo, hi,
                                alias ? "in place (d == a)" : "d separate", kc_pat_name(pa, lo, hi, n0), kc_pat_name(pb, lo, hi, n1), WDC[GUARD], WDC[GUARD + 1],
                                WDC[GUARD + 2], WDC[GUARD + 3]);
                        for (int vi = 0; vi < k->nv; vi++) {
                            if (!var_on(r, vi)) continue;
                            memcpy(WDV, WJ, nb);
                            if (alias) memcpy(WDV + GUARD, PC[pa], (size_t)N * 2);
                            ((wdelta_fn)k->v[vi].fn)(WDV + GUARD, alias ? WDV + GUARD : WA + GUARD, WB + GUARD, N);
                            long d = kc_diff(WDC, WDV, nb);
                            if (d >= 0) {
                                d /= 2;
                                MISMATCH(r, vi, "N=%d (patterns laid out %dx%d) residual range %ld..%ld, %s, a pattern '%s' b pattern '%s': first difference at d[%ld]: c=%d simd=%d",
                                         N, w, h, lo, hi, alias ? "in place (d == a)" : "d separate", kc_pat_name(pa, lo, hi, n0), kc_pat_name(pb, lo, hi, n1),
                                         d - GUARD, WDC[d], WDV[d]);
                            }
                        }
                    }
        }
    }
}
