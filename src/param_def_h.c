/* param_def_h: C13 harness.  What does svt_av1_enc_init_handle leave in the caller's EbSvtAv1EncConfiguration?
 *
 * usage: param_def_h layout
 *        param_def_h fields          reads cases from stdin, one per line:
 *                                       <id> fill <byte>                 whole structure memset to <byte>
 *                                       <id> poison <element> <pattern>  structure zero, one element (or, when a field /
 *                                                                        group name is given, all its elements) set to
 *                                                                        pattern ff | 80 | 7f | 01
 *                                    per case: prior contents -> svt_av1_enc_init_handle -> compare every element of the
 *                                    returned structure (padding is not compared) with the zero-prefilled reference ->
 *                                    source 64x64 -> svt_av1_enc_set_parameter -> svt_av1_enc_deinit_handle.
 *                                    prints "<id>.d <hash of prior contents> <#differing elements> field(count)=first-value ..." and then
 *                                    "<id> <init rc> <set rc>" (hex)
 *        param_def_h encode fill <byte> | encode poison <element|field> <pattern>
 *                                    same prior contents, then source 64x64 and logical_processors 1 (nothing else), set_parameter, init, 5 pictures,
 *                                    EOS, drain; prints one JSON line with the return codes and a hash of the packets.
 */
#define _GNU_SOURCE
#include <stdio.h>
#include <stdlib.h>
#include <string.h>
#include <stdint.h>
#include "param_fields.h"
#include "vutil.h"

static void put_pattern(Cfg *c, const PField *f, int i, int j, const char *pat) {
    unsigned char *p = (unsigned char *)pf_addr(c, f, i, j);
    size_t         n = f->size;
    if (!strcmp(pat, "ff")) memset(p, 0xFF, n);
    else if (!strcmp(pat, "80")) { memset(p, 0, n); p[n - 1] = 0x80; }            /* little endian: most significant byte */
    else if (!strcmp(pat, "7f")) { memset(p, 0xFF, n); p[n - 1] = 0x7F; }
    else { memset(p, 0, n); p[0] = 1; }
}

/* returns 0 on success */
static int prepare(Cfg *c, const char *kind, const char *a, const char *b) {
    if (!strcmp(kind, "fill")) { memset(c, (int)strtol(a, NULL, 0), sizeof *c); return 0; }
    if (strcmp(kind, "poison") || !a || !b) return -1;
    memset(c, 0, sizeof *c);
    int i, j, k = pf_find(a, &i, &j);
    if (k >= 0) { put_pattern(c, &pfields[k], i, j, b); return 0; }   /* a complete element name */
    /* field or group name: all elements of all rows of that group / name */
    int hit = 0;
    for (k = 0; k < P_NFIELDS; k++) {
        if (strcmp(pfields[k].group, a) && strcmp(pfields[k].name, a)) continue;
        for (i = 0; i < pfields[k].outer; i++)
            for (j = 0; j < pfields[k].inner; j++) put_pattern(c, &pfields[k], i, j, b);
        hit = 1;
    }
    return hit ? 0 : -1;
}

static int diff(const Cfg *ref, const Cfg *c, char *out, size_t cap) {
    int    total = 0;
    size_t len = 0;
    out[0] = 0;
    for (int k = 0; k < P_NFIELDS; k++) {
        int       n = 0;
        long long first = 0;
        for (int i = 0; i < pfields[k].outer; i++)
            for (int j = 0; j < pfields[k].inner; j++)
                if (memcmp(pf_addr(ref, &pfields[k], i, j), pf_addr(c, &pfields[k], i, j), pfields[k].size)) {
                    if (!n) first = pf_get(c, &pfields[k], i, j);
                    n++;
                }
        if (n && len + 200 < cap) len += (size_t)snprintf(out + len, cap - len, " %s(%d)=%lld", pfields[k].name, n, first);
        total += n;
    }
    return total;
}

static int encode(Cfg *cfg) {
    enum { W = 64, H = 64, N = 5 };
    EbComponentType *h = NULL;
    EbErrorType e = svt_av1_enc_init_handle(&h, NULL, cfg);
    if (e != EB_ErrorNone) { printf("{\"init_handle\":%d}\n", (int)e); return 0; }
    cfg->source_width = W;
    cfg->source_height = H;
    cfg->logical_processors = 1; /* explicit caller setting: one logical processor (few threads, see C13 assumptions) */
    if (getenv("PARAM_DEF_LP")) cfg->logical_processors = (uint32_t)atoi(getenv("PARAM_DEF_LP"));
    e = svt_av1_enc_set_parameter(h, cfg);
    if (e != EB_ErrorNone) {
        svt_av1_enc_deinit_handle(h);
        printf("{\"init_handle\":0,\"set_parameter\":%d}\n", (int)e);
        return 0;
    }
    e = svt_av1_enc_init(h);
    if (e != EB_ErrorNone) {
        svt_av1_enc_deinit(h);
        svt_av1_enc_deinit_handle(h);
        printf("{\"init_handle\":0,\"set_parameter\":0,\"init\":%d}\n", (int)e);
        return 0;
    }
    size_t   ysz = W * H, csz = (W / 2) * (H / 2);
    uint8_t *buf = malloc(ysz + 2 * csz);
    int      send_err = 0;
    for (int f = 0; f < N; f++) {
        for (int y = 0; y < H; y++)
            for (int x = 0; x < W; x++) buf[y * W + x] = (uint8_t)((2 * x + y + 3 * f + ((x * 7 + y * 13 + f * 5) & 3)) & 255);
        for (int y = 0; y < H / 2; y++)
            for (int x = 0; x < W / 2; x++) {
                buf[ysz + y * (W / 2) + x] = (uint8_t)(112 + ((2 * x + f) & 31));
                buf[ysz + csz + y * (W / 2) + x] = (uint8_t)(112 + ((2 * y - f) & 31));
            }
        EbSvtIOFormat io;
        memset(&io, 0, sizeof io);
        io.luma = buf; io.cb = buf + ysz; io.cr = buf + ysz + csz;
        io.y_stride = W; io.cb_stride = io.cr_stride = W / 2;
        io.width = W; io.height = H; io.color_fmt = EB_YUV420; io.bit_depth = EB_EIGHT_BIT;
        EbBufferHeaderType ih;
        memset(&ih, 0, sizeof ih);
        ih.size = sizeof ih; ih.p_buffer = (uint8_t *)&io;
        ih.n_filled_len = ih.n_alloc_len = (uint32_t)(ysz + 2 * csz);
        ih.pts = f; ih.pic_type = EB_AV1_INVALID_PICTURE;
        if (svt_av1_enc_send_picture(h, &ih) != EB_ErrorNone) send_err++;
    }
    EbBufferHeaderType eh;
    memset(&eh, 0, sizeof eh);
    eh.size = sizeof eh; eh.flags = EB_BUFFERFLAG_EOS; eh.pic_type = EB_AV1_INVALID_PICTURE;
    svt_av1_enc_send_picture(h, &eh);
    uint64_t hash = 0, bytes = 0;
    int      npk = 0, eos = 0, gerr = 0;
    while (!eos && npk < 64) {
        EbBufferHeaderType *p = NULL;
        e = svt_av1_enc_get_packet(h, &p, 1);
        if (!p) { gerr = (int)e; break; }
        if (e != EB_ErrorNone) gerr = (int)e;
        uint64_t t[4] = { vu_fnv(p->p_buffer, p->n_filled_len, 0), (uint64_t)p->pts, p->flags, p->n_filled_len };
        hash = vu_fnv(t, sizeof t, hash);
        bytes += p->n_filled_len;
        npk++;
        if (p->flags & EB_BUFFERFLAG_EOS) eos = 1;
        svt_av1_enc_release_out_buffer(&p);
        if (e != EB_ErrorNone) break;
    }
    EbErrorType e_d = svt_av1_enc_deinit(h);
    EbErrorType e_dh = svt_av1_enc_deinit_handle(h);
    printf("{\"init_handle\":0,\"set_parameter\":0,\"init\":0,\"send_err\":%d,\"npk\":%d,\"bytes\":%llu,\"eos\":%d,\"get_err\":%d,"
           "\"deinit\":%d,\"deinit_handle\":%d,\"hash\":\"%016llx\"}\n",
           send_err, npk, (unsigned long long)bytes, eos, gerr, (int)e_d, (int)e_dh, (unsigned long long)hash);
    free(buf);
    return 0;
}

int main(int argc, char **argv) {
    const char *mode = argc > 1 ? argv[1] : "fields";
    Cfg *cfg = malloc(sizeof *cfg), *ref = malloc(sizeof *ref);
    if (!strcmp(mode, "layout")) { pf_layout(stdout); return 0; }
    if (!strcmp(mode, "encode")) {
        if (argc < 4 || prepare(cfg, argv[2], argv[3], argc > 4 ? argv[4] : NULL)) { fprintf(stderr, "bad encode case\n"); return 4; }
        int r = encode(cfg);
        fflush(stdout);
        return r;
    }
    /* reference: zero-prefilled */
    {
        EbComponentType *h = NULL;
        memset(ref, 0, sizeof *ref);
        EbErrorType e = svt_av1_enc_init_handle(&h, NULL, ref);
        if (e != EB_ErrorNone) { fprintf(stderr, "reference init_handle failed %x\n", (unsigned)e); return 3; }
        svt_av1_enc_deinit_handle(h);
    }
    char  *line = NULL, *out = malloc(1 << 16);
    size_t cap = 0;
    while (getline(&line, &cap, stdin) > 0) {
        char *save = NULL;
        char *id = strtok_r(line, " \t\r\n", &save);
        char *kind = strtok_r(NULL, " \t\r\n", &save);
        char *a = strtok_r(NULL, " \t\r\n", &save);
        char *b = strtok_r(NULL, " \t\r\n", &save);
        if (!id || !kind || !a) continue;
        if (prepare(cfg, kind, a, b)) { printf("%s badcase\n", id); fflush(stdout); continue; }
        EbComponentType *h = NULL;
        uint64_t prior = vu_fnv(cfg, sizeof *cfg, 0); /* identifies the prior contents (distinct-case count) */
        EbErrorType e_ih = svt_av1_enc_init_handle(&h, NULL, cfg);
        if (e_ih != EB_ErrorNone) { printf("%s %x -\n", id, (unsigned)e_ih); fflush(stdout); continue; }
        int nd = diff(ref, cfg, out, 1 << 16);
        /* the comparison result goes out first, under the id "<id>.d", so that it survives a crash in set_parameter */
        printf("%s.d %016llx %d%s\n", id, (unsigned long long)prior, nd, out);
        fflush(stdout);
        cfg->source_width = 64;
        cfg->source_height = 64;
        EbErrorType e_sp = svt_av1_enc_set_parameter(h, cfg);
        svt_av1_enc_deinit_handle(h);
        printf("%s 0 %x\n", id, (unsigned)e_sp);
        fflush(stdout);
    }
    return 0;
}
