// C07 drivers: distortion kernels (SAD, SADx4D, variance, MSE, OBMC SAD / variance / sub-pixel variance, highbd variance).
#include "kern_core.h"

#define ALIGN64 __attribute__((aligned(64)))
#define BUFPX (144 * 288 + 1024)

static uint8_t  S8[BUFPX] ALIGN64, R8[BUFPX] ALIGN64;
static uint16_t S16[BUFPX] ALIGN64, R16[BUFPX] ALIGN64;
static int32_t  W32[128 * 128 + 64] ALIGN64, M32[128 * 128 + 64] ALIGN64;

static int strides4(int w, int *s) {
    s[0] = w; s[1] = w + 1; s[2] = w + 16; s[3] = 2 * w;
    return 4;
}

// ------------------------------------------------------------------------------------------------ SAD / variance / mse
typedef uint32_t (*sad_fn)(const uint8_t *src, int src_stride, const uint8_t *ref, int ref_stride);
typedef unsigned int (*var_fn)(const uint8_t *a, int as, const uint8_t *b, int bs, unsigned int *sse);
typedef void (*var_void_fn)(const uint8_t *a, int as, const uint8_t *b, int bs, unsigned int *sse);

// mode 0: sad, 1: variance (returns + *sse), 2: void mse (*sse only)
static void two_block_lbd(Run *r, int mode) {
    const Kern *k = r->k;
    int         w = k->w, h = k->h, st[4], ns = strides4(w, st), np = kc_npat(r, 0, 255);
    char        n1[32], n2[32];
    kc_junk(S8, sizeof S8, 3);
    kc_junk(R8, sizeof R8, 4);
    for (int sa = 0; sa < ns; sa++)
        for (int sb = 0; sb < ns; sb++)
            for (int roff = 0; roff < 2; roff++) // reference blocks are unaligned in the motion search
                for (int pa = 0; pa < np; pa++) {
                    if (r->stop) return;
                    kc_fill_u8(S8 + 64, w, h, st[sa], pa, 0, 255);
                    for (int pb = 0; pb < np; pb++) {
                        if (r->stop) return;
                        if (case_skip_fast(r)) continue;
                        kc_fill_u8(R8 + 64 + roff, w, h, st[sb], pb, 0, 255);
                        if (!case_begin(r, kc_pat_nontrivial(pa) || kc_pat_nontrivial(pb))) continue;
                        unsigned c_ret = 0, c_sse = 0xA5A5A5A5u;
                        if (mode == 0) c_ret = ((sad_fn)k->c)(S8 + 64, st[sa], R8 + 64 + roff, st[sb]);
                        else if (mode == 1) c_ret = ((var_fn)k->c)(S8 + 64, st[sa], R8 + 64 + roff, st[sb], &c_sse);
                        else ((var_void_fn)k->c)(S8 + 64, st[sa], R8 + 64 + roff, st[sb], &c_sse);
                        VERBOSE(r, "case %lld: %dx%d src_stride=%d ref_stride=%d ref_offset=%d src=%s ref=%s -> c ret=%u sse=%u", r->case_idx - 1, w, h,
                                st[sa], st[sb], roff, kc_pat_name(pa, 0, 255, n1), kc_pat_name(pb, 0, 255, n2), c_ret, c_sse);
                        for (int vi = 0; vi < k->nv; vi++) {
                            if (!var_on(r, vi)) continue;
                            unsigned v_ret = 0, v_sse = 0xA5A5A5A5u;
                            if (mode == 0) v_ret = ((sad_fn)k->v[vi].fn)(S8 + 64, st[sa], R8 + 64 + roff, st[sb]);
                            else if (mode == 1) v_ret = ((var_fn)k->v[vi].fn)(S8 + 64, st[sa], R8 + 64 + roff, st[sb], &v_sse);
                            else ((var_void_fn)k->v[vi].fn)(S8 + 64, st[sa], R8 + 64 + roff, st[sb], &v_sse);
                            if (v_ret != c_ret || v_sse != c_sse)
                                MISMATCH(r, vi, "%dx%d src_stride=%d ref_stride=%d ref_offset=%d src pattern '%s' ref pattern '%s': c returns %u (sse %u), simd returns %u (sse %u)",
                                         w, h, st[sa], st[sb], roff, kc_pat_name(pa, 0, 255, n1), kc_pat_name(pb, 0, 255, n2), c_ret, c_sse, v_ret, v_sse);
                        }
                    }
                }
}
void drv_sad(Run *r) { two_block_lbd(r, 0); }
void drv_variance(Run *r) { two_block_lbd(r, 1); }
void drv_mse_void(Run *r) { two_block_lbd(r, 2); }

// highbd variance: pointers are CONVERT_TO_BYTEPTR(uint16_t *), samples of the stated bit depth (k->a)
void drv_variance_hbd(Run *r) {
    const Kern *k = r->k;
    int         w = k->w, h = k->h, st[4], ns = strides4(w, st), bd = k->a ? k->a : 10;
    long        hi = (1 << bd) - 1;
    int         np = kc_npat(r, 0, hi);
    char        n1[32], n2[32];
    for (size_t i = 0; i < BUFPX; i++) { S16[i] = (uint16_t)((i * 2654435761u >> 7) & hi); R16[i] = (uint16_t)((i * 40503u >> 3) & hi); }
    for (int sa = 0; sa < ns; sa++)
        for (int sb = 0; sb < ns; sb++)
            for (int roff = 0; roff < 2; roff++)
                for (int pa = 0; pa < np; pa++) {
                    if (r->stop) return;
                    kc_fill_u16(S16 + 64, w, h, st[sa], pa, 0, hi);
                    for (int pb = 0; pb < np; pb++) {
                        if (r->stop) return;
                        if (case_skip_fast(r)) continue;
                        kc_fill_u16(R16 + 64 + roff, w, h, st[sb], pb, 0, hi);
                        if (!case_begin(r, kc_pat_nontrivial(pa) || kc_pat_nontrivial(pb))) continue;
                        unsigned c_sse = 0xA5A5A5A5u, c_ret;
                        c_ret = ((var_fn)k->c)(CONVERT_TO_BYTEPTR_(S16 + 64), st[sa], CONVERT_TO_BYTEPTR_(R16 + 64 + roff), st[sb], &c_sse);
                        VERBOSE(r, "case %lld: %dx%d bd=%d strides %d/%d ref_offset=%d src=%s ref=%s -> c ret=%u sse=%u", r->case_idx - 1, w, h, bd, st[sa],
                                st[sb], roff, kc_pat_name(pa, 0, hi, n1), kc_pat_name(pb, 0, hi, n2), c_ret, c_sse);
                        for (int vi = 0; vi < k->nv; vi++) {
                            if (!var_on(r, vi)) continue;
                            unsigned v_sse = 0xA5A5A5A5u, v_ret;
                            v_ret = ((var_fn)k->v[vi].fn)(CONVERT_TO_BYTEPTR_(S16 + 64), st[sa], CONVERT_TO_BYTEPTR_(R16 + 64 + roff), st[sb], &v_sse);
                            if (v_ret != c_ret || v_sse != c_sse)
                                MISMATCH(r, vi, "%dx%d bd=%d src_stride=%d ref_stride=%d ref_offset=%d src pattern '%s' ref pattern '%s': c returns %u (sse %u), simd returns %u (sse %u)",
                                         w, h, bd, st[sa], st[sb], roff, kc_pat_name(pa, 0, hi, n1), kc_pat_name(pb, 0, hi, n2), c_ret, c_sse, v_ret, v_sse);
                        }
                    }
                }
}

// ------------------------------------------------------------------------------------------------ SAD x4D
typedef void (*sad4d_fn)(const uint8_t *src, int src_stride, const uint8_t *const ref[4], int ref_stride, uint32_t *sad_array);
void drv_sad4d(Run *r) {
    const Kern *k = r->k;
    int         w = k->w, h = k->h, st[4], ns = strides4(w, st), np = kc_npat(r, 0, 255);
    char        n1[32], n2[32];
    kc_junk(S8, sizeof S8, 3);
    kc_junk(R8, sizeof R8, 4);
    for (int sa = 0; sa < ns; sa++)
        for (int sbi = 0; sbi < ns; sbi++) {
            int sb = st[sbi] + 8; // the four candidates are shifted views of one (w+8)x(h+8) reference area
            for (int pa = 0; pa < np; pa++) {
                if (r->stop) return;
                kc_fill_u8(S8 + 64, w, h, st[sa], pa, 0, 255);
                for (int pb = 0; pb < np; pb++) {
                    if (r->stop) return;
                    if (case_skip_fast(r)) continue;
                    kc_fill_u8(R8 + 64, w + 8, h + 8, sb, pb, 0, 255);
                    if (!case_begin(r, kc_pat_nontrivial(pa) || kc_pat_nontrivial(pb))) continue;
                    const uint8_t *refs[4] = {R8 + 64, R8 + 64 + 1, R8 + 64 + sb, R8 + 64 + 2 * sb + 3};
                    uint32_t       c_out[6] = {0xA5A5A5A5u, 0xA5A5A5A5u, 0xA5A5A5A5u, 0xA5A5A5A5u, 0xA5A5A5A5u, 0xA5A5A5A5u};
                    ((sad4d_fn)k->c)(S8 + 64, st[sa], refs, sb, c_out + 1);
                    VERBOSE(r, "case %lld: %dx%d src_stride=%d ref_stride=%d src=%s refarea=%s -> c %u %u %u %u", r->case_idx - 1, w, h, st[sa], sb,
                            kc_pat_name(pa, 0, 255, n1), kc_pat_name(pb, 0, 255, n2), c_out[1], c_out[2], c_out[3], c_out[4]);
                    for (int vi = 0; vi < k->nv; vi++) {
                        if (!var_on(r, vi)) continue;
                        uint32_t v_out[6] = {0xA5A5A5A5u, 0xA5A5A5A5u, 0xA5A5A5A5u, 0xA5A5A5A5u, 0xA5A5A5A5u, 0xA5A5A5A5u};
                        ((sad4d_fn)k->v[vi].fn)(S8 + 64, st[sa], refs, sb, v_out + 1);
                        if (memcmp(c_out, v_out, sizeof c_out))
                            MISMATCH(r, vi, "%dx%d src_stride=%d ref_stride=%d src pattern '%s' reference area pattern '%s' (refs at +0,+1,+stride,+2*stride+3): c {%u,%u,%u,%u} simd {%u,%u,%u,%u} guards %x/%x",
                                     w, h, st[sa], sb, kc_pat_name(pa, 0, 255, n1), kc_pat_name(pb, 0, 255, n2), c_out[1], c_out[2], c_out[3], c_out[4],
                                     v_out[1], v_out[2], v_out[3], v_out[4], v_out[0], v_out[5]);
                    }
                }
            }
        }
}

// ------------------------------------------------------------------------------------------------ OBMC
typedef unsigned int (*obmc_sad_fn)(const uint8_t *pre, int pre_stride, const int32_t *wsrc, const int32_t *mask);
typedef unsigned int (*obmc_var_fn)(const uint8_t *pre, int pre_stride, const int32_t *wsrc, const int32_t *mask, unsigned int *sse);
typedef unsigned int (*obmc_spv_fn)(const uint8_t *pre, int pre_stride, int xoffset, int yoffset, const int32_t *wsrc, const int32_t *mask,
                                    unsigned int *sse);
// mode 0 sad, 1 variance, 2 sub-pixel variance. wsrc in [0, 255*64*64], mask in [0, 64*64] (products of two 6-bit blend masks)
static void obmc(Run *r, int mode) {
    const Kern *k = r->k;
    int         w = k->w, h = k->h, st[4], ns = strides4(w, st);
    long        whi = 255L * 4096, mhi = 4096;
    int         np = kc_npat(r, 0, 255), npw = kc_npat(r, 0, whi), npm = kc_npat(r, 0, mhi);
    char        n1[32], n2[32], n3[32];
    kc_junk(R8, sizeof R8, 4);
    int nxy = mode == 2 ? 64 : 1;
    // pattern triples: the full cube would be ~8000 triples per stride; enumerate all pairs with the third held at each of
    // {min, max, texture}, which contains every pairwise combination
    for (int si = 0; si < ns; si++)
        for (int xy = 0; xy < nxy; xy++)
            for (int hold = 0; hold < 3; hold++)
                for (int p1 = 0; p1 < (hold == 0 ? npw : np) ; p1++)
                    for (int p2 = 0; p2 < (hold == 2 ? npw : npm); p2++) {
                        if (r->stop) return;
                        static const int HOLD[3] = {PAT_LO, PAT_HI, PAT_TEXTURE};
                        // hold=0: pre held, (wsrc,mask) vary; hold=1: wsrc held, (pre,mask) vary; hold=2: mask held, (pre,wsrc) vary
                        int hv = HOLD[(p1 + p2) % 3];
                        int ppre = hold == 0 ? hv : p1;
                        int pw = hold == 0 ? p1 : hold == 1 ? hv : p2;
                        int pm = hold == 2 ? hv : p2;
                        if (mode == 2 && r->thorough == 0 && ((p1 * 7 + p2 * 3 + xy) % 8) != 0 && xy != 0 && xy != 63) { continue; }
                        if (case_skip_fast(r)) continue;
                        int pwid = w + (mode == 2), phei = h + (mode == 2);
                        kc_fill_u8(R8 + 64, pwid, phei, st[si] + (mode == 2), ppre, 0, 255);
                        kc_fill_i32(W32, w, h, w, pw, 0, whi);
                        kc_fill_i32(M32, w, h, w, pm, 0, mhi);
                        if (!case_begin(r, kc_pat_nontrivial(ppre) || kc_pat_nontrivial(pw) || kc_pat_nontrivial(pm))) continue;
                        int      ps = st[si] + (mode == 2), xo = xy & 7, yo = xy >> 3;
                        unsigned c_ret, c_sse = 0xA5A5A5A5u;
                        if (mode == 0) c_ret = ((obmc_sad_fn)k->c)(R8 + 64, ps, W32, M32);
                        else if (mode == 1) c_ret = ((obmc_var_fn)k->c)(R8 + 64, ps, W32, M32, &c_sse);
                        else c_ret = ((obmc_spv_fn)k->c)(R8 + 64, ps, xo, yo, W32, M32, &c_sse);
                        VERBOSE(r, "case %lld: %dx%d pre_stride=%d xoff=%d yoff=%d pre=%s wsrc=%s mask=%s -> c ret=%u sse=%u", r->case_idx - 1, w, h, ps, xo, yo,
                                kc_pat_name(ppre, 0, 255, n1), kc_pat_name(pw, 0, whi, n2), kc_pat_name(pm, 0, mhi, n3), c_ret, c_sse);
                        for (int vi = 0; vi < k->nv; vi++) {
                            if (!var_on(r, vi)) continue;
                            unsigned v_ret, v_sse = 0xA5A5A5A5u;
                            if (mode == 0) v_ret = ((obmc_sad_fn)k->v[vi].fn)(R8 + 64, ps, W32, M32);
                            else if (mode == 1) v_ret = ((obmc_var_fn)k->v[vi].fn)(R8 + 64, ps, W32, M32, &v_sse);
                            else v_ret = ((obmc_spv_fn)k->v[vi].fn)(R8 + 64, ps, xo, yo, W32, M32, &v_sse);
                            if (v_ret != c_ret || v_sse != c_sse)
                                MISMATCH(r, vi, "%dx%d pre_stride=%d xoffset=%d yoffset=%d pre pattern '%s' wsrc pattern '%s' (0..%ld) mask pattern '%s' (0..%ld): c returns %u (sse %u), simd returns %u (sse %u)",
                                         w, h, ps, xo, yo, kc_pat_name(ppre, 0, 255, n1), kc_pat_name(pw, 0, whi, n2), whi, kc_pat_name(pm, 0, mhi, n3), mhi,
                                         c_ret, c_sse, v_ret, v_sse);
                        }
                    }
}
void drv_obmc_sad(Run *r) { obmc(r, 0); }
void drv_obmc_variance(Run *r) { obmc(r, 1); }
void drv_obmc_subpel_variance(Run *r) { obmc(r, 2); }
