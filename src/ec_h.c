// C25 harness: entropy coder round trip (writer EbBitstreamUnit.[ch] <-> reader EbDecBitstreamUnit.h / EbDecBitReader.h).
//
// Every operation sequence of a stated finite space is written with the real writer (aom_start_encode, aom_write_symbol,
// aom_write, svt_od_ec_encode_bool_q15, aom_write_literal, aom_stop_encode) and read back with the real reader
// (svt_reader_init, svt_read_symbol, svt_read, od_ec_decode_bool_q15, svt_read_literal).
//
// modes:  enum   layer=<F|M|S> L=<n> shard=i/n deadline=<s> [hashfile=path]
//         fam    P=<n> kmax=<n> shard=i/n deadline=<s> [hashfile=path]
//         replay adapt=<0|1> seq=<opid>x<count>,<opid>x<count>,...
//         ops    (print the master operation table as JSON)
//         merge  file...   (count distinct 64-bit hashes in the union of hash files)
#include <stdio.h>
#include <stdlib.h>
#include <string.h>
#include <time.h>
#include <malloc.h>

#include "EbDefinitions.h"
#include "EbBitstreamUnit.h"
#include "EbDecBitReader.h"
#include "vutil.h"

enum { K_SYM, K_BOOL8, K_BOOLQ, K_LIT };
typedef struct { uint8_t kind, ctx; uint16_t val, par; } Op;
typedef struct { int n, table; AomCdfProb init[17]; } Ctx;

#define MAXCTX 32
#define MAXOPS 512
static Ctx ctxs[MAXCTX];
static int nctx;
static Op  ops[MAXOPS];
static int nops;
static const char *TABNAME[5] = {"uniform", "first~1", "last~1", "min-except-middle", "av1-default"};

// cumulative probabilities (not inverse) of the AV1 default tables used (copied from EbCabacContextModel.c of the snapshot)
static const int DEF2[1]   = {748};                                      // default_inter_ext_tx_cdf set 3, last size
static const int DEF3[2]   = {7651, 24760};                              // default_motion_mode_cdf[3]
static const int DEF4[3]   = {19132, 25510, 30392};                      // default partition cdf (8x8), ctx 0
static const int DEF8[7]   = {1418, 2123, 13340, 18405, 26972, 28343, 32294}; // default_cfl_sign_cdf
static const int DEF16[15] = {7637, 20719, 31401, 32481, 32657, 32688, 32692, 32696, 32700, 32704, 32708, 32712, 32716, 32720, 32724}; // default_cfl_alpha_cdf[0]

static int find_ctx(int n, int table) {
    for (int i = 0; i < nctx; i++) if (ctxs[i].n == n && ctxs[i].table == table) return i;
    return -1;
}
static int find_op(int kind, int ctx, int val, int par) {
    for (int i = 0; i < nops; i++)
        if (ops[i].kind == kind && ops[i].ctx == ctx && ops[i].val == val && ops[i].par == par) return i;
    fprintf(stderr, "internal: op not found %d %d %d %d\n", kind, ctx, val, par);
    exit(3);
}
static int sym(int n, int table, int s) { return find_op(K_SYM, find_ctx(n, table), s, 0); }

static void build_tables(void) {
    static const int NS[5] = {2, 3, 4, 8, 16};
    for (int a = 0; a < 5; a++) {
        int n = NS[a];
        for (int t = 0; t < 5; t++) {
            int cum[16];
            for (int i = 0; i < n - 1; i++) {
                switch (t) {
                case 0: cum[i] = 32768 * (i + 1) / n; break;
                case 1: cum[i] = 32768 - (n - 1 - i); break;                 // symbol 0 has 32768-(n-1), all others 1
                case 2: cum[i] = i + 1; break;                               // last symbol has 32768-(n-1), all others 1
                case 3: cum[i] = i < n / 2 ? i + 1 : 32768 - (n - 1 - i); break; // symbol n/2 has the mass
                default: cum[i] = n == 2 ? DEF2[i] : n == 3 ? DEF3[i] : n == 4 ? DEF4[i] : n == 8 ? DEF8[i] : DEF16[i];
                }
            }
            if (t == 3 && n == 2) continue; // identical to table 2
            Ctx *c = &ctxs[nctx++];
            c->n = n; c->table = t;
            memset(c->init, 0, sizeof(c->init));
            for (int i = 0; i < n - 1; i++) c->init[i] = (AomCdfProb)AOM_ICDF(cum[i]);
            c->init[n - 1] = AOM_ICDF(CDF_PROB_TOP);
            c->init[n] = 0; // adaptation counter
            for (int s = 0; s < n; s++) ops[nops++] = (Op){K_SYM, (uint8_t)(nctx - 1), (uint16_t)s, 0};
        }
    }
    static const int P8[3] = {1, 128, 255};
    for (int i = 0; i < 3; i++) for (int b = 0; b < 2; b++) ops[nops++] = (Op){K_BOOL8, 0, (uint16_t)b, (uint16_t)P8[i]};
    static const int PQ[4] = {1, 128, 16384, 32767};
    for (int i = 0; i < 4; i++) for (int b = 0; b < 2; b++) ops[nops++] = (Op){K_BOOLQ, 0, (uint16_t)b, (uint16_t)PQ[i]};
    for (int b = 0; b < 2; b++) ops[nops++] = (Op){K_LIT, 0, (uint16_t)b, 1};
    static const int L8[6] = {0x00, 0xFF, 0xA5, 0x5A, 0x01, 0x80};
    for (int i = 0; i < 6; i++) ops[nops++] = (Op){K_LIT, 0, (uint16_t)L8[i], 8};
}

// most / least probable symbol of a context's initial table (lowest index on ties)
static void mps_lps(const Ctx *c, int *mps, int *lps) {
    int best = -1, worst = 1 << 30;
    for (int s = 0; s < c->n; s++) {
        int p = (s ? c->init[s - 1] : 32768) - c->init[s];
        if (p > best) { best = p; *mps = s; }
        if (p < worst) { worst = p; *lps = s; }
    }
}

static int layer_ops(char layer, int *out) {
    int k = 0;
    if (layer == 'F') {
        for (int i = 0; i < nops; i++) out[k++] = i;
    } else if (layer == 'M') {
        // every context: its most and least probable symbol; plus first/last symbol of the uniform tables
        for (int c = 0; c < nctx; c++) {
            int m, l;
            mps_lps(&ctxs[c], &m, &l);
            out[k++] = find_op(K_SYM, c, m, 0);
            if (l != m) out[k++] = find_op(K_SYM, c, l, 0);
        }
        out[k++] = find_op(K_BOOL8, 0, 0, 128); out[k++] = find_op(K_BOOL8, 0, 1, 128);
        out[k++] = find_op(K_BOOL8, 0, 0, 1);   out[k++] = find_op(K_BOOL8, 0, 1, 1);
        out[k++] = find_op(K_BOOL8, 0, 0, 255); out[k++] = find_op(K_BOOL8, 0, 1, 255);
        out[k++] = find_op(K_BOOLQ, 0, 0, 1);     out[k++] = find_op(K_BOOLQ, 0, 1, 1);
        out[k++] = find_op(K_BOOLQ, 0, 0, 32767); out[k++] = find_op(K_BOOLQ, 0, 1, 32767);
        out[k++] = find_op(K_LIT, 0, 0xFF, 8);  out[k++] = find_op(K_LIT, 0, 0x00, 8);
    } else if (layer == 'S') {
        out[k++] = sym(16, 2, 15); out[k++] = sym(16, 2, 0);   // 16-ary, last symbol ~1: MPS / an LPS
        out[k++] = sym(16, 4, 0);  out[k++] = sym(16, 4, 15);  // 16-ary AV1 default (cfl alpha)
        out[k++] = sym(2, 4, 1);   out[k++] = sym(2, 4, 0);    // binary AV1 default
        out[k++] = sym(3, 1, 0);   out[k++] = sym(3, 1, 2);    // ternary first~1
        out[k++] = sym(8, 0, 0);   out[k++] = sym(8, 0, 7);    // 8-ary uniform
        out[k++] = sym(4, 3, 2);   out[k++] = sym(4, 3, 3);    // 4-ary, mass on symbol 2
        out[k++] = find_op(K_BOOLQ, 0, 1, 1);                   // rarest bool event (range -> EC_MIN_PROB)
        out[k++] = find_op(K_BOOLQ, 0, 0, 32767);
        out[k++] = find_op(K_BOOL8, 0, 1, 128);
        out[k++] = find_op(K_LIT, 0, 0xFF, 8);
    } else if (layer == 'T') {
        out[k++] = sym(16, 4, 0);  out[k++] = sym(16, 4, 15);
        out[k++] = sym(2, 4, 0);   out[k++] = sym(4, 0, 3);
        out[k++] = find_op(K_BOOLQ, 0, 1, 1);
        out[k++] = find_op(K_BOOL8, 0, 1, 128);
    } else {
        fprintf(stderr, "unknown layer\n");
        exit(3);
    }
    return k;
}

// repeated operations of the long families and the prefix/suffix alphabet
static int fam_rep_ops(int *out) {
    int k = 0;
    out[k++] = find_op(K_BOOLQ, 0, 0, 1);      // MPS of p(1)=1/32768
    out[k++] = find_op(K_BOOLQ, 0, 1, 1);      // LPS
    out[k++] = find_op(K_BOOLQ, 0, 1, 32767);  // MPS of p(1)=32767/32768
    out[k++] = find_op(K_BOOLQ, 0, 0, 32767);  // LPS
    out[k++] = find_op(K_BOOL8, 0, 1, 128);    // literal ones (0xFF bytes)
    out[k++] = find_op(K_BOOL8, 0, 0, 128);
    out[k++] = sym(16, 2, 15);                 // 16-ary last~1: MPS
    out[k++] = sym(16, 2, 14);                 // LPS next to the top of the range
    out[k++] = sym(16, 2, 0);                  // LPS at the bottom
    out[k++] = sym(16, 1, 0);                  // 16-ary first~1: MPS
    out[k++] = sym(16, 1, 15);                 // LPS
    out[k++] = sym(2, 4, 1);                   // binary default: MPS
    out[k++] = sym(2, 4, 0);                   // LPS
    out[k++] = sym(4, 0, 3);                   // 4-ary uniform, top symbol
    return k;
}
static int fam_pfx_ops(int P, int *out) {
    int all[6];
    all[0] = find_op(K_BOOLQ, 0, 1, 16384);
    all[1] = find_op(K_BOOLQ, 0, 1, 1);
    all[2] = sym(16, 0, 0);
    all[3] = find_op(K_BOOLQ, 0, 0, 16384);
    all[4] = sym(16, 0, 15);
    all[5] = find_op(K_LIT, 0, 0xFF, 8);
    if (P > 6) P = 6;
    for (int i = 0; i < P; i++) out[i] = all[i];
    return P;
}

static void op_str(int id, char *b, size_t n) {
    const Op *o = &ops[id];
    switch (o->kind) {
    case K_SYM: snprintf(b, n, "sym(n=%d,%s,s=%d)", ctxs[o->ctx].n, TABNAME[ctxs[o->ctx].table], o->val); break;
    case K_BOOL8: snprintf(b, n, "aom_write(bit=%d,prob=%d)", o->val, o->par); break;
    case K_BOOLQ: snprintf(b, n, "bool_q15(val=%d,f=%d)", o->val, o->par); break;
    default: snprintf(b, n, "literal(bits=%d,data=%d)", o->par, o->val);
    }
}

// ------------------------------------------------------------------------------------------------ distinct set
static uint64_t *hset;
static uint64_t  hcap, hcnt, hlimit;
static int       hsat;
static void hs_init(uint64_t cap_log2) {
    hcap = 1ULL << cap_log2;
    hset = calloc(hcap, 8);
    hlimit = hcap / 2;
}
static void hs_add(uint64_t h) {
    if (!hset) return;
    if (h == 0) h = 1;
    uint64_t i = (h * 0x9E3779B97F4A7C15ULL) >> 20 & (hcap - 1);
    while (hset[i]) {
        if (hset[i] == h) return;
        i = (i + 1) & (hcap - 1);
    }
    if (hcnt >= hlimit) { hsat = 1; return; }
    hset[i] = h;
    hcnt++;
}
static int cmp64(const void *a, const void *b) {
    uint64_t x = *(const uint64_t *)a, y = *(const uint64_t *)b;
    return x < y ? -1 : x > y;
}

// ------------------------------------------------------------------------------------------------ one sequence
#define MAXSEQ 4224
typedef struct { uint16_t op[MAXSEQ]; int n; int adapt; } Seq;

static struct {
    uint64_t evals, nontrivial, ops_total, viol, maxbytes, max_carry_chain, carries;
    int64_t min_margin, max_margin;
} st;
static AomCdfProb snap[MAXSEQ][17];
static uint8_t    outbuf[1 << 16];
static int        verbose_fail = 20;

static void seq_json(const Seq *s, char *b, size_t n) {
    size_t k = snprintf(b, n, "{\"adapt\":%d,\"length\":%d,\"seq\":\"", s->adapt, s->n);
    for (int i = 0, first = 1; i < s->n && k + 64 < n;) {
        int j = i;
        while (j < s->n && s->op[j] == s->op[i]) j++;
        k += snprintf(b + k, n - k, "%s%dx%d", first ? "" : ",", s->op[i], j - i);
        first = 0;
        i = j;
    }
    k += snprintf(b + k, n - k, "\",\"ops\":[");
    int items = 0;
    for (int i = 0, first = 1; i < s->n && k + 160 < n; items++) {
        int j = i;
        char t[96];
        while (j < s->n && s->op[j] == s->op[i]) j++;
        if (items >= 12) { k += snprintf(b + k, n - k, ",\"...\""); break; }
        op_str(s->op[i], t, sizeof t);
        k += snprintf(b + k, n - k, "%s\"%s x%d\"", first ? "" : ",", t, j - i);
        first = 0;
        i = j;
    }
    snprintf(b + k, n - k, "]}");
}

static void report(const Seq *s, const char *kind, int opid, const char *detail) {
    st.viol++;
    if (verbose_fail <= 0) return;
    verbose_fail--;
    char sj[65536], os[96] = "-";
    if (opid >= 0) {
        const Op *o = &ops[opid];
        switch (o->kind) {
        case K_SYM: snprintf(os, sizeof os, "sym-n%d-%s", ctxs[o->ctx].n, TABNAME[ctxs[o->ctx].table]); break;
        case K_BOOL8: snprintf(os, sizeof os, "aom_write-p%d", o->par); break;
        case K_BOOLQ: snprintf(os, sizeof os, "bool_q15-f%d", o->par); break;
        default: snprintf(os, sizeof os, "literal-%dbit", o->par);
        }
    }
    seq_json(s, sj, sizeof sj);
    printf("{\"violation\":\"%s\",\"at\":\"%s\",\"detail\":\"%s\",\"case\":%s}\n", kind, os, detail, sj);
    fflush(stdout);
}

// returns 0 when every oracle held
static int test_seq(const Seq *s, int print) {
    AomCdfProb wc[MAXCTX][17], rc[MAXCTX][17];
    AomWriter  w;
    char       det[256];
    int        total = 0, bad = 0;
    for (int i = 0; i < nctx; i++) memcpy(wc[i], ctxs[i].init, sizeof(wc[i]));
    memset(&w, 0, sizeof w);
    w.allow_update_cdf = (uint8_t)s->adapt;
    aom_start_encode(&w, outbuf);
    for (int i = 0; i < s->n; i++) {
        const Op *o = &ops[s->op[i]];
        {
            total = i;
            switch (o->kind) {
            case K_SYM:
                aom_write_symbol(&w, o->val, wc[o->ctx], ctxs[o->ctx].n);
                memcpy(snap[total], wc[o->ctx], sizeof(snap[0]));
                break;
            case K_BOOL8: aom_write(&w, o->val, o->par); break;
            case K_BOOLQ: svt_od_ec_encode_bool_q15(&w.ec, o->val, o->par); break;
            default: aom_write_literal(&w, o->val, o->par);
            }
        }
    }
    total = s->n;
    // carry chains present in the pre-carry buffer (before the final flush bytes are appended)
    {
        uint32_t c = 0, run = 0;
        for (uint32_t k = w.ec.offs; k-- > 0;) {
            c = (w.ec.precarry_buf[k] + c) >> 8;
            if (c) { run++; if (run > st.max_carry_chain) st.max_carry_chain = run; if (run == 1) st.carries++; }
            else run = 0;
        }
    }
    int32_t tell_before = svt_od_ec_enc_tell(&w.ec);
    int32_t nb_bits     = aom_stop_encode(&w);
    uint32_t nbytes     = w.pos;
    st.evals++;
    st.ops_total += total;
    if (total > 1) st.nontrivial++;
    if (nbytes > st.maxbytes) st.maxbytes = nbytes;
    if (w.ec.error) {
        report(s, "encoder-error", -1, "OdEcEnc.error set");
        return 1;
    }
    // the writer's bit count must never under-report the bytes it emits
    if ((uint32_t)((tell_before + 7) >> 3) < nbytes || (uint32_t)((nb_bits + 7) >> 3) < nbytes) {
        snprintf(det, sizeof det, "svt_od_ec_enc_tell=%d bits, aom_stop_encode returned %d bits, but %u bytes emitted", tell_before,
                 nb_bits, nbytes);
        report(s, "tell-underreports", -1, det);
        bad = 1;
    }
    {
        int64_t mg = (int64_t)((tell_before + 7) >> 3) - (int64_t)nbytes;
        if (mg < st.min_margin) st.min_margin = mg;
        if (mg > st.max_margin) st.max_margin = mg;
    }
    memset(outbuf + nbytes, 0xFF, 8); // the reader must not depend on anything behind the end
    hs_add(vu_fnv(outbuf, nbytes, nbytes));
    if (print) {
        printf("{\"bytes\":%u,\"tell_bits\":%d,\"stop_encode_bits\":%d,\"hex\":\"", nbytes, tell_before, nb_bits);
        for (uint32_t i = 0; i < nbytes && i < 64; i++) printf("%02x", outbuf[i]);
        printf("\"}\n");
    }
    SvtReader r;
    memset(&r, 0, sizeof r);
    if (svt_reader_init(&r, outbuf, nbytes)) {
        report(s, "reader-init-failed", -1, "");
        return 1;
    }
    r.allow_update_cdf = (uint8_t)s->adapt;
    for (int i = 0; i < nctx; i++) memcpy(rc[i], ctxs[i].init, sizeof(rc[i]));
    for (int i = 0; i < s->n; i++) {
        const Op *o = &ops[s->op[i]];
        {
            int got;
            total = i;
            switch (o->kind) {
            case K_SYM:
                got = svt_read_symbol(&r, rc[o->ctx], ctxs[o->ctx].n, 0);
                if (got == o->val && memcmp(rc[o->ctx], snap[total], sizeof(AomCdfProb) * (ctxs[o->ctx].n + 1))) {
                    snprintf(det, sizeof det, "operation %d: reader CDF differs from writer CDF after the symbol", total);
                    report(s, "cdf-divergence", s->op[i], det);
                    return 1;
                }
                break;
            case K_BOOL8: got = svt_read(&r, o->par, 0); break;
            case K_BOOLQ: got = od_ec_decode_bool_q15(&r.ec, o->par); break;
            default: got = svt_read_literal(&r, o->par, 0);
            }
            if (got != o->val) {
                snprintf(det, sizeof det, "operation %d: wrote %d, read %d (%u bytes)", total, o->val, got, nbytes);
                report(s, "value-mismatch", s->op[i], det);
                return 1;
            }
        }
    }
    return bad;
}

// ------------------------------------------------------------------------------------------------ enumeration
static double   t_end;
static int      timed_out;
static uint64_t tick;
static double now(void) {
    struct timespec ts;
    clock_gettime(CLOCK_MONOTONIC, &ts);
    return ts.tv_sec + ts.tv_nsec * 1e-9;
}
static int expired(void) {
    if (timed_out) return 1;
    if ((++tick & 0x3FFF) == 0 && now() > t_end) timed_out = 1;
    return timed_out;
}

static int alpha[MAXOPS], A, Lmax, shard, nshard;
static char sample_buf[4][8192];
static int  nsample;

static void dfs(Seq *s) {
    if (expired()) return;
    if (s->n >= 2 || shard == 0) {
        test_seq(s, 0);
        if (nsample < 4 && s->n == Lmax && (st.evals % 100003) == 7) seq_json(s, sample_buf[nsample++], sizeof sample_buf[0]);
    }
    if (s->n == Lmax) return;
    for (int i = 0; i < A; i++) {
        s->op[s->n] = (uint16_t)alpha[i];
        if (s->n == 1) {
            // shard on the first two operations
            int a0 = 0;
            while (alpha[a0] != s->op[0]) a0++;
            if ((a0 * A + i) % nshard != shard) continue;
        }
        s->n++;
        dfs(s);
        s->n--;
    }
}

// ---- carry chains: sequences constructed (with knowledge of the writer's window) so that the coded interval keeps straddling
// the point where the pending window overflows; every byte emitted meanwhile is 0xFF and the final operation moves the
// interval above that point, so svt_od_ec_enc_done has to ripple a carry through the whole run.
typedef struct { AomWriter w; AomCdfProb c[MAXCTX][17]; } WState;

static void ws_apply(WState *x, int opid) {
    const Op *o = &ops[opid];
    switch (o->kind) {
    case K_SYM: aom_write_symbol(&x->w, o->val, x->c[o->ctx], ctxs[o->ctx].n); break;
    case K_BOOL8: aom_write(&x->w, o->val, o->par); break;
    case K_BOOLQ: svt_od_ec_encode_bool_q15(&x->w.ec, o->val, o->par); break;
    default: aom_write_literal(&x->w, o->val, o->par);
    }
}
// 1 when the interval [low, low+rng) still contains the point at which the window carries out
static int ws_straddles(const WState *x) {
    uint64_t T = 1ULL << (x->w.ec.cnt + 24);
    return (uint64_t)x->w.ec.low < T && (uint64_t)x->w.ec.low + x->w.ec.rng > T;
}
static int ws_carried(const WState *x) { return (uint64_t)x->w.ec.low >= (1ULL << (x->w.ec.cnt + 24)); }

static void carry_family(const int *cand, int nc, int adapt, int kmax, Seq *s) {
    if (getenv("EC_DEBUG")) st.max_carry_chain = 0;
    static uint8_t scratch[1 << 16];
    WState         cur, t;
    memset(&cur, 0, sizeof cur);
    for (int i = 0; i < nctx; i++) memcpy(cur.c[i], ctxs[i].init, sizeof(cur.c[i]));
    cur.w.allow_update_cdf = (uint8_t)adapt;
    aom_start_encode(&cur.w, scratch);
    s->n = 0;
    s->adapt = adapt;
    for (int k = 1; k <= kmax && !expired(); k++) {
        // greedy step: keep straddling if any candidate does, else walk a fixed pattern until a straddle appears
        int pick = cand[(k * 7 + k / nc) % nc];
        for (int i = 0; i < nc; i++) {
            t = cur; // shares the pre-carry buffer; only slots at/after cur.offs are written and cur rewrites them
            ws_apply(&t, cand[i]);
            if (ws_straddles(&t)) { pick = cand[i]; break; }
        }
        ws_apply(&cur, pick);
        s->op[s->n++] = (uint16_t)pick;
        // finisher: a candidate that pushes the interval over the top (carry), if one exists
        int fin = -1;
        for (int i = nc - 1; i >= 0 && fin < 0; i--) {
            t = cur;
            ws_apply(&t, cand[i]);
            if (ws_carried(&t) || (t.w.ec.offs > cur.w.ec.offs && t.w.ec.precarry_buf[cur.w.ec.offs] >= 256)) fin = cand[i];
        }
        if (fin >= 0) {
            s->op[s->n] = (uint16_t)fin;
            s->n++;
            test_seq(s, 0);
            if (nsample < 4 && (k == kmax || k == 64)) seq_json(s, sample_buf[nsample++], sizeof sample_buf[0]);
            s->n--;
        } else {
            test_seq(s, 0);
        }
        tick |= 0x3FFF;
    }
    if (getenv("EC_DEBUG")) fprintf(stderr, "carry family first-cand=%d adapt=%d: max chain so far %llu, steps %d\n", cand[0], adapt, (unsigned long long)st.max_carry_chain, s->n);
    (void)aom_stop_encode(&cur.w);
}

static void dump_hashes(const char *path) {
    if (!path || !hset) return;
    FILE *f = fopen(path, "wb");
    if (!f) return;
    for (uint64_t i = 0; i < hcap; i++) if (hset[i]) fwrite(&hset[i], 8, 1, f);
    fclose(f);
}

static const char *arg(int argc, char **argv, const char *k, const char *def) {
    size_t n = strlen(k);
    for (int i = 2; i < argc; i++) if (!strncmp(argv[i], k, n) && argv[i][n] == '=') return argv[i] + n + 1;
    return def;
}

static void print_stats(const char *mode, double t0, const char *extra) {
    printf("{\"mode\":\"%s\",\"evaluations\":%llu,\"nontrivial\":%llu,\"operations\":%llu,\"violations\":%llu,"
           "\"distinct_bytes_in_set\":%llu,\"set_saturated\":%d,\"max_bytes\":%llu,\"carry_events\":%llu,\"max_carry_chain_bytes\":%llu,"
           "\"min_ceil_tell_bytes_minus_emitted\":%lld,\"max_ceil_tell_bytes_minus_emitted\":%lld,\"exhaustive\":%s,\"wall\":%.2f%s,\"samples\":[",
           mode, (unsigned long long)st.evals, (unsigned long long)st.nontrivial, (unsigned long long)st.ops_total,
           (unsigned long long)st.viol, (unsigned long long)hcnt, hsat, (unsigned long long)st.maxbytes,
           (unsigned long long)st.carries, (unsigned long long)st.max_carry_chain, (long long)st.min_margin, (long long)st.max_margin,
           timed_out ? "false" : "true", now() - t0, extra);
    for (int i = 0; i < nsample; i++) printf("%s%s", i ? "," : "", sample_buf[i]);
    printf("]}\n");
}

int main(int argc, char **argv) {
    if (argc < 2) return 2;
    double t0 = now();
    mallopt(M_MMAP_THRESHOLD, 1 << 30);
    mallopt(M_TRIM_THRESHOLD, 1 << 30);
    mallopt(M_TOP_PAD, 1 << 24);
    build_tables();
    st.min_margin = 1 << 30;
    st.max_margin = -(1 << 30);
    const char *mode = argv[1];
    if (!strcmp(mode, "merge")) {
        uint64_t n = 0, cap = 1 << 20, *v = malloc(cap * 8);
        for (int i = 2; i < argc; i++) {
            FILE *f = fopen(argv[i], "rb");
            if (!f) continue;
            uint64_t x;
            while (fread(&x, 8, 1, f) == 1) {
                if (n == cap) { cap *= 2; v = realloc(v, cap * 8); }
                v[n++] = x;
            }
            fclose(f);
        }
        qsort(v, n, 8, cmp64);
        uint64_t d = 0;
        for (uint64_t i = 0; i < n; i++) if (i == 0 || v[i] != v[i - 1]) d++;
        printf("{\"distinct\":%llu,\"total\":%llu}\n", (unsigned long long)d, (unsigned long long)n);
        return 0;
    }
    if (!strcmp(mode, "ops")) {
        printf("{\"ops\":[");
        for (int i = 0; i < nops; i++) {
            char t[96];
            op_str(i, t, sizeof t);
            printf("%s\"%s\"", i ? "," : "", t);
        }
        printf("],\"contexts\":[");
        for (int c = 0; c < nctx; c++) {
            printf("%s{\"n\":%d,\"table\":\"%s\",\"icdf\":[", c ? "," : "", ctxs[c].n, TABNAME[ctxs[c].table]);
            for (int i = 0; i < ctxs[c].n; i++) printf("%s%d", i ? "," : "", ctxs[c].init[i]);
            printf("]}");
        }
        printf("]");
        const char *LY = "FMST";
        for (int l = 0; l < 4; l++) {
            int a[MAXOPS], k = layer_ops(LY[l], a);
            printf(",\"layer_%c\":[", LY[l]);
            for (int i = 0; i < k; i++) printf("%s%d", i ? "," : "", a[i]);
            printf("]");
        }
        int a[MAXOPS], k = fam_rep_ops(a);
        printf(",\"family_repeated\":[");
        for (int i = 0; i < k; i++) printf("%s%d", i ? "," : "", a[i]);
        k = fam_pfx_ops(6, a);
        printf("],\"family_affix\":[");
        for (int i = 0; i < k; i++) printf("%s%d", i ? "," : "", a[i]);
        printf("]}\n");
        return 0;
    }
    t_end = t0 + atof(arg(argc, argv, "deadline", "600"));
    sscanf(arg(argc, argv, "shard", "0/1"), "%d/%d", &shard, &nshard);
    const char *hashfile = arg(argc, argv, "hashfile", NULL);
    static Seq s;
    if (!strcmp(mode, "replay")) {
        memset(&s, 0, sizeof s);
        s.adapt = atoi(arg(argc, argv, "adapt", "1"));
        const char *p = arg(argc, argv, "seq", "");
        while (*p) {
            int o, r, k = 0;
            if (sscanf(p, "%dx%d%n", &o, &r, &k) < 2 || o < 0 || o >= nops || r < 1 || s.n + r > MAXSEQ) return 2;
            for (int q = 0; q < r; q++) s.op[s.n++] = (uint16_t)o;
            p += k;
            if (*p == ',') p++;
        }
        static char sj[65536];
        seq_json(&s, sj, sizeof sj);
        printf("%s\n", sj);
        int rc = test_seq(&s, 1);
        printf("{\"replay_result\":\"%s\"}\n", rc ? "violation" : "ok");
        return rc ? 1 : 0;
    }
    hs_init(atoi(arg(argc, argv, "setlog2", "22")));
    if (!strcmp(mode, "enum")) {
        A = layer_ops(arg(argc, argv, "layer", "S")[0], alpha);
        Lmax = atoi(arg(argc, argv, "L", "3"));
        if (Lmax > 12) return 2;
        for (int adapt = 0; adapt < 2; adapt++) {
            s.n = 0;
            s.adapt = adapt;
            dfs(&s);
        }
        dump_hashes(hashfile);
        char ex[64];
        snprintf(ex, sizeof ex, ",\"A\":%d,\"L\":%d", A, Lmax);
        print_stats("enum", t0, ex);
        return 0;
    }
    if (!strcmp(mode, "fam")) {
        int R[32], P[8];
        int nr = fam_rep_ops(R), np = fam_pfx_ops(atoi(arg(argc, argv, "P", "2")), P);
        int kmax = atoi(arg(argc, argv, "kmax", "4096"));
        int naff = 1 + np + np * np; // affixes of length 0,1,2
        long combo = 0;
        for (int adapt = 0; adapt < 2 && !timed_out; adapt++)
            for (int ri = 0; ri < nr && !timed_out; ri++)
                for (int pi = 0; pi < naff && !timed_out; pi++)
                    for (int si = 0; si < naff && !timed_out; si++, combo++) {
                        if (combo % nshard != shard) continue;
                        int pre[2], npre = 0, suf[2], nsuf = 0;
                        if (pi >= 1 + np) { pre[npre++] = P[(pi - 1 - np) / np]; pre[npre++] = P[(pi - 1 - np) % np]; }
                        else if (pi >= 1) pre[npre++] = P[pi - 1];
                        if (si >= 1 + np) { suf[nsuf++] = P[(si - 1 - np) / np]; suf[nsuf++] = P[(si - 1 - np) % np]; }
                        else if (si >= 1) suf[nsuf++] = P[si - 1];
                        s.adapt = adapt;
                        for (int q = 0; q < npre; q++) s.op[q] = (uint16_t)pre[q];
                        for (int k = 1; k <= kmax; k++) {
                            s.op[npre + k - 1] = (uint16_t)R[ri];
                            for (int q = 0; q < nsuf; q++) s.op[npre + k + q] = (uint16_t)suf[q];
                            s.n = npre + k + nsuf;
                            test_seq(&s, 0);
                            if (nsample < 3 && k == 1000 + 37 * nsample && (combo / nshard) % 7 == 3) seq_json(&s, sample_buf[nsample++], sizeof sample_buf[0]);
                            if ((k & 63) == 0) { tick |= 0x3FFF; if (expired()) break; }
                        }
                    }
        // carry-chain families, one per candidate context and adaptation setting
        {
            int cc[5][16], ncc[5] = {0, 0, 0, 0, 0};
            for (int q = 0; q < 16; q++) cc[0][ncc[0]++] = sym(16, 0, q);          // 16-ary uniform
            for (int q = 0; q < 16; q++) cc[1][ncc[1]++] = sym(16, 4, q);          // 16-ary AV1 default
            for (int q = 0; q < 4; q++) cc[2][ncc[2]++] = sym(4, 0, q);            // 4-ary uniform
            cc[3][ncc[3]++] = find_op(K_BOOL8, 0, 0, 128); cc[3][ncc[3]++] = find_op(K_BOOL8, 0, 1, 128); // literal bits
            for (int q = 0; q < 8; q++) cc[4][ncc[4]++] = sym(8, 4, q);            // 8-ary AV1 default
            for (int f = 0; f < 10; f++)
                if (f % nshard == shard % 10 && shard < 10 && !timed_out) carry_family(cc[f / 2], ncc[f / 2], f & 1, kmax, &s);
        }
        if (shard == 0) { // the empty sequence, both adaptation settings
            s.n = 0;
            s.adapt = 0;
            test_seq(&s, 0);
            s.adapt = 1;
            test_seq(&s, 0);
        }
        dump_hashes(hashfile);
        char ex[96];
        snprintf(ex, sizeof ex, ",\"repeated_ops\":%d,\"affix_ops\":%d,\"kmax\":%d", nr, np, kmax);
        print_stats("fam", t0, ex);
        return 0;
    }
    return 2;
}
