/* s2_c21tight: one encode session whose picture planes are allocated *tightly* (C21).
 *
 * Each plane is its own malloc block of exactly (rows-1)*stride + width samples: the block ends with the last visible sample
 * of the last row, as for a picture that is a window into a larger frame or a plane without trailing stride padding.  Under
 * ASan any read of the library beyond the visible samples of the last row (or of a freed block: every block is freed right
 * after svt_av1_enc_send_picture returns) is reported.
 *
 * usage: s2_c21tight w=.. h=.. bits=8|10 stride_extra=.. n=.. [tf_level=..] [enable_overlays=..] [hierarchical_levels=..]
 * Prints one JSON object.
 */
#include <stdint.h>
#include <stdio.h>
#include <stdlib.h>
#include <string.h>
#include "EbSvtAv1Enc.h"
#include "vutil.h"

static uint32_t mix(uint32_t a, uint32_t b, uint32_t c, uint32_t d) {
    uint32_t h = a * 0x9E3779B1u ^ (b + 0x7F4A7C15u) * 0x85EBCA6Bu ^ (c + 0x165667B1u) * 0xC2B2AE35u ^ d * 0x27D4EB2Fu;
    h ^= h >> 15; h *= 0x2C1B3C6Du; h ^= h >> 12; h *= 0x297A2D39u; h ^= h >> 15;
    return h;
}

int main(int argc, char **argv) {
    int W = 64, H = 64, bits = 8, extra = 0, N = 3, tf = 0, ov = 0, hl = 2;
    for (int i = 1; i < argc; i++) {
        char *eq = strchr(argv[i], '=');
        if (!eq) return 4;
        int v = atoi(eq + 1);
        if (!strncmp(argv[i], "w=", 2)) W = v; else if (!strncmp(argv[i], "h=", 2)) H = v;
        else if (!strncmp(argv[i], "bits=", 5)) bits = v; else if (!strncmp(argv[i], "stride_extra=", 13)) extra = v;
        else if (!strncmp(argv[i], "n=", 2)) N = v; else if (!strncmp(argv[i], "tf_level=", 9)) tf = v;
        else if (!strncmp(argv[i], "enable_overlays=", 16)) ov = v; else if (!strncmp(argv[i], "hierarchical_levels=", 20)) hl = v;
        else return 4;
    }
    EbSvtAv1EncConfiguration *cfg = calloc(1, sizeof *cfg);
    EbComponentType *hdl = NULL;
    if (svt_av1_enc_init_handle(&hdl, NULL, cfg) != EB_ErrorNone) { printf("{\"init_handle\":1}\n"); return 0; }
    cfg->source_width = (uint32_t)W; cfg->source_height = (uint32_t)H; cfg->encoder_bit_depth = (uint32_t)bits;
    cfg->logical_processors = 1; cfg->enc_mode = 8; cfg->hierarchical_levels = (uint32_t)hl; cfg->tf_level = (int8_t)tf;
    cfg->enable_overlays = (EbBool)ov; cfg->qp = 30;
    int e_sp = (int)svt_av1_enc_set_parameter(hdl, cfg);
    if (e_sp) { printf("{\"init_handle\":0,\"set_parameter\":%d}\n", e_sp); svt_av1_enc_deinit_handle(hdl); return 0; }
    int e_in = (int)svt_av1_enc_init(hdl);
    if (e_in) { printf("{\"init_handle\":0,\"set_parameter\":0,\"init\":%d}\n", e_in); svt_av1_enc_deinit(hdl); svt_av1_enc_deinit_handle(hdl); return 0; }
    int bps = bits > 8 ? 2 : 1, cw = (W + 1) / 2, ch = (H + 1) / 2;
    int ys = W + extra, cs = cw + (extra + 1) / 2;
    uint64_t pkh = 0; int npk = 0, eos = 0;
    for (int f = 0; f <= N; f++) {
        EbBufferHeaderType ih; memset(&ih, 0, sizeof ih);
        EbSvtIOFormat io; memset(&io, 0, sizeof io);
        uint8_t *pl[3] = { NULL, NULL, NULL };
        ih.size = sizeof ih; ih.pic_type = EB_AV1_INVALID_PICTURE;
        if (f == N) ih.flags = EB_BUFFERFLAG_EOS;
        else {
            for (int p = 0; p < 3; p++) {
                int pw = p ? cw : W, ph = p ? ch : H, st = p ? cs : ys;
                size_t nsamp = (size_t)(ph - 1) * st + pw;
                pl[p] = malloc(nsamp * bps);
                memset(pl[p], 0xA5, nsamp * bps);
                for (int y = 0; y < ph; y++)
                    for (int x = 0; x < pw; x++) {
                        int sx = p ? 2 * x : x, sy = p ? 2 * y : y;
                        int v = p == 0 ? ((sx * 2 + sy + 3 * f) & 255) : 128 + (((p == 1 ? sx + f : sy - f)) & 31) - 16;
                        v = (v + (int)(mix(1, (uint32_t)f, (uint32_t)(p * 70000 + y), (uint32_t)x) & 3)) & 255;
                        if (bps == 1) pl[p][(size_t)y * st + x] = (uint8_t)v;
                        else ((uint16_t *)pl[p])[(size_t)y * st + x] = (uint16_t)((v << 2) | (int)(mix(7, (uint32_t)f, (uint32_t)y, (uint32_t)x) & 3));
                    }
            }
            io.luma = pl[0]; io.cb = pl[1]; io.cr = pl[2];
            io.y_stride = (uint32_t)ys; io.cb_stride = io.cr_stride = (uint32_t)cs;
            io.width = (uint32_t)W; io.height = (uint32_t)H; io.color_fmt = EB_YUV420; io.bit_depth = bits > 8 ? EB_TEN_BIT : EB_EIGHT_BIT;
            ih.p_buffer = (uint8_t *)&io; ih.pts = f;
            ih.n_filled_len = ih.n_alloc_len = (uint32_t)((((size_t)(H - 1) * ys + W) + 2 * ((size_t)(ch - 1) * cs + cw)) * bps);
        }
        svt_av1_enc_send_picture(hdl, &ih);
        for (int p = 0; p < 3; p++) free(pl[p]);
        for (;;) {
            EbBufferHeaderType *pkt = NULL;
            EbErrorType e = svt_av1_enc_get_packet(hdl, &pkt, f == N && !eos && N > 0 ? 1 : 0);
            if (e == EB_NoErrorEmptyQueue || !pkt) break;
            uint64_t t[3] = { vu_fnv(pkt->p_buffer, pkt->n_filled_len, 0), (uint64_t)pkt->pts, pkt->n_filled_len };
            pkh = vu_fnv(t, sizeof t, pkh);
            npk++;
            if (pkt->flags & EB_BUFFERFLAG_EOS) eos = 1;
            svt_av1_enc_release_out_buffer(&pkt);
            if (e != EB_ErrorNone) break;
            if (f == N && eos) break;
        }
    }
    svt_av1_enc_deinit(hdl);
    svt_av1_enc_deinit_handle(hdl);
    free(cfg);
    printf("{\"init_handle\":0,\"set_parameter\":0,\"init\":0,\"npk\":%d,\"eos\":%d,\"pkt_hash\":\"%016llx\"}\n", npk, eos, (unsigned long long)pkh);
    return 0;
}
