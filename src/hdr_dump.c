/* hdr_dump: deep header / block introspection through the SVT-AV1 *decoder's* parser (DESIGN.md 3.4).
 *
 * usage: hdr_dump <prefix> [blocks=0|1] [pics=0|1]
 *   reads <prefix>.obu / <prefix>.sz (one temporal unit per size entry).  Every temporal unit is split here into
 *   per-frame chunks ( [temporal delimiter] [sequence header] one OBU_FRAME | OBU_FRAME_HEADER (+ OBU_TILE_GROUPs) )
 *   and each chunk is handed to svt_av1_dec_frame() on its own (threads = 1), so that after every call
 *   dec_handle->frame_header / seq_header / the BlockModeInfo array describe exactly that coded frame.
 * Prints one JSON object: sequence header fields (last seen), one row per coded frame / show-existing header with
 * the parsed FrameHeader fields and per-frame block tool-usage counters, and the hashes of the output pictures
 * (same hash as refdec prints in "frames", to cross-validate the parse by pixel agreement with libaom).
 */
#define _GNU_SOURCE
#include <stdio.h>
#include <stdlib.h>
#include <string.h>
#include <stdint.h>
#include "EbSvtAv1Dec.h"
#include "EbDecHandle.h"
#include "vutil.h"

static uint8_t *readfile(const char *pre, const char *suf, size_t *n) {
    char fn[1024];
    snprintf(fn, sizeof fn, "%s%s", pre, suf);
    FILE *f = fopen(fn, "rb");
    if (!f) { perror(fn); exit(4); }
    fseek(f, 0, SEEK_END); long l = ftell(f); fseek(f, 0, SEEK_SET);
    uint8_t *b = malloc((size_t)l + 64);
    if (l && fread(b, 1, (size_t)l, f) != (size_t)l) exit(4);
    fclose(f); *n = (size_t)l; return b;
}

typedef struct { int w, h, bd; uint64_t hash; } Pic;
static Pic pics[16384]; static int npic;
static void take_picture(EbBufferHeaderType *rb) {
    EbSvtIOFormat *img = (EbSvtIOFormat *)rb->p_buffer;
    int w = (int)img->width, h = (int)img->height, bd = (int)img->bit_depth, bps = bd > 8 ? 2 : 1;
    int cw = (w + 1) / 2, ch = (h + 1) / 2;
    size_t len = ((size_t)w * h + 2 * (size_t)cw * ch) * (size_t)bps;
    uint8_t *d = malloc(len), *q = d;
    uint8_t *pl[3] = { img->luma, img->cb, img->cr };
    uint32_t st[3] = { img->y_stride, img->cb_stride, img->cr_stride };
    for (int p = 0; p < 3; p++) {
        int pw = p ? cw : w, ph = p ? ch : h;
        for (int y = 0; y < ph; y++) { memcpy(q, pl[p] + (size_t)y * st[p] * (size_t)bps, (size_t)pw * bps); q += (size_t)pw * bps; }
    }
    if (npic < 16384) { pics[npic].w = w; pics[npic].h = h; pics[npic].bd = bd; pics[npic].hash = vu_fnv(d, len, 0); npic++; }
    free(d);
}

/* ---- OBU framing (AV1 spec 5.3): just enough to cut a temporal unit into per-frame chunks */
typedef struct { int type, hdr; size_t start, size; } Obu; /* size = header + payload */
static int next_obu(const uint8_t *p, size_t n, size_t pos, Obu *o) {
    if (pos >= n) return -1;
    uint8_t b = p[pos];
    int ext = (b >> 2) & 1, has_size = (b >> 1) & 1;
    size_t h = 1 + (size_t)ext;
    if (!has_size || pos + h > n) return -1;
    uint64_t v = 0; int i;
    for (i = 0; i < 8; i++) {
        if (pos + h + (size_t)i >= n) return -1;
        uint8_t c = p[pos + h + (size_t)i];
        v |= (uint64_t)(c & 0x7f) << (7 * i);
        if (!(c & 0x80)) break;
    }
    if (i == 8) return -1;
    h += (size_t)i + 1;
    if (pos + h + v > n) return -1;
    o->type = (b >> 3) & 15; o->hdr = (int)h; o->start = pos; o->size = h + (size_t)v;
    return 0;
}

static int first = 1;
#define KV(name, val) printf("%s\"%s\":%lld", first ? "" : ",", name, (long long)(val)), first = 0
#define ARR_BEGIN(name) printf("%s\"%s\":[", first ? "" : ",", name), first = 0
static void arr(const char *name, const long long *v, int n) {
    ARR_BEGIN(name);
    for (int i = 0; i < n; i++) printf("%s%lld", i ? "," : "", v[i]);
    printf("]");
}

static void dump_seq(const SeqHeader *s) {
    first = 1;
    printf("{");
    KV("seq_profile", s->seq_profile); KV("still_picture", s->still_picture);
    KV("reduced_still_picture_header", s->reduced_still_picture_header);
    KV("max_frame_width", s->max_frame_width); KV("max_frame_height", s->max_frame_height);
    KV("use_128x128_superblock", s->use_128x128_superblock); KV("sb_size_log2", s->sb_size_log2);
    KV("enable_filter_intra", s->filter_intra_level); KV("enable_intra_edge_filter", s->enable_intra_edge_filter);
    KV("enable_interintra_compound", s->enable_interintra_compound); KV("enable_masked_compound", s->enable_masked_compound);
    KV("enable_warped_motion", s->enable_warped_motion); KV("enable_dual_filter", s->enable_dual_filter);
    KV("enable_order_hint", s->order_hint_info.enable_order_hint); KV("enable_jnt_comp", s->order_hint_info.enable_jnt_comp);
    KV("enable_ref_frame_mvs", s->order_hint_info.enable_ref_frame_mvs); KV("order_hint_bits", s->order_hint_info.order_hint_bits);
    KV("seq_force_screen_content_tools", s->seq_force_screen_content_tools); KV("seq_force_integer_mv", s->seq_force_integer_mv);
    KV("enable_superres", s->enable_superres); KV("enable_cdef", s->cdef_level); KV("enable_restoration", s->enable_restoration);
    KV("bit_depth", s->color_config.bit_depth); KV("mono_chrome", s->color_config.mono_chrome);
    KV("subsampling_x", s->color_config.subsampling_x); KV("subsampling_y", s->color_config.subsampling_y);
    KV("film_grain_params_present", s->film_grain_params_present);
    printf("}");
}

/* per-frame block level tool usage, from the BlockModeInfo records the parser filled in for this frame */
static void dump_blocks(EbDecHandle *dh) {
    const FrameHeader *fh = &dh->frame_header;
    const SeqHeader *sh = &dh->seq_header;
    MainFrameBuf *mfb = &dh->main_frame_buf;
    CurFrameBuf *fb = &mfb->cur_frame_bufs[0];
    int sbmi = sh->sb_mi_size;
    int sbr = ((int)fh->mi_rows + sbmi - 1) / sbmi, sbc = ((int)fh->mi_cols + sbmi - 1) / sbmi;
    long long nblk = 0, intra = 0, inter = 0, pal_y = 0, pal_uv = 0, ibc = 0, obmc = 0, warp = 0, ii = 0, ii_wedge = 0, fi = 0, cfl = 0,
              comp = 0, c_wedge = 0, c_diff = 0, c_dist = 0, skip_mode = 0, dual = 0, skip = 0, b128 = 0, angle = 0, globalmv = 0;
    long long ymode[INTRA_MODES + 1] = {0}, uvmode[UV_INTRA_MODES + 1] = {0}, filt[4] = {0};
    for (int r = 0; r < sbr; r++)
        for (int c = 0; c < sbc; c++) {
            SBInfo *sb = fb->sb_info + (size_t)r * mfb->sb_cols + c;
            for (int i = 0; i < sb->num_block; i++) {
                const BlockModeInfo *m = &sb->sb_mode_info[i];
                int bw4 = mi_size_wide[m->sb_type], bh4 = mi_size_high[m->sb_type];
                int ssx = sh->color_config.subsampling_x, ssy = sh->color_config.subsampling_y;
                int chroma_ref = !sh->color_config.mono_chrome &&
                                 ((m->mi_row_in_sb & 1) || !(bh4 & 1) || !ssy) && ((m->mi_col_in_sb & 1) || !(bw4 & 1) || !ssx);
                nblk++;
                if (m->skip) skip++;
                if (m->sb_type == BLOCK_128X128 || m->sb_type == BLOCK_128X64 || m->sb_type == BLOCK_64X128) b128++;
                if (m->use_intrabc) { ibc++; continue; }
                if (m->ref_frame[0] <= INTRA_FRAME) {
                    intra++;
                    if (m->mode < INTRA_MODES) ymode[m->mode]++; else ymode[INTRA_MODES]++;
                    if (m->palette_size[0]) pal_y++;
                    if (chroma_ref) {
                        if (m->palette_size[1]) pal_uv++;
                        if (m->uv_mode == UV_CFL_PRED) cfl++;
                        if (m->uv_mode < UV_INTRA_MODES) uvmode[m->uv_mode]++; else uvmode[UV_INTRA_MODES]++;
                    }
                    if (m->filter_intra_mode_info.use_filter_intra) fi++;
                    if (m->mode >= V_PRED && m->mode <= D67_PRED && m->angle_delta[0]) angle++;
                } else {
                    inter++;
                    if (m->skip_mode) skip_mode++;
                    if (m->motion_mode == OBMC_CAUSAL) obmc++;
                    if (m->motion_mode == WARPED_CAUSAL) warp++;
                    if (m->mode == GLOBALMV || m->mode == GLOBAL_GLOBALMV) globalmv++;
                    if (m->ref_frame[1] == INTRA_FRAME) { ii++; if (is_interintra_wedge_used(m->sb_type) && m->interintra_mode_params.wedge_interintra) ii_wedge++; }
                    if (m->ref_frame[1] > INTRA_FRAME) {
                        comp++;
                        if (!m->skip_mode) {
                            if (m->inter_inter_compound.type == COMPOUND_WEDGE) c_wedge++;
                            else if (m->inter_inter_compound.type == COMPOUND_DIFFWTD) c_diff++;
                            else if (m->compound_idx == 0) c_dist++;
                        }
                    }
                    { unsigned fy = m->interp_filters & 0xffff, fx = (m->interp_filters >> 16) & 0xffff;
                      if (fx != fy) dual++;
                      if (fy < 4) filt[fy]++; }
                }
            }
        }
    KV("nblk", nblk); KV("b_intra", intra); KV("b_inter", inter); KV("b_skip", skip); KV("b_palette_y", pal_y); KV("b_palette_uv", pal_uv);
    KV("b_intrabc", ibc); KV("b_obmc", obmc); KV("b_warped", warp); KV("b_interintra", ii); KV("b_interintra_wedge", ii_wedge);
    KV("b_filter_intra", fi); KV("b_cfl", cfl); KV("b_compound", comp); KV("b_comp_wedge", c_wedge); KV("b_comp_diffwtd", c_diff);
    KV("b_comp_distance", c_dist); KV("b_skip_mode", skip_mode); KV("b_dual_filter", dual); KV("b_128", b128); KV("b_angle_delta", angle);
    KV("b_globalmv", globalmv);
    arr("ymode", ymode, INTRA_MODES + 1); arr("uvmode", uvmode, UV_INTRA_MODES + 1); arr("interp", filt, 4);
}

static void dump_frame(EbDecHandle *dh, int tu, int k, int obu_type, int see, int map_idx, int err, int got_pic, int want_blocks) {
    const FrameHeader *f = &dh->frame_header;
    long long t[64];
    first = 1;
    printf("{");
    KV("tu", tu); KV("k", k); KV("obu_type", obu_type); KV("err", err); KV("pic", got_pic);
    KV("show_existing_frame", see);
    KV("frame_type", f->frame_type);
    if (see) { KV("frame_to_show_map_idx", map_idx); KV("show_frame", 1); KV("refresh_frame_flags", f->refresh_frame_flags); printf("}"); return; }
    KV("show_frame", f->show_frame); KV("showable_frame", f->showable_frame); KV("error_resilient_mode", f->error_resilient_mode);
    KV("disable_cdf_update", f->disable_cdf_update); KV("allow_screen_content_tools", f->allow_screen_content_tools);
    KV("force_integer_mv", f->force_integer_mv); KV("order_hint", f->order_hint); KV("primary_ref_frame", f->primary_ref_frame);
    KV("refresh_frame_flags", f->refresh_frame_flags); KV("allow_intrabc", f->allow_intrabc);
    KV("frame_width", f->frame_size.frame_width); KV("frame_height", f->frame_size.frame_height);
    KV("render_width", f->frame_size.render_width); KV("render_height", f->frame_size.render_height);
    KV("superres_denominator", f->frame_size.superres_denominator); KV("superres_upscaled_width", f->frame_size.superres_upscaled_width);
    KV("mi_cols", f->mi_cols); KV("mi_rows", f->mi_rows);
    KV("allow_high_precision_mv", f->allow_high_precision_mv); KV("interpolation_filter", f->interpolation_filter);
    KV("is_motion_mode_switchable", f->is_motion_mode_switchable); KV("use_ref_frame_mvs", f->use_ref_frame_mvs);
    KV("disable_frame_end_update_cdf", f->disable_frame_end_update_cdf);
    /* tiles */
    const TilesInfo *ti = &f->tiles_info;
    KV("uniform_tile_spacing_flag", ti->uniform_tile_spacing_flag); KV("tile_cols", ti->tile_cols); KV("tile_rows", ti->tile_rows);
    KV("tile_cols_log2", ti->tile_cols_log2); KV("tile_rows_log2", ti->tile_rows_log2);
    KV("context_update_tile_id", ti->context_update_tile_id); KV("tile_size_bytes", ti->tile_size_bytes);
    for (int i = 0; i <= ti->tile_cols && i < 64; i++) t[i] = ti->tile_col_start_mi[i];
    arr("tile_col_start_mi", t, ti->tile_cols + 1 > 64 ? 64 : ti->tile_cols + 1);
    for (int i = 0; i <= ti->tile_rows && i < 64; i++) t[i] = ti->tile_row_start_mi[i];
    arr("tile_row_start_mi", t, ti->tile_rows + 1 > 64 ? 64 : ti->tile_rows + 1);
    /* quantizer */
    const QuantizationParams *q = &f->quantization_params;
    KV("base_q_idx", q->base_q_idx);
    for (int i = 0; i < 3; i++) t[i] = q->delta_q_dc[i];
    arr("delta_q_dc", t, 3);
    for (int i = 0; i < 3; i++) t[i] = q->delta_q_ac[i];
    arr("delta_q_ac", t, 3);
    KV("using_qmatrix", q->using_qmatrix);
    KV("delta_q_present", f->delta_q_params.delta_q_present); KV("delta_q_res", f->delta_q_params.delta_q_res);
    KV("delta_lf_present", f->delta_lf_params.delta_lf_present);
    KV("segmentation_enabled", f->segmentation_params.segmentation_enabled);
    if (f->segmentation_params.segmentation_enabled) {
        for (int i = 0; i < 8; i++) t[i] = f->segmentation_params.feature_enabled[i][0] ? f->segmentation_params.feature_data[i][0] : 0;
        arr("seg_alt_q", t, 8);
    }
    KV("coded_lossless", f->coded_lossless); KV("all_lossless", f->all_lossless);
    /* in-loop filters */
    t[0] = f->loop_filter_params.filter_level[0]; t[1] = f->loop_filter_params.filter_level[1];
    t[2] = f->loop_filter_params.filter_level_u; t[3] = f->loop_filter_params.filter_level_v;
    arr("lf_level", t, 4);
    KV("lf_sharpness", f->loop_filter_params.sharpness_level); KV("lf_mode_ref_delta_enabled", f->loop_filter_params.mode_ref_delta_enabled);
    KV("cdef_damping", f->cdef_params.cdef_damping); KV("cdef_bits", f->cdef_params.cdef_bits);
    int ns = 1 << f->cdef_params.cdef_bits; if (ns > CDEF_MAX_STRENGTHS) ns = CDEF_MAX_STRENGTHS;
    for (int i = 0; i < ns; i++) t[i] = f->cdef_params.cdef_y_strength[i];
    arr("cdef_y_strength", t, ns);
    for (int i = 0; i < ns; i++) t[i] = f->cdef_params.cdef_uv_strength[i];
    arr("cdef_uv_strength", t, ns);
    for (int i = 0; i < 3; i++) t[i] = f->lr_params[i].frame_restoration_type;
    arr("lr_type", t, 3);
    KV("tx_mode", f->tx_mode); KV("reference_mode", f->reference_mode);
    KV("skip_mode_allowed", f->skip_mode_params.skip_mode_allowed); KV("skip_mode_flag", f->skip_mode_params.skip_mode_flag);
    KV("allow_warped_motion", f->allow_warped_motion); KV("reduced_tx_set", f->reduced_tx_set);
    if (dh->cur_pic_buf[0]) {
        for (int i = 0; i < 7; i++) t[i] = dh->cur_pic_buf[0]->global_motion[i + 1].gm_type;
        arr("gm_type", t, 7);
    }
    KV("apply_grain", f->film_grain_params.apply_grain);
    if (want_blocks && !err) dump_blocks(dh);
    printf("}");
}

int main(int argc, char **argv) {
    if (argc < 2) return 4;
    const char *pre = argv[1];
    int want_blocks = 1, want_pics = 1;
    for (int i = 2; i < argc; i++) {
        if (!strncmp(argv[i], "blocks=", 7)) want_blocks = atoi(argv[i] + 7);
        else if (!strncmp(argv[i], "pics=", 5)) want_pics = atoi(argv[i] + 5);
    }
    size_t on = 0, sn = 0;
    uint8_t *ob = readfile(pre, ".obu", &on);
    uint32_t *sz = (uint32_t *)readfile(pre, ".sz", &sn);
    int ntu = (int)(sn / 4);
    EbComponentType *h = NULL;
    EbSvtAv1DecConfiguration *cfg = calloc(1, sizeof *cfg);
    int e_ih = (int)svt_av1_dec_init_handle(&h, NULL, cfg);
    if (e_ih) { printf("{\"init_handle\":%d}\n", e_ih); return 0; }
    cfg->threads = 1; cfg->is_16bit_pipeline = 0; cfg->skip_film_grain = 0;
    cfg->operating_point = -1; cfg->output_all_layers = 0; cfg->num_p_frames = 1;
    cfg->max_picture_width = 0; cfg->max_picture_height = 0; cfg->max_bit_depth = EB_EIGHT_BIT; cfg->max_color_format = EB_YUV420; cfg->eight_bit_output = 0;
    int e_sp = (int)svt_av1_dec_set_parameter(h, cfg);
    int e_in = e_sp ? -1 : (int)svt_av1_dec_init(h);
    if (e_sp || e_in) { printf("{\"init_handle\":0,\"set_parameter\":%d,\"init\":%d}\n", e_sp, e_in); return 0; }
    EbDecHandle *dh = (EbDecHandle *)h->p_component_private;
    EbBufferHeaderType *rb = calloc(1, sizeof *rb);
    EbSvtIOFormat *img = calloc(1, sizeof *img);
    rb->p_buffer = (uint8_t *)img;
    EbAV1StreamInfo *si = calloc(1, sizeof *si); EbAV1FrameInfo *fi = calloc(1, sizeof *fi);
    uint8_t *chunk = malloc(on + 64);
    int nerr = 0, first_err = 0, first_err_tu = -1, nframes = 0, dropped = 0, framing_err = 0;
    printf("{\"frames\":[");
    size_t off = 0;
    for (int t = 0; t < ntu && !nerr && !framing_err; t++) {
        const uint8_t *p = ob + off; size_t n = sz[t], pos = 0, clen = 0;
        int has_frame = 0, k = 0, ftype = 0, see = 0, map_idx = 0;
        for (;;) {
            Obu o; int end = next_obu(p, n, pos, &o) != 0;
            if (!end && pos < n) {
                if (o.type != 1 && o.type != 2 && o.type != 3 && o.type != 4 && o.type != 6 && o.type != 7) { dropped++; pos += o.size; continue; }
            }
            if (end && pos < n) framing_err = 1;
            int boundary = end || o.type == 1 || o.type == 2 || o.type == 3 || o.type == 6;
            if (has_frame && boundary) {
                int e = (int)svt_av1_dec_frame(h, chunk, clen, 0);
                int got = 0;
                if (e) { nerr++; if (!first_err) { first_err = e; first_err_tu = t; } }
                else if (want_pics && svt_av1_dec_get_picture(h, rb, si, fi) != EB_DecNoOutputPicture) { take_picture(rb); got = 1; }
                else if (!want_pics) got = dh->show_frame;
                printf("%s", nframes ? "," : "");
                dump_frame(dh, t, k, ftype, see, map_idx, e, got, want_blocks);
                nframes++; k++; clen = 0; has_frame = 0;
                if (e) break;
            }
            if (end) break;
            memcpy(chunk + clen, p + o.start, o.size); clen += o.size;
            if (o.type == 3 || o.type == 6) {
                has_frame = 1; ftype = o.type;
                uint8_t b0 = o.size > (size_t)o.hdr ? p[o.start + (size_t)o.hdr] : 0;
                see = (o.type == 3 && !dh->seq_header.reduced_still_picture_header) ? (b0 >> 7) & 1 : 0;
                map_idx = (b0 >> 4) & 7;
            }
            pos += o.size;
        }
        off += sz[t];
    }
    printf("],\"seq\":");
    if (dh->seq_header_done) dump_seq(&dh->seq_header); else printf("null");
    int e_d = (int)svt_av1_dec_deinit(h);
    int e_dh = (int)svt_av1_dec_deinit_handle(h);
    printf(",\"ntu\":%d,\"nframes\":%d,\"nerr\":%d,\"first_err\":%d,\"first_err_tu\":%d,\"framing_err\":%d,\"dropped_obus\":%d,\"deinit\":%d,\"deinit_handle\":%d,\"npic\":%d,\"pics\":[",
           ntu, nframes, nerr, first_err, first_err_tu, framing_err, dropped, e_d, e_dh, npic);
    for (int i = 0; i < npic; i++) printf("%s[%d,%d,%d,\"%016llx\"]", i ? "," : "", pics[i].w, pics[i].h, pics[i].bd, (unsigned long long)pics[i].hash);
    printf("]}\n");
    fflush(stdout);
    return 0;
}
