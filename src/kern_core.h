// C07 harness core: kernel table types, pattern alphabet, poisoned buffers, comparison and reporting helpers.
#ifndef KERN_CORE_H
#define KERN_CORE_H
#include <stdint.h>
#include <stddef.h>
#include <stdio.h>
#include <string.h>

enum { ISA_MMX, ISA_SSE, ISA_SSE2, ISA_SSE3, ISA_SSSE3, ISA_SSE4_1, ISA_SSE4_2, ISA_AVX, ISA_AVX2, ISA_AVX512, ISA_N };

typedef struct { const char *name; void *fn; int isa; } KVariant;
#define KMAXV 4
typedef struct Kern {
    const char *ptr;   // dispatch pointer name
    const char *drv;   // driver name
    int         w, h;  // block size parsed from the name (0 when none)
    int         a, b;  // driver specific (parsed from the name by the generator)
    const char *cname;
    void       *c;
    int         nv;
    KVariant    v[KMAXV];
} Kern;

typedef struct {
    unsigned long long calls, cases, nontrivial, mism;
    long long          first_case;
    char               desc[600];
    int                skipped; // ISA not supported by the host
    // differences that are bit-level only (floating point +0 vs -0, numerically equal): reported under their own key
    unsigned long long soft;
    long long          soft_first_case;
    char               soft_desc[600];
} VarRes;

typedef struct Run {
    const Kern *k;
    int         thorough;
    long long   case_idx;    // argument tuples enumerated so far
    long long   only_case;   // replay: run just this case (-1: all)
    int         only_var;    // replay: just this variant (-1: all)
    int         verbose;
    int         stop, timed_out;
    double      deadline;
    unsigned long long c_calls;
    int         cur_nontrivial;
    VarRes      var[KMAXV];
} Run;

typedef void (*DrvFn)(Run *r);
typedef struct { const char *name; DrvFn fn; } Driver;
extern const Driver g_drivers[];
extern const int    g_ndrivers;
extern const Kern   g_kerns[];
extern const int    g_nkerns;

double kc_now(void);
const Kern *kc_find_kern(const char *ptr); // any entry of the generated table by dispatch pointer name

// ---- case control -------------------------------------------------------------------------------------------------------
// returns 1 when the driver must execute the current argument tuple; nontrivial = the inputs are not constant
static inline int case_begin(Run *r, int nontrivial) {
    long long i = r->case_idx++;
    if (r->stop) return 0;
    if ((i & 127) == 0 && r->only_case < 0 && kc_now() > r->deadline) {
        r->stop = r->timed_out = 1;
        return 0;
    }
    if (r->only_case >= 0) {
        if (i > r->only_case) r->stop = 1;
        if (i != r->only_case) return 0;
    }
    r->cur_nontrivial = nontrivial;
    r->c_calls++;
    return 1;
}
// replay: skip (without preparing inputs) every tuple but the requested one
static inline int case_skip_fast(Run *r) {
    if (r->only_case >= 0 && r->case_idx != r->only_case) {
        if (r->case_idx > r->only_case) r->stop = 1;
        r->case_idx++;
        return 1;
    }
    return 0;
}
static inline int var_on(Run *r, int vi) {
    if (r->var[vi].skipped) return 0;
    if (r->only_var >= 0 && r->only_var != vi) return 0;
    r->var[vi].calls++;
    r->var[vi].cases++;
    if (r->cur_nontrivial) r->var[vi].nontrivial++;
    return 1;
}
// first differing byte or -1
static inline long kc_diff(const void *a, const void *b, size_t n) {
    if (!memcmp(a, b, n)) return -1;
    const uint8_t *x = a, *y = b;
    size_t         i = 0;
    while (x[i] == y[i]) i++;
    return (long)i;
}
// record a mismatch; the description is formatted only for the first one of a variant (or in replay)
#define MISMATCH(r, vi, ...)                                                                          \
    do {                                                                                              \
        VarRes *vr_ = &(r)->var[vi];                                                                  \
        if (vr_->mism++ == 0) {                                                                       \
            vr_->first_case = (r)->case_idx - 1;                                                      \
            snprintf(vr_->desc, sizeof vr_->desc, __VA_ARGS__);                                       \
        }                                                                                             \
        if ((r)->verbose) { printf("MISMATCH %s: ", (r)->k->v[vi].name); printf(__VA_ARGS__); printf("\n"); } \
    } while (0)
#define SOFTDIFF(r, vi, ...)                                                                          \
    do {                                                                                              \
        VarRes *vr_ = &(r)->var[vi];                                                                  \
        if (vr_->soft++ == 0) {                                                                       \
            vr_->soft_first_case = (r)->case_idx - 1;                                                 \
            snprintf(vr_->soft_desc, sizeof vr_->soft_desc, __VA_ARGS__);                             \
        }                                                                                             \
        if ((r)->verbose) { printf("SIGN-OF-ZERO-ONLY %s: ", (r)->k->v[vi].name); printf(__VA_ARGS__); printf("\n"); } \
    } while (0)
#define VERBOSE(r, ...) do { if ((r)->verbose) { printf(__VA_ARGS__); printf("\n"); } } while (0)

// ---- pattern alphabet ---------------------------------------------------------------------------------------------------
// patterns 0..2 are constant (degenerate); see kc_pat_name
enum {
    PAT_LO, PAT_HI, PAT_MID, PAT_CHECK, PAT_CHECK_INV, PAT_ROWRAMP, PAT_COLRAMP, PAT_HI_TL, PAT_HI_TR, PAT_HI_BL, PAT_HI_BR,
    PAT_LO_TL, PAT_LO_BR, PAT_ALT_COL, PAT_ALT_ROW, PAT_TEXTURE, PAT_BASE_N,
    PAT_WALK0 = PAT_BASE_N // PAT_WALK0 + k: every sample mid except sample number (5k mod n) which is lo + 2^k (clamped to hi)
};
const char *kc_pat_name(int pat, long lo, long hi, char *buf);
long        kc_pat_value(int pat, int x, int y, int w, int h, long lo, long hi);
int         kc_npat(Run *r, long lo, long hi); // number of patterns for the tier (quick: base alphabet + 4 walking values)
static inline int kc_pat_nontrivial(int pat) { return pat > PAT_MID; }

void kc_fill_u8(uint8_t *p, int w, int h, int stride, int pat, long lo, long hi);
void kc_fill_u16(uint16_t *p, int w, int h, int stride, int pat, long lo, long hi);
void kc_fill_i16(int16_t *p, int w, int h, int stride, int pat, long lo, long hi);
void kc_fill_i32(int32_t *p, int w, int h, int stride, int pat, long lo, long hi);
// deterministic garbage for padding / untouched areas
void kc_junk(void *p, size_t n, unsigned seed);

#define CONVERT_TO_BYTEPTR_(x) ((uint8_t *)(((uintptr_t)(x)) >> 1))

#endif
