/* decfuzz_h: mutation-bounded exhaustive input enumeration for the SVT-AV1 decoder (C10).
 *
 * usage: decfuzz_h <prefix> <progress-file> <first> <last> [annexb=0|1|2] [proto=1|2] [count=1] [dump=<id>:<file>]
 *   annexb=0/1: the low-overhead seed with the is_annexb flag 0/1; annexb=2: the seed converted to Annex-B units, flag 1
 *   <prefix>.obu/.sz : seed stream (temporal units).  Mutation ids enumerate a fixed, documented space (see gen()).
 * For every id in [first,last]: fresh decoder (init_handle, set_parameter, init), valid TUs before the mutated one, the
 * mutated TU, then (proto 2) the remaining valid TUs, get_picture after each successful TU, deinit, deinit_handle.
 * The id being processed is stored in <progress-file> before each case, so the supervisor knows which input killed the
 * process.  A per-case alarm turns hangs into exit 9. */
#define _GNU_SOURCE
#include <fcntl.h>
#include <signal.h>
#include <stdio.h>
#include <stdlib.h>
#include <string.h>
#include <stdint.h>
#include <sys/mman.h>
#include <unistd.h>
#include "EbSvtAv1Dec.h"

static uint8_t *ob; static uint32_t *sz; static int ntu; static size_t off[4096];
static volatile long *progress;
static uint8_t buf[1 << 20]; static size_t blen; static int mut_tu; /* which TU is replaced (or -1: buf is the only input) */

typedef struct { size_t start, hdr, size, szpos; int type; } Obu;
static int framing; /* 0/1: seed in low-overhead format (annexb flag 0/1); 2: seed converted to Annex-B length-prefixed OBUs, flag 1 */
static size_t leb_put(uint8_t *o, uint64_t v) { size_t n = 0; do { uint8_t b = v & 0x7f; v >>= 7; if (v) b |= 0x80; o[n++] = b; } while (v); return n; }
static int split_s5(const uint8_t *d, size_t n, Obu *o, int max);
/* Annex-B units as svt_av1_dec_frame expects them: [obu_length leb128][obu_header without size field][payload] */
static int split(const uint8_t *d, size_t n, Obu *o, int max) {
    if (framing != 2) return split_s5(d, n, o, max);
    int k = 0; size_t p = 0;
    while (p < n && k < max) {
        uint64_t v = 0; int i = 0;
        for (; i < 8 && p + (size_t)i < n; i++) { v |= (uint64_t)(d[p + (size_t)i] & 0x7f) << (7 * i); if (!(d[p + (size_t)i] & 0x80)) { i++; break; } }
        if (p + (size_t)i >= n || p + (size_t)i + v > n || v == 0) break;
        o[k].start = p; o[k].hdr = (size_t)i; o[k].size = (size_t)v; o[k].szpos = p; o[k].type = (d[p + (size_t)i] >> 3) & 15;
        p += (size_t)i + (size_t)v; k++;
    }
    return k;
}
static size_t to_annexb(const uint8_t *d, size_t n, uint8_t *out) {
    Obu o[64]; int k = split_s5(d, n, o, 64); size_t w = 0, end = 0;
    for (int i = 0; i < k; i++) {
        size_t ext = (d[o[i].start] >> 2) & 1;
        w += leb_put(out + w, 1 + ext + o[i].size);
        out[w++] = (uint8_t)(d[o[i].start] & ~2);
        if (ext) out[w++] = d[o[i].start + 1];
        memcpy(out + w, d + o[i].start + o[i].hdr, o[i].size); w += o[i].size;
        end = o[i].start + o[i].hdr + o[i].size;
    }
    memcpy(out + w, d + end, n - end); w += n - end;   /* anything that does not parse is kept as it is */
    return w;
}
static int split_s5(const uint8_t *d, size_t n, Obu *o, int max) {
    int k = 0; size_t p = 0;
    while (p < n && k < max) {
        int ext = (d[p] >> 2) & 1, has = (d[p] >> 1) & 1; size_t h = 1 + (size_t)ext; uint64_t v = 0; int i = 0;
        if (!has) break;
        for (; i < 8 && p + h + (size_t)i < n; i++) { v |= (uint64_t)(d[p + h + (size_t)i] & 0x7f) << (7 * i); if (!(d[p + h + (size_t)i] & 0x80)) { i++; break; } }
        o[k].start = p; o[k].hdr = h + (size_t)i; o[k].size = (size_t)v; o[k].szpos = p + h; o[k].type = (d[p] >> 3) & 15;
        if (p + o[k].hdr + o[k].size > n) break;
        p += o[k].hdr + o[k].size; k++;
    }
    return k;
}

/* ---- enumeration: returns 0 when id is beyond the space.  Space layout (per target TU t in {0,1} if present):
 *   [trunc L][bitflip 8L][byteset 4L][obu del/dup/swap 3*nobu][leb128 4*nobu][splice nobu(t)*nobu(t^1)]  then the short strings */
static long space_tu(int t, long *parts) {
    long L = sz[t]; Obu o[64]; int n = split(ob + off[t], sz[t], o, 64);
    int n2 = 0; Obu o2[64];
    if (ntu > 1) n2 = split(ob + off[t ^ 1], sz[t ^ 1], o2, 64);
    parts[0] = L; parts[1] = 8 * L; parts[2] = 4 * L; parts[3] = 3L * n; parts[4] = 4L * n; parts[5] = (long)(n + 1) * (n2 + 1);
    long s = 0; for (int i = 0; i < 6; i++) s += parts[i];
    return s;
}
static int short_full;
static long space_short(void) { return short_full ? 1 + 256 + 65536 + 216 : 1 + 256 + 256 + 216; }
static const uint8_t alpha3[6] = { 0x00, 0x0A, 0x12, 0x32, 0x80, 0xFF };
static const uint8_t alpha2[16] = { 0x00, 0x01, 0x02, 0x08, 0x0A, 0x10, 0x12, 0x18, 0x1A, 0x20, 0x32, 0x40, 0x7F, 0x80, 0xC0, 0xFF };
static const uint8_t setv[4] = { 0x00, 0xFF, 0x80, 0x7F };

static int gen(long id, char *desc, size_t dn) {
    int ntarget = ntu > 1 ? 2 : 1;
    for (int t = 0; t < ntarget; t++) {
        long parts[6]; long s = space_tu(t, parts);
        if (id >= s) { id -= s; continue; }
        const uint8_t *src = ob + off[t]; long L = sz[t];
        Obu o[64]; int n = split(src, (size_t)L, o, 64);
        mut_tu = t;
        memcpy(buf, src, (size_t)L); blen = (size_t)L;
        if (id < parts[0]) { blen = (size_t)id; snprintf(desc, dn, "tu%d:truncate@%ld", t, id); return 1; }
        id -= parts[0];
        if (id < parts[1]) { buf[id / 8] ^= (uint8_t)(1 << (id % 8)); snprintf(desc, dn, "tu%d:bitflip@%ld.%ld", t, id / 8, id % 8); return 1; }
        id -= parts[1];
        if (id < parts[2]) { if (buf[id / 4] == setv[id % 4]) buf[id / 4] ^= 0x55; else buf[id / 4] = setv[id % 4]; snprintf(desc, dn, "tu%d:byte@%ld=%02x", t, id / 4, buf[id / 4]); return 1; }
        id -= parts[2];
        if (id < parts[3]) {
            int k = (int)(id / 3), what = (int)(id % 3); size_t a = o[k].start, e = o[k].start + o[k].hdr + o[k].size;
            if (what == 0) { memmove(buf + a, buf + e, (size_t)L - e); blen = (size_t)L - (e - a); snprintf(desc, dn, "tu%d:obu%d-delete(type%d)", t, k, o[k].type); }
            else if (what == 1) { memmove(buf + e + (e - a), buf + e, (size_t)L - e); memcpy(buf + e, src + a, e - a); blen = (size_t)L + (e - a); snprintf(desc, dn, "tu%d:obu%d-duplicate(type%d)", t, k, o[k].type); }
            else if (k + 1 < n) { size_t e2 = o[k + 1].start + o[k + 1].hdr + o[k + 1].size; memcpy(buf + a, src + e, e2 - e); memcpy(buf + a + (e2 - e), src + a, e - a); snprintf(desc, dn, "tu%d:obu%d-swap-next", t, k); }
            else snprintf(desc, dn, "tu%d:obu%d-swap-next(none)", t, k);
            return 1;
        }
        id -= parts[3];
        if (id < parts[4]) {
            int k = (int)(id / 4), what = (int)(id % 4); size_t p = o[k].szpos;
            /* single-byte leb128 only (sizes < 128) are rewritten in place; longer ones: first byte */
            uint8_t v = buf[p];
            if (what == 0) buf[p] = (uint8_t)((v & 0x80) | ((v + 1) & 0x7f)); else if (what == 1) buf[p] = (uint8_t)((v & 0x80) | ((v - 1) & 0x7f));
            else if (what == 2) buf[p] = (uint8_t)(v & 0x80); else buf[p] = (uint8_t)((v & 0x80) | 0x7f);
            snprintf(desc, dn, "tu%d:obu%d-size-field-%d", t, k, what); return 1;
        }
        id -= parts[4];
        {
            Obu o2[64]; int n2 = ntu > 1 ? split(ob + off[t ^ 1], sz[t ^ 1], o2, 64) : 0;
            int i = (int)(id / (n2 + 1)), j = (int)(id % (n2 + 1));
            size_t pa = i < n ? o[i].start : (size_t)L, pb = (n2 && j < n2) ? o2[j].start : (ntu > 1 ? sz[t ^ 1] : 0);
            memcpy(buf, src, pa); blen = pa;
            if (ntu > 1) { memcpy(buf + pa, ob + off[t ^ 1] + pb, sz[t ^ 1] - pb); blen += sz[t ^ 1] - pb; }
            snprintf(desc, dn, "tu%d:splice-prefix-obu%d+tu%d-suffix-obu%d", t, i, t ^ 1, j); return 1;
        }
    }
    if (id >= space_short()) return 0;
    mut_tu = -1;
    if (id == 0) { blen = 0; snprintf(desc, dn, "bytes:empty"); return 1; }
    id -= 1;
    if (id < 256) { buf[0] = (uint8_t)id; blen = 1; snprintf(desc, dn, "bytes:%02x", buf[0]); return 1; }
    id -= 256;
    long n2 = short_full ? 65536 : 256;
    if (id < n2) { if (short_full) { buf[0] = (uint8_t)(id >> 8); buf[1] = (uint8_t)id; } else { buf[0] = alpha2[id / 16]; buf[1] = alpha2[id % 16]; } blen = 2; snprintf(desc, dn, "bytes:%02x%02x", buf[0], buf[1]); return 1; }
    id -= n2;
    buf[0] = alpha3[id / 36]; buf[1] = alpha3[(id / 6) % 6]; buf[2] = alpha3[id % 6]; blen = 3; snprintf(desc, dn, "bytes:%02x%02x%02x", buf[0], buf[1], buf[2]);
    return 1;
}

#include <setjmp.h>
#include <ucontext.h>
static sigjmp_buf case_jb;
static volatile long cur_id;
static void on_alarm(int s) { (void)s; printf("HANG %ld\n", cur_id); fflush(stdout); _exit(9); }
/* a fault inside the decoder is recorded (id, signal, faulting pc) and the enumeration continues with the next input;
 * the faulted decoder instance is abandoned */
static void on_fault(int sig, siginfo_t *si, void *uc_) {
    (void)si;
    ucontext_t *uc = (ucontext_t *)uc_;
    unsigned long pc = (unsigned long)uc->uc_mcontext.gregs[REG_RIP];
    extern char __executable_start, etext;
    if (pc < (unsigned long)&__executable_start || pc >= (unsigned long)&etext) {
        /* fault inside libc (memcpy ...) or at a wild pc: attribute it to the innermost caller inside the program */
        unsigned long sp = (unsigned long)uc->uc_mcontext.gregs[REG_RSP], bp = (unsigned long)uc->uc_mcontext.gregs[REG_RBP];
        unsigned long ra = 0;
        for (int k = 0; k < 64 && !ra; k++) { unsigned long v = ((unsigned long *)sp)[k]; if (v >= (unsigned long)&__executable_start && v < (unsigned long)&etext) ra = v; }
        (void)bp;
        if (ra) pc = ra;
    }
    char line[128];
    int n = snprintf(line, sizeof line, "FAULT %ld %d %lx\n", cur_id, sig, pc);
    if (write(1, line, (size_t)n) < 0) _exit(11);
    siglongjmp(case_jb, 1);
}
static uint8_t *readfile(const char *fn, size_t *n) {
    FILE *f = fopen(fn, "rb"); if (!f) { perror(fn); exit(4); }
    fseek(f, 0, SEEK_END); long l = ftell(f); fseek(f, 0, SEEK_SET);
    uint8_t *b = malloc((size_t)l + 64); if (l && fread(b, 1, (size_t)l, f) != (size_t)l) exit(4); fclose(f); *n = (size_t)l; return b;
}

int main(int argc, char **argv) {
    if (argc < 5) return 4;
    char fn[1024]; size_t on, sn; int annexb = 0, proto = 1, count = 0; long dump_id = -1; const char *dump_file = NULL;
    snprintf(fn, sizeof fn, "%s.obu", argv[1]); ob = readfile(fn, &on);
    snprintf(fn, sizeof fn, "%s.sz", argv[1]); sz = (uint32_t *)readfile(fn, &sn); ntu = (int)(sn / 4);
    for (int t = 0, o = 0; t < ntu && t < 4096; t++) { off[t] = (size_t)o; o += (int)sz[t]; }
    long first = atol(argv[3]), last = atol(argv[4]);
    for (int i = 5; i < argc; i++) if (!strncmp(argv[i], "annexb=", 7)) framing = atoi(argv[i] + 7);
    if (framing == 2) { /* the seed itself becomes an Annex-B stream */
        uint8_t *nb = malloc(2 * on + 4096 * 16 + 64); size_t w = 0;
        for (int t = 0; t < ntu && t < 4096; t++) { size_t l = to_annexb(ob + off[t], sz[t], nb + w); off[t] = w; sz[t] = (uint32_t)l; w += l; }
        ob = nb;
    }
    for (int i = 5; i < argc; i++) {
        if (!strncmp(argv[i], "annexb=", 7)) annexb = atoi(argv[i] + 7); else if (!strncmp(argv[i], "proto=", 6)) proto = atoi(argv[i] + 6);
        else if (!strncmp(argv[i], "count=", 6)) count = atoi(argv[i] + 6); else if (!strncmp(argv[i], "full=", 5)) short_full = atoi(argv[i] + 5);
        else if (!strncmp(argv[i], "dump=", 5)) { dump_id = atol(argv[i] + 5); dump_file = strchr(argv[i] + 5, ':') + 1; }
    }
    char desc[256];
    if (count) { long parts[6], tot = 0; for (int t = 0; t < (ntu > 1 ? 2 : 1); t++) tot += space_tu(t, parts); printf("%ld\n", tot + space_short()); fflush(stdout); return 0; }
    if (dump_file) { if (!gen(dump_id, desc, sizeof desc)) return 3; FILE *f = fopen(dump_file, "wb"); fwrite(buf, 1, blen, f); fclose(f); printf("%s mut_tu=%d len=%zu\n", desc, mut_tu, blen); fflush(stdout); return 0; }
    int fd = open(argv[2], O_RDWR | O_CREAT, 0644);
    if (fd < 0 || ftruncate(fd, 16) != 0) return 4;
    progress = mmap(NULL, 16, PROT_READ | PROT_WRITE, MAP_SHARED, fd, 0);
    signal(SIGALRM, on_alarm);
    {
        static char altstack[1 << 16];
        stack_t ss; ss.ss_sp = altstack; ss.ss_size = sizeof altstack; ss.ss_flags = 0; sigaltstack(&ss, NULL);
        struct sigaction sa; memset(&sa, 0, sizeof sa); sa.sa_sigaction = on_fault; sa.sa_flags = SA_SIGINFO | SA_ONSTACK | SA_NODEFER;
        sigaction(SIGSEGV, &sa, NULL); sigaction(SIGBUS, &sa, NULL); sigaction(SIGFPE, &sa, NULL); sigaction(SIGILL, &sa, NULL);
    }
    setvbuf(stdout, NULL, _IOLBF, 0);
    long ncase = 0, nerr = 0, npic = 0, nfault = 0;
    for (long id = first; id <= last; id++) {
        if (!gen(id, desc, sizeof desc)) break;
        progress[0] = id; progress[1] = 1;
        cur_id = id;
        if (sigsetjmp(case_jb, 1)) { nfault++; alarm(0); if (nfault >= 3000) { progress[0] = id; break; } continue; }
        alarm(10);
        EbComponentType *h = NULL; EbSvtAv1DecConfiguration cfg; memset(&cfg, 0, sizeof cfg);
        if (svt_av1_dec_init_handle(&h, NULL, &cfg) != EB_ErrorNone) continue;
        cfg.threads = 1; cfg.operating_point = -1; cfg.num_p_frames = 1; cfg.max_color_format = EB_YUV420; cfg.max_bit_depth = EB_EIGHT_BIT;
        svt_av1_dec_set_parameter(h, &cfg);
        svt_av1_dec_init(h);
        EbBufferHeaderType rb; EbSvtIOFormat img; EbAV1StreamInfo si; EbAV1FrameInfo fi;
        memset(&rb, 0, sizeof rb); memset(&img, 0, sizeof img); rb.p_buffer = (uint8_t *)&img;
        int lastt = (mut_tu < 0) ? 0 : (proto == 2 ? ntu - 1 : mut_tu);
        for (int t = 0; t <= lastt; t++) {
            const uint8_t *d = (t == mut_tu || mut_tu < 0) ? buf : ob + off[t]; size_t n = (t == mut_tu || mut_tu < 0) ? blen : sz[t];
            /* the decoder gets an allocation of exactly n bytes: a read past the caller's data is an ASan report, not a read of a neighbour */
            uint8_t *exact = malloc(n ? n : 1);
            if (!exact) continue;
            memcpy(exact, d, n);
            EbErrorType e = svt_av1_dec_frame(h, exact, n, (uint32_t)(annexb ? 1 : 0));
            free(exact);
            if (e != EB_ErrorNone) nerr++;
            else if (svt_av1_dec_get_picture(h, &rb, &si, &fi) != EB_DecNoOutputPicture) npic++;
        }
        svt_av1_dec_deinit(h);
        svt_av1_dec_deinit_handle(h);
        free(img.luma); free(img.cb); free(img.cr);
        alarm(0);
        ncase++;
    }
    progress[1] = 2;
    printf("{\"cases\":%ld,\"dec_errors\":%ld,\"pictures\":%ld,\"faults\":%ld}\n", ncase, nerr, npic, nfault);
    return 0;
}
