// C07 drivers: forward / inverse 2-D transforms and the 64-point "handle_transform" repack helpers.
#include "EbDefinitions.h"
#include "kern_core.h"

#define ALIGN64 __attribute__((aligned(64)))

static const char *TXN[TX_TYPES] = {"DCT_DCT", "ADST_DCT", "DCT_ADST", "ADST_ADST", "FLIPADST_DCT", "DCT_FLIPADST", "FLIPADST_FLIPADST",
                                    "ADST_FLIPADST", "FLIPADST_ADST", "IDTX", "V_DCT", "H_DCT", "V_ADST", "H_ADST", "V_FLIPADST", "H_FLIPADST"};

static int tx_size_of(int w, int h) {
    for (int t = 0; t < TX_SIZES_ALL; t++)
        if (tx_size_wide[t] == w && tx_size_high[t] == h) return t;
    return -1;
}
// a transform type is in the kernel's domain when the bitstream syntax can select it for the size (inter or intra set)
static int tx_type_valid(int tx_size, int tx_type) {
    return av1_ext_tx_used[get_ext_tx_set_type((TxSize)tx_size, 1, 0)][tx_type] || av1_ext_tx_used[get_ext_tx_set_type((TxSize)tx_size, 0, 0)][tx_type];
}

static int strides4(int w, int *s) {
    s[0] = w; s[1] = w + 1; s[2] = w + 16; s[3] = 2 * w;
    return 4;
}

// ------------------------------------------------------------------------------------------------ forward
typedef void (*fwd_fn)(int16_t *input, int32_t *output, uint32_t stride, TxType tx_type, uint8_t bd);
static int16_t IN16[64 * 2 * 64 + 256] ALIGN64;
static int32_t O32a[64 * 64 + 128] ALIGN64, O32b[64 * 64 + 128] ALIGN64;

// k->a: 0 full, 2 = N2 (only the top-left quarter is produced), 4 = N4
void drv_fwd_txfm(Run *r) {
    const Kern *k = r->k;
    int         w = k->w, h = k->h, ts = tx_size_of(w, h), st[4], ns = strides4(w, st);
    static const int BD[3] = {8, 10, 12};
    char        pn[32];
    if (ts < 0) return;
    for (int bi = 0; bi < 3; bi++) {
        int  bd = BD[bi];
        long hi = (1 << bd) - 1, lo = -hi;
        int  np = kc_npat(r, lo, hi);
        for (int tt = 0; tt < TX_TYPES; tt++) {
            if (!tx_type_valid(ts, tt)) continue;
            for (int si = 0; si < ns; si++)
                for (int p = 0; p < np; p++) {
                    if (r->stop) return;
                    if (case_skip_fast(r)) continue;
                    kc_junk(IN16, sizeof IN16, 5);
                    kc_fill_i16(IN16 + 64, w, h, st[si], p, lo, hi);
                    if (!case_begin(r, kc_pat_nontrivial(p))) continue;
                    size_t n = (size_t)w * h + 128;
                    kc_junk(O32a, n * 4, 9);
                    ((fwd_fn)k->c)(IN16 + 64, O32a + 64, st[si], (TxType)tt, (uint8_t)bd);
                    VERBOSE(r, "case %lld: %dx%d bd=%d tx_type=%s stride=%d residual=%s -> c out[0..3] = %d %d %d %d", r->case_idx - 1, w, h, bd, TXN[tt],
                            st[si], kc_pat_name(p, lo, hi, pn), O32a[64], O32a[65], O32a[66], O32a[67]);
                    for (int vi = 0; vi < k->nv; vi++) {
                        if (!var_on(r, vi)) continue;
                        kc_junk(O32b, n * 4, 9);
                        ((fwd_fn)k->v[vi].fn)(IN16 + 64, O32b + 64, st[si], (TxType)tt, (uint8_t)bd);
                        long d = kc_diff(O32a, O32b, n * 4);
                        if (d >= 0) {
                            d /= 4;
                            MISMATCH(r, vi, "%dx%d bd=%d tx_type=%s input stride=%d residual pattern '%s' (range %ld..%ld): first difference at output index %ld (row %ld col %ld): c=%d simd=%d",
                                     w, h, bd, TXN[tt], st[si], kc_pat_name(p, lo, hi, pn), lo, hi, d - 64, (d - 64) / w, (d - 64) % w, O32a[d], O32b[d]);
                        }
                    }
                }
        }
    }
}

// ------------------------------------------------------------------------------------------------ inverse
#include "EbCoefficients.h"
#include "EbInvTransforms.h"

const Kern *kc_find_kern(const char *ptr);

typedef void (*inv_a_fn)(const int32_t *in, uint16_t *r_, int32_t sr, uint16_t *w_, int32_t sw, TxType tt, int32_t bd);
typedef void (*inv_b_fn)(const int32_t *in, uint16_t *r_, int32_t sr, uint16_t *w_, int32_t sw, TxType tt, TxSize ts, int32_t eob, int32_t bd);
typedef void (*inv_c_fn)(const int32_t *in, uint16_t *r_, int32_t sr, uint16_t *w_, int32_t sw, TxType tt, TxSize ts, int32_t bd);
typedef void (*inv_lbd_fn)(const TranLow *dq, uint8_t *r_, int32_t sr, uint8_t *w_, int32_t sw, const TxfmParam *p);

static int32_t  COEF[64 * 64 + 64] ALIGN64, PACK[32 * 32 + 64] ALIGN64;
static uint16_t PR16[64 * 128 + 256] ALIGN64, WA16[64 * 128 + 256] ALIGN64, WB16[64 * 128 + 256] ALIGN64;
static uint8_t  PR8[64 * 128 + 256] ALIGN64, WA8[64 * 128 + 256] ALIGN64, WB8[64 * 128 + 256] ALIGN64;

static const int PREDPAT[5] = {PAT_LO, PAT_HI, PAT_MID, PAT_TEXTURE, PAT_CHECK};

// coefficients of a transform block the way the library hands them to the inverse transform: forward C transform of a residual
// pattern, optionally coarsely quantised/dequantised (step q), zero-out + repack for 64-point dimensions; returns eob (scan order)
static int make_coeffs(int w, int h, int ts, int tt, int bd, int pat, int q, int stride_in) {
    char  nm[64];
    long  hi = (1 << bd) - 1, lo = -hi;
    snprintf(nm, sizeof nm, "svt_av1_fwd_txfm2d_%dx%d", w, h);
    const Kern *fk = kc_find_kern(nm);
    if (!fk) return -1;
    kc_fill_i16(IN16 + 64, w, h, stride_in, pat, lo, hi);
    ((fwd_fn)fk->c)(IN16 + 64, COEF, stride_in, (TxType)tt, (uint8_t)bd);
    int pw = w > 32 ? 32 : w, ph = h > 32 ? 32 : h;
    for (int y = 0; y < ph; y++)
        for (int x = 0; x < pw; x++) {
            int32_t c = COEF[y * w + x];
            if (q > 1) c = (c >= 0 ? (c + q / 2) / q : -((-c + q / 2) / q)) * q;
            PACK[y * pw + x] = c;
        }
    const int16_t *iscan = av1_scan_orders[ts][tt].iscan;
    int            eob = 0;
    for (int i = 0; i < pw * ph; i++)
        if (PACK[i] && iscan[i] + 1 > eob) eob = iscan[i] + 1;
    return eob;
}

// k->a: 0 = (.., tx_type, bd), 1 = (.., tx_type, tx_size, eob, bd), 2 = (.., tx_type, tx_size, bd), 3 = svt_av1_inv_txfm_add (8-bit, TxfmParam)
static void inv_one_size(Run *r, int w, int h, int kind) {
    const Kern *k = r->k;
    int         ts = tx_size_of(w, h), st[4], ns = strides4(w, st);
    static const int BD[3] = {8, 10, 12};
    char        pn[32], pn2[32];
    if (ts < 0) return;
    for (int bi = 0; bi < (kind == 3 ? 1 : 3); bi++) {
        int  bd = BD[bi];
        long hi = (1 << bd) - 1;
        int  np = kc_npat(r, -hi, hi);
        for (int tt = 0; tt < TX_TYPES; tt++) {
            if (!tx_type_valid(ts, tt)) continue;
            for (int p = 0; p < np; p++)
                for (int q = 1; q <= 64; q *= 64) {
                    if (r->stop) return;
                    int eob = -2;
                    for (int pp = 0; pp < 5; pp++)
                        for (int si = 0; si < ns; si++)
                            for (int inplace = 0; inplace < 2; inplace++) {
                                if (r->stop) return;
                                if (case_skip_fast(r)) continue;
                                if (eob == -2) eob = make_coeffs(w, h, ts, tt, bd, p, q, w);
                                if (eob <= 0) { r->case_idx++; continue; } // all-zero blocks are not inverse transformed
                                if (!case_begin(r, 1)) continue;
                                int    use_eob = inplace ? eob : av1_get_max_eob((TxSize)ts);
                                size_t n = 64 + (size_t)h * st[si] + 64;
                                if (kind == 3) {
                                    TxfmParam prm;
                                    memset(&prm, 0, sizeof prm);
                                    prm.tx_type = (TxType)tt; prm.tx_size = (TxSize)ts; prm.lossless = 0; prm.bd = 8; prm.is_hbd = 0; prm.eob = use_eob;
                                    prm.tx_set_type = get_ext_tx_set_type((TxSize)ts, 1, 0);
                                    kc_junk(PR8, n, 11);
                                    kc_fill_u8(PR8 + 64, w, h, st[si], PREDPAT[pp], 0, 255);
                                    memcpy(WA8, PR8, n);
                                    if (!inplace) kc_junk(WA8, n, 12);
                                    ((inv_lbd_fn)k->c)(PACK, inplace ? WA8 + 64 : PR8 + 64, st[si], WA8 + 64, st[si], &prm);
                                    VERBOSE(r, "case %lld: %dx%d tx_type=%s residual=%s q=%d pred=%s stride=%d %s eob=%d -> c out %d %d %d %d", r->case_idx - 1, w, h, TXN[tt],
                                            kc_pat_name(p, -hi, hi, pn), q, kc_pat_name(PREDPAT[pp], 0, hi, pn2), st[si], inplace ? "in-place" : "separate", use_eob,
                                            WA8[64], WA8[65], WA8[66], WA8[67]);
                                    for (int vi = 0; vi < k->nv; vi++) {
                                        if (!var_on(r, vi)) continue;
                                        memcpy(WB8, PR8, n);
                                        if (!inplace) kc_junk(WB8, n, 12);
                                        ((inv_lbd_fn)k->v[vi].fn)(PACK, inplace ? WB8 + 64 : PR8 + 64, st[si], WB8 + 64, st[si], &prm);
                                        long d = kc_diff(WA8, WB8, n);
                                        if (d >= 0)
                                            MISMATCH(r, vi, "%dx%d tx_type=%s coefficients = fwd_c(residual pattern '%s', bd 8) requantised with step %d, prediction pattern '%s', stride=%d, %s buffers, eob=%d: first difference at dst offset %ld (row %ld col %ld): c=%d simd=%d",
                                                     w, h, TXN[tt], kc_pat_name(p, -hi, hi, pn), q, kc_pat_name(PREDPAT[pp], 0, hi, pn2), st[si], inplace ? "in-place" : "separate", use_eob,
                                                     d - 64, (d - 64) / st[si], (d - 64) % st[si], WA8[d], WB8[d]);
                                    }
                                    continue;
                                }
                                kc_junk(PR16, n * 2, 11);
                                for (size_t i = 0; i < n; i++) PR16[i] &= hi;
                                kc_fill_u16(PR16 + 64, w, h, st[si], PREDPAT[pp], 0, hi);
                                for (int side = 0; side <= k->nv; side++) {
                                    int vi = side - 1;
                                    if (side && !var_on(r, vi)) continue;
                                    uint16_t *W = side ? WB16 : WA16;
                                    void     *f = side ? k->v[vi].fn : k->c;
                                    memcpy(W, PR16, n * 2);
                                    if (!inplace) kc_junk(W, n * 2, 12);
                                    uint16_t *rd = inplace ? W + 64 : PR16 + 64;
                                    if (kind == 0) ((inv_a_fn)f)(PACK, rd, st[si], W + 64, st[si], (TxType)tt, bd);
                                    else if (kind == 1) ((inv_b_fn)f)(PACK, rd, st[si], W + 64, st[si], (TxType)tt, (TxSize)ts, use_eob, bd);
                                    else ((inv_c_fn)f)(PACK, rd, st[si], W + 64, st[si], (TxType)tt, (TxSize)ts, bd);
                                    if (!side) {
                                        VERBOSE(r, "case %lld: %dx%d bd=%d tx_type=%s residual=%s q=%d pred=%s stride=%d %s eob=%d -> c out %d %d %d %d", r->case_idx - 1, w, h, bd,
                                                TXN[tt], kc_pat_name(p, -hi, hi, pn), q, kc_pat_name(PREDPAT[pp], 0, hi, pn2), st[si], inplace ? "in-place" : "separate",
                                                use_eob, WA16[64], WA16[65], WA16[66], WA16[67]);
                                        continue;
                                    }
                                    long d = kc_diff(WA16, WB16, n * 2);
                                    if (d >= 0) {
                                        d /= 2;
                                        MISMATCH(r, vi, "%dx%d bd=%d tx_type=%s coefficients = fwd_c(residual pattern '%s') requantised with step %d, prediction pattern '%s', stride=%d, %s buffers, eob=%d: first difference at dst offset %ld (row %ld col %ld): c=%d simd=%d",
                                                 w, h, bd, TXN[tt], kc_pat_name(p, -hi, hi, pn), q, kc_pat_name(PREDPAT[pp], 0, hi, pn2), st[si], inplace ? "in-place" : "separate",
                                                 use_eob, d - 64, (d - 64) / st[si], (d - 64) % st[si], WA16[d], WB16[d]);
                                    }
                                }
                            }
                }
        }
    }
}
void drv_inv_txfm(Run *r) { inv_one_size(r, r->k->w, r->k->h, r->k->a); }
void drv_inv_txfm_lbd(Run *r) {
    for (int t = 0; t < TX_SIZES_ALL && !r->stop; t++) inv_one_size(r, tx_size_wide[t], tx_size_high[t], 3);
}
