// C07 drivers, group quant (part 2): transform-domain distortion kernels, spatial distortion kernels, residual kernels.
#include "EbDefinitions.h"
#include "EbCoefficients.h"
#include "EbInvTransforms.h"
#include "EbFullLoop.h"
#include "EbPictureControlSet.h"
#include "kern_core.h"
#include <math.h>

#define ALIGN64 __attribute__((aligned(64)))

const Kern *kc_find_kern(const char *ptr);

static const char *TXN[TX_TYPES] = {"DCT_DCT", "ADST_DCT", "DCT_ADST", "ADST_ADST", "FLIPADST_DCT", "DCT_FLIPADST", "FLIPADST_FLIPADST",
                                    "ADST_FLIPADST", "FLIPADST_ADST", "IDTX", "V_DCT", "H_DCT", "V_ADST", "H_ADST", "V_FLIPADST", "H_FLIPADST"};
static int tx_type_valid(int tx_size, int tx_type) {
    return av1_ext_tx_used[get_ext_tx_set_type((TxSize)tx_size, 1, 0)][tx_type] || av1_ext_tx_used[get_ext_tx_set_type((TxSize)tx_size, 0, 0)][tx_type];
}

// ================================================================================================ full distortion, 32-bit coefficients
// svt_full_distortion_kernel32_bits(coeff, stride, recon_coeff, stride, dist[2], w, h) and
// svt_full_distortion_kernel_cbf_zero32_bits(coeff, stride, dist[2], w, h): only caller picture_full_distortion32_bits
// (EbPictureOperators.c:232-318; called from EbFullLoop.c:1767/2249, EbCodingLoop.c:3090, EbProductCodingLoop.c:4505):
//   * area_width / area_height = transform width / height with 64 replaced by 32 (luma: "bwidth < 64 ? bwidth : 32"), both strides
//     = area_width (the stride alphabet {w, w+1, w+16, 2w} is enumerated nevertheless: the kernels take strides);
//   * coeff = transform coefficients of the block, bd 8 and 10: the forward C transform of the residual alphabet (incl. the two
//     maximum-energy binary textures), and direct coefficient patterns.  These kernels ACCUMULATE squares, so the direct patterns
//     respect the energy bound of a forward transform output (Parseval): sum(coeff^2) <= DCmax^2, where DCmax = |DC coefficient of
//     the all-max residual| = (2^bd - 1) * gain of the size (<= (2^bd - 1) << 7).  Constant / alternating / ramp / texture
//     patterns therefore use the range +-A with A = DCmax / sqrt(n_coeffs) (the r.m.s. coefficient of a maximum-energy residual),
//     the walking single-value patterns use +-DCmax.  A block with |coeff| = (2^bd - 1) << 7 in every position cannot be produced
//     by the transform of any residual and is not enumerated (see the group author's report: with such blocks
//     svt_full_distortion_kernel32_bits_avx2 loses carries because it accumulates the 64-bit squared differences with
//     _mm256_add_epi32; the lane sums stay below 2^32 for every enumerated in-domain input);
//   * recon_coeff = the dqcoeff array av1_quantize_inv_quantize produced for the same coeff array, i.e. the output of one of the
//     quantizers for a quantizer row of the library, optionally modified by svt_av1_optimize_b (RDOQ), which lowers individual
//     levels by one.  The driver enumerates recon variants: dqcoeff of svt_aom_quantize_b_c_ii / svt_aom_highbd_quantize_b_c
//     ("b"), of svt_av1_quantize_fp*_c / svt_av1_highbd_quantize_fp_c ("fp"), and "b" with every non-zero level lowered by one
//     ("b-1": |dq| = ((|q|-1) * dequant) >> log_scale).  The kernel is only called when the block has non-zero quantized
//     coefficients (y_count_non_zero_coeffs != 0; otherwise the cbf_zero kernel is used): variants with eob == 0 are skipped.
//     Independent coeff / recon patterns (e.g. +E against -E) can NOT be passed by the library and are not enumerated.
//   * distortion_result: 16-byte aligned pair (EB_ALIGN(16) uint64_t txb_full_distortion[3][DIST_CALC_TOTAL]); guards around it.
typedef void (*fwd_fn)(int16_t *input, int32_t *output, uint32_t stride, TxType tx_type, uint8_t bd);
typedef uint64_t (*handle_fn)(int32_t *output);
typedef void (*fd32_fn)(int32_t *coeff, uint32_t coeff_stride, int32_t *recon_coeff, uint32_t recon_coeff_stride, uint64_t distortion_result[DIST_CALC_TOTAL],
                        uint32_t area_width, uint32_t area_height);
typedef void (*fdz_fn)(int32_t *coeff, uint32_t coeff_stride, uint64_t distortion_result[DIST_CALC_TOTAL], uint32_t area_width, uint32_t area_height);
typedef void (*qb_fn)(const TranLow *coeff_ptr, intptr_t n_coeffs, const int16_t *zbin_ptr, const int16_t *round_ptr, const int16_t *quant_ptr,
                      const int16_t *quant_shift_ptr, TranLow *qcoeff_ptr, TranLow *dqcoeff_ptr, const int16_t *dequant_ptr, uint16_t *eob_ptr,
                      const int16_t *scan, const int16_t *iscan, const QmVal *qm_ptr, const QmVal *iqm_ptr, const int32_t log_scale);
typedef void (*qfp_fn)(const TranLow *coeff_ptr, intptr_t n_coeffs, const int16_t *zbin_ptr, const int16_t *round_ptr, const int16_t *quant_ptr,
                       const int16_t *quant_shift_ptr, TranLow *qcoeff_ptr, TranLow *dqcoeff_ptr, const int16_t *dequant_ptr, uint16_t *eob_ptr,
                       const int16_t *scan, const int16_t *iscan);
typedef void (*qfph_fn)(const TranLow *coeff_ptr, intptr_t n_coeffs, const int16_t *zbin_ptr, const int16_t *round_ptr, const int16_t *quant_ptr,
                        const int16_t *quant_shift_ptr, TranLow *qcoeff_ptr, TranLow *dqcoeff_ptr, const int16_t *dequant_ptr, uint16_t *eob_ptr,
                        const int16_t *scan, const int16_t *iscan, int16_t log_scale);

void svt_av1_build_quantizer(AomBitDepth bit_depth, int32_t y_dc_delta_q, int32_t u_dc_delta_q, int32_t u_ac_delta_q, int32_t v_dc_delta_q,
                             int32_t v_ac_delta_q, Quants *const quants, Dequants *const deq);
static Quants   QT[2] ALIGN64;
static Dequants DQT[2] ALIGN64;
static int      qt_ready;
static void     tables_init(void) {
    if (qt_ready) return;
    svt_av1_build_quantizer(AOM_BITS_8, 0, 0, 0, 0, 0, &QT[0], &DQT[0]);
    svt_av1_build_quantizer(AOM_BITS_10, 0, 0, 0, 0, 0, &QT[1], &DQT[1]);
    qt_ready = 1;
}
static const int QIDX_Q[] = {0, 1, 8, 32, 64, 128, 192, 254, 255};
static const int QIDX_T[] = {0, 1, 2, 8, 32, 64, 96, 128, 160, 192, 224, 254, 255};

static int16_t RES16[64 * 64 + 128] ALIGN64;
static int32_t COEF[64 * 64 + 128] ALIGN64, QC[1024 + 128] ALIGN64, DQC[1024 + 128] ALIGN64;
static int32_t CS[32 * 64 + 128] ALIGN64, RS[32 * 64 + 128] ALIGN64; // coefficient / recon arrays re-laid out with the case's stride
static int32_t CSJ[32 * 64 + 128] ALIGN64, RSJ[32 * 64 + 128] ALIGN64; // padding content

static const int DIRPAT[9] = {PAT_LO, PAT_HI, PAT_CHECK, PAT_CHECK_INV, PAT_ALT_COL, PAT_ALT_ROW, PAT_ROWRAMP, PAT_COLRAMP, PAT_TEXTURE};
static int       direct_pat(int i) { return i < 9 ? DIRPAT[i] : PAT_WALK0 + (i - 9); }
// one residual pattern beyond the shared alphabet: "binary texture" = +-(2^bd - 1) with the sign taken from the texture pattern,
// the maximum-energy residual with a flat spectrum (every coefficient of the block is large)
#define PAT_BINTEX 1000
// and "mirrored period-8 binary texture": the same with column x replaced by min(x mod 8, 7 - x mod 8); every row is a period-8,
// mirror-symmetric +-max signal, so a DCT puts the (maximal) energy into the columns 0, 4, 8, 12, .. only
#define PAT_BINTEX8 1001
#define NXRES 2
// source index -> kind / pattern: [0, np) residual alphabet, then the NXRES extra residuals, then the nd direct coefficient patterns
static void src_of(int si, int np, int *kind, int *pat) {
    if (si < np) { *kind = 0; *pat = si; }
    else if (si < np + NXRES) { *kind = 0; *pat = PAT_BINTEX + (si - np); }
    else { *kind = 1; *pat = direct_pat(si - np - NXRES); }
}
static void fill_residual(int16_t *dst, int w, int h, int pat, long hi) {
    if (pat < PAT_BINTEX) { kc_fill_i16(dst, w, h, w, pat, -hi, hi); return; }
    for (int y = 0; y < h; y++)
        for (int x = 0; x < w; x++) {
            int xx = pat == PAT_BINTEX8 ? ((x & 7) < 4 ? (x & 7) : 7 - (x & 7)) : x;
            dst[y * w + x] = (int16_t)(kc_pat_value(PAT_TEXTURE, xx, y, w, h, 0, 1) ? hi : -hi);
        }
}
static const char *res_name(int pat, long hi, char *pn) {
    return pat == PAT_BINTEX ? "binary texture: +-max, sign = texture(x,y) in 0..1" :
           pat == PAT_BINTEX8 ? "mirrored period-8 binary texture: +-max, sign = texture(min(x%8,7-x%8),y) in 0..1" : kc_pat_name(pat, -hi, hi, pn);
}
static int       cw(int ts) { return tx_size_wide[ts] > 32 ? 32 : tx_size_wide[ts]; }
static int       ch(int ts) { return tx_size_high[ts] > 32 ? 32 : tx_size_high[ts]; }

static int coef_from_residual(int ts, int tt, int bd, int pat) {
    char nm[64];
    int  w = tx_size_wide[ts], h = tx_size_high[ts];
    long hi = (1 << bd) - 1;
    snprintf(nm, sizeof nm, "svt_av1_fwd_txfm2d_%dx%d", w, h);
    const Kern *fk = kc_find_kern(nm);
    if (!fk) return 0;
    fill_residual(RES16 + 64, w, h, pat, hi);
    ((fwd_fn)fk->c)(RES16 + 64, COEF + 64, (uint32_t)w, (TxType)tt, (uint8_t)bd);
    if (w == 64 || h == 64) {
        snprintf(nm, sizeof nm, "svt_handle_transform%dx%d", w, h);
        const Kern *hk = kc_find_kern(nm);
        if (!hk) return 0;
        ((handle_fn)hk->c)(COEF + 64);
    }
    return 1;
}
static const char *src_name(int kind, int pat, int bd, long amp, long dcmax, char *buf, size_t n) {
    char pn[32];
    long hi = (1 << bd) - 1, e = pat >= PAT_WALK0 ? dcmax : amp;
    if (kind == 0) snprintf(buf, n, "svt_av1_fwd_txfm2d_c(residual pattern '%s', range +-%ld)", res_name(pat, hi, pn), hi);
    else snprintf(buf, n, "direct coefficient pattern '%s' over +-%ld (DCmax %ld)", kc_pat_name(pat, -e, e, pn), e, dcmax);
    return buf;
}
static const char *RVN[3] = {"quantize_b", "quantize_fp", "quantize_b with every level lowered by one"};

// recon variant rv for the coefficients in COEF: fills DQC + 64, returns eob (0: not in the kernel's domain)
static int make_recon(int rv, int ts, int tt, int bdi, int qi) {
    static const char *FPN[3] = {"svt_av1_quantize_fp", "svt_av1_quantize_fp_32x32", "svt_av1_quantize_fp_64x64"};
    int                ls = av1_get_tx_scale_tab[ts], n = av1_get_max_eob((TxSize)ts);
    const ScanOrder   *so = &av1_scan_orders[ts][tt];
    const int16_t     *zbin = QT[bdi].y_zbin[qi], *rnd = QT[bdi].y_round[qi], *qnt = QT[bdi].y_quant[qi], *sh = QT[bdi].y_quant_shift[qi],
                  *deq = DQT[bdi].y_dequant_qtx[qi], *rfp = QT[bdi].y_round_fp[qi], *qfp = QT[bdi].y_quant_fp[qi];
    uint16_t eob = 0;
    if (rv == 1) {
        const Kern *fk = kc_find_kern(bdi ? "svt_av1_highbd_quantize_fp" : FPN[ls]);
        if (!fk) return 0;
        if (bdi) ((qfph_fn)fk->c)(COEF + 64, n, zbin, rfp, qfp, sh, QC + 64, DQC + 64, deq, &eob, so->scan, so->iscan, (int16_t)ls);
        else ((qfp_fn)fk->c)(COEF + 64, n, zbin, rfp, qfp, sh, QC + 64, DQC + 64, deq, &eob, so->scan, so->iscan);
        return eob;
    }
    const Kern *bk = kc_find_kern(bdi ? "svt_aom_highbd_quantize_b" : "svt_aom_quantize_b");
    if (!bk) return 0;
    ((qb_fn)bk->c)(COEF + 64, n, zbin, rnd, qnt, sh, QC + 64, DQC + 64, deq, &eob, so->scan, so->iscan, NULL, NULL, ls);
    if (rv == 2) {
        int left = 0;
        for (int i = 0; i < n; i++) {
            int32_t q = QC[64 + i], a = q < 0 ? -q : q;
            if (!a) continue;
            a--;
            int32_t dq = (int32_t)(((int64_t)a * deq[i != 0]) >> ls);
            QC[64 + i]  = q < 0 ? -a : a;
            DQC[64 + i] = q < 0 ? -dq : dq;
            left += a != 0;
        }
        if (!left) return 0;
    }
    return eob;
}

// k->a: 0 = svt_full_distortion_kernel32_bits, 1 = svt_full_distortion_kernel_cbf_zero32_bits
void drv_full_dist32(Run *r) {
    const Kern *k = r->k;
    int         zero = k->a;
    const int  *ql = r->thorough ? QIDX_T : QIDX_Q;
    int         nq = zero ? 1 : (int)(r->thorough ? sizeof QIDX_T / sizeof QIDX_T[0] : sizeof QIDX_Q / sizeof QIDX_Q[0]);
    char        sn[200];
    tables_init();
    kc_junk(CSJ, sizeof CSJ, 51);
    kc_junk(RSJ, sizeof RSJ, 52);
    for (int bdi = 0; bdi < 2; bdi++) {
        int  bd = bdi ? 10 : 8;
        long rhi = (1 << bd) - 1;
        int  np = kc_npat(r, -rhi, rhi), nd;
        for (int ts = 0; ts < TX_SIZES_ALL; ts++) {
            int w = cw(ts), h = ch(ts), ls = av1_get_tx_scale_tab[ts], st[4] = {w, w + 1, w + 16, 2 * w};
            // DCmax and the energy-feasible amplitude A of the size (see the header comment)
            if (!coef_from_residual(ts, DCT_DCT, bd, PAT_HI)) continue;
            long dcmax = COEF[64] < 0 ? -(long)COEF[64] : COEF[64], amp = (long)((double)dcmax / sqrt((double)(w * h)));
            nd = 9 + kc_npat(r, -dcmax, dcmax) - PAT_BASE_N;
            for (int tt = 0; tt < TX_TYPES; tt++) {
                if (!tx_type_valid(ts, tt)) continue;
                if (!r->thorough && tt != DCT_DCT && tt != ADST_ADST && tt != IDTX && tt != V_FLIPADST) continue; // element-wise kernel
                for (int si = 0; si < np + NXRES + nd; si++) {
                    int kind, pat, ready = 0;
                    src_of(si, np, &kind, &pat);
                    if (kind == 1 && tt != DCT_DCT) continue;
                    for (int qx = 0; qx < nq; qx++)
                        for (int rv = 0; rv < (zero ? 1 : 3); rv++) {
                            int eob = -1;
                            for (int s = 0; s < 4; s++) {
                                if (r->stop) return;
                                if (case_skip_fast(r)) continue;
                                if (!ready) {
                                    if (kind == 0) { if (!coef_from_residual(ts, tt, bd, pat)) { r->case_idx++; continue; } }
                                    else if (pat >= PAT_WALK0) kc_fill_i32(COEF + 64, w, h, w, pat, -dcmax, dcmax);
                                    else kc_fill_i32(COEF + 64, w, h, w, pat, -amp, amp);
                                    ready = 1;
                                }
                                if (!zero && eob < 0) eob = make_recon(rv, ts, tt, bdi, ql[qx]);
                                if (!zero && eob == 0) { r->case_idx++; continue; } // all-zero block: the library calls the cbf_zero kernel
                                if (!case_begin(r, kc_pat_nontrivial(pat))) continue;
                                size_t tot = 64 + (size_t)h * st[s] + 64;
                                memcpy(CS, CSJ, tot * 4);
                                memcpy(RS, RSJ, tot * 4);
                                for (int y = 0; y < h; y++) {
                                    memcpy(CS + 64 + y * st[s], COEF + 64 + y * w, (size_t)w * 4);
                                    memcpy(RS + 64 + y * st[s], DQC + 64 + y * w, (size_t)w * 4);
                                }
                                uint64_t co[6] ALIGN64 = {0xA5A5A5A5A5A5A5A5ull, 0xA5A5A5A5A5A5A5A5ull, 1, 2, 0xA5A5A5A5A5A5A5A5ull, 0xA5A5A5A5A5A5A5A5ull};
                                if (zero) ((fdz_fn)k->c)(CS + 64, (uint32_t)st[s], co + 2, (uint32_t)w, (uint32_t)h);
                                else ((fd32_fn)k->c)(CS + 64, (uint32_t)st[s], RS + 64, (uint32_t)st[s], co + 2, (uint32_t)w, (uint32_t)h);
                                if (zero)
                                    VERBOSE(r, "case %lld: area %dx%d (tx %dx%d %s) stride=%d bd=%d coeff = %s -> c {%llu, %llu}", r->case_idx - 1, w, h, tx_size_wide[ts],
                                            tx_size_high[ts], TXN[tt], st[s], bd, src_name(kind, pat, bd, amp, dcmax, sn, sizeof sn), (unsigned long long)co[2], (unsigned long long)co[3]);
                                else
                                    VERBOSE(r, "case %lld: area %dx%d (tx %dx%d %s, log_scale %d) strides=%d bd=%d coeff = %s, recon_coeff = dqcoeff of C %s (8/10-bit luma row of qindex %d), eob=%d -> c {residual %llu, prediction %llu}",
                                            r->case_idx - 1, w, h, tx_size_wide[ts], tx_size_high[ts], TXN[tt], ls, st[s], bd, src_name(kind, pat, bd, amp, dcmax, sn, sizeof sn), RVN[rv],
                                            ql[qx], eob, (unsigned long long)co[2], (unsigned long long)co[3]);
                                if (!zero) VERBOSE(r, "  coeff/recon [0]=%d/%d [1]=%d/%d [2]=%d/%d; dequant{%d,%d}", CS[64], RS[64], CS[65], RS[65], CS[66], RS[66],
                                                   DQT[bdi].y_dequant_qtx[ql[qx]][0], DQT[bdi].y_dequant_qtx[ql[qx]][1]);
                                for (int vi = 0; vi < k->nv; vi++) {
                                    if (!var_on(r, vi)) continue;
                                    uint64_t vo[6] ALIGN64 = {0xA5A5A5A5A5A5A5A5ull, 0xA5A5A5A5A5A5A5A5ull, 1, 2, 0xA5A5A5A5A5A5A5A5ull, 0xA5A5A5A5A5A5A5A5ull};
                                    if (zero) ((fdz_fn)k->v[vi].fn)(CS + 64, (uint32_t)st[s], vo + 2, (uint32_t)w, (uint32_t)h);
                                    else ((fd32_fn)k->v[vi].fn)(CS + 64, (uint32_t)st[s], RS + 64, (uint32_t)st[s], vo + 2, (uint32_t)w, (uint32_t)h);
                                    if (!memcmp(co, vo, sizeof co)) continue;
                                    if (zero)
                                        MISMATCH(r, vi, "area %dx%d (tx %dx%d %s) stride=%d bd=%d, coeff = %s: c {%llu, %llu} simd {%llu, %llu} guards %s",
                                                 w, h, tx_size_wide[ts], tx_size_high[ts], TXN[tt], st[s], bd, src_name(kind, pat, bd, amp, dcmax, sn, sizeof sn), (unsigned long long)co[2],
                                                 (unsigned long long)co[3], (unsigned long long)vo[2], (unsigned long long)vo[3],
                                                 (vo[0] ^ co[0]) | (vo[1] ^ co[1]) | (vo[4] ^ co[4]) | (vo[5] ^ co[5]) ? "OVERWRITTEN" : "intact");
                                    else
                                        MISMATCH(r, vi, "area %dx%d (tx %dx%d %s, log_scale %d) strides=%d bd=%d, coeff = %s, recon_coeff = dqcoeff of C %s with the luma row of qindex %d (eob %d): c {residual %llu, prediction %llu} simd {residual %llu, prediction %llu} guards %s",
                                                 w, h, tx_size_wide[ts], tx_size_high[ts], TXN[tt], ls, st[s], bd, src_name(kind, pat, bd, amp, dcmax, sn, sizeof sn), RVN[rv], ql[qx], eob,
                                                 (unsigned long long)co[2], (unsigned long long)co[3], (unsigned long long)vo[2], (unsigned long long)vo[3],
                                                 (vo[0] ^ co[0]) | (vo[1] ^ co[1]) | (vo[4] ^ co[4]) | (vo[5] ^ co[5]) ? "OVERWRITTEN" : "intact");
                                }
                            }
                        }
                }
            }
        }
    }
}

// ================================================================================================ spatial distortion (8 / 16 bit pixels)
// svt_spatial_full_distortion_kernel (8-bit pixels) / svt_full_distortion_kernel16_bits (16-bit containers; "up to 15 bit values":
// the encoder stores 8 or 10 bit samples) (input, input_offset, input_stride, recon, recon_offset, recon_stride, w, h) -> SSE.
// Call sites: transform / block level in mode decision and encode pass (EbFullLoop.c:1744-1761, 2201-2238, EbProductCodingLoop.c:
// 941, 979, 1615, 4483, 7100, EbEncInterPrediction.c:2944-2970) with block or transform sizes, also cropped at the picture
// boundary (cropped_tx_width / height: multiples of 4 in chroma, 8 in luma, up to 64); first pass (firstpass.c:823, 931, 970, 1111)
// with the reference block at a full-pel motion vector (any byte alignment of `recon`); whole-picture SSE for the loop filter
// search (EbDeblockingFilter.c:857-953: width x height of the luma / chroma planes: any multiple of 8 / 4).
// Enumerated sizes: the 22 AV1 block sizes; every other width that is a multiple of 4 up to 192 (covers each "leftover" width mod
// 32 = 0,4,..,28 combined with 0..5 full 32-pixel columns, i.e. every code path of a picture-wide call) with heights 4, 8, 20;
// thorough adds picture-like areas 416x40, 424x36, 212x20.  Stride pairs (input, recon): (w,w) (w+1,w+16) (2w,w+1) (w+16,2w).
// Offsets (input, recon) in samples, passed through the offset arguments: (0,0), (0,1); thorough adds (4,3).  All pattern pairs.
typedef uint64_t (*sfd_fn)(uint8_t *input, uint32_t input_offset, uint32_t input_stride, uint8_t *recon, int32_t recon_offset, uint32_t recon_stride,
                           uint32_t area_width, uint32_t area_height);
#define SD_MAXPAT 32
#define SD_PLANE 36032 // >= 64 + 8 + max rows*stride (416x40 at stride 832, 128x128 at stride 256, 132 rows x 260 for the residual driver) + 256
static uint8_t  P8[2][SD_MAXPAT][SD_PLANE] ALIGN64;
static uint16_t P16[2][SD_MAXPAT][SD_PLANE] ALIGN64;

static int sd_sizes(Run *r, int (*sz)[2]) {
    int n = 0;
    for (int b = 0; b < BlockSizeS_ALL; b++) { sz[n][0] = block_size_wide[b]; sz[n][1] = block_size_high[b]; n++; }
    static const int GH[3] = {4, 8, 20};
    for (int w = 4; w <= 192; w += 4) {
        if (w == 4 || w == 8 || w == 16 || w == 32 || w == 64 || w == 128) continue;
        for (int i = 0; i < 3; i++) { sz[n][0] = w; sz[n][1] = GH[i]; n++; }
    }
    if (r->thorough) {
        static const int PIC[3][2] = {{416, 40}, {424, 36}, {212, 20}};
        for (int i = 0; i < 3; i++) { sz[n][0] = PIC[i][0]; sz[n][1] = PIC[i][1]; n++; }
    }
    return n;
}

// k->a: 0 = 8-bit pixels, 1 = 16-bit containers (bd 8 and 10)
void drv_spatial_dist(Run *r) {
    const Kern *k = r->k;
    int         hbd = k->a, sz[256][2], nsz = sd_sizes(r, sz);
    static const int OFFS[3][2] = {{0, 0}, {0, 1}, {4, 3}};
    char        n1[32], n2[32];
    for (int bdi = 0; bdi < (hbd ? 2 : 1); bdi++) {
        int  bd = hbd && bdi ? 10 : 8;
        long hi = (1 << bd) - 1;
        int  np = kc_npat(r, 0, hi);
        if (np > SD_MAXPAT) np = SD_MAXPAT;
        for (int zi = 0; zi < nsz; zi++) {
            int w = sz[zi][0], h = sz[zi][1];
            int sp[4][2] = {{w, w}, {w + 1, w + 16}, {2 * w, w + 1}, {w + 16, 2 * w}};
            for (int s = 0; s < 4; s++)
                for (int oi = 0; oi < (r->thorough ? 3 : 2); oi++) {
                    int si_ = sp[s][0], sr_ = sp[s][1], io = 64 + OFFS[oi][0], ro = 64 + OFFS[oi][1], filled = 0;
                    for (int pa = 0; pa < np; pa++)
                        for (int pb = 0; pb < np; pb++) {
                            if (r->stop) return;
                            if (case_skip_fast(r)) continue;
                            if (!filled) {
                                // every pattern once per (size, strides, offsets): plane [0] = input, [1] = recon
                                size_t need = 64 + 8 + (size_t)h * (si_ > sr_ ? si_ : sr_) + 128;
                                for (int p = 0; p < np; p++) {
                                    if (hbd) {
                                        for (size_t i = 0; i < need; i++) { P16[0][p][i] = (uint16_t)((i * 2654435761u >> 7) & hi); P16[1][p][i] = (uint16_t)((i * 40503u >> 3) & hi); }
                                        kc_fill_u16(P16[0][p] + io, w, h, si_, p, 0, hi);
                                        kc_fill_u16(P16[1][p] + ro, w, h, sr_, p, 0, hi);
                                    } else {
                                        kc_junk(P8[0][p], need, 3);
                                        kc_junk(P8[1][p], need, 4);
                                        kc_fill_u8(P8[0][p] + io, w, h, si_, p, 0, 255);
                                        kc_fill_u8(P8[1][p] + ro, w, h, sr_, p, 0, 255);
                                    }
                                }
                                filled = 1;
                            }
                            if (!case_begin(r, kc_pat_nontrivial(pa) || kc_pat_nontrivial(pb))) continue;
                            uint8_t *ip = hbd ? (uint8_t *)P16[0][pa] : P8[0][pa], *rp = hbd ? (uint8_t *)P16[1][pb] : P8[1][pb];
                            uint64_t c_ret = ((sfd_fn)k->c)(ip, (uint32_t)io, (uint32_t)si_, rp, ro, (uint32_t)sr_, (uint32_t)w, (uint32_t)h);
                            VERBOSE(r, "case %lld: %dx%d bd=%d input_stride=%d recon_stride=%d input_offset=%d recon_offset=%d (buffers 64-byte aligned) input=%s recon=%s -> c %llu",
                                    r->case_idx - 1, w, h, bd, si_, sr_, io, ro, kc_pat_name(pa, 0, hi, n1), kc_pat_name(pb, 0, hi, n2), (unsigned long long)c_ret);
                            for (int vi = 0; vi < k->nv; vi++) {
                                if (!var_on(r, vi)) continue;
                                uint64_t v_ret = ((sfd_fn)k->v[vi].fn)(ip, (uint32_t)io, (uint32_t)si_, rp, ro, (uint32_t)sr_, (uint32_t)w, (uint32_t)h);
                                if (v_ret != c_ret)
                                    MISMATCH(r, vi, "area %dx%d %s samples (range 0..%ld) input_stride=%d recon_stride=%d input_offset=%d recon_offset=%d from 64-byte aligned buffers, input pattern '%s' recon pattern '%s': c returns %llu, simd returns %llu",
                                             w, h, hbd ? "16-bit" : "8-bit", hi, si_, sr_, io, ro, kc_pat_name(pa, 0, hi, n1), kc_pat_name(pb, 0, hi, n2), (unsigned long long)c_ret,
                                             (unsigned long long)v_ret);
                            }
                        }
                }
        }
    }
}

// ================================================================================================ residual kernels
// svt_residual_kernel8bit / svt_residual_kernel16bit (input, input_stride, pred, pred_stride, residual, residual_stride, w, h):
// residual_kernel() (EbCodingLoop.c:69-93, used from EbProductCodingLoop.c:2784..5906) and the encode pass (EbCodingLoop.c:370, 513,
// 523, 751, 893, 903): area = block size (bwidth x bheight, chroma bwidth_uv x bheight_uv) or transform size, i.e. one of the 22
// AV1 block sizes (widths 4..128 powers of two; the AVX2 kernels switch on the width); pointers are picture / candidate buffers at
// block origins (multiples of 4 samples).  16-bit kernel: 8-bit content in the 16-bit pipeline and 10-bit content.
// Stride triples (input, pred, residual): (w,w,w) (w+1,w+16,2w) (2w,w+1,w+16) (w+16,2w,w+1); all three pointers at offset 0 or 4
// samples from 64-byte alignment; all pattern pairs; the whole residual allocation (64 guard + rows*stride + 64) is compared.
typedef void (*res8_fn)(uint8_t *input, uint32_t input_stride, uint8_t *pred, uint32_t pred_stride, int16_t *residual, uint32_t residual_stride,
                        uint32_t area_width, uint32_t area_height);
typedef void (*res16_fn)(uint16_t *input, uint32_t input_stride, uint16_t *pred, uint32_t pred_stride, int16_t *residual, uint32_t residual_stride,
                         uint32_t area_width, uint32_t area_height);
#define RK_N (64 + 128 * 256 + 4 + 64)
static int16_t RA[RK_N] ALIGN64, RB[RK_N] ALIGN64, RJ[RK_N] ALIGN64;

void drv_residual_kernel(Run *r) {
    const Kern *k = r->k;
    int         hbd = k->a;
    char        n1[32], n2[32];
    kc_junk(RJ, sizeof RJ, 61);
    for (int bdi = 0; bdi < (hbd ? 2 : 1); bdi++) {
        int  bd = hbd && bdi ? 10 : 8;
        long hi = (1 << bd) - 1;
        int  np = kc_npat(r, 0, hi);
        if (np > SD_MAXPAT) np = SD_MAXPAT;
        for (int b = 0; b < BlockSizeS_ALL; b++) {
            int w = block_size_wide[b], h = block_size_high[b];
            int sp[4][3] = {{w, w, w}, {w + 1, w + 16, 2 * w}, {2 * w, w + 1, w + 16}, {w + 16, 2 * w, w + 1}};
            for (int s = 0; s < 4; s++)
                for (int off = 0; off <= 4; off += 4) {
                    int si_ = sp[s][0], sq_ = sp[s][1], sr_ = sp[s][2], filled = 0;
                    size_t tot = 64 + (size_t)off + (size_t)h * sr_ + 64;
                    for (int pa = 0; pa < np; pa++)
                        for (int pb = 0; pb < np; pb++) {
                            if (r->stop) return;
                            if (case_skip_fast(r)) continue;
                            if (!filled) {
                                size_t need = 64 + 8 + (size_t)h * (si_ > sq_ ? si_ : sq_) + 128;
                                for (int p = 0; p < np; p++) {
                                    if (hbd) {
                                        for (size_t i = 0; i < need; i++) { P16[0][p][i] = (uint16_t)((i * 2654435761u >> 7) & hi); P16[1][p][i] = (uint16_t)((i * 40503u >> 3) & hi); }
                                        kc_fill_u16(P16[0][p] + 64 + off, w, h, si_, p, 0, hi);
                                        kc_fill_u16(P16[1][p] + 64 + off, w, h, sq_, p, 0, hi);
                                    } else {
                                        kc_junk(P8[0][p], need, 3);
                                        kc_junk(P8[1][p], need, 4);
                                        kc_fill_u8(P8[0][p] + 64 + off, w, h, si_, p, 0, 255);
                                        kc_fill_u8(P8[1][p] + 64 + off, w, h, sq_, p, 0, 255);
                                    }
                                }
                                filled = 1;
                            }
                            if (!case_begin(r, kc_pat_nontrivial(pa) || kc_pat_nontrivial(pb))) continue;
                            memcpy(RA, RJ, tot * 2);
                            if (hbd) ((res16_fn)k->c)(P16[0][pa] + 64 + off, (uint32_t)si_, P16[1][pb] + 64 + off, (uint32_t)sq_, RA + 64 + off, (uint32_t)sr_, (uint32_t)w, (uint32_t)h);
                            else ((res8_fn)k->c)(P8[0][pa] + 64 + off, (uint32_t)si_, P8[1][pb] + 64 + off, (uint32_t)sq_, RA + 64 + off, (uint32_t)sr_, (uint32_t)w, (uint32_t)h);
                            VERBOSE(r, "case %lld: %dx%d bd=%d strides input/pred/residual %d/%d/%d pointer offset %d samples input=%s pred=%s -> c residual[0..3] = %d %d %d %d",
                                    r->case_idx - 1, w, h, bd, si_, sq_, sr_, off, kc_pat_name(pa, 0, hi, n1), kc_pat_name(pb, 0, hi, n2), RA[64 + off], RA[65 + off], RA[66 + off],
                                    RA[67 + off]);
                            for (int vi = 0; vi < k->nv; vi++) {
                                if (!var_on(r, vi)) continue;
                                memcpy(RB, RJ, tot * 2);
                                if (hbd) ((res16_fn)k->v[vi].fn)(P16[0][pa] + 64 + off, (uint32_t)si_, P16[1][pb] + 64 + off, (uint32_t)sq_, RB + 64 + off, (uint32_t)sr_, (uint32_t)w, (uint32_t)h);
                                else ((res8_fn)k->v[vi].fn)(P8[0][pa] + 64 + off, (uint32_t)si_, P8[1][pb] + 64 + off, (uint32_t)sq_, RB + 64 + off, (uint32_t)sr_, (uint32_t)w, (uint32_t)h);
                                long d = kc_diff(RA, RB, tot * 2);
                                if (d < 0) continue;
                                d /= 2;
                                long rel = d - 64 - off;
                                MISMATCH(r, vi, "area %dx%d %s samples (range 0..%ld) strides input/pred/residual %d/%d/%d, all pointers %d samples past 64-byte alignment, input pattern '%s' pred pattern '%s': first difference at residual offset %ld (row %ld col %ld): c=%d simd=%d (poison %d)",
                                         w, h, hbd ? "16-bit" : "8-bit", hi, si_, sq_, sr_, off, kc_pat_name(pa, 0, hi, n1), kc_pat_name(pb, 0, hi, n2), rel,
                                         rel >= 0 ? rel / sr_ : -1, rel >= 0 ? rel % sr_ : -1, RA[d], RB[d], RJ[d]);
                            }
                        }
                }
        }
    }
}
