/* s2_relhint: exhaustive check of every copy of get_relative_dist found in the library sources (C22, part a).
 *
 * This file is the fixed part of the harness.  lib/s2_c22.py generates "s2_relhint_gen.h" next to it in build/work/c22/ at check
 * time: the text of every `static` copy found in the CURRENT tree (renamed grd_<n>), extern declarations of the non-static ones
 * (linked from the library archive), and the table COPIES[] = { name, kind, function }.
 *
 * For every copy, enable_order_hint in {0,1}, order_hint_bits 1..8 and all (a,b) in [0,2^bits)^2 the result must be
 *   enable ? ((a - b + 2^(bits-1)) mod 2^bits) - 2^(bits-1) : 0          (AV1 specification, get_relative_dist)
 * The expected value is computed with integer division/modulo only (no masks), unlike the implementations.
 */
#include <stdio.h>
#include <string.h>
#include <stdint.h>
#include "EbDefinitions.h"
#include "EbAv1Structs.h"

typedef int (*fn_oh)(const OrderHintInfo *, int, int);
typedef int (*fn_seq)(SeqHeader *, int, int);
typedef struct { const char *name; int kind; /* 0: OrderHintInfo*, 1: SeqHeader* */ void *fn; } Copy;

#include "s2_relhint_gen.h"

static int spec(int enable, int bits, int a, int b) {
    if (!enable) return 0;
    int period = 1, half;
    for (int i = 0; i < bits; i++) period *= 2;
    half = period / 2;
    int d = a - b + half;
    d %= period;
    if (d < 0) d += period;
    return d - half;
}

int main(void) {
    int ncopies = (int)(sizeof(COPIES) / sizeof(COPIES[0]));
    printf("{\"copies\":[");
    for (int c = 0; c < ncopies; c++) {
        long evals = 0, bad = 0;
        int fb[6] = {0, 0, 0, 0, 0, 0};
        uint8_t seen[9][512];
        memset(seen, 0, sizeof seen);
        for (int enable = 0; enable <= 1; enable++)
            for (int bits = 1; bits <= 8; bits++) {
                SeqHeader sh;
                memset(&sh, 0, sizeof sh);
                sh.order_hint_info.enable_order_hint = (uint8_t)enable;
                sh.order_hint_info.order_hint_bits = bits;
                for (int a = 0; a < (1 << bits); a++)
                    for (int b = 0; b < (1 << bits); b++) {
                        int got = COPIES[c].kind == 0 ? ((fn_oh)COPIES[c].fn)(&sh.order_hint_info, a, b)
                                                      : ((fn_seq)COPIES[c].fn)(&sh, a, b);
                        int exp = spec(enable, bits, a, b);
                        evals++;
                        if (enable && got >= -256 && got < 256) seen[bits][got + 256] = 1;
                        if (got != exp) {
                            if (!bad) { fb[0] = enable; fb[1] = bits; fb[2] = a; fb[3] = b; fb[4] = got; fb[5] = exp; }
                            bad++;
                        }
                    }
            }
        long distinct = 0;
        for (int bits = 1; bits <= 8; bits++) for (int i = 0; i < 512; i++) distinct += seen[bits][i];
        printf("%s{\"name\":\"%s\",\"evals\":%ld,\"bad\":%ld,\"distinct_results\":%ld,\"first_bad\":[%d,%d,%d,%d,%d,%d]}", c ? "," : "",
               COPIES[c].name, evals, bad, distinct, fb[0], fb[1], fb[2], fb[3], fb[4], fb[5]);
    }
    printf("]}\n");
    return 0;
}
