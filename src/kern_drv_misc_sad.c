// C07 drivers, group misc, part 2: motion estimation SAD kernels (svt_nxm_sad_kernel*, sad_16b_kernel, variance_highbd,
// svt_sad_loop_kernel, svt_ext_*sad_calculation*), 8x8 mean kernels of picture analysis.
#include "EbDefinitions.h"
#include "kern_core.h"

#define ALIGN64 __attribute__((aligned(64)))
#define NEL(a) ((int)(sizeof(a) / sizeof((a)[0])))
#define MAX_SAD_VALUE_ (128 * 128 * 255) // EbMotionEstimation.h:93, initial value of every best-SAD slot

static int stride4(int w, int i) { return i == 0 ? w : i == 1 ? w + 1 : i == 2 ? w + 16 : 2 * w; }

// ------------------------------------------------------------------------------------------------ two-block SAD style kernels
#define TB_BUF (260 * 130 + 1024)
static uint8_t  A8[TB_BUF] ALIGN64, B8[TB_BUF] ALIGN64;
static uint16_t A16[TB_BUF] ALIGN64, B16[TB_BUF] ALIGN64;

typedef uint32_t (*nxm_fn)(const uint8_t *src, uint32_t src_stride, const uint8_t *ref, uint32_t ref_stride, uint32_t height, uint32_t width);
typedef uint32_t (*sad16b_fn)(uint16_t *src, uint32_t src_stride, uint16_t *ref, uint32_t ref_stride, uint32_t height, uint32_t width);
typedef uint32_t (*varhbd_fn)(const uint16_t *a, int a_stride, const uint16_t *b, int b_stride, int w, int h, uint32_t *sse);

typedef struct { int w, h; } WH;
// the 22 AV1 block sizes (luma bwidth x bheight; the 4:2:0 chroma sizes bwidth_uv x bheight_uv are a subset)
static const WH AV1_SIZES[] = {{4, 4},   {4, 8},   {4, 16},  {8, 4},   {8, 8},   {8, 16},  {8, 32},   {16, 4},   {16, 8},  {16, 16}, {16, 32},
                               {16, 64}, {32, 8},  {32, 16}, {32, 32}, {32, 64}, {64, 16}, {64, 32},  {64, 64},  {64, 128}, {128, 64}, {128, 128}};

// mode 0: 8-bit nxm sad (height,width order), 1: 16-bit sad (10-bit samples), 2: variance_highbd (w,h,&sse)
static void two_block(Run *r, const WH *sz, int nsz, int mode) {
    const Kern *k = r->k;
    long        hi = mode == 0 ? 255 : 1023;
    int         np = kc_npat(r, 0, hi);
    char        n1[32], n2[32];
    kc_junk(A8, sizeof A8, 3);
    kc_junk(B8, sizeof B8, 4);
    for (size_t i = 0; i < TB_BUF; i++) { A16[i] = (uint16_t)((i * 2654435761u >> 7) & 1023); B16[i] = (uint16_t)((i * 40503u >> 3) & 1023); }
    for (int zi = 0; zi < nsz; zi++) {
        int w = sz[zi].w, h = sz[zi].h;
        // all 16 stride pairs for blocks up to 1024 samples; 4 pairs (every option once per argument) above (quick) / all (thorough)
        int full = r->thorough || w * h <= 1024;
        for (int sc = 0; sc < (full ? 16 : 4); sc++) {
            int sa = stride4(w, full ? sc >> 2 : sc), sb = stride4(w, full ? sc & 3 : (sc + 1) & 3);
            for (int roff = 0; roff < 2; roff++) // reference / prediction blocks are at arbitrary positions
                for (int pa = 0; pa < np; pa++) {
                    if (r->stop) return;
                    if (mode == 0) kc_fill_u8(A8 + 64, w, h, sa, pa, 0, hi);
                    else kc_fill_u16(A16 + 64, w, h, sa, pa, 0, hi);
                    for (int pb = 0; pb < np; pb++) {
                        if (r->stop) return;
                        if (case_skip_fast(r)) continue;
                        if (mode == 0) kc_fill_u8(B8 + 64 + roff, w, h, sb, pb, 0, hi);
                        else kc_fill_u16(B16 + 64 + roff, w, h, sb, pb, 0, hi);
                        if (!case_begin(r, kc_pat_nontrivial(pa) || kc_pat_nontrivial(pb))) continue;
                        uint32_t c_ret, c_sse = 0xA5A5A5A5u;
                        if (mode == 0) c_ret = ((nxm_fn)k->c)(A8 + 64, (uint32_t)sa, B8 + 64 + roff, (uint32_t)sb, (uint32_t)h, (uint32_t)w);
                        else if (mode == 1) c_ret = ((sad16b_fn)k->c)(A16 + 64, (uint32_t)sa, B16 + 64 + roff, (uint32_t)sb, (uint32_t)h, (uint32_t)w);
                        else c_ret = ((varhbd_fn)k->c)(A16 + 64, sa, B16 + 64 + roff, sb, w, h, &c_sse);
                        VERBOSE(r, "case %lld: %dx%d strides %d/%d ref_offset=%d src=%s ref=%s (0..%ld) -> c ret=%u sse=%u", r->case_idx - 1, w, h, sa, sb, roff,
                                kc_pat_name(pa, 0, hi, n1), kc_pat_name(pb, 0, hi, n2), hi, c_ret, c_sse);
                        for (int vi = 0; vi < k->nv; vi++) {
                            if (!var_on(r, vi)) continue;
                            uint32_t v_ret, v_sse = 0xA5A5A5A5u;
                            if (mode == 0) v_ret = ((nxm_fn)k->v[vi].fn)(A8 + 64, (uint32_t)sa, B8 + 64 + roff, (uint32_t)sb, (uint32_t)h, (uint32_t)w);
                            else if (mode == 1) v_ret = ((sad16b_fn)k->v[vi].fn)(A16 + 64, (uint32_t)sa, B16 + 64 + roff, (uint32_t)sb, (uint32_t)h, (uint32_t)w);
                            else v_ret = ((varhbd_fn)k->v[vi].fn)(A16 + 64, sa, B16 + 64 + roff, sb, w, h, &v_sse);
                            if (v_ret != c_ret || v_sse != c_sse)
                                MISMATCH(r, vi, "width=%d height=%d src_stride=%d ref_stride=%d ref_offset=%d src pattern '%s' ref pattern '%s' (values 0..%ld): c returns %u (sse %u), simd returns %u (sse %u)",
                                         w, h, sa, sb, roff, kc_pat_name(pa, 0, hi, n1), kc_pat_name(pb, 0, hi, n2), hi, c_ret, c_sse, v_ret, v_sse);
                        }
                    }
                }
        }
    }
}
// svt_nxm_sad_kernel_sub_sampled: callers pass (bheight, bwidth) / (bheight_uv, bwidth_uv) of the block geometry (EbProductCodingLoop.c:953,
// 1002, 1635, 2352, 2405, 6668) and 16x16 (EbRateControlProcess.c:327): the 22 AV1 block sizes (heights are multiples of 4 as the AVX2
// 4xM/8xM code requires).
void drv_misc_nxm_sad_sub(Run *r) { two_block(r, AV1_SIZES, NEL(AV1_SIZES), 0); }
// svt_nxm_sad_kernel: callers EbMotionEstimationProcess.c:618 (16x16) and check_00_center (EbMotionEstimation.c:1365, 1402) with width =
// sb_width (multiples of 8 up to 64, the picture width being a multiple of 8) and height = sb_height >> 1 (multiples of 4 up to 32).
void drv_misc_nxm_sad(Run *r) {
    static WH sz[65];
    int       n = 0;
    for (int w = 8; w <= 64; w += 8)
        for (int h = 4; h <= 32; h += 4) { sz[n].w = w; sz[n].h = h; n++; }
    two_block(r, sz, n, 0); // contains 16x16
}
// sad_16b_kernel: same callers as the sub_sampled kernel on the hbd_mode_decision path (EbProductCodingLoop.c:962, 1018, 1627, 2345, 2398,
// 6684), 10-bit samples, the 22 AV1 block sizes.
void drv_misc_sad16b(Run *r) { two_block(r, AV1_SIZES, NEL(AV1_SIZES), 1); }
// variance_highbd: temporal filter only (EbTemporalFiltering.c:1291.. 16x16, :1614.. 32x32), 10-bit samples ("assert(w == h)", 16 or 32).
void drv_misc_variance_highbd(Run *r) {
    static const WH sz[] = {{16, 16}, {32, 32}};
    two_block(r, sz, 2, 2);
}

// ------------------------------------------------------------------------------------------------ svt_sad_loop_kernel
// Callers: hme_level_0 / hme_level_1 / hme_level_2 (EbMotionEstimation.c:998, 1146, 1291).
//   level 0 (1/16 picture): block = (sb_width>>2) x (sb_height>>2 or, SUB_SAD, sb_height>>3), sb sizes multiples of 8 up to 64
//            -> width 2..16 step 2, height 2..16 step 2 or 1..8; search_area_width any 1..15 or a multiple of 16 (:962)
//   level 1 (1/4):  width 4..32 step 4, height 4..32 step 4 or 2..16 step 2; search_area_width 1..7 or a multiple of 8 (:1110)
//   level 2 (full): width 8..64 step 8, height 8..64 step 8 or 4..32 step 4; search_area_width 1..7 or a multiple of 8 (:1258)
//   ref_stride = picture stride (or twice that with SUB_SAD), src_stride_raw = picture stride = step between search rows;
//   search_area_height >= 1.  Compared: *best_sad, *x_search_center, *y_search_center (all positions with the minimal SAD must
//   resolve to the same (first in raster order) position: constant patterns tie everywhere).
typedef void (*sad_loop_fn)(uint8_t *src, uint32_t src_stride, uint8_t *ref, uint32_t ref_stride, uint32_t block_height, uint32_t block_width,
                            uint64_t *best_sad, int16_t *x_search_center, int16_t *y_search_center, uint32_t src_stride_raw, int16_t search_area_width,
                            int16_t search_area_height);
#define SL_SRC (64 * 128 + 1024)
#define SL_REF ((64 + 48 + 16 + 64) * (128 + 16) + 4096)
static uint8_t SLS[SL_SRC] ALIGN64, SLR[SL_REF] ALIGN64;

void drv_misc_sad_loop(Run *r) {
    const Kern      *k = r->k;
    static uint8_t   seen[65][65][34];
    static const int PQ[] = {PAT_LO, PAT_HI, PAT_CHECK, PAT_COLRAMP, PAT_TEXTURE, PAT_HI_BR, PAT_ALT_ROW};
    static const int PT[] = {PAT_LO, PAT_HI, PAT_CHECK, PAT_COLRAMP, PAT_TEXTURE, PAT_HI_BR, PAT_ALT_ROW, PAT_CHECK_INV, PAT_ROWRAMP, PAT_LO_TL, PAT_WALK0 + 2};
    static const int sw0q[] = {1, 3, 7, 8, 9, 15, 16, 32}, sw1q[] = {1, 3, 7, 8, 16, 24};
    static const int sw0t[] = {1, 2, 3, 4, 5, 6, 7, 8, 9, 10, 11, 12, 13, 14, 15, 16, 32}, sw1t[] = {1, 2, 3, 4, 5, 6, 7, 8, 16, 24, 32};
    static const int shq[] = {1, 3}, sht[] = {1, 2, 5};
    const int       *PS = r->thorough ? PT : PQ;
    int              np = r->thorough ? NEL(PT) : NEL(PQ);
    long long        geom = 0;
    char             n1[32], n2[32];
    static const char *CPN[4] = {"copy@(0,0) of ", "copy@(last,last) of ", "copy@(first column right of the area, last row) of ", "copy@(0, first row below the area) of "};
    static const char *CPL[4] = {"= reference block at (0,0) of", "= reference block at the last search position of",
                                 "= reference block at (search_area_width, search_area_height-1), i.e. just outside the search area, of",
                                 "= reference block at (0, search_area_height), i.e. just below the search area, of"};
    memset(seen, 0, sizeof seen);
    kc_junk(SLS, sizeof SLS, 31);
    kc_junk(SLR, sizeof SLR, 32);
    for (int level = 0; level < 3; level++) {
        int        step = 2 << level; // block size granularity 2 / 4 / 8
        const int *sws = level == 0 ? (r->thorough ? sw0t : sw0q) : (r->thorough ? sw1t : sw1q);
        int        nsw = level == 0 ? (r->thorough ? NEL(sw0t) : NEL(sw0q)) : (r->thorough ? NEL(sw1t) : NEL(sw1q));
        for (int w = step; w <= 8 * step; w += step)
            for (int hsel = 0; hsel < 16; hsel++) {
                int h = hsel < 8 ? (hsel + 1) * step : (hsel - 7) * (step / 2); // full heights, then the SUB_SAD halves
                for (int swi = 0; swi < nsw; swi++) {
                    int sw = sws[swi];
                    if (seen[w][h][sw]) continue;
                    seen[w][h][sw] = 1;
                    for (int shi = 0; shi < (r->thorough ? NEL(sht) : NEL(shq)); shi++) {
                        int sh = r->thorough ? sht[shi] : shq[shi];
                        // strides / sub-sampling / reference alignment rotate with the geometry index
                        for (int rot = 0; rot < 1; rot++, geom++) {
                            int g = (int)(geom % 24);
                            int ss = stride4(w, g & 3), mult = 1 + ((g >> 2) & 1), ri = g / 8, roff = (int)((geom / 24) & 1);
                            // the reference picture continues beyond the search area: 8 more columns and one more row carry the pattern too, so
                            // that an implementation evaluating a position outside the search area finds real (possibly better matching) data
                            int aw = w + sw - 1 + 8, ah = (h - 1) * mult + sh + 1;
                            int R = ri == 0 ? aw : ri == 1 ? aw + 1 : aw + 16;
                            uint8_t *ref = SLR + 64 + roff;
                            for (int pb = 0; pb < np; pb++) {
                                int patb = PS[pb];
                                if (r->stop) return;
                                if (r->only_case < 0 || (r->case_idx <= r->only_case && r->only_case < r->case_idx + np + 4))
                                    kc_fill_u8(ref, aw, ah, R, patb, 0, 255);
                                // pa == np .. np+3: src = the reference block (same pattern) at search position (0,0) / (sw-1, sh-1) = last valid /
                                // (sw, sh-1) = first position right of the search area / (0, sh) = first position below the search area
                                for (int pa = 0; pa < np + 4; pa++) {
                                    int pata = pa < np ? PS[pa] : patb;
                                    if (r->stop) return;
                                    if (case_skip_fast(r)) continue;
                                    int ox = pa == np + 1 ? sw - 1 : pa == np + 2 ? sw : 0, oy = (pa == np + 1 || pa == np + 2) ? sh - 1 : pa == np + 3 ? sh : 0;
                                    if (pa < np) kc_fill_u8(SLS + 64, w, h, ss, pata, 0, 255);
                                    else
                                        for (int y = 0; y < h; y++)
                                            for (int x = 0; x < w; x++) SLS[64 + y * ss + x] = (uint8_t)kc_pat_value(patb, x + ox, y * mult + oy, aw, ah, 0, 255);
                                    if (!case_begin(r, kc_pat_nontrivial(pata) || kc_pat_nontrivial(patb))) continue;
                                    uint64_t c_best = 0xA5A5A5A5A5A5A5A5ull;
                                    int16_t  c_x = 0x5A5A, c_y = 0x5A5A;
                                    ((sad_loop_fn)k->c)(SLS + 64, (uint32_t)ss, ref, (uint32_t)(R * mult), (uint32_t)h, (uint32_t)w, &c_best, &c_x, &c_y, (uint32_t)R, (int16_t)sw,
                                                        (int16_t)sh);
                                    VERBOSE(r, "case %lld: block %dx%d search area %dx%d src_stride=%d ref_stride=%d src_stride_raw=%d ref_offset=%d src=%s%s ref area=%s -> c best_sad=%llu x=%d y=%d",
                                            r->case_idx - 1, w, h, sw, sh, ss, R * mult, R, roff, pa < np ? "" : CPN[pa - np],
                                            kc_pat_name(pata, 0, 255, n1), kc_pat_name(patb, 0, 255, n2), (unsigned long long)c_best, c_x, c_y);
                                    for (int vi = 0; vi < k->nv; vi++) {
                                        if (!var_on(r, vi)) continue;
                                        uint64_t v_best = 0xA5A5A5A5A5A5A5A5ull;
                                        int16_t  v_x = 0x5A5A, v_y = 0x5A5A;
                                        ((sad_loop_fn)k->v[vi].fn)(SLS + 64, (uint32_t)ss, ref, (uint32_t)(R * mult), (uint32_t)h, (uint32_t)w, &v_best, &v_x, &v_y, (uint32_t)R,
                                                                   (int16_t)sw, (int16_t)sh);
                                        if (v_best != c_best || v_x != c_x || v_y != c_y)
                                            MISMATCH(r, vi, "block_width=%d block_height=%d search_area_width=%d search_area_height=%d src_stride=%d ref_stride=%d src_stride_raw=%d ref_offset=%d, src %s pattern '%s', reference area (%dx%d) pattern '%s': c best_sad=%llu at (x=%d,y=%d), simd best_sad=%llu at (x=%d,y=%d)",
                                                     w, h, sw, sh, ss, R * mult, R, roff, pa < np ? "=" : CPL[pa - np],
                                                     kc_pat_name(pata, 0, 255, n1), aw, ah, kc_pat_name(patb, 0, 255, n2), (unsigned long long)c_best, c_x, c_y,
                                                     (unsigned long long)v_best, v_x, v_y);
                                    }
                                }
                            }
                        }
                    }
                }
            }
    }
}

// ------------------------------------------------------------------------------------------------ svt_ext_sad_calculation_8x8_16x16
static const uint32_t MVS[] = {0x00000000u, 0x00100020u, 0xFF80FF00u, 0x0004FFF0u, 0x7FFC7FE4u};
#define MV_INIT 0x11112222u
typedef void (*ext_sad16_fn)(uint8_t *src, uint32_t src_stride, uint8_t *ref, uint32_t ref_stride, uint32_t *p_best_sad_8x8, uint32_t *p_best_sad_16x16,
                             uint32_t *p_best_mv8x8, uint32_t *p_best_mv16x16, uint32_t mv, uint32_t *p_sad16x16, uint32_t *p_sad8x8, EbBool sub_sad);
// one output record, junk-initialised, compared as a whole: guards around every array
typedef struct {
    uint32_t g0[4], best8[4], g1[4], best16[1], g2[4], mv8[4], g3[4], mv16[1], g4[4], sad16[1], g5[4], sad8[4], g6[4];
} Ext16Out;
// Callers: open_loop_me_get_search_point_results_block (EbMotionEstimation.c:558-789): src = 16x16 block of the 64x64 source SB (stride
// sb_src_stride), ref = search position in the padded reference (any alignment), sub_sad 0/1, mv = (y<<18)|(x<<2 & 0xffff); the best
// arrays start at MAX_SAD_VALUE (svt_initialize_buffer_32bits) and decrease.  Best-array states enumerated: MAX_SAD_VALUE, 0, exactly the
// SAD of this call (tie: no update), that + 1 (update).
void drv_misc_ext_sad_8x8_16x16(Run *r) {
    const Kern *k = r->k;
    int         np = kc_npat(r, 0, 255);
    char        n1[32], n2[32];
    long long   rot = 0;
    kc_junk(A8, sizeof A8, 3);
    kc_junk(B8, sizeof B8, 4);
    for (int sc = 0; sc < 16; sc++)
        for (int roff = 0; roff < 2; roff++)
            for (int sub = 0; sub < 2; sub++)
                for (int pa = 0; pa < np; pa++) {
                    int sa = stride4(16, sc >> 2), sb = stride4(16, sc & 3);
                    if (r->stop) return;
                    kc_fill_u8(A8 + 64, 16, 16, sa, pa, 0, 255);
                    for (int pb = 0; pb < np; pb++)
                        for (int init = 0; init < 4; init++, rot++) {
                            if (r->stop) return;
                            if (case_skip_fast(r)) continue;
                            kc_fill_u8(B8 + 64 + roff, 16, 16, sb, pb, 0, 255);
                            if (!case_begin(r, kc_pat_nontrivial(pa) || kc_pat_nontrivial(pb))) continue;
                            uint32_t mv = MVS[rot % NEL(MVS)];
                            Ext16Out fresh, c, v, ini;
                            kc_junk(&ini, sizeof ini, 41);
                            for (int i = 0; i < 4; i++) { ini.best8[i] = MAX_SAD_VALUE_; ini.mv8[i] = MV_INIT + i; }
                            ini.best16[0] = MAX_SAD_VALUE_; ini.mv16[0] = MV_INIT + 9;
                            if (init == 1) { for (int i = 0; i < 4; i++) ini.best8[i] = 0; ini.best16[0] = 0; }
                            if (init >= 2) {
                                fresh = ini;
                                ((ext_sad16_fn)k->c)(A8 + 64, (uint32_t)sa, B8 + 64 + roff, (uint32_t)sb, fresh.best8, fresh.best16, fresh.mv8, fresh.mv16, mv, fresh.sad16,
                                                     fresh.sad8, (EbBool)sub);
                                for (int i = 0; i < 4; i++) ini.best8[i] = fresh.sad8[i] + (init == 3);
                                ini.best16[0] = fresh.sad16[0] + (init == 3);
                            }
                            c = ini;
                            ((ext_sad16_fn)k->c)(A8 + 64, (uint32_t)sa, B8 + 64 + roff, (uint32_t)sb, c.best8, c.best16, c.mv8, c.mv16, mv, c.sad16, c.sad8, (EbBool)sub);
                            VERBOSE(r, "case %lld: strides %d/%d ref_offset=%d sub_sad=%d mv=0x%08x init=%d src=%s ref=%s -> c sad8x8 %u %u %u %u sad16x16 %u best16 %u mv16 0x%x", r->case_idx - 1,
                                    sa, sb, roff, sub, mv, init, kc_pat_name(pa, 0, 255, n1), kc_pat_name(pb, 0, 255, n2), c.sad8[0], c.sad8[1], c.sad8[2], c.sad8[3], c.sad16[0],
                                    c.best16[0], c.mv16[0]);
                            for (int vi = 0; vi < k->nv; vi++) {
                                if (!var_on(r, vi)) continue;
                                v = ini;
                                ((ext_sad16_fn)k->v[vi].fn)(A8 + 64, (uint32_t)sa, B8 + 64 + roff, (uint32_t)sb, v.best8, v.best16, v.mv8, v.mv16, mv, v.sad16, v.sad8, (EbBool)sub);
                                if (memcmp(&c, &v, sizeof c))
                                    MISMATCH(r, vi, "src_stride=%d ref_stride=%d ref_offset=%d sub_sad=%d mv=0x%08x best arrays initialised %s, src pattern '%s' ref pattern '%s': c sad8x8 {%u,%u,%u,%u} sad16x16 %u best8 {%u,%u,%u,%u} mv8 {%x,%x,%x,%x} best16 %u mv16 %x; simd sad8x8 {%u,%u,%u,%u} sad16x16 %u best8 {%u,%u,%u,%u} mv8 {%x,%x,%x,%x} best16 %u mv16 %x (or a guard word differs)",
                                             sa, sb, roff, sub, mv, init == 0 ? "MAX_SAD_VALUE" : init == 1 ? "0" : init == 2 ? "= this SAD (tie)" : "= this SAD + 1",
                                             kc_pat_name(pa, 0, 255, n1), kc_pat_name(pb, 0, 255, n2), c.sad8[0], c.sad8[1], c.sad8[2], c.sad8[3], c.sad16[0], c.best8[0], c.best8[1],
                                             c.best8[2], c.best8[3], c.mv8[0], c.mv8[1], c.mv8[2], c.mv8[3], c.best16[0], c.mv16[0], v.sad8[0], v.sad8[1], v.sad8[2], v.sad8[3],
                                             v.sad16[0], v.best8[0], v.best8[1], v.best8[2], v.best8[3], v.mv8[0], v.mv8[1], v.mv8[2], v.mv8[3], v.best16[0], v.mv16[0]);
                            }
                        }
                }
}

// ------------------------------------------------------------------------------------------------ svt_ext_all_sad_calculation_8x8_16x16
typedef void (*ext_all_fn)(uint8_t *src, uint32_t src_stride, uint8_t *ref, uint32_t ref_stride, uint32_t mv, uint32_t *p_best_sad_8x8, uint32_t *p_best_sad_16x16,
                           uint32_t *p_best_mv8x8, uint32_t *p_best_mv16x16, uint32_t p_eight_sad16x16[16][8], uint32_t p_eight_sad8x8[64][8], EbBool sub_sad);
typedef struct {
    uint32_t g0[8], best8[64], g1[8], best16[16], g2[8], mv8[64], g3[8], mv16[16], g4[8], e16[16][8], g5[8], e8[64][8], g6[8];
} ExtAllOut;
static void ext_all_init(ExtAllOut *o) {
    kc_junk(o, sizeof *o, 43);
    for (int i = 0; i < 64; i++) { o->best8[i] = MAX_SAD_VALUE_; o->mv8[i] = MV_INIT + (uint32_t)i; }
    for (int i = 0; i < 16; i++) { o->best16[i] = MAX_SAD_VALUE_; o->mv16[i] = MV_INIT + 100 + (uint32_t)i; }
}
// Caller: open_loop_me_get_eight_search_point_results_block (EbMotionEstimation.c:484): src = the 64x64 source SB, ref = 8 consecutive
// horizontal search positions (64+7 columns x 64 rows are read), sub_sad 0/1.  Best-array states as above (tie state = the minima of
// this call).
void drv_misc_ext_all_sad(Run *r) {
    const Kern      *k = r->k;
    int              np = kc_npat(r, 0, 255);
    char             n1[32], n2[32];
    long long        rot = 0;
    static ExtAllOut fresh, c, v, ini;
    kc_junk(A8, sizeof A8, 3);
    kc_junk(B8, sizeof B8, 4);
    for (int sc = 0; sc < (r->thorough ? 16 : 4); sc++)
        for (int sub = 0; sub < 2; sub++)
            for (int pa = 0; pa < np; pa++) {
                int sa = stride4(64, r->thorough ? sc >> 2 : sc), sb = stride4(72, r->thorough ? sc & 3 : (sc + 1) & 3), roff = sc & 1;
                if (r->stop) return;
                kc_fill_u8(A8 + 64, 64, 64, sa, pa, 0, 255);
                for (int pb = 0; pb < np; pb++) {
                    int filled = 0;
                    for (int init = 0; init < 4; init++, rot++) {
                        if (r->stop) return;
                        if (case_skip_fast(r)) continue;
                        if (!filled) { kc_fill_u8(B8 + 64 + roff, 71, 64, sb, pb, 0, 255); filled = 1; }
                        if (!case_begin(r, kc_pat_nontrivial(pa) || kc_pat_nontrivial(pb))) continue;
                        uint32_t mv = MVS[rot % NEL(MVS)];
                        ext_all_init(&ini);
                        if (init == 1) { memset(ini.best8, 0, sizeof ini.best8); memset(ini.best16, 0, sizeof ini.best16); }
                        if (init >= 2) {
                            fresh = ini;
                            ((ext_all_fn)k->c)(A8 + 64, (uint32_t)sa, B8 + 64 + roff, (uint32_t)sb, mv, fresh.best8, fresh.best16, fresh.mv8, fresh.mv16, fresh.e16, fresh.e8, (EbBool)sub);
                            for (int i = 0; i < 64; i++) ini.best8[i] = fresh.best8[i] + (init == 3);
                            for (int i = 0; i < 16; i++) ini.best16[i] = fresh.best16[i] + (init == 3);
                        }
                        c = ini;
                        ((ext_all_fn)k->c)(A8 + 64, (uint32_t)sa, B8 + 64 + roff, (uint32_t)sb, mv, c.best8, c.best16, c.mv8, c.mv16, c.e16, c.e8, (EbBool)sub);
                        VERBOSE(r, "case %lld: strides %d/%d ref_offset=%d sub_sad=%d mv=0x%08x init=%d src=%s ref=%s -> c best16[0]=%u mv16[0]=0x%x e16[0][0..1]=%u %u", r->case_idx - 1, sa, sb,
                                roff, sub, mv, init, kc_pat_name(pa, 0, 255, n1), kc_pat_name(pb, 0, 255, n2), c.best16[0], c.mv16[0], c.e16[0][0], c.e16[0][1]);
                        for (int vi = 0; vi < k->nv; vi++) {
                            if (!var_on(r, vi)) continue;
                            v = ini;
                            ((ext_all_fn)k->v[vi].fn)(A8 + 64, (uint32_t)sa, B8 + 64 + roff, (uint32_t)sb, mv, v.best8, v.best16, v.mv8, v.mv16, v.e16, v.e8, (EbBool)sub);
                            long d = kc_diff(&c, &v, sizeof c);
                            if (d >= 0) {
                                const char *what = "guard";
                                long        idx = 0;
                                size_t      o = (size_t)d;
#define FIELD(f) if (o >= offsetof(ExtAllOut, f) && o < offsetof(ExtAllOut, f) + sizeof c.f) { what = #f; idx = (long)((o - offsetof(ExtAllOut, f)) / 4); }
                                FIELD(best8) FIELD(best16) FIELD(mv8) FIELD(mv16) FIELD(e16) FIELD(e8)
#undef FIELD
                                MISMATCH(r, vi, "src_stride=%d ref_stride=%d ref_offset=%d sub_sad=%d mv=0x%08x best arrays initialised %s, src (64x64) pattern '%s' ref (71x64) pattern '%s': first difference in %s[%ld] (best8=p_best_sad_8x8, mv8=p_best_mv8x8, e16=p_eight_sad16x16[blk][pos], e8=p_eight_sad8x8[blk][pos]): c 0x%x simd 0x%x",
                                         sa, sb, roff, sub, mv, init == 0 ? "MAX_SAD_VALUE" : init == 1 ? "0" : init == 2 ? "= minima of this call (tie)" : "= minima of this call + 1",
                                         kc_pat_name(pa, 0, 255, n1), kc_pat_name(pb, 0, 255, n2), what, idx, ((uint32_t *)&c)[d / 4], ((uint32_t *)&v)[d / 4]);
                            }
                        }
                    }
                }
            }
}

// ------------------------------------------------------------------------------------------------ svt_ext_sad_calculation_32x32_64x64
typedef void (*ext32_fn)(uint32_t *p_sad16x16, uint32_t *p_best_sad_32x32, uint32_t *p_best_sad_64x64, uint32_t *p_best_mv32x32, uint32_t *p_best_mv64x64, uint32_t mv,
                         uint32_t *p_sad32x32);
typedef struct {
    uint32_t g0[4], best32[4], g1[4], best64[1], g2[4], mv32[4], g3[4], mv64[1], g4[4], sad32[4], g5[4];
} Ext32Out;
// Caller EbMotionEstimation.c:802: p_sad16x16[16] = the 16x16 SADs written by svt_ext_sad_calculation_8x8_16x16: each in 0..4*16320 = 65280.
// Enumerated: the complete {0, 65280}^16 cube, then the pattern alphabet over the 16 values (as a 4x4 block, range 0..65280) - each with
// the four best-array states and the mv alphabet rotating.
void drv_misc_ext_sad_32x32_64x64(Run *r) {
    const Kern *k = r->k;
    long        hi = 65280;
    int         np = kc_npat(r, 0, hi);
    char        n1[32];
    long long   rot = 0;
    for (long ci = 0; ci < 65536 + np; ci++)
        for (int init = 0; init < 4; init++, rot++) {
            if (r->stop) return;
            if (case_skip_fast(r)) continue;
            uint32_t in[16 + 8], inv[16 + 8];
            for (int i = 0; i < 16; i++) in[i] = ci < 65536 ? (((ci >> i) & 1) ? (uint32_t)hi : 0u) : (uint32_t)kc_pat_value((int)(ci - 65536), i & 3, i >> 2, 4, 4, 0, hi);
            for (int i = 16; i < 24; i++) in[i] = 0xDEADBEEFu;
            if (!case_begin(r, ci != 0 && ci != 65535 && !(ci >= 65536 && !kc_pat_nontrivial((int)(ci - 65536))))) continue;
            uint32_t mv = MVS[rot % NEL(MVS)];
            Ext32Out fresh, c, v, ini;
            kc_junk(&ini, sizeof ini, 45);
            for (int i = 0; i < 4; i++) { ini.best32[i] = MAX_SAD_VALUE_; ini.mv32[i] = MV_INIT + (uint32_t)i; }
            ini.best64[0] = MAX_SAD_VALUE_; ini.mv64[0] = MV_INIT + 9;
            if (init == 1) { memset(ini.best32, 0, sizeof ini.best32); ini.best64[0] = 0; }
            if (init >= 2) {
                fresh = ini;
                memcpy(inv, in, sizeof in);
                ((ext32_fn)k->c)(inv, fresh.best32, fresh.best64, fresh.mv32, fresh.mv64, mv, fresh.sad32);
                for (int i = 0; i < 4; i++) ini.best32[i] = fresh.sad32[i] + (init == 3);
                ini.best64[0] = fresh.sad32[0] + fresh.sad32[1] + fresh.sad32[2] + fresh.sad32[3] + (init == 3);
            }
            c = ini;
            memcpy(inv, in, sizeof in);
            ((ext32_fn)k->c)(inv, c.best32, c.best64, c.mv32, c.mv64, mv, c.sad32);
            VERBOSE(r, "case %lld: p_sad16x16 %s 0x%lx init=%d mv=0x%08x -> c sad32 %u %u %u %u best64 %u mv64 0x%x", r->case_idx - 1, ci < 65536 ? "cube mask" : "pattern", ci < 65536 ? ci : ci - 65536,
                    init, mv, c.sad32[0], c.sad32[1], c.sad32[2], c.sad32[3], c.best64[0], c.mv64[0]);
            for (int vi = 0; vi < k->nv; vi++) {
                if (!var_on(r, vi)) continue;
                v = ini;
                memcpy(inv, in, sizeof in);
                ((ext32_fn)k->v[vi].fn)(inv, v.best32, v.best64, v.mv32, v.mv64, mv, v.sad32);
                if (memcmp(&c, &v, sizeof c) || memcmp(in, inv, sizeof in))
                    MISMATCH(r, vi, "p_sad16x16[i] = %s, mv=0x%08x best arrays initialised %s: c sad32 {%u,%u,%u,%u} best32 {%u,%u,%u,%u} mv32 {%x,%x,%x,%x} best64 %u mv64 %x; simd sad32 {%u,%u,%u,%u} best32 {%u,%u,%u,%u} mv32 {%x,%x,%x,%x} best64 %u mv64 %x (or a guard / input word differs)",
                             ci < 65536 ? (sprintf(n1, "bit i of 0x%04lx ? 65280 : 0", ci), n1) : kc_pat_name((int)(ci - 65536), 0, hi, n1), mv,
                             init == 0 ? "MAX_SAD_VALUE" : init == 1 ? "0" : init == 2 ? "= this SAD (tie)" : "= this SAD + 1", c.sad32[0], c.sad32[1], c.sad32[2], c.sad32[3], c.best32[0],
                             c.best32[1], c.best32[2], c.best32[3], c.mv32[0], c.mv32[1], c.mv32[2], c.mv32[3], c.best64[0], c.mv64[0], v.sad32[0], v.sad32[1], v.sad32[2], v.sad32[3],
                             v.best32[0], v.best32[1], v.best32[2], v.best32[3], v.mv32[0], v.mv32[1], v.mv32[2], v.mv32[3], v.best64[0], v.mv64[0]);
            }
        }
}

// ------------------------------------------------------------------------------------------------ svt_ext_eight_sad_calculation_32x32_64x64
typedef void (*ext8_32_fn)(uint32_t p_sad16x16[16][8], uint32_t *p_best_sad_32x32, uint32_t *p_best_sad_64x64, uint32_t *p_best_mv32x32, uint32_t *p_best_mv64x64, uint32_t mv,
                           uint32_t p_sad32x32[4][8]);
typedef struct {
    uint32_t g0[8], best32[4], g1[8], best64[1], g2[8], mv32[4], g3[8], mv64[1], g4[8], sad32[4][8], g5[8];
} Ext8Out;
// Caller EbMotionEstimation.c:497: p_sad16x16[16][8] = p_eight_sad16x16 written by svt_ext_all_sad_calculation_8x8_16x16 (values 0..65280).
// Inputs enumerated: (a) for each of the 256 masks m: every block's SAD at search position s = bit s of m ? 65280 : 0, the mask rotated by
// the 32x32 group index (all tie configurations of the 8 positions); (b) the pattern alphabet over the 8x16 array (range 0..65280);
// (c) the real output of the C svt_ext_all_sad_calculation_8x8_16x16 for all src/ref pattern pairs and sub_sad 0/1.  x 4 best-array states.
void drv_misc_ext_eight_sad_32x32_64x64(Run *r) {
    const Kern      *k = r->k;
    const Kern      *ka = NULL;
    const Kern      *kc_find_kern(const char *ptr);
    long             hi = 65280;
    int              np = kc_npat(r, 0, hi), np8 = kc_npat(r, 0, 255);
    char             n1[48];
    long long        rot = 0;
    static ExtAllOut all;
    ka = kc_find_kern("svt_ext_all_sad_calculation_8x8_16x16");
    long nreal = ka ? (long)np8 * np8 * 2 : 0;
    kc_junk(A8, sizeof A8, 3);
    kc_junk(B8, sizeof B8, 4);
    for (long ci = 0; ci < 256 + np + nreal; ci++) {
        uint32_t in[16][8], inv[16][8];
        int      have = 0;
        for (int init = 0; init < 4; init++, rot++) {
            if (r->stop) return;
            if (case_skip_fast(r)) continue;
            if (!have) {
                have = 1;
                if (ci < 256) {
                    for (int b = 0; b < 16; b++)
                        for (int s = 0; s < 8; s++) in[b][s] = (((ci >> ((s + (b >> 2) * 3) & 7)) & 1) ? (uint32_t)hi : 0u);
                    sprintf(n1, "tie mask 0x%02lx", ci);
                } else if (ci < 256 + np) {
                    for (int b = 0; b < 16; b++)
                        for (int s = 0; s < 8; s++) in[b][s] = (uint32_t)kc_pat_value((int)(ci - 256), s, b, 8, 16, 0, hi);
                    kc_pat_name((int)(ci - 256), 0, hi, n1);
                } else {
                    long q = ci - 256 - np;
                    int  sub = (int)(q & 1), pa = (int)((q >> 1) / np8), pb = (int)((q >> 1) % np8);
                    kc_fill_u8(A8 + 64, 64, 64, 64, pa, 0, 255);
                    kc_fill_u8(B8 + 64, 71, 64, 80, pb, 0, 255);
                    ext_all_init(&all);
                    ((ext_all_fn)ka->c)(A8 + 64, 64, B8 + 64, 80, 0, all.best8, all.best16, all.mv8, all.mv16, all.e16, all.e8, (EbBool)sub);
                    memcpy(in, all.e16, sizeof in);
                    sprintf(n1, "ext_all(src pat %d, ref pat %d, sub_sad %d)", pa, pb, sub);
                }
            }
            if (!case_begin(r, ci != 0 && ci != 255)) continue;
            uint32_t mv = MVS[rot % NEL(MVS)];
            Ext8Out  fresh, c, v, ini;
            kc_junk(&ini, sizeof ini, 47);
            for (int i = 0; i < 4; i++) { ini.best32[i] = MAX_SAD_VALUE_; ini.mv32[i] = MV_INIT + (uint32_t)i; }
            ini.best64[0] = MAX_SAD_VALUE_; ini.mv64[0] = MV_INIT + 9;
            if (init == 1) { memset(ini.best32, 0, sizeof ini.best32); ini.best64[0] = 0; }
            if (init >= 2) {
                fresh = ini;
                memcpy(inv, in, sizeof in);
                ((ext8_32_fn)k->c)(inv, fresh.best32, fresh.best64, fresh.mv32, fresh.mv64, mv, fresh.sad32);
                for (int i = 0; i < 4; i++) ini.best32[i] = fresh.best32[i] + (init == 3);
                ini.best64[0] = fresh.best64[0] + (init == 3);
            }
            c = ini;
            memcpy(inv, in, sizeof in);
            ((ext8_32_fn)k->c)(inv, c.best32, c.best64, c.mv32, c.mv64, mv, c.sad32);
            VERBOSE(r, "case %lld: p_sad16x16 = %s init=%d mv=0x%08x -> c best32 %u %u %u %u mv32 %x %x %x %x best64 %u mv64 0x%x", r->case_idx - 1, n1, init, mv, c.best32[0], c.best32[1],
                    c.best32[2], c.best32[3], c.mv32[0], c.mv32[1], c.mv32[2], c.mv32[3], c.best64[0], c.mv64[0]);
            for (int vi = 0; vi < k->nv; vi++) {
                if (!var_on(r, vi)) continue;
                v = ini;
                memcpy(inv, in, sizeof in);
                ((ext8_32_fn)k->v[vi].fn)(inv, v.best32, v.best64, v.mv32, v.mv64, mv, v.sad32);
                if (memcmp(&c, &v, sizeof c) || memcmp(in, inv, sizeof in)) {
                    long d = kc_diff(&c, &v, sizeof c);
                    MISMATCH(r, vi, "p_sad16x16[16][8] = %s, mv=0x%08x best arrays initialised %s: c best32 {%u,%u,%u,%u} mv32 {%x,%x,%x,%x} best64 %u mv64 %x; simd best32 {%u,%u,%u,%u} mv32 {%x,%x,%x,%x} best64 %u mv64 %x; first differing word of the output record %ld (p_sad32x32 starts at word %ld)",
                             n1, mv, init == 0 ? "MAX_SAD_VALUE" : init == 1 ? "0" : init == 2 ? "= minima of this call (tie)" : "= minima of this call + 1", c.best32[0], c.best32[1],
                             c.best32[2], c.best32[3], c.mv32[0], c.mv32[1], c.mv32[2], c.mv32[3], c.best64[0], c.mv64[0], v.best32[0], v.best32[1], v.best32[2], v.best32[3], v.mv32[0],
                             v.mv32[1], v.mv32[2], v.mv32[3], v.best64[0], v.mv64[0], d / 4, (long)(offsetof(Ext8Out, sad32) / 4));
                }
            }
        }
    }
}

// ------------------------------------------------------------------------------------------------ 8x8 mean kernels (picture analysis)
typedef uint64_t (*mean_sq_fn)(uint8_t *input_samples, uint32_t input_stride, uint32_t input_area_width, uint32_t input_area_height);
typedef uint64_t (*sub_mean_fn)(uint8_t *input_samples, uint16_t input_stride);
typedef void (*interm_var_fn)(uint8_t *input_samples, uint16_t input_stride, uint64_t *mean_of8x8_blocks, uint64_t *mean_of_squared8x8_blocks);
// Callers: EbPictureAnalysisProcess.c:1037-1798 (mean of squares, always 8x8, picture stride), :744-866 / :3053 (sub mean, chroma / luma
// picture strides), :1805-1946 (four 8x8 blocks side by side = 32x8 samples).  Block positions are multiples of 8 inside the picture
// (offset 0) - the padded picture origin is not necessarily 16-byte aligned, so offset 1 is enumerated as well.
// mode 0: mean of squared values 8x8, 1: sub mean 8x8, 2: interm var four 8x8
static void mean8(Run *r, int mode) {
    const Kern      *k = r->k;
    int              w = mode == 2 ? 32 : 8, np = kc_npat(r, 0, 255);
    static const int strides[] = {0, 1, 16, 56, 200, 1928, 4096 + 320}; // added to the block width; picture strides up to 4K + padding
    char             n1[32];
    static uint8_t   M8[(32 + 4416) * 8 + 1024] ALIGN64;
    kc_junk(M8, sizeof M8, 3);
    for (int si = 0; si < NEL(strides); si++)
        for (int off = 0; off < 2; off++)
            for (int pa = 0; pa < np; pa++) {
                int st = w + strides[si];
                if (r->stop) return;
                if (case_skip_fast(r)) continue;
                kc_fill_u8(M8 + 64 + off, w, 8, st, pa, 0, 255);
                if (!case_begin(r, kc_pat_nontrivial(pa))) continue;
                uint64_t c[12], v[12];
                for (int i = 0; i < 12; i++) c[i] = 0xA5A5A5A5A5A5A5A5ull;
                if (mode == 0) c[1] = ((mean_sq_fn)k->c)(M8 + 64 + off, (uint32_t)st, 8, 8);
                else if (mode == 1) c[1] = ((sub_mean_fn)k->c)(M8 + 64 + off, (uint16_t)st);
                else ((interm_var_fn)k->c)(M8 + 64 + off, (uint16_t)st, c + 1, c + 7);
                VERBOSE(r, "case %lld: stride=%d offset=%d pattern=%s -> c %llu %llu %llu %llu / %llu %llu %llu %llu", r->case_idx - 1, st, off, kc_pat_name(pa, 0, 255, n1),
                        (unsigned long long)c[1], (unsigned long long)c[2], (unsigned long long)c[3], (unsigned long long)c[4], (unsigned long long)c[7], (unsigned long long)c[8],
                        (unsigned long long)c[9], (unsigned long long)c[10]);
                for (int vi = 0; vi < k->nv; vi++) {
                    if (!var_on(r, vi)) continue;
                    for (int i = 0; i < 12; i++) v[i] = 0xA5A5A5A5A5A5A5A5ull;
                    if (mode == 0) v[1] = ((mean_sq_fn)k->v[vi].fn)(M8 + 64 + off, (uint32_t)st, 8, 8);
                    else if (mode == 1) v[1] = ((sub_mean_fn)k->v[vi].fn)(M8 + 64 + off, (uint16_t)st);
                    else ((interm_var_fn)k->v[vi].fn)(M8 + 64 + off, (uint16_t)st, v + 1, v + 7);
                    if (memcmp(c, v, sizeof c))
                        MISMATCH(r, vi, "%dx8 samples, stride=%d, buffer offset %d, pattern '%s': c mean {%llu,%llu,%llu,%llu} mean of squares {%llu,%llu,%llu,%llu}; simd mean {%llu,%llu,%llu,%llu} mean of squares {%llu,%llu,%llu,%llu} (single-result kernels use the first slot)",
                                 w, st, off, kc_pat_name(pa, 0, 255, n1), (unsigned long long)c[1], (unsigned long long)c[2], (unsigned long long)c[3], (unsigned long long)c[4],
                                 (unsigned long long)c[7], (unsigned long long)c[8], (unsigned long long)c[9], (unsigned long long)c[10], (unsigned long long)v[1],
                                 (unsigned long long)v[2], (unsigned long long)v[3], (unsigned long long)v[4], (unsigned long long)v[7], (unsigned long long)v[8],
                                 (unsigned long long)v[9], (unsigned long long)v[10]);
                }
            }
}
void drv_misc_mean_sq_8x8(Run *r) { mean8(r, 0); }
void drv_misc_sub_mean_8x8(Run *r) { mean8(r, 1); }
void drv_misc_interm_var_four8x8(Run *r) { mean8(r, 2); }
