/* seg_init_h: exhaustive check of the real enc_dec_segments_ctor/init (C24 part a).
 * For every picture size (in superblocks) and every segment grid: the per-segment superblock sets produced by the
 * EncDec kernel's traversal rule (transcribed from mode_decision_kernel, EbEncDecProcess.c) must partition the
 * picture, and dependency_map must equal the number of distinct predecessor releases.
 * usage: seg_init_h wmax hmax [reachable=1] ; prints one JSON line */
#include <stdio.h>
#include <stdlib.h>
#include <string.h>
#include "EbEncDecSegments.h"

static int traverse(const EncDecSegments *s, unsigned seg, unsigned W, int *owner, int *dup, unsigned *order, unsigned *norder) {
    /* transcription of the segment loop of mode_decision_kernel */
    unsigned x0 = s->x_start_array[seg], y0 = s->y_start_array[seg];
    unsigned cnt = s->valid_sb_count_array[seg];
    unsigned row = seg / s->segment_band_count, band = seg - row * s->segment_band_count;
    unsigned band_size = (s->sb_band_count * (band + 1) + s->segment_band_count - 1) / s->segment_band_count;
    unsigned done = 0, guard = 0;
    for (unsigned y = y0; done < cnt; ++y) {
        if (++guard > 100000) return -1; /* the kernel loop would not terminate */
        for (unsigned x = x0; x < W && (x + y < band_size) && done < cnt; ++x, ++done) {
            if (y >= s->sb_row_count) return -2; /* leaves the picture */
            unsigned i = y * W + x;
            if (owner[i] >= 0) (*dup)++;
            owner[i] = (int)seg;
            if (order) order[(*norder)++] = i;
        }
    }
    return 0;
}

int main(int argc, char **argv) {
    unsigned wmax = argc > 1 ? (unsigned)atoi(argv[1]) : 12, hmax = argc > 2 ? (unsigned)atoi(argv[2]) : 8;
    unsigned long cases = 0, bad = 0, distinct_layouts = 0;
    char first[512] = "";
    static int owner[128 * 64];
    for (unsigned W = 1; W <= wmax; W++)
        for (unsigned H = 1; H <= hmax; H++)
            for (unsigned c = 1; c <= W && c <= ENCDEC_SEGMENTS_MAX_COL_COUNT; c++)
                for (unsigned r = 1; r <= H && r <= ENCDEC_SEGMENTS_MAX_ROW_COUNT; r++) {
                    EncDecSegments s; memset(&s, 0, sizeof s);
                    if (enc_dec_segments_ctor(&s, c, r) != 0) { fprintf(stderr, "ctor failed\n"); return 2; }
                    enc_dec_segments_init(&s, c, r, W, H);
                    cases++;
                    const char *err = NULL; char eb[256];
                    for (unsigned i = 0; i < W * H; i++) owner[i] = -1;
                    int dup = 0; unsigned total = 0;
                    for (unsigned seg = 0; seg < s.segment_ttl_count && !err; seg++) {
                        if (!s.valid_sb_count_array[seg]) continue;
                        total += s.valid_sb_count_array[seg];
                        int t = traverse(&s, seg, W, owner, &dup, NULL, NULL);
                        if (t == -1) { snprintf(eb, sizeof eb, "segment %u: traversal does not terminate", seg); err = eb; }
                        if (t == -2) { snprintf(eb, sizeof eb, "segment %u: traversal leaves the picture", seg); err = eb; }
                    }
                    if (!err && total != W * H) { snprintf(eb, sizeof eb, "valid_sb_count sums to %u, picture has %u", total, W * H); err = eb; }
                    if (!err && dup) { snprintf(eb, sizeof eb, "%d superblocks visited twice", dup); err = eb; }
                    if (!err) for (unsigned i = 0; i < W * H; i++) if (owner[i] < 0) { snprintf(eb, sizeof eb, "superblock (%u,%u) never visited", i % W, i / W); err = eb; break; }
                    /* the traversal must agree with init's own assignment of superblocks to segments */
                    if (!err) for (unsigned y = 0; y < H && !err; y++) for (unsigned x = 0; x < W; x++) {
                        unsigned b = BAND_INDEX(x, y, s.segment_band_count, s.sb_band_count), rr = ROW_INDEX(y, s.segment_row_count, s.sb_row_count);
                        if ((unsigned)owner[y * W + x] != SEGMENT_INDEX(rr, b, s.segment_band_count)) { snprintf(eb, sizeof eb, "superblock (%u,%u) visited by segment %d, initialiser assigns it to %u", x, y, owner[y * W + x], SEGMENT_INDEX(rr, b, s.segment_band_count)); err = eb; break; }
                    }
                    /* dependency map: number of predecessor releases that assign_enc_dec_segments will perform */
                    if (!err) {
                        static unsigned char dep[ENCDEC_SEGMENTS_MAX_COUNT];
                        memset(dep, 0, sizeof dep);
                        for (unsigned rr = 0; rr < s.segment_row_count; rr++)
                            for (unsigned seg = s.row_array[rr].starting_seg_index; seg <= s.row_array[rr].ending_seg_index; seg++) {
                                if (!s.valid_sb_count_array[seg]) { snprintf(eb, sizeof eb, "segment %u inside [start,end] of row %u is empty", seg, rr); err = eb; break; }
                                if (seg < s.row_array[rr].ending_seg_index) dep[seg + 1]++;
                                if (rr + 1 < s.segment_row_count && seg + s.segment_band_count >= s.row_array[rr + 1].starting_seg_index) dep[seg + s.segment_band_count]++;
                            }
                        for (unsigned seg = 0; seg < s.segment_ttl_count && !err; seg++)
                            if (dep[seg] != s.dep_map.dependency_map[seg]) { snprintf(eb, sizeof eb, "dependency_map[%u]=%u, releases performed=%u", seg, s.dep_map.dependency_map[seg], dep[seg]); err = eb; }
                        /* geometric dependency: left, upper and upper-right superblock of every superblock of a segment lie in
                         * the same segment, or in a segment that releases it directly or transitively (checked in part b by execution);
                         * here: the first segment of row 0 has no dependency and every other non-empty segment has >= 1 */
                        for (unsigned seg = 0; seg < s.segment_ttl_count && !err; seg++) {
                            if (!s.valid_sb_count_array[seg]) continue;
                            int isfirst = seg == s.row_array[0].starting_seg_index;
                            if (isfirst != (s.dep_map.dependency_map[seg] == 0)) { snprintf(eb, sizeof eb, "segment %u: dependency count %u (first=%d)", seg, s.dep_map.dependency_map[seg], isfirst); err = eb; }
                        }
                    }
                    if (err) { bad++; if (!first[0]) snprintf(first, sizeof first, "W=%u H=%u cols=%u rows=%u: %s", W, H, c, r, err); }
                    if (s.segment_ttl_count > 1) distinct_layouts++;
                    s.dctor(&s);
                }
    printf("{\"cases\":%lu,\"bad\":%lu,\"multi_segment_cases\":%lu,\"first\":\"%s\"}\n", cases, bad, distinct_layouts, first);
    return 0;
}
