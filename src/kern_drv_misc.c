// C07 drivers, group misc, part 1: picture storage kernels (10-bit <-> 8+2 bit pack / unpack / convert / average), svt_memcpy,
// svt_initialize_buffer_32bits, svt_log2f.
//
// All the rectangle kernels are driven by one engine (rect_run): a kernel is described by its input planes (element size, value
// range, width relative to the block width), its output planes and the list of widths / heights of its VALID domain; the engine
// enumerates widths x heights x flag x stride tuples x input pattern (pairs), junk-fills both output copies with the same bytes and
// compares the whole output allocations (64 guard elements before and after the rows*stride area).
#include "EbDefinitions.h"
#include "kern_core.h"

#define ALIGN64 __attribute__((aligned(64)))
#define GUARD 64
#define PLANE_ELEMS (600 * 80 + 2 * GUARD + 256)

static uint16_t INB[3][PLANE_ELEMS] ALIGN64;  // input planes (used as u8 or u16)
static uint16_t OCB[2][PLANE_ELEMS] ALIGN64;  // outputs of the C function
static uint16_t OVB[2][PLANE_ELEMS] ALIGN64;  // outputs of the SIMD variant
static uint8_t  LOCAL_CACHE[2][256] ALIGN64;

typedef struct {
    int  bytes;        // element size 1 / 2
    int  wden;         // plane width in elements = block width / wden
    int  fixed_stride; // 1: the callers always pass stride == plane width
    long lo, hi;       // inputs: value range
    int  shift;        // inputs: stored value = pattern value << shift
} PlaneSpec;

typedef struct {
    void    *in[3];
    uint32_t is[3];
    void    *out[2];
    uint32_t os[2];
    uint32_t w, h;
    int      flag;
} RectArgs;

typedef struct {
    int        nin, nout;
    PlaneSpec  in[3], out[2];
    const int *ws;
    int        nw;
    const int *hs_quick;
    int        nh_quick;
    const int *hs_thorough;
    int        nh_thorough;
    int        nflag;  // number of values of the flag argument (1: none)
    int        rowmul; // 2: the planes hold rowmul*h rows of stride/rowmul elements and the strides passed are rowmul*real stride
    void (*call)(void *fn, const RectArgs *a);
} RectSpec;

static int stride_opt(int pw, int idx) {
    switch (idx) {
    case 0: return pw;
    case 1: return pw + 1;
    case 2: return pw + 16;
    default: return 2 * pw;
    }
}

// stride index tuples for n stride arguments. n==1: 4; n==2: all 16 pairs; n>=3: quick: 4 tuples in which every argument takes every
// option once, thorough: the 16 tuples (i, j, (8-i-j)%4 ...) that contain every pair of options of every pair of arguments.
static int stride_tuples(int n, int thorough, int t[][5]) {
    int c = 0;
    if (n == 0) {
        t[0][0] = t[0][1] = t[0][2] = t[0][3] = t[0][4] = 0;
        c = 1;
    } else if (n == 1) {
        for (int i = 0; i < 4; i++) { t[c][0] = i; t[c][1] = t[c][2] = t[c][3] = t[c][4] = 0; c++; }
    } else if (n == 2) {
        for (int i = 0; i < 4; i++)
            for (int j = 0; j < 4; j++) { t[c][0] = i; t[c][1] = j; t[c][2] = t[c][3] = t[c][4] = 0; c++; }
    } else if (!thorough) {
        for (int i = 0; i < 4; i++) {
            t[c][0] = i; t[c][1] = i ? 1 + (i % 3) : 0; t[c][2] = i ? 1 + ((i + 1) % 3) : 0; t[c][3] = (i + 2) % 4; t[c][4] = (i + 3) % 4;
            c++;
        }
    } else {
        for (int i = 0; i < 4; i++)
            for (int j = 0; j < 4; j++) {
                t[c][0] = i; t[c][1] = j; t[c][2] = (8 - i - j) % 4; t[c][3] = (i + 2 * j) % 4; t[c][4] = (2 * i + j + 1) % 4;
                c++;
            }
    }
    return c;
}

static void fill_plane(void *base, const PlaneSpec *ps, int pw, int rows, int stride, int pat) {
    if (ps->bytes == 1) {
        uint8_t *p = (uint8_t *)base;
        for (int y = 0; y < rows; y++)
            for (int x = 0; x < pw; x++) p[(long)y * stride + x] = (uint8_t)(kc_pat_value(pat, x, y, pw, rows, ps->lo, ps->hi) << ps->shift);
    } else {
        uint16_t *p = (uint16_t *)base;
        for (int y = 0; y < rows; y++)
            for (int x = 0; x < pw; x++) p[(long)y * stride + x] = (uint16_t)(kc_pat_value(pat, x, y, pw, rows, ps->lo, ps->hi) << ps->shift);
    }
}

static void rect_run(Run *r, const RectSpec *sp) {
    const Kern *k = r->k;
    int         tup[16][5];
    int         nstr = 0;
    for (int i = 0; i < sp->nin; i++) nstr += !sp->in[i].fixed_stride;
    for (int i = 0; i < sp->nout; i++) nstr += !sp->out[i].fixed_stride;
    int        nt = stride_tuples(nstr, r->thorough, tup);
    const int *hs = r->thorough ? sp->hs_thorough : sp->hs_quick;
    int        nh = r->thorough ? sp->nh_thorough : sp->nh_quick;
    int        np0 = kc_npat(r, sp->in[0].lo, sp->in[0].hi), np1 = sp->nin > 1 ? kc_npat(r, sp->in[1].lo, sp->in[1].hi) : 1;
    int        rm = sp->rowmul ? sp->rowmul : 1;
    char       n1[40], n2[40];
    for (int i = 0; i < 3; i++) kc_junk(INB[i], sizeof INB[i], 11 + i);
    for (int wi = 0; wi < sp->nw; wi++)
        for (int hi = 0; hi < nh; hi++)
            for (int fl = 0; fl < sp->nflag; fl++)
                for (int ti = 0; ti < nt; ti++) {
                    int      w = sp->ws[wi], h = hs[hi], si = 0;
                    RectArgs a;
                    size_t   oext[2];
                    int      ipw[3], opw[2];
                    memset(&a, 0, sizeof a);
                    a.w = (uint32_t)w; a.h = (uint32_t)h; a.flag = fl;
                    for (int i = 0; i < sp->nin; i++) {
                        ipw[i] = w / sp->in[i].wden;
                        a.is[i] = (uint32_t)(rm * (sp->in[i].fixed_stride ? ipw[i] : stride_opt(ipw[i], tup[ti][si++])));
                        a.in[i] = (uint8_t *)INB[i] + GUARD * sp->in[i].bytes;
                    }
                    for (int i = 0; i < sp->nout; i++) {
                        opw[i] = w / sp->out[i].wden;
                        a.os[i] = (uint32_t)(rm * (sp->out[i].fixed_stride ? opw[i] : stride_opt(opw[i], tup[ti][si++])));
                        oext[i] = (size_t)(2 * GUARD + (size_t)h * a.os[i] + 64) * sp->out[i].bytes;
                    }
                    for (int pa = 0; pa < np0; pa++) {
                        if (r->stop) return;
                        fill_plane(a.in[0], &sp->in[0], ipw[0], h * rm, a.is[0] / rm, pa);
                        for (int pb = 0; pb < np1; pb++) {
                            if (r->stop) return;
                            if (case_skip_fast(r)) continue;
                            if (sp->nin > 1) fill_plane(a.in[1], &sp->in[1], ipw[1], h * rm, a.is[1] / rm, pb);
                            if (!case_begin(r, kc_pat_nontrivial(pa) || (sp->nin > 1 && kc_pat_nontrivial(pb)))) continue;
                            for (int i = 0; i < sp->nout; i++) {
                                kc_junk(OCB[i], oext[i], 77 + i);
                                a.out[i] = (uint8_t *)OCB[i] + GUARD * sp->out[i].bytes;
                            }
                            sp->call(k->c, &a);
                            VERBOSE(r, "case %lld: w=%d h=%d flag=%d in strides %u/%u/%u out strides %u/%u in0=%s(%ld..%ld<<%d) in1=%s", r->case_idx - 1, w, h, fl,
                                    a.is[0], a.is[1], a.is[2], a.os[0], a.os[1], kc_pat_name(pa, sp->in[0].lo, sp->in[0].hi, n1), sp->in[0].lo, sp->in[0].hi,
                                    sp->in[0].shift, sp->nin > 1 ? kc_pat_name(pb, sp->in[1].lo, sp->in[1].hi, n2) : "-");
                            for (int vi = 0; vi < k->nv; vi++) {
                                if (!var_on(r, vi)) continue;
                                for (int i = 0; i < sp->nout; i++) {
                                    kc_junk(OVB[i], oext[i], 77 + i);
                                    a.out[i] = (uint8_t *)OVB[i] + GUARD * sp->out[i].bytes;
                                }
                                sp->call(k->v[vi].fn, &a);
                                for (int i = 0; i < sp->nout; i++) {
                                    long d = kc_diff(OCB[i], OVB[i], oext[i]);
                                    if (d < 0) continue;
                                    long e = d / sp->out[i].bytes - GUARD; // element offset relative to the block origin
                                    long cv = sp->out[i].bytes == 1 ? ((uint8_t *)OCB[i])[d] : OCB[i][d / 2];
                                    long vv = sp->out[i].bytes == 1 ? ((uint8_t *)OVB[i])[d] : OVB[i][d / 2];
                                    MISMATCH(r, vi, "width=%d height=%d flag=%d input strides %u/%u/%u output strides %u/%u, input0 pattern '%s' (values %ld..%ld <<%d), input1 pattern '%s' (values %ld..%ld <<%d): output plane %d differs first at element offset %ld (row %ld col %ld; junk-filled = untouched): c 0x%lx simd 0x%lx",
                                             w, h, fl, a.is[0], a.is[1], a.is[2], a.os[0], a.os[1], kc_pat_name(pa, sp->in[0].lo, sp->in[0].hi, n1), sp->in[0].lo,
                                             sp->in[0].hi, sp->in[0].shift, sp->nin > 1 ? kc_pat_name(pb, sp->in[1].lo, sp->in[1].hi, n2) : "-", sp->in[1].lo,
                                             sp->in[1].hi, sp->in[1].shift, i, e, e >= 0 ? e / (long)a.os[i] : -1, e >= 0 ? e % (long)a.os[i] : e, cv, vv);
                                    break;
                                }
                            }
                        }
                    }
                }
}

// ---------------------------------------------------------------------------------------------------------------- widths / heights
// every multiple of 4 that selects a distinct code path of the pack/unpack kernels (dedicated 4/8/16/32/64 paths; generic paths for
// width % 64 == 0, % 32 == 0, % 16 == 0, % 8 == 0, % 4 == 0 with 1, 2 and more iterations) - the picture level callers pass any
// multiple of 4 (chroma of a picture whose width is a multiple of 8); SB level callers pass multiples of 4 up to 128
static const int W_MUL4[] = {4, 8, 16, 32, 64, 12, 20, 24, 28, 36, 40, 44, 48, 68, 72, 80, 96, 100, 112, 128, 132, 136, 160, 192, 200, 260};
static const int H_EVEN_Q[] = {2, 6}, H_EVEN_T[] = {2, 4, 6, 16};
#define NEL(a) ((int)(sizeof(a) / sizeof((a)[0])))

// ---------------------------------------------------------------------------------------------------------------- pack (8+2 -> 16)
typedef void (*pack2d_fn)(uint8_t *in8, uint32_t in8_stride, uint8_t *inn, uint16_t *out16, uint32_t inn_stride, uint32_t out_stride, uint32_t width,
                          uint32_t height);
static void call_pack2d(void *fn, const RectArgs *a) {
    ((pack2d_fn)fn)((uint8_t *)a->in[0], a->is[0], (uint8_t *)a->in[1], (uint16_t *)a->out[0], a->is[1], a->os[0], a->w, a->h);
}
// svt_pack2d_16_bit_src_mul4: only caller pack2d_src (Common/Codec/EbPictureOperators.c:346) which guarantees width % 4 == 0 and
// height % 2 == 0; its callers pass SB sizes (EbCodingLoop.c:2122, EbProductCodingLoop.c:8131), whole pictures (EbTemporalFiltering.c:154,
// noise_model.c:1592) with the pictures' strides. The 2-bit plane holds the two LSBs in the top two bits of each byte (it is written by
// svt_un_pack2d_16_bit_src_mul4 / svt_enc_msb_un_pack2_d as (uint8_t)(pixel << 6)); every byte value 0..255 is enumerated (the low six bits
// must be ignored).
void drv_misc_pack2d(Run *r) {
    static const RectSpec sp = {2, 1, {{1, 1, 0, 0, 255, 0}, {1, 1, 0, 0, 255, 0}}, {{2, 1, 0, 0, 0, 0}}, W_MUL4, NEL(W_MUL4), H_EVEN_Q, NEL(H_EVEN_Q), H_EVEN_T,
                                NEL(H_EVEN_T), 1, 1, call_pack2d};
    rect_run(r, &sp);
}
// svt_compressed_packmsb: only caller compressed_pack_sb (EbPictureOperators.c:370) which dispatches width 32 and 64 only; called from
// EbCodingLoop.c:2070-2091 with (sb_width, sb_height) and (sb_width/2, sb_height/2), sb sizes being multiples of 8 (picture sizes are
// multiples of 8), i.e. heights multiple of 4; the 2-bit plane is compressed (4 pixels per byte, every byte value valid) and its stride
// is always width/4.
void drv_misc_compressed_packmsb(Run *r) {
    static const int      ws[] = {32, 64};
    static const int      hq[] = {4, 8, 12, 64}, ht[] = {4, 8, 12, 16, 20, 24, 28, 32, 36, 40, 44, 48, 52, 56, 60, 64};
    static const RectSpec sp = {2, 1, {{1, 1, 0, 0, 255, 0}, {1, 4, 1, 0, 255, 0}}, {{2, 1, 0, 0, 0, 0}}, ws, NEL(ws), hq, NEL(hq), ht, NEL(ht), 1, 1, call_pack2d};
    rect_run(r, &sp);
}
// svt_c_pack: NO caller in Source/Lib (dead dispatch entry). Domain taken from the kernel itself: the AVX2 version implements widths 32 and
// 64 only (test/PackUnPackTest.cc: "only support width of 32 and 64"), any height (64x64 has a dedicated path through local_cache).
typedef void (*c_pack_fn)(const uint8_t *inn, uint32_t inn_stride, uint8_t *out, uint32_t out_stride, uint8_t *local_cache, uint32_t width, uint32_t height);
static void call_c_pack(void *fn, const RectArgs *a) {
    static int tog;
    ((c_pack_fn)fn)((const uint8_t *)a->in[0], a->is[0], (uint8_t *)a->out[0], a->os[0], LOCAL_CACHE[tog ^= 1], a->w, a->h);
}
void drv_misc_c_pack(Run *r) {
    static const int      ws[] = {32, 64};
    static const int      hq[] = {1, 2, 4, 8, 63, 64}, ht[] = {1, 2, 3, 4, 5, 8, 16, 32, 63, 64};
    static const RectSpec sp = {1, 1, {{1, 1, 0, 0, 255, 0}}, {{1, 4, 0, 0, 0, 0}}, ws, NEL(ws), hq, NEL(hq), ht, NEL(ht), 1, 1, call_c_pack};
    rect_run(r, &sp);
}

// ---------------------------------------------------------------------------------------------------------------- unpack (16 -> 8+2)
typedef void (*unpack2d_fn)(uint16_t *in, uint32_t in_stride, uint8_t *out8, uint8_t *outn, uint32_t out8_stride, uint32_t outn_stride, uint32_t width,
                            uint32_t height);
static void call_unpack2d(void *fn, const RectArgs *a) {
    ((unpack2d_fn)fn)((uint16_t *)a->in[0], a->is[0], (uint8_t *)a->out[0], (uint8_t *)a->out[1], a->os[0], a->os[1], a->w, a->h);
}
// svt_un_pack2d_16_bit_src_mul4: only caller un_pack2d (EbPictureOperators.c:322): width % 4 == 0, height % 2 == 0; every caller passes a
// real 2-bit buffer (never NULL: EbEncDecProcess.c:1521, EbTemporalFiltering.c:210, noise_model.c:1631, EbEncInterPrediction.c:2496,
// EbEncHandle.c:3573); EbEncHandle.c:3573 unpacks the application's 16-bit input words, so every 16-bit value is enumerated (0..65535).
void drv_misc_unpack2d(Run *r) {
    static const RectSpec sp = {1, 2, {{2, 1, 0, 0, 65535, 0}}, {{1, 1, 0, 0, 0, 0}, {1, 1, 0, 0, 0, 0}}, W_MUL4, NEL(W_MUL4), H_EVEN_Q, NEL(H_EVEN_Q), H_EVEN_T,
                                NEL(H_EVEN_T), 1, 1, call_unpack2d};
    rect_run(r, &sp);
}
// svt_un_pack8_bit_data: NO caller in Source/Lib. Domain from the kernel: any width (the AVX2 code has a scalar tail for width % 4 != 0),
// even height (two rows per iteration), any 16-bit sample value.
typedef void (*unpack8_fn)(uint16_t *in, uint32_t in_stride, uint8_t *out8, uint32_t out8_stride, uint32_t width, uint32_t height);
static void call_unpack8(void *fn, const RectArgs *a) { ((unpack8_fn)fn)((uint16_t *)a->in[0], a->is[0], (uint8_t *)a->out[0], a->os[0], a->w, a->h); }
void drv_misc_unpack8(Run *r) {
    static const int      ws[] = {4, 8, 16, 32, 64, 12, 20, 24, 28, 36, 40, 48, 68, 72, 80, 96, 100, 112, 128, 132, 136, 160, 192, 200, 260,
                                  1, 2, 3, 5, 6, 7, 9, 13, 18, 31, 33, 65, 67};
    static const RectSpec sp = {1, 1, {{2, 1, 0, 0, 65535, 0}}, {{1, 1, 0, 0, 0, 0}}, ws, NEL(ws), H_EVEN_Q, NEL(H_EVEN_Q), H_EVEN_T, NEL(H_EVEN_T), 1, 1, call_unpack8};
    rect_run(r, &sp);
}
// svt_unpack_avg: NO caller in Source/Lib. Domain from the kernel: the SSE2/AVX2 versions implement widths 4, 8, 16, 32, 64 only
// (test/PackUnPackTest.cc), even heights, 10-bit samples (the SIMD versions saturate (packus) where the C version truncates for
// samples above 1023: outside the 10-bit domain of these kernels).
typedef void (*unpack_avg_fn)(uint16_t *l0, uint32_t s0, uint16_t *l1, uint32_t s1, uint8_t *dst, uint32_t ds, uint32_t width, uint32_t height);
static void call_unpack_avg(void *fn, const RectArgs *a) {
    ((unpack_avg_fn)fn)((uint16_t *)a->in[0], a->is[0], (uint16_t *)a->in[1], a->is[1], (uint8_t *)a->out[0], a->os[0], a->w, a->h);
}
void drv_misc_unpack_avg(Run *r) {
    static const int      ws[] = {4, 8, 16, 32, 64};
    static const RectSpec sp = {2, 1, {{2, 1, 0, 0, 1023, 0}, {2, 1, 0, 0, 1023, 0}}, {{1, 1, 0, 0, 0, 0}}, ws, NEL(ws), H_EVEN_Q, NEL(H_EVEN_Q), H_EVEN_T, NEL(H_EVEN_T),
                                1, 1, call_unpack_avg};
    rect_run(r, &sp);
}
// svt_unpack_avg_safe_sub: NO caller in Source/Lib. Widths 8, 16, 32, 64 (AVX2), even heights. With sub_pred the strides passed are twice
// the real strides (every other row is processed) and the last real row (index 2*height-1, addressed as (2*height-1)*stride/2) is
// processed in addition: the planes are filled as 2*height rows of stride/2 elements and the strides passed are even.
typedef void (*unpack_avg_ss_fn)(uint16_t *l0, uint32_t s0, uint16_t *l1, uint32_t s1, uint8_t *dst, uint32_t ds, EbBool sub_pred, uint32_t width, uint32_t height);
static void call_unpack_avg_ss(void *fn, const RectArgs *a) {
    ((unpack_avg_ss_fn)fn)((uint16_t *)a->in[0], a->is[0], (uint16_t *)a->in[1], a->is[1], (uint8_t *)a->out[0], a->os[0], (EbBool)a->flag, a->w, a->h);
}
void drv_misc_unpack_avg_safe_sub(Run *r) {
    static const int      ws[] = {8, 16, 32, 64};
    static const RectSpec sp = {2, 1, {{2, 1, 0, 0, 1023, 0}, {2, 1, 0, 0, 1023, 0}}, {{1, 1, 0, 0, 0, 0}}, ws, NEL(ws), H_EVEN_Q, NEL(H_EVEN_Q), H_EVEN_T, NEL(H_EVEN_T),
                                2, 2, call_unpack_avg_ss};
    rect_run(r, &sp);
}

// ---------------------------------------------------------------------------------------------------------------- convert
// svt_convert_8bit_to_16bit / svt_convert_16bit_to_8bit: callers pass block sizes (EbCodingLoop.c:3659 bwidth x bheight), SB sizes
// (EbCodingLoop.c:2209) and whole pictures (EbDlfProcess.c:133, EbEncDecProcess.c:1580) with arbitrary picture strides: any width and
// height.  16 -> 8: the callers only convert 8-bit content held in 16-bit buffers ("assumption that src buffer store values in range
// [0..255]", EbPictureOperators_Intrinsic_AVX2.c:1784).
static const int W_ANY_Q[] = {2, 4, 8, 16, 32, 64, 128, 1, 3, 5, 6, 7, 12, 24, 31, 33, 40, 48, 63, 65, 96, 100, 129, 136, 160, 200};
static int       W_ANY_T[140];
static const int H_ANY_Q[] = {1, 2, 5}, H_ANY_T[] = {1, 2, 3, 5, 8};
typedef void (*conv8to16_fn)(uint8_t *src, uint32_t ss, uint16_t *dst, uint32_t ds, uint32_t width, uint32_t height);
typedef void (*conv16to8_fn)(uint16_t *src, uint32_t ss, uint8_t *dst, uint32_t ds, uint32_t width, uint32_t height);
static void call_conv8to16(void *fn, const RectArgs *a) { ((conv8to16_fn)fn)((uint8_t *)a->in[0], a->is[0], (uint16_t *)a->out[0], a->os[0], a->w, a->h); }
static void call_conv16to8(void *fn, const RectArgs *a) { ((conv16to8_fn)fn)((uint16_t *)a->in[0], a->is[0], (uint8_t *)a->out[0], a->os[0], a->w, a->h); }
static void conv_run(Run *r, int to16) {
    RectSpec sp = {1, 1, {{to16 ? 1 : 2, 1, 0, 0, 255, 0}}, {{to16 ? 2 : 1, 1, 0, 0, 0, 0}}, W_ANY_Q, NEL(W_ANY_Q), H_ANY_Q, NEL(H_ANY_Q), H_ANY_T, NEL(H_ANY_T), 1, 1,
                   to16 ? call_conv8to16 : call_conv16to8};
    if (r->thorough) { // every width 1..136 and a few larger ones
        int n = 0;
        for (int w = 1; w <= 136; w++) W_ANY_T[n++] = w;
        W_ANY_T[n++] = 160; W_ANY_T[n++] = 192; W_ANY_T[n++] = 200; W_ANY_T[n++] = 260;
        sp.ws = W_ANY_T; sp.nw = n;
    }
    rect_run(r, &sp);
}
void drv_misc_conv8to16(Run *r) { conv_run(r, 1); }
void drv_misc_conv16to8(Run *r) { conv_run(r, 0); }

// svt_copy_rect8_8bit_to_16bit(dst, dstride, src, sstride, v rows, h columns): only caller copy_sb8_16 (Common/Codec/EbCdef.c:278) used by the
// CDEF frame / search code (EbCdefProcess.c:219, EbEncCdef.c:499-594) with hsize = 4..64 pixel + 0/8 border columns and 2..64 + border
// rows, dst stride CDEF_BSTRIDE, src stride = picture stride: columns 1..80, rows {1,2,3} (rows are independent).
typedef void (*copy_rect8_fn)(uint16_t *dst, int32_t dstride, const uint8_t *src, int32_t sstride, int32_t v, int32_t h);
static void call_copy_rect8(void *fn, const RectArgs *a) {
    ((copy_rect8_fn)fn)((uint16_t *)a->out[0], (int32_t)a->os[0], (const uint8_t *)a->in[0], (int32_t)a->is[0], (int32_t)a->h, (int32_t)a->w);
}
void drv_misc_copy_rect8(Run *r) {
    static int ws[80];
    for (int i = 0; i < 80; i++) ws[i] = i + 1;
    static const int hq[] = {1, 3}, ht[] = {1, 2, 3, 8};
    RectSpec         sp = {1, 1, {{1, 1, 0, 0, 255, 0}}, {{2, 1, 0, 0, 0, 0}}, ws, 80, hq, NEL(hq), ht, NEL(ht), 1, 1, call_copy_rect8};
    rect_run(r, &sp);
}

// ---------------------------------------------------------------------------------------------------------------- average
// svt_picture_average_kernel: NO caller in Source/Lib. Domain from the SSE2 kernel: asserts width % 4 == 0 and height % 2 == 0, implements
// width 4, 8 and every multiple of 4 >= 16 (width 12 is not implemented and is not an AV1 block width).
typedef void (*pic_avg_fn)(EbByte src0, uint32_t s0, EbByte src1, uint32_t s1, EbByte dst, uint32_t ds, uint32_t width, uint32_t height);
static void call_pic_avg(void *fn, const RectArgs *a) {
    ((pic_avg_fn)fn)((EbByte)a->in[0], a->is[0], (EbByte)a->in[1], a->is[1], (EbByte)a->out[0], a->os[0], a->w, a->h);
}
void drv_misc_pic_avg(Run *r) {
    static const int      ws[] = {4, 8, 16, 32, 64, 128, 20, 24, 28, 36, 40, 44, 48, 60, 68, 72, 80, 96, 100, 132, 136};
    static const RectSpec sp = {2, 1, {{1, 1, 0, 0, 255, 0}, {1, 1, 0, 0, 255, 0}}, {{1, 1, 0, 0, 0, 0}}, ws, NEL(ws), H_EVEN_Q, NEL(H_EVEN_Q), H_EVEN_T, NEL(H_EVEN_T),
                                1, 1, call_pic_avg};
    rect_run(r, &sp);
}
// svt_picture_average_kernel1_line: NO caller in Source/Lib. The SSE2 kernel implements widths 4, 8, 16, 32 and 64 (one line).
typedef void (*pic_avg1_fn)(EbByte src0, EbByte src1, EbByte dst, uint32_t width);
static void call_pic_avg1(void *fn, const RectArgs *a) { ((pic_avg1_fn)fn)((EbByte)a->in[0], (EbByte)a->in[1], (EbByte)a->out[0], a->w); }
void drv_misc_pic_avg1(Run *r) {
    static const int      ws[] = {4, 8, 16, 32, 64};
    static const int      h1[] = {1};
    static const RectSpec sp = {2, 1, {{1, 1, 1, 0, 255, 0}, {1, 1, 1, 0, 255, 0}}, {{1, 1, 1, 0, 0, 0}}, ws, NEL(ws), h1, 1, h1, 1, 1, 1, call_pic_avg1};
    rect_run(r, &sp);
}

// ---------------------------------------------------------------------------------------------------------------- svt_memcpy
// sizes 0..300 (quick) / 0..1100 (thorough) and a few large ones x destination offset within a cache line {0,1,2,3,17,61,62,63} (the SSE
// version aligns the destination to 64) x source offset {0,1,2,3}; 442 call sites with arbitrary sizes and alignments.
typedef void (*memcpy_fn)(void *dst, const void *src, size_t size);
void drv_misc_memcpy(Run *r) {
    const Kern          *k = r->k;
    static uint8_t       SRC[70000] ALIGN64, DC[70000] ALIGN64, DV[70000] ALIGN64;
    static const int     doff[] = {0, 1, 2, 3, 17, 61, 62, 63};
    static const size_t  big[] = {2048, 4095, 4096, 4097, 10000, 65536};
    int                  nsmall = r->thorough ? 1101 : 301;
    kc_junk(SRC, sizeof SRC, 5);
    for (int si = 0; si < nsmall + NEL(big); si++)
        for (int d = 0; d < NEL(doff); d++)
            for (int so = 0; so < 4; so++) {
                if (r->stop) return;
                if (case_skip_fast(r)) continue;
                size_t n = si < nsmall ? (size_t)si : big[si - nsmall], ext = 64 + 64 + n + 128;
                if (!case_begin(r, n > 1)) continue;
                kc_junk(DC, ext, 9);
                ((memcpy_fn)k->c)(DC + 64 + doff[d], SRC + 64 + so, n);
                VERBOSE(r, "case %lld: size=%zu dst offset %d src offset %d", r->case_idx - 1, n, doff[d], so);
                for (int vi = 0; vi < k->nv; vi++) {
                    if (!var_on(r, vi)) continue;
                    kc_junk(DV, ext, 9);
                    ((memcpy_fn)k->v[vi].fn)(DV + 64 + doff[d], SRC + 64 + so, n);
                    long df = kc_diff(DC, DV, ext);
                    if (df >= 0)
                        MISMATCH(r, vi, "size=%zu dst at 64-byte line offset %d, src offset %d: destination allocation differs first at byte %ld relative to dst (c 0x%02x simd 0x%02x)",
                                 n, doff[d], so, df - 64 - doff[d], DC[df], DV[df]);
                }
            }
}

// ---------------------------------------------------------------------------------------------------------------- initialize_buffer_32bits
// callers: EbMotionEstimation.c:2086 (count128=21, count32=1, MAX_SAD_VALUE), EbPictureAnalysisProcess.c:2656.. (64, 0, 1).
// Enumerated: count128 0..70 x count32 0..3 x value {0, 1, MAX_SAD_VALUE, 0xFFFFFFFF, 0x01020304}.
typedef void (*initbuf_fn)(uint32_t *pointer, uint32_t count128, uint32_t count32, uint32_t value);
void drv_misc_init_buffer32(Run *r) {
    const Kern           *k = r->k;
    static uint32_t       BC[512] ALIGN64, BV[512] ALIGN64;
    static const uint32_t vals[] = {0, 1, 128 * 128 * 255, 0xFFFFFFFFu, 0x01020304u};
    for (uint32_t c128 = 0; c128 <= 70; c128++)
        for (uint32_t c32 = 0; c32 < 4; c32++)
            for (int v = 0; v < NEL(vals); v++) {
                if (r->stop) return;
                if (case_skip_fast(r)) continue;
                if (!case_begin(r, v > 1)) continue;
                kc_junk(BC, sizeof BC, 21);
                ((initbuf_fn)k->c)(BC + 64, c128, c32, vals[v]);
                VERBOSE(r, "case %lld: count128=%u count32=%u value=0x%x", r->case_idx - 1, c128, c32, vals[v]);
                for (int vi = 0; vi < k->nv; vi++) {
                    if (!var_on(r, vi)) continue;
                    kc_junk(BV, sizeof BV, 21);
                    ((initbuf_fn)k->v[vi].fn)(BV + 64, c128, c32, vals[v]);
                    long df = kc_diff(BC, BV, sizeof BC);
                    if (df >= 0)
                        MISMATCH(r, vi, "count128=%u count32=%u value=0x%x: buffers differ first at uint32 index %ld (c 0x%x simd 0x%x)", c128, c32, vals[v], df / 4 - 64,
                                 BC[df / 4], BV[df / 4]);
                }
            }
}

// ---------------------------------------------------------------------------------------------------------------- svt_log2f
// uint32_t svt_log2f(uint32_t x): floor(log2(x)).  Callers pass block sizes, variances, sse/qstep^2 (EbEncInterPrediction.c:481) and
// averages that can be 0 (EbSegmentation.c:153: avg_var of a flat picture): x = 0 is included (C: (uint32_t)log2(0), which gcc/x86-64
// evaluates to 0; asm: bsr(x|1) = 0).  Enumerated: every x in 0..65535 (thorough: 0..2^22), then 2^k-1, 2^k, 2^k+1 for k = 16..31 and
// 0xFFFFFFFF.
typedef uint32_t (*log2f_fn)(uint32_t x);
void drv_misc_log2f(Run *r) {
    const Kern *k = r->k;
    uint32_t    dense = r->thorough ? (1u << 22) : 65536u;
    for (uint64_t i = 0; i < (uint64_t)dense + 16 * 3 + 1; i++) {
        if (r->stop) return;
        if (case_skip_fast(r)) continue;
        uint32_t x;
        if (i < dense) x = (uint32_t)i;
        else if (i == (uint64_t)dense + 48) x = 0xFFFFFFFFu;
        else {
            uint32_t j = (uint32_t)(i - dense);
            x = (1u << (16 + j / 3)) + (j % 3) - 1;
        }
        if (!case_begin(r, x > 1)) continue;
        uint32_t c = ((log2f_fn)k->c)(x);
        VERBOSE(r, "case %lld: x=%u -> c %u", r->case_idx - 1, x, c);
        for (int vi = 0; vi < k->nv; vi++) {
            if (!var_on(r, vi)) continue;
            uint32_t v = ((log2f_fn)k->v[vi].fn)(x);
            if (v != c) MISMATCH(r, vi, "x=%u (0x%x): c returns %u, simd returns %u", x, x, c, v);
        }
    }
}
