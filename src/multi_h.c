/* multi_h: two codec instances in one process, API calls interleaved according to a script (C17).
 * usage: multi_h script=<string over {A,B}> a=<spec> b=<spec> [tu=<prefix for decoder input>]
 *   spec: enc:<key=value,...>  (w,h,n,bits,content + EbSvtAv1EncConfiguration fields enc_mode, super_block_size, use_cpu_flags,
 *         logical_processors, encoder_bit_depth, hierarchical_levels, tile_rows)  |  dec:<prefix>[,threads=N]
 *   Each instance has 7 steps: create, configure, init, feed, drain, deinit, destroy.  The k-th occurrence of 'A' in the script runs
 *   step k of instance A.  Prints one JSON object with per-instance return codes and output hashes. */
#define _GNU_SOURCE
#include <stdio.h>
#include <stdlib.h>
#include <string.h>
#include <stdint.h>
#include "EbSvtAv1Enc.h"
#include "EbSvtAv1Dec.h"
#include "vsched.h"
#include "vutil.h"

typedef struct {
    int is_enc; char spec[512];
    /* encoder */
    EbComponentType *h; EbSvtAv1EncConfiguration cfg; int w, hgt, n, bits; char content[16];
    uint64_t pkt_hash, rec_hash; int npk, nrc, eos;
    /* decoder */
    EbSvtAv1DecConfiguration dcfg; uint8_t *ob; uint32_t *sz; int ntu, fed; uint64_t pic_hash; int npic; int threads;
    EbBufferHeaderType rb; EbSvtIOFormat img; EbAV1StreamInfo si; EbAV1FrameInfo fi;
    long rcs[7]; int step;
} Inst;
static Inst I[2];

static int sample(const Inst *x, int f, int pl, int xx, int yy) {
    int sx = pl ? 2 * xx : xx, sy = pl ? 2 * yy : yy, v;
    if (!strcmp(x->content, "noise")) { uint32_t hsh = (uint32_t)(f * 2654435761u) ^ (uint32_t)((pl * 70000 + yy) * 40503u) ^ (uint32_t)(xx * 2246822519u); hsh ^= hsh >> 15; hsh *= 2654435761u; hsh ^= hsh >> 13; return hsh & 255; }
    if (pl == 0) v = (sx * 2 + sy + 3 * f) & 255; else if (pl == 1) v = 128 + ((sx + f) & 31) - 16; else v = 128 + ((sy - f) & 31) - 16;
    return v;
}
static uint8_t *readfile(const char *pre, const char *suf, size_t *n) {
    char fn[1024]; snprintf(fn, sizeof fn, "%s%s", pre, suf);
    FILE *f = fopen(fn, "rb"); if (!f) { perror(fn); exit(4); }
    fseek(f, 0, SEEK_END); long l = ftell(f); fseek(f, 0, SEEK_SET);
    uint8_t *b = malloc((size_t)l + 64); if (l && fread(b, 1, (size_t)l, f) != (size_t)l) exit(4); fclose(f); *n = (size_t)l; return b;
}
static void parse(Inst *x, const char *spec) {
    snprintf(x->spec, sizeof x->spec, "%s", spec);
    x->w = 64; x->hgt = 64; x->n = 3; x->bits = 8; strcpy(x->content, "grad"); x->threads = 1;
    x->is_enc = !strncmp(spec, "enc:", 4);
    char tmp[512]; snprintf(tmp, sizeof tmp, "%s", spec + 4);
    if (!x->is_enc) {
        char *c = strchr(tmp, ','); if (c) { *c = 0; if (!strncmp(c + 1, "threads=", 8)) x->threads = atoi(c + 9); }
        size_t on, sn; x->ob = readfile(tmp, ".obu", &on); x->sz = (uint32_t *)readfile(tmp, ".sz", &sn); x->ntu = (int)(sn / 4);
    }
}
static void apply_cfg(Inst *x) {
    char tmp[512]; snprintf(tmp, sizeof tmp, "%s", x->spec + 4);
    EbSvtAv1EncConfiguration *c = &x->cfg;
    c->logical_processors = 1; c->enc_mode = 8; c->recon_enabled = 1; c->hierarchical_levels = 2;
    for (char *t = strtok(tmp, ","); t; t = strtok(NULL, ",")) {
        char *eq = strchr(t, '='); if (!eq) continue; *eq = 0; long v = strtol(eq + 1, NULL, 0);
        if (!strcmp(t, "w")) x->w = (int)v; else if (!strcmp(t, "h")) x->hgt = (int)v; else if (!strcmp(t, "n")) x->n = (int)v;
        else if (!strcmp(t, "content")) snprintf(x->content, sizeof x->content, "%s", eq + 1);
        else if (!strcmp(t, "enc_mode")) c->enc_mode = (int8_t)v; else if (!strcmp(t, "super_block_size")) c->super_block_size = (uint32_t)v;
        else if (!strcmp(t, "use_cpu_flags")) c->use_cpu_flags = (CPU_FLAGS)v; else if (!strcmp(t, "logical_processors")) c->logical_processors = (uint32_t)v;
        else if (!strcmp(t, "encoder_bit_depth")) { c->encoder_bit_depth = (uint32_t)v; x->bits = (int)v; }
        else if (!strcmp(t, "hierarchical_levels")) c->hierarchical_levels = (uint32_t)v; else if (!strcmp(t, "tile_rows")) c->tile_rows = (int32_t)v;
        else if (!strcmp(t, "qp")) c->qp = (uint32_t)v;
    }
    c->source_width = (uint32_t)x->w; c->source_height = (uint32_t)x->hgt;
}
static void take_packets(Inst *x, int blocking) {
    for (;;) {
        EbBufferHeaderType *p = NULL;
        EbErrorType e = svt_av1_enc_get_packet(x->h, &p, (uint8_t)blocking);
        if (!p) break;
        uint64_t t[3] = { vu_fnv(p->p_buffer, p->n_filled_len, 0), (uint64_t)p->pts, p->flags };
        x->pkt_hash = vu_fnv(t, sizeof t, x->pkt_hash); x->npk++;
        if (p->flags & EB_BUFFERFLAG_EOS) x->eos = 1;
        svt_av1_enc_release_out_buffer(&p);
        if (x->eos || e != EB_ErrorNone) break;
    }
}
static void take_recon(Inst *x) {
    static uint8_t *buf; if (!buf) buf = malloc(1 << 24);
    for (;;) {
        EbBufferHeaderType r; memset(&r, 0, sizeof r); r.size = sizeof r; r.p_buffer = buf; r.n_alloc_len = 1 << 24;
        if (svt_av1_get_recon(x->h, &r) != EB_ErrorNone) break;
        uint64_t t[2] = { vu_fnv(buf, r.n_filled_len, 0), (uint64_t)r.pts };
        x->rec_hash += vu_fnv(t, sizeof t, 7); x->nrc++;
        if (r.flags & EB_BUFFERFLAG_EOS) break;
    }
}
static void dec_pictures(Inst *x) {
    if (svt_av1_dec_get_picture(x->h, &x->rb, &x->si, &x->fi) == EB_DecNoOutputPicture) return;
    EbSvtIOFormat *im = &x->img; int bps = im->bit_depth > 8 ? 2 : 1; uint64_t hh = 0;
    for (uint32_t y = 0; y < im->height; y++) hh = vu_fnv(im->luma + (size_t)y * im->y_stride * (size_t)bps, (size_t)im->width * (size_t)bps, hh);
    for (uint32_t y = 0; y < (im->height + 1) / 2; y++) { hh = vu_fnv(im->cb + (size_t)y * im->cb_stride * (size_t)bps, (size_t)((im->width + 1) / 2) * (size_t)bps, hh); hh = vu_fnv(im->cr + (size_t)y * im->cr_stride * (size_t)bps, (size_t)((im->width + 1) / 2) * (size_t)bps, hh); }
    x->pic_hash = vu_fnv(&hh, 8, x->pic_hash); x->npic++;
}
static void step(Inst *x) {
    int s = x->step++; long rc = 0;
    if (x->is_enc) {
        switch (s) {
        case 0: memset(&x->cfg, 0, sizeof x->cfg); rc = svt_av1_enc_init_handle(&x->h, NULL, &x->cfg); break;
        case 1: apply_cfg(x); rc = svt_av1_enc_set_parameter(x->h, &x->cfg); break;
        case 2: rc = svt_av1_enc_init(x->h); break;
        case 3: {
            int bps = x->bits > 8 ? 2 : 1, cw = x->w / 2, ch = x->hgt / 2; size_t ysz = (size_t)x->w * x->hgt * bps, csz = (size_t)cw * ch * bps;
            uint8_t *buf = malloc(ysz + 2 * csz);
            for (int f = 0; f < x->n; f++) {
                uint8_t *pl[3] = { buf, buf + ysz, buf + ysz + csz };
                for (int p = 0; p < 3; p++) { int pw = p ? cw : x->w, ph = p ? ch : x->hgt;
                    for (int yy = 0; yy < ph; yy++) for (int xx = 0; xx < pw; xx++) { int v = sample(x, f, p, xx, yy); if (bps == 1) pl[p][(size_t)yy * pw + xx] = (uint8_t)v; else ((uint16_t *)pl[p])[(size_t)yy * pw + xx] = (uint16_t)(v << 2); } }
                EbSvtIOFormat io; memset(&io, 0, sizeof io); io.luma = pl[0]; io.cb = pl[1]; io.cr = pl[2]; io.y_stride = (uint32_t)x->w; io.cb_stride = io.cr_stride = (uint32_t)cw;
                io.width = (uint32_t)x->w; io.height = (uint32_t)x->hgt; io.color_fmt = EB_YUV420; io.bit_depth = x->bits > 8 ? EB_TEN_BIT : EB_EIGHT_BIT;
                EbBufferHeaderType ih; memset(&ih, 0, sizeof ih); ih.size = sizeof ih; ih.p_buffer = (uint8_t *)&io; ih.n_filled_len = (uint32_t)(ysz + 2 * csz); ih.pts = f; ih.pic_type = EB_AV1_INVALID_PICTURE;
                rc |= svt_av1_enc_send_picture(x->h, &ih);
                take_packets(x, 0); take_recon(x);
            }
            EbBufferHeaderType eh; memset(&eh, 0, sizeof eh); eh.size = sizeof eh; eh.flags = EB_BUFFERFLAG_EOS; eh.pic_type = EB_AV1_INVALID_PICTURE;
            rc |= svt_av1_enc_send_picture(x->h, &eh);
            free(buf);
            break; }
        case 4: while (!x->eos) { take_recon(x); take_packets(x, 1); } for (int k = 0; k < 200 && x->nrc < x->n; k++) { vs_quiesce(); take_recon(x); } break;
        case 5: rc = svt_av1_enc_deinit(x->h); break;
        case 6: rc = svt_av1_enc_deinit_handle(x->h); break;
        }
    } else {
        switch (s) {
        case 0: memset(&x->dcfg, 0, sizeof x->dcfg); rc = svt_av1_dec_init_handle(&x->h, NULL, &x->dcfg); break;
        case 1: x->dcfg.threads = (uint32_t)x->threads; x->dcfg.operating_point = -1; x->dcfg.num_p_frames = 1; x->dcfg.max_color_format = EB_YUV420; x->dcfg.max_bit_depth = EB_EIGHT_BIT;
                rc = svt_av1_dec_set_parameter(x->h, &x->dcfg); break;
        case 2: rc = svt_av1_dec_init(x->h); x->rb.p_buffer = (uint8_t *)&x->img; break;
        case 3: case 4: {
            int upto = s == 3 ? 1 : x->ntu; size_t off = 0;
            for (int t = 0; t < x->fed; t++) off += x->sz[t];
            for (; x->fed < upto && x->fed < x->ntu; x->fed++) { long e = svt_av1_dec_frame(x->h, x->ob + off, x->sz[x->fed], 0); rc |= e; if (!e) dec_pictures(x); off += x->sz[x->fed]; }
            break; }
        case 5: rc = svt_av1_dec_deinit(x->h); break;
        case 6: rc = svt_av1_dec_deinit_handle(x->h); break;
        }
    }
    x->rcs[s] = rc;
}
#include <pthread.h>
static void *par_thread(void *x_) { Inst *x = (Inst *)x_; while (x->step < 7) step(x); return NULL; }
int main(int argc, char **argv) {
    const char *script = "AAAAAAA", *a = NULL, *b = NULL; int par = 0;
    for (int i = 1; i < argc; i++) {
        if (!strncmp(argv[i], "script=", 7)) script = argv[i] + 7; else if (!strncmp(argv[i], "a=", 2)) a = argv[i] + 2; else if (!strncmp(argv[i], "b=", 2)) b = argv[i] + 2;
        else if (!strncmp(argv[i], "par=", 4)) par = atoi(argv[i] + 4);
    }
    vs_init();
    if (a) parse(&I[0], a);
    if (b) parse(&I[1], b);
    if (par) { /* free-running: both sessions truly concurrent on two application threads (race detector run) */
        pthread_t t[2]; pthread_create(&t[0], NULL, par_thread, &I[0]); pthread_create(&t[1], NULL, par_thread, &I[1]);
        pthread_join(t[0], NULL); pthread_join(t[1], NULL);
    } else
    for (const char *p = script; *p; p++) { Inst *x = &I[*p == 'B']; if (x->step < 7) step(x); }
    vs_fini();
    for (int k = 0; k < 2; k++) {
        Inst *x = &I[k];
        printf("%s{\"inst\":\"%c\",\"steps\":%d,\"rcs\":[%ld,%ld,%ld,%ld,%ld,%ld,%ld],\"npk\":%d,\"pkt_hash\":\"%016llx\",\"nrc\":%d,\"rec_hash\":\"%016llx\",\"npic\":%d,\"pic_hash\":\"%016llx\"}",
               k ? "," : "[", 'A' + k, x->step, x->rcs[0], x->rcs[1], x->rcs[2], x->rcs[3], x->rcs[4], x->rcs[5], x->rcs[6], x->npk, (unsigned long long)x->pkt_hash, x->nrc,
               (unsigned long long)x->rec_hash, x->npic, (unsigned long long)x->pic_hash);
    }
    printf("]\n");
    return 0;
}
