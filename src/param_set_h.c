/* param_set_h: C12 harness.  One long-lived process evaluating svt_av1_enc_set_parameter on many configurations.
 *
 * usage: param_set_h layout      -> JSON description of the field table (see param_fields.h)
 *        param_set_h defaults    -> JSON {element name: value} of the configuration returned by svt_av1_enc_init_handle
 *                                   for a zeroed structure
 *        param_set_h cases       -> reads lines "<id> name=value name=value ..." from stdin; for each line:
 *                                   zeroed structure -> svt_av1_enc_init_handle -> source 64x64 -> the listed elements
 *                                   -> svt_av1_enc_set_parameter -> svt_av1_enc_deinit_handle (fresh handle per case:
 *                                   set_parameter keeps config_mutex locked when it rejects); prints "<id> <init rc> <set rc>"
 *                                   (hex) and flushes, so that the caller knows which case killed the process.
 */
#define _GNU_SOURCE
#include <stdio.h>
#include <stdlib.h>
#include <string.h>
#include <stdint.h>
#include "param_fields.h"

static int apply(Cfg *c, char *kv) {
    char *eq = strchr(kv, '=');
    int   i, j;
    if (!eq) return -1;
    *eq = 0;
    int k = pf_find(kv, &i, &j);
    *eq = '=';
    if (k < 0) return -1;
    const char *val = eq + 1;
    long long v = val[0] == '-' ? strtoll(val, NULL, 0) : (long long)strtoull(val, NULL, 0);
    pf_put(c, &pfields[k], i, j, v);
    return 0;
}

static void dump(const Cfg *c) {
    char nb[160];
    int  first = 1;
    printf("{");
    for (int k = 0; k < P_NFIELDS; k++)
        for (int i = 0; i < pfields[k].outer; i++)
            for (int j = 0; j < pfields[k].inner; j++) {
                printf("%s\"%s\":%lld", first ? "" : ",", pf_name(&pfields[k], i, j, nb, sizeof nb), pf_get(c, &pfields[k], i, j));
                first = 0;
            }
    printf("}\n");
}

int main(int argc, char **argv) {
    const char *mode = argc > 1 ? argv[1] : "cases";
    Cfg *cfg = malloc(sizeof *cfg);
    if (!strcmp(mode, "layout")) { pf_layout(stdout); return 0; }
    if (!strcmp(mode, "defaults")) {
        EbComponentType *h = NULL;
        memset(cfg, 0, sizeof *cfg);
        EbErrorType e = svt_av1_enc_init_handle(&h, NULL, cfg);
        if (e != EB_ErrorNone) { fprintf(stderr, "init_handle failed %x\n", (unsigned)e); return 3; }
        dump(cfg);
        svt_av1_enc_deinit_handle(h);
        return 0;
    }
    char  *line = NULL;
    size_t cap = 0;
    while (getline(&line, &cap, stdin) > 0) {
        char *save = NULL;
        char *id = strtok_r(line, " \t\r\n", &save);
        if (!id) continue;
        EbComponentType *h = NULL;
        memset(cfg, 0, sizeof *cfg);
        EbErrorType e_ih = svt_av1_enc_init_handle(&h, NULL, cfg);
        if (e_ih != EB_ErrorNone) { printf("%s %x -\n", id, (unsigned)e_ih); fflush(stdout); continue; }
        cfg->source_width = 64;
        cfg->source_height = 64;
        int bad = 0;
        for (char *t; (t = strtok_r(NULL, " \t\r\n", &save));)
            if (apply(cfg, t)) { bad = 1; fprintf(stderr, "param_set_h: unknown element in '%s'\n", t); }
        if (bad) { svt_av1_enc_deinit_handle(h); printf("%s 0 badcase\n", id); fflush(stdout); continue; }
        EbErrorType e_sp = svt_av1_enc_set_parameter(h, cfg);
        svt_av1_enc_deinit_handle(h);
        printf("%s 0 %x\n", id, (unsigned)e_sp);
        fflush(stdout);
    }
    return 0;
}
