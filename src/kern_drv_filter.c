// C07 drivers: deblocking loop filters (lpf) and CDEF kernels.
#include <stdlib.h>
#include "EbDefinitions.h"
#include "EbCdef.h"
#include "kern_core.h"

#define ALIGN64 __attribute__((aligned(64)))

// ------------------------------------------------------------------------------------------------ deblocking filters
// Callers (Encoder/Codec/EbDeblockingFilter.c:400-460, 540-600, Decoder/Codec/EbDecLF.c) pass mblim/lim/hev_thr rows of the
// LoopFilterThresh table: SIMD_WIDTH identical bytes computed by update_sharpness()/svt_av1_loop_filter_init() from the filter level
// (1..63; level 0 means "no filtering") and the sharpness (0..7): lim = f(level, sharpness), mblim = 2*(level+2)+lim,
// hev_thr = level>>4.  The pixel pointer is 4-sample aligned inside a picture buffer; 4 samples along the edge are filtered.
typedef void (*lpf8_fn)(uint8_t *s, int32_t pitch, const uint8_t *blimit, const uint8_t *limit, const uint8_t *thresh);
typedef void (*lpf16_fn)(uint16_t *s, int32_t pitch, const uint8_t *blimit, const uint8_t *limit, const uint8_t *thresh, int32_t bd);

static uint8_t  LA8[40 * 96 + 128] ALIGN64, LB8[40 * 96 + 128] ALIGN64, LP8[40 * 96 + 128] ALIGN64;
static uint16_t LA16[40 * 96 + 128] ALIGN64, LB16[40 * 96 + 128] ALIGN64, LP16[40 * 96 + 128] ALIGN64;

static const int LV[13] = {0, 1, 2, 4, 8, 16, 64, 127, 128, 129, 200, 254, 255};
static const int SLOPE[10] = {1, -1, 2, -2, 3, -3, 5, -5, 9, -9};
static const int SPIKE[10] = {1, -1, 2, -2, 4, -4, 16, -16, 255, -255};

// profile value for distance d in -8..7 from the edge on line l (0..3); returns -1 when the profile index is exhausted
static int lpf_nprofiles(Run *r) { return kc_npat(r, 0, 255) + 169 * 2 + 10 + 14 * 10; }
static long lpf_profile(Run *r, int pi, int d, int l, int sh, long hi, char *name) {
    int  nb = kc_npat(r, 0, 255);
    long v;
    if (pi < nb) {
        char b[32];
        if (name) sprintf(name, "pattern '%s' on the 16(across the edge)x4(along) window", kc_pat_name(pi, 0, hi, b));
        return kc_pat_value(pi, d + 8, l, 16, 4, 0, hi);
    }
    pi -= nb;
    if (pi < 169 * 2) {
        int a = LV[(pi >> 1) / 13], b = LV[(pi >> 1) % 13], per = pi & 1;
        if (name) sprintf(name, "step: p side %d, q side %d (x%d)%s", a, b, 1 << sh, per ? ", q side + line index" : "");
        v = (long)(d < 0 ? a : b) << sh;
        if (per && d >= 0) v += l;
        return v > hi ? hi : v;
    }
    pi -= 169 * 2;
    if (pi < 10) {
        if (name) sprintf(name, "ramp: mid + %d*d (x%d) + line index", SLOPE[pi], 1 << sh);
        v = ((128L + SLOPE[pi] * d) << sh) + l;
        return v < 0 ? 0 : v > hi ? hi : v;
    }
    pi -= 10;
    {
        int pos = pi / 10 - 7, amp = SPIKE[pi % 10];
        if (name) sprintf(name, "flat mid with a spike of %d (x%d) at d=%d on lines 1 and 2", amp, 1 << sh, pos);
        v = 128L << sh;
        if (d == pos && (l == 1 || l == 2)) v += (long)amp << sh;
        return v < 0 ? 0 : v > hi ? hi : v;
    }
}

// k->a: 1 = vertical edge (filter along rows), 0 = horizontal edge; k->b: 1 = high bit depth
void drv_lpf(Run *r) {
    const Kern *k = r->k;
    int         vert = k->a, hbd = k->b;
    static const int ST[4] = {16, 17, 32, 80};
    static const int BD[3] = {8, 10, 12};
    char        nm[160];
    uint8_t     mblim[16] ALIGN64, lim[16] ALIGN64, hev[16] ALIGN64;
    int         nprof = lpf_nprofiles(r);
    for (int bi = 0; bi < (hbd ? 3 : 1); bi++) {
        int  bd = BD[bi], sh = bd - 8;
        long hi = (1L << bd) - 1;
        for (int si = 0; si < 4; si++) {
            int    st = ST[si];
            size_t n = 64 + (size_t)16 * st + 64;
            for (int pi = 0; pi < nprof; pi++) {
                if (r->stop) return;
                int prepared = 0;
                for (int sharp = 0; sharp < 8; sharp++)
                    for (int lvl = 1; lvl < 64; lvl++) {
                        // thin the level x sharpness grid in the quick tier for the big profile families (all levels for sharpness 0)
                        if (!r->thorough && sharp != 0 && (lvl + sharp + pi) % 8 != 0) continue;
                        if (r->stop) return;
                        if (case_skip_fast(r)) continue;
                        if (!prepared) {
                            prepared = 1;
                            if (hbd) { kc_junk(LP16, n * 2, 21); for (size_t i = 0; i < n; i++) LP16[i] &= hi; }
                            else kc_junk(LP8, n, 21);
                            for (int l = 0; l < 4; l++)
                                for (int d = -8; d < 8; d++) {
                                    long v = lpf_profile(r, pi, d, l, sh, hi, NULL);
                                    // centre of the 16x16 window: (8,8); vertical edge: d runs along x, lines along y
                                    size_t o = vert ? 64 + (size_t)(8 + l) * st + (8 + d) : 64 + (size_t)(8 + d) * st + (8 + l);
                                    if (hbd) LP16[o] = (uint16_t)v; else LP8[o] = (uint8_t)v;
                                }
                        }
                        if (!case_begin(r, pi > PAT_MID)) continue;
                        int il = lvl >> ((sharp > 0) + (sharp > 4));
                        if (sharp > 0 && il > 9 - sharp) il = 9 - sharp;
                        if (il < 1) il = 1;
                        memset(lim, il, 16);
                        memset(mblim, 2 * (lvl + 2) + il, 16);
                        memset(hev, lvl >> 4, 16);
                        size_t so = 64 + (size_t)8 * st + 8;
                        if (hbd) {
                            memcpy(LA16, LP16, n * 2);
                            ((lpf16_fn)k->c)(LA16 + so, st, mblim, lim, hev, bd);
                        } else {
                            memcpy(LA8, LP8, n);
                            ((lpf8_fn)k->c)(LA8 + so, st, mblim, lim, hev);
                        }
                        if (r->verbose) {
                            lpf_profile(r, pi, 0, 0, sh, hi, nm);
                            VERBOSE(r, "case %lld: bd=%d pitch=%d level=%d sharpness=%d (mblim=%d lim=%d hev_thr=%d) %s", r->case_idx - 1, bd, st, lvl, sharp,
                                    mblim[0], lim[0], hev[0], nm);
                        }
                        for (int vi = 0; vi < k->nv; vi++) {
                            if (!var_on(r, vi)) continue;
                            long d;
                            if (hbd) {
                                memcpy(LB16, LP16, n * 2);
                                ((lpf16_fn)k->v[vi].fn)(LB16 + so, st, mblim, lim, hev, bd);
                                d = kc_diff(LA16, LB16, n * 2);
                                if (d >= 0) d /= 2;
                            } else {
                                memcpy(LB8, LP8, n);
                                ((lpf8_fn)k->v[vi].fn)(LB8 + so, st, mblim, lim, hev);
                                d = kc_diff(LA8, LB8, n);
                            }
                            if (d >= 0) {
                                lpf_profile(r, pi, 0, 0, sh, hi, nm);
                                MISMATCH(r, vi, "bd=%d pitch=%d filter level=%d sharpness=%d (mblim=%d lim=%d hev_thr=%d), pixels: %s: first difference at window row %ld col %ld (edge at %s 8): c=%d simd=%d",
                                         bd, st, lvl, sharp, mblim[0], lim[0], hev[0], nm, (d - 64) / st, (d - 64) % st, vert ? "col" : "row",
                                         hbd ? LA16[d] : LA8[d], hbd ? LB16[d] : LB8[d]);
                            }
                        }
                    }
            }
        }
    }
}

// ------------------------------------------------------------------------------------------------ CDEF direction search
typedef int32_t (*find_dir_fn)(const uint16_t *img, int32_t stride, int32_t *var, int32_t coeff_shift);
static uint16_t CI[24 * CDEF_BSTRIDE + 256] ALIGN64;

// Caller: svt_cdef_filter_fb (Common/Codec/EbCdef.c:341): 8x8 blocks inside the CDEF_BSTRIDE-strided 16-bit input buffer, pixel values of
// the coded bit depth, coeff_shift = bit_depth - 8.  Patterns: the base alphabet plus oriented stripes for each of the 8 directions.
void drv_cdef_find_dir(Run *r) {
    const Kern *k = r->k;
    static const int ST[3] = {CDEF_BSTRIDE, 8, 24};
    static const int DX[8] = {1, 2, 1, 0, -1, -2, -1, 1}, DY[8] = {-1, -1, -2, 1, -2, -1, -1, 0}; // stripe normals (approximate)
    for (int sh = 0; sh <= 4; sh += 2) {
        long hi = (256L << sh) - 1;
        int  np = kc_npat(r, 0, hi), total = np + 8 * 4;
        for (int si = 0; si < 3; si++)
            for (int p = 0; p < total; p++) {
                if (r->stop) return;
                if (case_skip_fast(r)) continue;
                int st = ST[si];
                kc_junk(CI, sizeof CI, 31);
                if (p < np) kc_fill_u16(CI + 64, 8, 8, st, p, 0, hi);
                else {
                    int dir = (p - np) / 4, period = 2 + (p - np) % 4;
                    for (int y = 0; y < 8; y++)
                        for (int x = 0; x < 8; x++) {
                            int t = x * DX[dir] + y * DY[dir];
                            CI[64 + y * st + x] = (uint16_t)((((t % period) + period) % period) < period / 2 ? hi : (dir & 1 ? hi / 3 : 0));
                        }
                }
                if (!case_begin(r, p > PAT_MID)) continue;
                int32_t cv = 0x5A5A5A5A, cd = ((find_dir_fn)k->c)(CI + 64, st, &cv, sh);
                VERBOSE(r, "case %lld: coeff_shift=%d stride=%d pattern %d -> c dir=%d var=%d", r->case_idx - 1, sh, st, p, cd, cv);
                for (int vi = 0; vi < k->nv; vi++) {
                    if (!var_on(r, vi)) continue;
                    int32_t vv = 0x5A5A5A5A, vd = ((find_dir_fn)k->v[vi].fn)(CI + 64, st, &vv, sh);
                    if (vd != cd || vv != cv) {
                        char b[32];
                        MISMATCH(r, vi, "coeff_shift=%d stride=%d 8x8 block %s%s %d: c dir=%d var=%d, simd dir=%d var=%d", sh, st,
                                 p < np ? "pattern " : "stripes direction/period index", p < np ? kc_pat_name(p, 0, hi, b) : "", p < np ? 0 : p - np, cd, cv, vd, vv);
                    }
                }
            }
    }
}

// ------------------------------------------------------------------------------------------------ CDEF filter
typedef void (*cdef_filter_fn)(uint8_t *dst8, uint16_t *dst16, int32_t dstride, const uint16_t *in, int32_t pri_strength, int32_t sec_strength,
                               int32_t dir, int32_t pri_damping, int32_t sec_damping, int32_t bsize, int32_t coeff_shift);
static uint16_t CF_IN[16 * CDEF_BSTRIDE + 256] ALIGN64, CF_A16[12 * CDEF_BSTRIDE + 256] ALIGN64, CF_B16[12 * CDEF_BSTRIDE + 256] ALIGN64;
static uint8_t  CF_A8[12 * CDEF_BSTRIDE + 256] ALIGN64, CF_B8[12 * CDEF_BSTRIDE + 256] ALIGN64;

// Callers: svt_cdef_filter_fb (Common/Codec/EbCdef.c:358-389).  pri_strength: 0..15 << coeff_shift, for luma scaled down by
// adjust_strength() (any integer 0..15<<shift); sec_strength in {0,1,2,4} << coeff_shift; dir 0..7 (0 when pri_strength==0);
// damping = frame damping (3..6) + coeff_shift - (plane != Y), the same value for primary and secondary; bsize 8x8 (luma, 444),
// 4x4 (420 chroma), 4x8 / 8x4 (422/440); the input window has a 2-sample border which is CDEF_VERY_LARGE outside the frame;
// dst8 (8-bit pictures) with dstride = picture stride or dense (1<<bsizex) in the search; dst16 likewise.
void drv_cdef_filter_block(Run *r) {
    const Kern *k = r->k;
    static const int BS[4] = {BLOCK_8X8, BLOCK_4X4, BLOCK_4X8, BLOCK_8X4};
    static const int SEC[4] = {0, 1, 2, 4};
    static const int CPAT[10] = {PAT_LO, PAT_HI, PAT_MID, PAT_CHECK, PAT_ROWRAMP, PAT_COLRAMP, PAT_HI_TL, PAT_LO_BR, PAT_ALT_COL, PAT_TEXTURE};
    for (int sh = 0; sh <= 4; sh += 2) {
        long hi = (256L << sh) - 1;
        for (int bi = 0; bi < 4; bi++) {
            int bs = BS[bi], bw = (bs == BLOCK_8X8 || bs == BLOCK_8X4) ? 8 : 4, bh = (bs == BLOCK_8X8 || bs == BLOCK_4X8) ? 8 : 4;
            for (int use8 = (sh == 0 ? 1 : 0); use8 >= 0; use8--)
                for (int dsi = 0; dsi < 2; dsi++) {
                    int dstride = dsi ? CDEF_BSTRIDE : bw;
                    for (int border = 0; border < 6; border++)
                        for (int pi = 0; pi < 10; pi++) {
                            if (r->stop) return;
                            int prepared = 0;
                            for (int damp = 3 - (bs != BLOCK_8X8); damp <= 6; damp++)
                                for (int priL = 0; priL < 16; priL++)
                                    for (int adj = 0; adj < (bs == BLOCK_8X8 ? 3 : 1); adj++)
                                        for (int si = 0; si < 4; si++)
                                            for (int dir = 0; dir < 8; dir++) {
                                                int pri = priL << sh;
                                                if (adj == 1) pri = (pri * 7 + 8) >> 4;   // adjust_strength() with i = 3
                                                if (adj == 2) pri = (pri * 11 + 8) >> 4;  // i = 7
                                                if (adj && pri == (priL << sh)) continue;
                                                if (pri == 0 && dir != 0) continue; // callers pass dir 0 when the primary strength is 0
                                                if (!r->thorough && (dir * 5 + priL * 3 + si + damp + pi + border) % 4 != 0 && !(priL == 15 && si == 3)) continue;
                                                if (r->stop) return;
                                                if (case_skip_fast(r)) continue;
                                                if (!prepared) {
                                                    prepared = 1;
                                                    kc_junk(CF_IN, sizeof CF_IN, 41);
                                                    for (size_t i = 0; i < sizeof CF_IN / 2; i++) CF_IN[i] &= hi;
                                                    // window rows 0..bh+3, cols 6..bw+9: the block is at row 2, col 8 (HBORDER) of an aligned row base
                                                    kc_fill_u16(CF_IN + 64 + 6, bw + 4, bh + 4, CDEF_BSTRIDE, CPAT[pi], 0, hi);
                                                    for (int y = 0; y < bh + 4; y++)
                                                        for (int x = 0; x < bw + 4; x++) {
                                                            int top = y < 2, bot = y >= bh + 2, lef = x < 2, rig = x >= bw + 2;
                                                            int big = (border == 1 && top) || (border == 2 && bot) || (border == 3 && lef) || (border == 4 && rig) ||
                                                                      (border == 5 && (top || bot || lef || rig));
                                                            if (big) CF_IN[64 + 6 + y * CDEF_BSTRIDE + x] = CDEF_VERY_LARGE;
                                                        }
                                                }
                                                if (!case_begin(r, pi > 2 || border)) continue;
                                                int             dmp = damp + sh, sec = SEC[si] << sh;
                                                const uint16_t *in = CF_IN + 64 + 2 * CDEF_BSTRIDE + 8;
                                                size_t          n = 64 + (size_t)bh * dstride + 64;
                                                if (use8) { kc_junk(CF_A8, n, 43); ((cdef_filter_fn)k->c)(CF_A8 + 64, NULL, dstride, in, pri, sec, dir, dmp, dmp, bs, sh); }
                                                else { kc_junk(CF_A16, n * 2, 43); ((cdef_filter_fn)k->c)(NULL, CF_A16 + 64, dstride, in, pri, sec, dir, dmp, dmp, bs, sh); }
                                                VERBOSE(r, "case %lld: coeff_shift=%d block %dx%d dst=%s dstride=%d border=%d pattern=%d pri=%d sec=%d dir=%d damping=%d", r->case_idx - 1,
                                                        sh, bw, bh, use8 ? "8-bit" : "16-bit", dstride, border, CPAT[pi], pri, sec, dir, dmp);
                                                for (int vi = 0; vi < k->nv; vi++) {
                                                    if (!var_on(r, vi)) continue;
                                                    long d;
                                                    if (use8) {
                                                        kc_junk(CF_B8, n, 43);
                                                        ((cdef_filter_fn)k->v[vi].fn)(CF_B8 + 64, NULL, dstride, in, pri, sec, dir, dmp, dmp, bs, sh);
                                                        d = kc_diff(CF_A8, CF_B8, n);
                                                    } else {
                                                        kc_junk(CF_B16, n * 2, 43);
                                                        ((cdef_filter_fn)k->v[vi].fn)(NULL, CF_B16 + 64, dstride, in, pri, sec, dir, dmp, dmp, bs, sh);
                                                        d = kc_diff(CF_A16, CF_B16, n * 2);
                                                        if (d >= 0) d /= 2;
                                                    }
                                                    if (d >= 0) {
                                                        char b[32];
                                                        static const char *BN[6] = {"none", "2 rows above", "2 rows below", "2 columns left", "2 columns right", "all four sides"};
                                                        MISMATCH(r, vi, "coeff_shift=%d block %dx%d %s destination dstride=%d, input window (block + 2-sample border) pattern '%s' in 0..%ld, CDEF_VERY_LARGE border: %s, pri_strength=%d sec_strength=%d dir=%d pri_damping=sec_damping=%d: first difference at dst offset %ld (row %ld col %ld): c=%d simd=%d",
                                                                 sh, bw, bh, use8 ? "8-bit" : "16-bit", dstride, kc_pat_name(CPAT[pi], 0, hi, b), hi, BN[border], pri, sec, dir, dmp, d - 64,
                                                                 (d - 64) / dstride, (d - 64) % dstride, use8 ? CF_A8[d] : CF_A16[d], use8 ? CF_B8[d] : CF_B16[d]);
                                                    }
                                                }
                                            }
                        }
                }
        }
    }
}

// ------------------------------------------------------------------------------------------------ CDEF distortion
typedef uint64_t (*cdef_dist16_fn)(const uint16_t *dst, int32_t dstride, const uint16_t *src, const CdefList *dlist, int32_t cdef_count, BlockSize bsize,
                                   int32_t coeff_shift, int32_t pli);
typedef uint64_t (*cdef_dist8_fn)(const uint8_t *dst, int32_t dstride, const uint8_t *src, const CdefList *dlist, int32_t cdef_count, BlockSize bsize,
                                  int32_t coeff_shift, int32_t pli);
static uint16_t CD_D16[64 * 160 + 256] ALIGN64, CD_S16[64 * 64 + 256] ALIGN64;
static uint8_t  CD_D8[64 * 160 + 256] ALIGN64, CD_S8[64 * 64 + 256] ALIGN64;

// Callers: Encoder/Codec/EbCdefProcess.c:257,454: dst = reference picture area of one 64x64 filter block (stride = picture stride), src =
// the filtered 8x8 (or 4x4, 4x8, 8x4) blocks stored densely, dlist = the non-skipped blocks (by, bx < 8), cdef_count 1..64, coeff_shift =
// bit_depth - 8 (0 for the 8-bit kernel), pli 0..2 (the perceptual 8x8 metric is used for luma only).
// k->a: 1 = 16-bit kernel
void drv_cdef_dist(Run *r) {
    const Kern *k = r->k;
    int         is16 = k->a;
    static const int BS[4] = {BLOCK_8X8, BLOCK_4X4, BLOCK_4X8, BLOCK_8X4};
    static const int ST[3] = {64, 80, 144};
    CdefList    dl[64];
    char        n1[32], n2[32];
    for (int sh = 0; sh <= (is16 ? 4 : 0); sh += 2) {
        long hi = (256L << sh) - 1;
        int  np = kc_npat(r, 0, hi);
        for (int bi = 0; bi < 4; bi++) {
            int bs = BS[bi], bw = (bs == BLOCK_8X8 || bs == BLOCK_8X4) ? 8 : 4, bh = (bs == BLOCK_8X8 || bs == BLOCK_4X8) ? 8 : 4;
            for (int pli = 0; pli < 2; pli++) {
                if (pli == 0 && bs != BLOCK_8X8) continue; // luma blocks are always 8x8
                for (int li = 0; li < 4; li++) {
                    // block lists: a single block, the diagonal, a checkerboard, all 64
                    int cnt = 0;
                    for (int by = 0; by < 8; by++)
                        for (int bx = 0; bx < 8; bx++) {
                            int on = li == 0 ? (by == 5 && bx == 2) : li == 1 ? by == bx : li == 2 ? ((by + bx) & 1) : 1;
                            if (on) { dl[cnt].by = (uint8_t)by; dl[cnt].bx = (uint8_t)bx; dl[cnt].skip = 0; cnt++; }
                        }
                    for (int si = 0; si < 3; si++)
                        for (int pa = 0; pa < np; pa++)
                            for (int pb = 0; pb < np; pb++) {
                                if (r->stop) return;
                                if (case_skip_fast(r)) continue;
                                int st = ST[si];
                                if (is16) {
                                    kc_fill_u16(CD_D16 + 64, 8 * bw, 8 * bh, st, pa, 0, hi);
                                    kc_fill_u16(CD_S16 + 64, bw * bh, cnt, bw * bh, pb, 0, hi);
                                } else {
                                    kc_fill_u8(CD_D8 + 64, 8 * bw, 8 * bh, st, pa, 0, hi);
                                    kc_fill_u8(CD_S8 + 64, bw * bh, cnt, bw * bh, pb, 0, hi);
                                }
                                if (!case_begin(r, kc_pat_nontrivial(pa) || kc_pat_nontrivial(pb))) continue;
                                uint64_t c = is16 ? ((cdef_dist16_fn)k->c)(CD_D16 + 64, st, CD_S16 + 64, dl, cnt, (BlockSize)bs, sh, pli)
                                                  : ((cdef_dist8_fn)k->c)(CD_D8 + 64, st, CD_S8 + 64, dl, cnt, (BlockSize)bs, sh, pli);
                                VERBOSE(r, "case %lld: coeff_shift=%d %dx%d pli=%d list=%d (count %d) stride=%d ref=%s filtered=%s -> c %llu", r->case_idx - 1, sh, bw, bh, pli, li,
                                        cnt, st, kc_pat_name(pa, 0, hi, n1), kc_pat_name(pb, 0, hi, n2), (unsigned long long)c);
                                for (int vi = 0; vi < k->nv; vi++) {
                                    if (!var_on(r, vi)) continue;
                                    uint64_t v = is16 ? ((cdef_dist16_fn)k->v[vi].fn)(CD_D16 + 64, st, CD_S16 + 64, dl, cnt, (BlockSize)bs, sh, pli)
                                                      : ((cdef_dist8_fn)k->v[vi].fn)(CD_D8 + 64, st, CD_S8 + 64, dl, cnt, (BlockSize)bs, sh, pli);
                                    if (v != c)
                                        MISMATCH(r, vi, "coeff_shift=%d blocks %dx%d plane=%d block list %s (count %d) reference stride=%d reference area pattern '%s' filtered blocks pattern '%s' (0..%ld): c returns %llu, simd returns %llu",
                                                 sh, bw, bh, pli, li == 0 ? "{(5,2)}" : li == 1 ? "diagonal" : li == 2 ? "checkerboard" : "all 64", cnt, st,
                                                 kc_pat_name(pa, 0, hi, n1), kc_pat_name(pb, 0, hi, n2), hi, (unsigned long long)c, (unsigned long long)v);
                                }
                            }
                }
            }
        }
    }
}
