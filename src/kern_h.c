// C07 harness main: long-lived worker that runs the per-signature-class drivers over kernels of the generated table.
//   kern_h list
//   kern_h work tier=quick|thorough deadline=<s>        (kernel indices on stdin, one per line; one JSON line per kernel)
//   kern_h replay k=<dispatch pointer> v=<variant function> case=<n> tier=quick|thorough
#include <signal.h>
#include <stdlib.h>
#include <time.h>
#include <unistd.h>
#include "kern_core.h"

double kc_now(void) {
    struct timespec ts;
    clock_gettime(CLOCK_MONOTONIC, &ts);
    return ts.tv_sec + ts.tv_nsec * 1e-9;
}

// ------------------------------------------------------------------------------------------------------------ patterns
static const char *PATN[PAT_BASE_N] = {"all-min", "all-max", "all-mid", "checker(min,max)", "checker(max,min)", "row-ramp", "col-ramp",
                                       "max@top-left", "max@top-right", "max@bottom-left", "max@bottom-right", "min@top-left",
                                       "min@bottom-right", "alt-columns(max,min)", "alt-rows(max,min)", "texture"};
static int walk_k(int thorough, int idx, long lo, long hi);
static int g_thorough;
const char *kc_pat_name(int pat, long lo, long hi, char *buf) {
    if (pat < PAT_BASE_N) return PATN[pat];
    sprintf(buf, "walk(2^%d)", walk_k(g_thorough, pat - PAT_WALK0, lo, hi));
    return buf;
}
static int bits_of(long lo, long hi) {
    long m = hi > -lo ? hi : -lo;
    int  b = 0;
    while ((1L << b) <= m) b++;
    return b; // 2^(b-1) <= m
}
int kc_npat(Run *r, long lo, long hi) {
    int b = bits_of(lo, hi);
    if (r->thorough) return PAT_BASE_N + b;
    return PAT_BASE_N + (b < 4 ? b : 4);
}
// quick tier: the 4 walking values are 2^0, 2^(b/3), 2^(2b/3), 2^(b-1)
static int walk_k(int thorough, int idx, long lo, long hi) {
    int b = bits_of(lo, hi);
    if (thorough || b <= 4) return idx;
    static const int num[4] = {0, 1, 2, 3};
    return idx == 3 ? b - 1 : num[idx] * b / 3;
}
long kc_pat_value(int pat, int x, int y, int w, int h, long lo, long hi) {
    long mid = lo + (hi - lo + 1) / 2;
    switch (pat) {
    case PAT_LO: return lo;
    case PAT_HI: return hi;
    case PAT_MID: return mid;
    case PAT_CHECK: return ((x + y) & 1) ? hi : lo;
    case PAT_CHECK_INV: return ((x + y) & 1) ? lo : hi;
    case PAT_ROWRAMP: return h > 1 ? lo + (hi - lo) * y / (h - 1) : lo;
    case PAT_COLRAMP: return w > 1 ? lo + (hi - lo) * x / (w - 1) : hi;
    case PAT_HI_TL: return (x == 0 && y == 0) ? hi : lo;
    case PAT_HI_TR: return (x == w - 1 && y == 0) ? hi : lo;
    case PAT_HI_BL: return (x == 0 && y == h - 1) ? hi : lo;
    case PAT_HI_BR: return (x == w - 1 && y == h - 1) ? hi : lo;
    case PAT_LO_TL: return (x == 0 && y == 0) ? lo : hi;
    case PAT_LO_BR: return (x == w - 1 && y == h - 1) ? lo : hi;
    case PAT_ALT_COL: return (x & 1) ? lo : hi;
    case PAT_ALT_ROW: return (y & 1) ? lo : hi;
    case PAT_TEXTURE: {
        // fixed texture (a deterministic function of the position): catches permutations that symmetric patterns cannot
        uint32_t v = (uint32_t)(x * 0x9E3779B1u) ^ (uint32_t)(y * 0x85EBCA77u) ^ 0xC2B2AE3Du;
        v ^= v >> 15; v *= 0x2C1B3C6Du; v ^= v >> 12; v *= 0x297A2D39u; v ^= v >> 15;
        return lo + (long)(v % (unsigned long)(hi - lo + 1));
    }
    default: {
        int  k = walk_k(g_thorough, pat - PAT_WALK0, lo, hi);
        long n = (long)w * h, pos = (5L * k) % n, v;
        if (y * (long)w + x != pos) return lo < 0 ? 0 : mid;
        v = (lo < 0 ? ((k & 1) ? -(1L << k) : (1L << k)) : lo + (1L << k));
        return v > hi ? hi : v < lo ? lo : v;
    }
    }
}
#define FILL(NAME, T)                                                                      \
    void NAME(T *p, int w, int h, int stride, int pat, long lo, long hi) {                 \
        for (int y = 0; y < h; y++)                                                        \
            for (int x = 0; x < w; x++) p[(long)y * stride + x] = (T)kc_pat_value(pat, x, y, w, h, lo, hi); \
    }
FILL(kc_fill_u8, uint8_t)
FILL(kc_fill_u16, uint16_t)
FILL(kc_fill_i16, int16_t)
FILL(kc_fill_i32, int32_t)
void kc_junk(void *p, size_t n, unsigned seed) {
    uint8_t *b = p;
    uint32_t s = seed * 2654435761u + 12345u;
    for (size_t i = 0; i < n; i++) {
        s = s * 1664525u + 1013904223u;
        b[i] = (uint8_t)(s >> 24);
    }
}

// ------------------------------------------------------------------------------------------------------------ running
static int isa_ok[ISA_N];
static const char *ISAN[ISA_N] = {"mmx", "sse", "sse2", "sse3", "ssse3", "sse4_1", "sse4_2", "avx", "avx2", "avx512"};
static void detect_isa(void) {
    __builtin_cpu_init();
    isa_ok[ISA_MMX] = __builtin_cpu_supports("mmx");
    isa_ok[ISA_SSE] = __builtin_cpu_supports("sse");
    isa_ok[ISA_SSE2] = __builtin_cpu_supports("sse2");
    isa_ok[ISA_SSE3] = __builtin_cpu_supports("sse3");
    isa_ok[ISA_SSSE3] = __builtin_cpu_supports("ssse3");
    isa_ok[ISA_SSE4_1] = __builtin_cpu_supports("sse4.1");
    isa_ok[ISA_SSE4_2] = __builtin_cpu_supports("sse4.2");
    isa_ok[ISA_AVX] = __builtin_cpu_supports("avx");
    isa_ok[ISA_AVX2] = __builtin_cpu_supports("avx2");
    isa_ok[ISA_AVX512] = __builtin_cpu_supports("avx512f") && __builtin_cpu_supports("avx512bw") && __builtin_cpu_supports("avx512dq") &&
                         __builtin_cpu_supports("avx512vl") && __builtin_cpu_supports("avx512cd");
}

void kern_table_init(void);
static Run g_run;
static void on_signal(int sig) {
    // a crash inside a kernel: report where and leave (the parent restarts a worker)
    char b[512];
    int  n = snprintf(b, sizeof b, "{\"crash\":%d,\"ptr\":\"%s\",\"case\":%lld}\n", sig, g_run.k ? g_run.k->ptr : "-", g_run.case_idx - 1);
    if (write(1, b, n) < 0) {}
    _exit(40);
}

const Kern *kc_find_kern(const char *ptr) {
    for (int i = 0; i < g_nkerns; i++)
        if (!strcmp(g_kerns[i].ptr, ptr)) return &g_kerns[i];
    return NULL;
}

static const Driver *find_drv(const char *name) {
    for (int i = 0; i < g_ndrivers; i++)
        if (!strcmp(g_drivers[i].name, name)) return &g_drivers[i];
    return NULL;
}

static void json_str(const char *s) {
    putchar('"');
    for (; *s; s++) {
        if (*s == '"' || *s == '\\') putchar('\\');
        if ((unsigned char)*s < 32) putchar(' ');
        else putchar(*s);
    }
    putchar('"');
}

static void run_kernel(int ki, int thorough, double deadline, long long only_case, const char *only_var, int verbose) {
    const Kern *k = &g_kerns[ki];
    Run        *r = &g_run;
    memset(r, 0, sizeof *r);
    r->k = k;
    r->thorough = g_thorough = thorough;
    r->only_case = only_case;
    r->only_var = -1;
    r->verbose = verbose;
    r->deadline = deadline;
    for (int i = 0; i < k->nv; i++) {
        r->var[i].skipped = !isa_ok[k->v[i].isa];
        r->var[i].first_case = -1;
        r->var[i].soft_first_case = -1;
        if (only_var && !strcmp(only_var, k->v[i].name)) r->only_var = i;
    }
    const Driver *d = find_drv(k->drv);
    double        t0 = kc_now();
    if (d) d->fn(r);
    printf("{\"k\":%d,\"ptr\":\"%s\",\"drv\":\"%s\",\"c\":\"%s\",\"cases\":%lld,\"c_calls\":%llu,\"timed_out\":%d,\"wall\":%.3f,\"variants\":[", ki,
           k->ptr, k->drv, k->cname, r->case_idx, r->c_calls, r->timed_out, kc_now() - t0);
    for (int i = 0; i < k->nv; i++) {
        VarRes *v = &r->var[i];
        printf("%s{\"name\":\"%s\",\"isa\":\"%s\",\"skipped\":%d,\"calls\":%llu,\"nontrivial\":%llu,\"mismatches\":%llu,\"first_case\":%lld,\"desc\":",
               i ? "," : "", k->v[i].name, ISAN[k->v[i].isa], v->skipped, v->calls, v->nontrivial, v->mism, v->first_case);
        json_str(v->mism ? v->desc : "");
        printf(",\"soft\":%llu,\"soft_first_case\":%lld,\"soft_desc\":", v->soft, v->soft_first_case);
        json_str(v->soft ? v->soft_desc : "");
        printf("}");
    }
    printf("]}\n");
    fflush(stdout);
}

static const char *arg(int argc, char **argv, const char *k, const char *def) {
    size_t n = strlen(k);
    for (int i = 2; i < argc; i++)
        if (!strncmp(argv[i], k, n) && argv[i][n] == '=') return argv[i] + n + 1;
    return def;
}

int main(int argc, char **argv) {
    if (argc < 2) return 2;
    detect_isa();
    kern_table_init();
    setvbuf(stdout, NULL, _IOLBF, 0);
    if (!strcmp(argv[1], "list")) {
        printf("{\"isa\":{");
        for (int i = 0; i < ISA_N; i++) printf("%s\"%s\":%d", i ? "," : "", ISAN[i], isa_ok[i]);
        printf("},\"kernels\":[");
        for (int i = 0; i < g_nkerns; i++) {
            const Kern *k = &g_kerns[i];
            printf("%s{\"k\":%d,\"ptr\":\"%s\",\"drv\":\"%s\",\"w\":%d,\"h\":%d,\"have_driver\":%d,\"variants\":[", i ? "," : "", i, k->ptr, k->drv,
                   k->w, k->h, find_drv(k->drv) != NULL);
            for (int j = 0; j < k->nv; j++) printf("%s[\"%s\",\"%s\"]", j ? "," : "", k->v[j].name, ISAN[k->v[j].isa]);
            printf("]}");
        }
        printf("]}\n");
        return 0;
    }
    signal(SIGSEGV, on_signal);
    signal(SIGBUS, on_signal);
    signal(SIGILL, on_signal);
    signal(SIGFPE, on_signal);
    signal(SIGABRT, on_signal);
    int thorough = !strcmp(arg(argc, argv, "tier", "quick"), "thorough");
    if (!strcmp(argv[1], "work")) {
        double deadline = kc_now() + atof(arg(argc, argv, "deadline", "600"));
        char   line[64];
        while (fgets(line, sizeof line, stdin)) {
            int ki = atoi(line);
            if (ki < 0 || ki >= g_nkerns) break;
            run_kernel(ki, thorough, deadline, -1, NULL, 0);
        }
        return 0;
    }
    if (!strcmp(argv[1], "replay")) {
        const char *kn = arg(argc, argv, "k", ""), *vn = arg(argc, argv, "v", NULL);
        long long   cs = atoll(arg(argc, argv, "case", "-1"));
        for (int i = 0; i < g_nkerns; i++)
            if (!strcmp(g_kerns[i].ptr, kn)) {
                run_kernel(i, thorough, kc_now() + 3600, cs, vn, 1);
                unsigned long long m = 0;
                for (int j = 0; j < g_kerns[i].nv; j++) m += g_run.var[j].mism + g_run.var[j].soft;
                return m ? 1 : 0;
            }
        fprintf(stderr, "unknown kernel %s\n", kn);
        return 2;
    }
    return 2;
}
