// C07 driver (group blend, part 4): svt_aom_upsampled_pred (8-bit sub-pel predictor of the mode-decision sub-pel search).
//
// Valid domain (call sites mcomp.c:125 svt_upsampled_pref_error, av1me.c:1001/1018 upsampled_obmc_pref_error):
//  * xd, cm, mi_row, mi_col, mv are unused by both implementations ((void) casts) - NULL / 0 are passed.
//  * width x height = the block of the sub-pel search: AV1 block sizes 4x4 .. 128x128; comp_pred is a contiguous width x height buffer
//    (DECLARE_ALIGNED(16) pred[MAX_SB_SQUARE]).
//  * subpel_x_q3, subpel_y_q3 = svt_get_subpel_part(mv) in 0..7: all 64 combinations.
//  * subpel_search = md_subpel_*_ctrls.subpel_search_type: USE_4_TAPS or USE_8_TAPS (EbEncDecProcess.c:2016..2060, EbModeDecision.c:3029);
//    USE_2_TAPS is accepted by the function but never passed, USE_2_TAPS_ORIG asserts.
//  * ref points into a padded reference picture at an arbitrary (motion vector dependent) position: offsets 0 / 1 from the aligned
//    storage, stride >= width + 8; the filters read 3 samples before and 4 after the block in each filtered direction
//    (the enumerated patterns cover a (w + 8) x (h + 8) area around the block, everything else is valid 8-bit junk).
#include "EbDefinitions.h"
#include "kern_core.h"

#define ALIGN64 __attribute__((aligned(64)))
#define GUARD 64
#define MAXW 128
#define REF_ELEMS (4 * GUARD + (MAXW + 16) * (2 * MAXW + 32))

typedef void (*ups_fn)(void *xd, const void *cm, int mi_row, int mi_col, const void *mv, uint8_t *comp_pred, int width, int height, int subpel_x_q3,
                       int subpel_y_q3, const uint8_t *ref, int ref_stride, int subpel_search);

static uint8_t RF[REF_ELEMS] ALIGN64, OC[MAXW * MAXW + 2 * GUARD] ALIGN64, OV[MAXW * MAXW + 2 * GUARD] ALIGN64, OJ[MAXW * MAXW + 2 * GUARD] ALIGN64;

void drv_upsampled_pred(Run *r) {
    const Kern      *k = r->k;
    static const int SEARCH[2] = {USE_4_TAPS, USE_8_TAPS};
    static const int BIGPAT[7] = {PAT_LO, PAT_HI, PAT_MID, PAT_CHECK, PAT_ROWRAMP, PAT_COLRAMP, PAT_TEXTURE};
    char             n0[32];
    kc_junk(OJ, sizeof OJ, 7);
    kc_junk(RF, sizeof RF, 3);
    for (int a = 16; a <= 128 * 128; a *= 2)
        for (int w = 4; w <= 128; w *= 2) {
            int h = a / w;
            if (h * w != a || h < 4 || h > 128 || w > 4 * h || h > 4 * w) continue;
            if ((w == 128 || h == 128) && (w < 64 || h < 64)) continue;
            int st[4] = {w + 8, w + 9, w + 24, 2 * w + 8};
            int small = w * h <= 1024, np = kc_npat(r, 0, 255);
            // blocks > 1024 samples, quick tier: stride configuration 0 only and the 7 patterns of BIGPAT
            int ncfg = (small || r->thorough) ? 4 : 1, npp = (small || r->thorough) ? np : 7;
            for (int si = 0; si < 2; si++)
                for (int cfg = 0; cfg < ncfg; cfg++) {
                    int stride = st[cfg], off = cfg & 1;
                    for (int pi = 0; pi < npp; pi++) {
                        int p = (small || r->thorough) ? pi : BIGPAT[pi], filled = 0;
                        for (int sxy = 0; sxy < 64; sxy++) {
                            if (r->stop) return;
                            if (case_skip_fast(r)) continue;
                            // block origin 3 rows / 3 columns inside the patterned area
                            uint8_t *area = RF + 2 * GUARD + off, *ref = area + 3 * stride + 3;
                            if (!filled) { kc_fill_u8(area, w + 8, h + 8, stride, p, 0, 255); filled = 1; }
                            if (!case_begin(r, kc_pat_nontrivial(p))) continue;
                            int    sx = sxy & 7, sy = sxy >> 3;
                            size_t nb = (size_t)w * h + 2 * GUARD;
                            memcpy(OC, OJ, nb);
                            ((ups_fn)k->c)(NULL, NULL, 0, 0, NULL, OC + GUARD, w, h, sx, sy, ref, stride, SEARCH[si]);
                            VERBOSE(r, "case %lld: %dx%d subpel_x_q3=%d subpel_y_q3=%d subpel_search=%s ref_stride=%d ref offset %d reference area (w+8)x(h+8)=%s -> c pred[0..3] = %d %d %d %d",
                                    r->case_idx - 1, w, h, sx, sy, si ? "USE_8_TAPS" : "USE_4_TAPS", stride, off, kc_pat_name(p, 0, 255, n0), OC[GUARD], OC[GUARD + 1],
                                    OC[GUARD + 2], OC[GUARD + 3]);
                            for (int vi = 0; vi < k->nv; vi++) {
                                if (!var_on(r, vi)) continue;
                                memcpy(OV, OJ, nb);
                                ((ups_fn)k->v[vi].fn)(NULL, NULL, 0, 0, NULL, OV + GUARD, w, h, sx, sy, ref, stride, SEARCH[si]);
                                long d = kc_diff(OC, OV, nb);
                                if (d >= 0)
                                    MISMATCH(r, vi, "%dx%d subpel_x_q3=%d subpel_y_q3=%d subpel_search=%s ref_stride=%d ref offset %d, reference area ((w+8)x(h+8), block at (3,3)) pattern '%s': first difference at comp_pred index %ld (row %ld col %ld): c=%d simd=%d",
                                             w, h, sx, sy, si ? "USE_8_TAPS" : "USE_4_TAPS", stride, off, kc_pat_name(p, 0, 255, n0), d - GUARD, (d - GUARD) / w,
                                             (d - GUARD) % w, OC[d], OV[d]);
                            }
                        }
                    }
                }
        }
}
