/* sched.c - controlled serialising scheduler for SVT-AV1 (DESIGN.md 3.2).
 *
 * Linked with  -Wl,--wrap=svt_create_thread,... (see lib/schedlib.py).  Every SVT synchronisation primitive is
 * emulated here; exactly one thread runs at a time (futex hand-off); every visible operation is a scheduling
 * point.
 *
 * Mode 1 (whole library, stateless, delay bounded): the schedule is given by the environment
 *   VS_DELAYS="i:c,j:c,..."  at decision point i take alternative c (0 = canonical), canonical elsewhere
 *   VS_TRACE=<file>          one byte pair (enabled count, chosen index) per decision point + text summary
 *   VS_HORIZON=<n>           maximum number of decision points (overrun = exit 5)
 *   VS_STALL="p,q,..."       at decision point p the thread the canonical order would run is stalled for the rest of the
 *                            execution: it only runs when every other thread is blocked, finished or has spun a full round
 *                            without progress ("this thread is arbitrarily slow from here on"; a priority change point)
 *   VS_POLICY=0|1            0: canonical order ascending thread ids from the running thread, 1: descending
 *   VS_UNLOCK_YIELD=1        mutex release is a scheduling point too
 * Mode 2 (closed harness, explicit state): vs_explore() enumerates every interleaving; executions are cut at
 * decision points whose complete state (registered memory regions + live thread stacks + pending operations)
 * was expanded before.  Executions run in-process on a persistent pool of threads with fixed stacks (process
 * and thread creation is slow and globally serialised in this sandbox), several driver processes share the
 * visited set and the work stack.
 * This translation unit is compiled WITHOUT sanitizer instrumentation.
 */
#define _GNU_SOURCE
#include <errno.h>
#include <linux/futex.h>
#include <pthread.h>
#include <setjmp.h>
#include <stdint.h>
#include <stdio.h>
#include <stdlib.h>
#include <string.h>
#include <sys/mman.h>
#include <sys/syscall.h>
#include <sys/wait.h>
#include <time.h>
#include <unistd.h>
#include "vsched.h"
#include "vutil.h"

#ifdef VS_TSAN_ANNOTATE
void __tsan_acquire(void *addr);
void __tsan_release(void *addr);
#define TSAN_ACQ(p) __tsan_acquire((void *)(p))
#define TSAN_REL(p) __tsan_release((void *)(p))
#else
#define TSAN_ACQ(p) ((void)0)
#define TSAN_REL(p) ((void)0)
#endif

typedef uint32_t EbErrorType;
typedef void *EbHandle;
#define EB_ErrorNone 0

enum { OP_NONE, OP_START, OP_LOCK, OP_SEMWAIT, OP_POST, OP_CONDSET, OP_CONDWAIT, OP_CREATE, OP_JOIN, OP_YIELD,
       OP_QUIESCE, OP_SPIN, OP_EXIT, OP_ATOMIC };
static const char *opname[] = { "none", "start", "lock", "semwait", "post", "condset", "condwait", "create", "join",
                                "yield", "quiesce", "spin", "exit", "atomic" };

typedef struct VMutex { uint32_t magic; int id; int owner; /* -1 free */ } VMutex;
typedef struct VSem { uint32_t magic; int id; long count; } VSem;
typedef struct CondVarHdr { int32_t val; } CondVarHdr; /* first field of the library's CondVar */

#define MAXT 256
typedef struct VThread {
    int      id;
    volatile int futex; /* 0 parked, 1 run */
    int      op;        /* pending visible operation */
    void    *obj;       /* object of pending op */
    int32_t  arg;       /* condwait input / join target */
    int      finished, joined;
    pthread_t *handle;
    void *(*fn)(void *);
    void    *ctx;
    int      depri;     /* deprioritised (spinner / sleeper): goes last in canonical order */
    int      stalled;   /* VS_STALL: runs only when nobody else can make progress */
    void    *sp;        /* stack pointer at the parked yield (explicit-state mode) */
    void    *stack_top; /* frame of the trampoline / pool loop */
    void    *spin_pc;   /* caller of the last spin hook (diagnostics) */
} VThread;

static VThread thr[MAXT];
static int     nthr;
static int     cur = -1; /* running thread */
static __thread int self_id = -1;
static int     active;
static int     nobj;
static uint64_t opcount;

#define MAXDEV 64
static long dev_point[MAXDEV];
static int  dev_choice[MAXDEV];
static int  ndev;
static long npoints, nsteps;
static long horizon = 2000000;
static int  policy, max_enabled, verbose, unlock_yield;
static long spin_streak;
static long stall_point[MAXDEV];
static int  nstall, idle_spins;
static uint64_t trace_hash;
static FILE *trace_f, *t0_f; /* t0_f (VS_T0POINTS): indices of the decision points at which thread 0 (the application) is the one to run */
void (*vs_on_deadlock)(void);

#define MAXCV 4096
static void *cv_ptr[MAXCV];
static int   ncv;
static int cv_id(void *p) {
    for (int i = 0; i < ncv; i++) if (cv_ptr[i] == p) return i;
    if (ncv < MAXCV) { cv_ptr[ncv] = p; return ncv++; }
    return -1;
}

static void fwait(volatile int *w) {
    while (__atomic_load_n(w, __ATOMIC_ACQUIRE) == 0) syscall(SYS_futex, w, FUTEX_WAIT_PRIVATE, 0, NULL, NULL, 0);
    __atomic_store_n(w, 0, __ATOMIC_RELAXED);
}
static void fwake(volatile int *w) {
    __atomic_store_n(w, 1, __ATOMIC_RELEASE);
    syscall(SYS_futex, w, FUTEX_WAKE_PRIVATE, 1, NULL, NULL, 0);
}

static int is_enabled(VThread *t) {
    if (t->finished) return 0;
    switch (t->op) {
    case OP_LOCK: case OP_ATOMIC: return ((VMutex *)t->obj)->owner < 0;
    case OP_SEMWAIT: return ((VSem *)t->obj)->count > 0;
    case OP_CONDWAIT: return ((CondVarHdr *)t->obj)->val != t->arg;
    case OP_JOIN: return thr[t->arg].finished;
    case OP_NONE: return 0;
    default: return 1;
    }
}
static int obj_id(VThread *t) {
    switch (t->op) {
    case OP_LOCK: case OP_ATOMIC: return ((VMutex *)t->obj)->id;
    case OP_SEMWAIT: case OP_POST: return ((VSem *)t->obj)->id;
    case OP_CONDWAIT: case OP_CONDSET: return cv_id(t->obj);
    case OP_JOIN: return t->arg;
    default: return -1;
    }
}
static void dump_threads(FILE *f) {
    for (int i = 0; i < nthr; i++) {
        VThread *t = &thr[i];
        if (t->finished) continue;
        fprintf(f, "  thread %d: pending %s obj=%d arg=%d%s\n", i, opname[t->op], obj_id(t), t->arg, is_enabled(t) ? " (enabled)" : "");
    }
}
static void write_summary(const char *status) {
    if (!trace_f) return;
    fprintf(trace_f, "\n#SUMMARY status=%s points=%ld steps=%ld threads=%d max_enabled=%d trace_hash=%016llx ops=%llu\n",
            status, npoints, nsteps, nthr, max_enabled, (unsigned long long)trace_hash, (unsigned long long)opcount);
    if (strcmp(status, "ok")) dump_threads(trace_f);
    fflush(trace_f);
}

/* ================================================================== explicit-state mode: shared data */
#define EX_STACK (256 * 1024)
#define EX_MAXLEN 1000
#define EX_TABLE_BITS 24
#define EX_POOL 32
typedef struct { uint16_t len; uint8_t c[EX_MAXLEN]; } ExPath;
typedef struct {
    volatile int lock;
    volatile long nwork, work_cap;
    volatile long states, transitions, executions, cuts, complete, max_depth, violations, deadlocks, overflow;
    volatile long noutcomes, busy, capped, bad_exit;
    uint64_t outcomes[4096];
    char     viol_msg[2048];
    ExPath   viol_path;
    ExPath   sample[4]; int nsample;
    ExPath   inflight[64];
} ExShared;
typedef struct { pthread_t th; volatile int job; volatile int created; jmp_buf jb; } ExSlot;
static int       ex_on, ex_drv = -1;
static char     *ex_stacks;
static ExShared *ex_sh;
static uint64_t *ex_table;
static ExPath   *ex_work;
static ExPath    ex_prefix, ex_path;
static struct { void *p; size_t n; } ex_region[16];
static int       ex_nregion;
static ExSlot    ex_slot[EX_POOL];
static volatile int ex_abort, ex_live /* pool threads inside an execution */, ex_done /* futex for the coordinator */;
static int       ex_no_cut;
static void ex_lock(void) { while (__atomic_exchange_n(&ex_sh->lock, 1, __ATOMIC_ACQUIRE)) while (ex_sh->lock) __builtin_ia32_pause(); }
static void ex_unlock(void) { __atomic_store_n(&ex_sh->lock, 0, __ATOMIC_RELEASE); }
static int ex_insert(uint64_t h) { /* 1 if new */
    if (h == 0) h = 1;
    uint64_t mask = (1ull << EX_TABLE_BITS) - 1, i = h & mask;
    for (;;) {
        uint64_t v = __atomic_load_n(&ex_table[i], __ATOMIC_ACQUIRE);
        if (v == h) return 0;
        if (v == 0) {
            uint64_t exp = 0;
            if (__atomic_compare_exchange_n(&ex_table[i], &exp, h, 0, __ATOMIC_ACQ_REL, __ATOMIC_ACQUIRE)) return 1;
            if (exp == h) return 0;
        }
        i = (i + 1) & mask;
    }
}
static int ex_hash_parts = 7; /* diagnostic only: bit0 regions, bit1 thread ops, bit2 stacks */
static uint64_t ex_state_hash(void) {
    uint64_t h = 0x1234567;
    if (ex_hash_parts != 7) {
        if (ex_hash_parts & 1) for (int r = 0; r < ex_nregion; r++) h = vu_fnv(ex_region[r].p, ex_region[r].n, h);
        for (int i = 0; i < nthr; i++) {
            VThread *t = &thr[i];
            uint64_t rec[5] = { (uint64_t)t->op, (uint64_t)(uintptr_t)t->obj, (uint64_t)t->arg, (uint64_t)t->finished, (uint64_t)t->depri };
            if (ex_hash_parts & 2) h = vu_fnv(rec, sizeof rec, h);
            if ((ex_hash_parts & 4) && !t->finished && t->op != OP_START && t->sp && t->stack_top && (char *)t->stack_top > (char *)t->sp)
                h = vu_fnv(t->sp, (size_t)((char *)t->stack_top - (char *)t->sp), h);
        }
        return h;
    }
    for (int r = 0; r < ex_nregion; r++) h = vu_fnv(ex_region[r].p, ex_region[r].n, h);
    for (int i = 0; i < nthr; i++) {
        VThread *t = &thr[i];
        uint64_t rec[5] = { (uint64_t)t->op, (uint64_t)(uintptr_t)t->obj, (uint64_t)t->arg, (uint64_t)t->finished, (uint64_t)t->depri };
        h = vu_fnv(rec, sizeof rec, h);
        if (!t->finished && t->op != OP_START && t->sp && t->stack_top && (char *)t->stack_top > (char *)t->sp)
            h = vu_fnv(t->sp, (size_t)((char *)t->stack_top - (char *)t->sp), h);
    }
    return h;
}
/* ends the current execution from the running thread: every other thread of the execution is woken and
 * leaves through longjmp, then this thread does */
static void ex_end_execution(void) __attribute__((noreturn));
static void ex_end_execution(void) {
    ex_abort = 1;
    for (int i = 0; i < nthr; i++)
        if (i != self_id && !thr[i].finished) fwake(&thr[i].futex);
    longjmp(ex_slot[self_id].jb, 1);
}
void vs_violation(const char *msg) {
    if (!ex_on) { fprintf(stdout, "{\"violation\":\"%s\"}\n", msg); fflush(stdout); _exit(1); }
    ex_lock();
    if (ex_sh->violations++ == 0) { snprintf(ex_sh->viol_msg, sizeof ex_sh->viol_msg, "%s", msg); ex_sh->viol_path = ex_path; }
    ex_unlock();
    ex_end_execution();
}
void vs_outcome(uint64_t h) {
    if (!ex_on) return;
    ex_lock();
    long k;
    for (k = 0; k < ex_sh->noutcomes; k++) if (ex_sh->outcomes[k] == h) break;
    if (k == ex_sh->noutcomes && k < 4096) ex_sh->outcomes[ex_sh->noutcomes++] = h;
    ex_unlock();
}
/* diagnostic: finds stack bytes that differ between two visits of the same logical state */
static void ex_debug_stacks(void) {
    static struct { uint64_t h3; int len[8]; unsigned char st[8][1024]; } tab[4096];
    static int ntab, nprint;
    int save = ex_hash_parts; ex_hash_parts = 3; uint64_t h3 = ex_state_hash(); ex_hash_parts = save;
    int k;
    for (k = 0; k < ntab; k++) if (tab[k].h3 == h3) break;
    if (k == ntab) {
        if (ntab >= 4096) return;
        tab[k].h3 = h3; ntab++;
        for (int i = 0; i < nthr && i < 8; i++) {
            VThread *t = &thr[i]; tab[k].len[i] = 0;
            if (!t->finished && t->op != OP_START && t->sp) { int l = (int)((char *)t->stack_top - (char *)t->sp); if (l > 1024) l = 1024; tab[k].len[i] = l; memcpy(tab[k].st[i], (char *)t->stack_top - l, (size_t)l); }
        }
        return;
    }
    for (int i = 0; i < nthr && i < 8; i++) {
        VThread *t = &thr[i];
        if (t->finished || t->op == OP_START || !t->sp) continue;
        int l = (int)((char *)t->stack_top - (char *)t->sp); if (l > 1024) l = 1024;
        if (l != tab[k].len[i]) { if (nprint++ < 20) fprintf(stderr, "DBG thread %d stack length differs %d vs %d\n", i, l, tab[k].len[i]); continue; }
        unsigned char *now = (unsigned char *)t->stack_top - l;
        for (int o = 0; o + 8 <= l; o += 8)
            if (memcmp(now + o, tab[k].st[i] + o, 8) && nprint++ < 40)
                fprintf(stderr, "DBG thread %d op %s: offset -%d from top: %016llx vs %016llx\n", i, opname[t->op], l - o, *(unsigned long long *)(now + o), *(unsigned long long *)(tab[k].st[i] + o));
    }
}
static int ex_decide(int n) {
    int depth = ex_path.len;
    if (getenv("VS_DEBUG_STACK")) ex_debug_stacks();
    if (depth >= EX_MAXLEN) { ex_lock(); ex_sh->overflow++; ex_unlock(); ex_end_execution(); }
    int choice;
    if (depth < ex_prefix.len) choice = ex_prefix.c[depth];
    else if (ex_no_cut) choice = 0;
    else {
        uint64_t h = ex_state_hash();
        if (!ex_insert(h)) { __atomic_add_fetch(&ex_sh->cuts, 1, __ATOMIC_RELAXED); ex_end_execution(); }
        ex_lock();
        ex_sh->states++; ex_sh->transitions += n;
        if (depth + 1 > ex_sh->max_depth) ex_sh->max_depth = depth + 1;
        for (int a = n - 1; a >= 1; a--) {
            if (ex_sh->nwork >= ex_sh->work_cap) { ex_sh->overflow++; break; }
            ExPath *w = &ex_work[ex_sh->nwork++];
            memcpy(w->c, ex_path.c, (size_t)depth);
            w->c[depth] = (uint8_t)a; w->len = (uint16_t)(depth + 1);
        }
        ex_unlock();
        choice = 0;
    }
    if (choice >= n) {
        ex_lock();
        if (ex_sh->violations++ == 0) { snprintf(ex_sh->viol_msg, sizeof ex_sh->viol_msg, "DIVERGENCE: replayed prefix asks for alternative %d of %d at depth %d", choice, n, depth); ex_sh->viol_path = ex_path; }
        ex_sh->bad_exit++;
        ex_unlock();
        ex_end_execution();
    }
    ex_path.c[depth] = (uint8_t)choice; ex_path.len = (uint16_t)(depth + 1);
    return choice;
}

/* ================================================================== scheduling core */
static void deadlock(const char *kind) {
    if (ex_on) {
        char msg[1024]; int o = snprintf(msg, sizeof msg, "%s:", kind);
        for (int i = 0; i < nthr && o < 900; i++) if (!thr[i].finished) o += snprintf(msg + o, sizeof msg - (size_t)o, " t%d:%s", i, opname[thr[i].op]);
        ex_lock(); ex_sh->deadlocks++; ex_unlock();
        vs_violation(msg);
    }
    write_summary(kind);
    if (vs_on_deadlock) vs_on_deadlock();
    fprintf(stdout, "{\"%s\":true,\"points\":%ld,\"threads\":[", kind, npoints);
    int first = 1;
    for (int i = 0; i < nthr; i++) {
        VThread *t = &thr[i];
        if (t->finished) continue;
        fprintf(stdout, "%s[%d,\"%s\",%d,\"%p\",%u]", first ? "" : ",", i, opname[t->op], obj_id(t), t->op == OP_SPIN ? t->spin_pc : NULL,
                (t->op == OP_SPIN && t->obj) ? *(volatile uint32_t *)t->obj : 0u);
        first = 0;
    }
    fprintf(stdout, "]}\n");
    fflush(stdout);
    _exit(3);
}

/* Picks the next thread to run.  Called by the running thread with its pending op published. */
static int pick_next(void) {
    int order[MAXT], n = 0, nq = 0, quiescers[MAXT];
    int start, restall = 0;
again:
    n = 0; nq = 0;
    /* canonical order: running thread first (if enabled and not deprioritised), then cyclic by id; deprioritised last */
    start = cur < 0 ? 0 : cur;
    int nspin = 0;
    for (int i = 0; i < nthr; i++) if (is_enabled(&thr[i]) && thr[i].depri && !thr[i].stalled && thr[i].op != OP_QUIESCE) nspin++;
    /* passes: 0 normal, 1 spinners, 2 stalled; once every spinner had a turn without anybody progressing the stalled go before the spinners */
    for (int pp = 0; pp < 3; pp++) {
        int pass = pp == 0 ? 0 : (idle_spins >= nspin ? (pp == 1 ? 2 : 1) : pp);
        for (int k = 0; k < nthr; k++) {
            /* deprioritised threads (spinners): the one that just yielded goes last, so that spinners take turns */
            int kk = pass == 1 ? (k + 1) % nthr : k;
            int i = policy == 1 ? (start + nthr - kk) % nthr : (start + kk) % nthr;
            VThread *t = &thr[i];
            if (!is_enabled(t)) continue;
            if (t->op == OP_QUIESCE) { if (pp == 0) quiescers[nq++] = i; continue; }
            int cls = t->stalled ? 2 : (t->depri ? 1 : 0);
            if (cls != pass) continue;
            order[n++] = i;
        }
    }
    if (n == 0) {
        if (nq == 0) return -1;
        for (int k = 0; k < nq; k++) order[n++] = quiescers[k];
    }
    if (n > 1 && !ex_on && !restall)
        for (int d = 0; d < nstall; d++)
            if (stall_point[d] == npoints && !thr[order[0]].stalled) { thr[order[0]].stalled = 1; restall = 1; goto again; }
    int choice = 0;
    if (n > 1 && ex_on) {
        choice = ex_decide(n);
        if (n > max_enabled) max_enabled = n;
        if (verbose) { VThread *c = &thr[order[choice]]; fprintf(stderr, "[pt %ld] cur=%d n=%d -> t%d %s obj=%d\n", npoints, cur, n, order[choice], opname[c->op], obj_id(c)); }
        npoints++;
    } else if (n > 1) {
        for (int d = 0; d < ndev; d++) if (dev_point[d] == npoints) choice = dev_choice[d];
        if (choice >= n) { /* out-of-range deviation: hard error, the prefix does not replay */
            write_summary("divergence");
            fprintf(stderr, "DIVERGENCE: decision point %ld has %d enabled threads, schedule asks for alternative %d\n", npoints, n, choice);
            _exit(6);
        }
        if (n > max_enabled) max_enabled = n;
        if (trace_f) { fputc(n > 255 ? 255 : n, trace_f); fputc(choice, trace_f); }
        if (t0_f && order[0] == 0) fprintf(t0_f, "%ld\n", npoints);
        VThread *c = &thr[order[choice]];
        uint32_t rec[5] = { (uint32_t)order[choice], (uint32_t)c->op, (uint32_t)obj_id(c), (uint32_t)n, (uint32_t)(cur < 0 ? 999 : thr[cur].op) };
        trace_hash = vu_fnv(rec, sizeof rec, trace_hash);
        if (verbose) fprintf(stderr, "[pt %ld] cur=%d n=%d -> t%d %s obj=%d\n", npoints, cur, n, order[choice], opname[c->op], obj_id(c));
        npoints++;
        if (npoints > horizon) { write_summary("horizon"); fprintf(stderr, "HORIZON: more than %ld decision points\n", horizon); _exit(5); }
    }
    nsteps++;
    if (verbose > 1 && n == 1) { VThread *c = &thr[order[0]]; fprintf(stderr, "      (only) t%d %s obj=%d\n", order[0], opname[c->op], obj_id(c)); }
    if (thr[order[choice]].op == OP_SPIN) {
        idle_spins++;
        if (++spin_streak > 300000) deadlock("livelock");
    } else spin_streak = 0, idle_spins = 0;
    return order[choice];
}

static void apply(VThread *t) {
    switch (t->op) {
    case OP_LOCK: case OP_ATOMIC: ((VMutex *)t->obj)->owner = t->id; break;
    case OP_SEMWAIT: ((VSem *)t->obj)->count--; break;
    default: break;
    }
    t->op = OP_NONE;
    opcount++;
}

/* The running thread yields at a visible operation.  yield_point is a naked trampoline that pushes every
 * callee-saved register, so that [sp, stack_top) of a parked thread is its complete live state; after the
 * thread is resumed the dead stack below it is cleared so that stale bytes are a function of the state. */
void yield_point_c(int op, void *obj, int32_t arg, void *sp);
__attribute__((naked, noinline)) static void yield_point(int op, void *obj, int32_t arg) {
    __asm__ volatile(
        "push %rbp\n\tmov %rsp,%rbp\n\tpush %rbx\n\tpush %r12\n\tpush %r13\n\tpush %r14\n\tpush %r15\n\tsub $8,%rsp\n\t"
        "mov %rsp,%rcx\n\tcall yield_point_c\n\t"
        "lea -4096(%rsp),%rdi\n\tmov $512,%ecx\n\txor %eax,%eax\n\trep stosq\n\t"
        "add $8,%rsp\n\tpop %r15\n\tpop %r14\n\tpop %r13\n\tpop %r12\n\tpop %rbx\n\tpop %rbp\n\tret");
}
__attribute__((noinline, used)) void yield_point_c(int op, void *obj, int32_t arg, void *sp) {
    VThread *me = &thr[self_id];
    me->sp = sp;
    me->op = op; me->obj = obj; me->arg = arg;
    int next = pick_next();
    if (next < 0) deadlock("deadlock");
    cur = next;
    apply(&thr[next]);
    if (next != self_id) {
        fwake(&thr[next].futex);
        fwait(&me->futex);
        if (ex_on && ex_abort) longjmp(ex_slot[self_id].jb, 1);
    }
}

/* called by a thread whose function returned */
static void thread_finished(VThread *t) {
    TSAN_REL(t);
    t->finished = 1;
    t->op = OP_NONE;
    int alive = 0;
    for (int i = 0; i < nthr; i++) if (!thr[i].finished) alive++;
    if (!alive) return;
    int next = pick_next();
    if (next < 0) deadlock("deadlock");
    cur = next;
    apply(&thr[next]);
    fwake(&thr[next].futex);
}

static void *trampoline(void *a) {
    VThread *t = (VThread *)a;
    self_id = t->id;
    t->stack_top = __builtin_frame_address(0);
    fwait(&t->futex);
    TSAN_ACQ(t);
    void *r = t->fn(t->ctx);
    thread_finished(t);
    return r;
}

/* pool thread of the explicit-state mode: runs one thread function per execution */
static void *ex_pool_loop(void *a) {
    int id = (int)(intptr_t)a;
    ExSlot *s = &ex_slot[id];
    self_id = id;
    for (;;) {
        fwait(&s->job);
        VThread *t = &thr[id];
        if (setjmp(s->jb) == 0) {
            t->stack_top = __builtin_frame_address(0);
            /* stale bytes of earlier executions must not leak into this one's frames */
            { char *rsp_; __asm__ volatile("mov %%rsp,%0" : "=r"(rsp_)); memset(rsp_ - 16384 - 16, 0, 16384); }
            fwait(&t->futex);
            if (ex_abort) longjmp(s->jb, 1);
            t->fn(t->ctx);
            thread_finished(t);
        }
        if (__atomic_sub_fetch(&ex_live, 1, __ATOMIC_ACQ_REL) == 0) fwake(&ex_done);
    }
    return NULL;
}

__attribute__((noinline)) static int new_thread(void *(*fn)(void *), void *ctx, pthread_t *h) {
    if (nthr >= MAXT || (ex_on && nthr >= EX_POOL)) { fprintf(stderr, "sched: too many threads\n"); _exit(5); }
    VThread *t = &thr[nthr];
    memset(t, 0, sizeof *t);
    t->id = nthr; t->fn = fn; t->ctx = ctx; t->op = OP_START; t->handle = h;
    nthr++;
    TSAN_REL(t);
    if (ex_on) {
        ExSlot *s = &ex_slot[t->id];
        __atomic_add_fetch(&ex_live, 1, __ATOMIC_ACQ_REL);
        if (!s->created) {
            pthread_attr_t at;
            pthread_attr_init(&at);
            pthread_attr_setstack(&at, ex_stacks + (size_t)t->id * EX_STACK, EX_STACK);
            int r = pthread_create(&s->th, &at, ex_pool_loop, (void *)(intptr_t)t->id);
            pthread_attr_destroy(&at);
            if (r) { fprintf(stderr, "sched: pool thread creation failed\n"); _exit(5); }
            s->created = 1;
        }
        fwake(&s->job);
        return t->id;
    }
    if (pthread_create(h, NULL, trampoline, t)) { nthr--; return -1; }
    return t->id;
}

/* ================================================================== public harness interface */
extern void (*svt_verif_spin_cb)(const volatile void *addr);
extern void (*svt_verif_sync_store_cb)(const volatile void *addr);
void svt_verif_spin_impl(const volatile void *addr);
void svt_verif_sync_store_impl(const volatile void *addr);
void vs_init(void) {
    const char *e;
    if (active) return;
    active = 1;
    svt_verif_spin_cb = svt_verif_spin_impl;
    svt_verif_sync_store_cb = svt_verif_sync_store_impl;
    memset(&thr[0], 0, sizeof thr[0]);
    thr[0].id = 0; thr[0].op = OP_NONE;
    nthr = 1; cur = 0; self_id = 0;
    if ((e = getenv("VS_DELAYS")) && *e) {
        char *s = strdup(e), *p = s;
        while (p && *p && ndev < MAXDEV) {
            dev_point[ndev] = strtol(p, &p, 10);
            if (*p == ':') { p++; dev_choice[ndev] = (int)strtol(p, &p, 10); } else dev_choice[ndev] = 1;
            ndev++;
            if (*p == ',') p++; else break;
        }
        free(s);
    }
    if ((e = getenv("VS_STALL")) && *e) {
        char *s = strdup(e), *p = s;
        while (p && *p && nstall < MAXDEV) {
            stall_point[nstall++] = strtol(p, &p, 10);
            if (*p == ',') p++; else break;
        }
        free(s);
    }
    if ((e = getenv("VS_HORIZON"))) horizon = atol(e);
    if ((e = getenv("VS_POLICY"))) policy = atoi(e);
    if ((e = getenv("VS_VERBOSE"))) verbose = atoi(e);
    if ((e = getenv("VS_UNLOCK_YIELD"))) unlock_yield = atoi(e);
    if ((e = getenv("VS_TRACE")) && *e) trace_f = fopen(e, "wb");
    if ((e = getenv("VS_T0POINTS")) && *e) t0_f = fopen(e, "w");
}
int vs_active(void) { return 1; }
void vs_quiesce(void) { yield_point(OP_QUIESCE, NULL, 0); }
void vs_yield(void) { yield_point(OP_YIELD, NULL, 0); }
long vs_points(void) { return npoints; }
int vs_unjoined(void) { int n = 0; for (int i = 1; i < nthr; i++) if (!thr[i].joined) n++; return n; }
long vs_fini(void) { write_summary("ok"); if (trace_f) { fclose(trace_f); trace_f = NULL; } if (t0_f) { fclose(t0_f); t0_f = NULL; } return npoints; }
void vs_hash_region(void *p, size_t n) {
    for (int i = 0; i < ex_nregion; i++) if (ex_region[i].p == p) { ex_region[i].n = n; return; }
    if (ex_nregion < 16) { ex_region[ex_nregion].p = p; ex_region[ex_nregion].n = n; ex_nregion++; }
}
static pthread_t ex_dummy_handle[EX_POOL];
void *vs_thread_create(vs_fn f, void *arg) {
    pthread_t *h = ex_on ? &ex_dummy_handle[nthr < EX_POOL ? nthr : 0] : malloc(sizeof *h);
    int id = new_thread(f, arg, h);
    if (id < 0) { if (!ex_on) free(h); return NULL; }
    yield_point(OP_CREATE, NULL, id);
    return ex_on ? (void *)(intptr_t)(id + 1) : (void *)h;
}
static int find_by_handle(pthread_t *h) {
    for (int i = 0; i < nthr; i++) if (thr[i].handle == h && !thr[i].joined) return i;
    return -1;
}
void vs_thread_join(void *h) {
    if (ex_on) {
        int id = (int)(intptr_t)h - 1;
        yield_point(OP_JOIN, NULL, id);
        thr[id].joined = 1;
        return;
    }
    int id = find_by_handle((pthread_t *)h);
    if (id >= 0) { yield_point(OP_JOIN, NULL, id); thr[id].joined = 1; TSAN_ACQ(&thr[id]); }
    pthread_join(*(pthread_t *)h, NULL);
    free(h);
}

typedef struct { void (*body)(void *); void *arg; } ExBody;
static ExBody ex_body;
static void *ex_body_thread(void *a) { (void)a; ex_body.body(ex_body.arg); return NULL; }

#include <signal.h>
static void ex_sig(int sig) {
    /* a crash inside an execution is a violation of that execution's schedule */
    for (int spin = 0; spin < 100000 && __atomic_exchange_n(&ex_sh->lock, 1, __ATOMIC_ACQUIRE); spin++) __builtin_ia32_pause();
    if (ex_sh->violations++ == 0) {
        snprintf(ex_sh->viol_msg, sizeof ex_sh->viol_msg, "crash: signal %d in thread %d", sig, self_id);
        ex_sh->viol_path = ex_path;
    }
    ex_unlock();
    _exit(0);
}
/* one in-process execution following ex_prefix */
static void ex_run_one(void) {
    nthr = 0; cur = -1; npoints = 0; nsteps = 0; nobj = 0; ncv = 0; opcount = 0; spin_streak = 0;
    ex_abort = 0; ex_path.len = 0; ex_done = 0;
    __atomic_store_n(&ex_live, 0, __ATOMIC_RELEASE);
    new_thread(ex_body_thread, NULL, &ex_dummy_handle[0]);
    cur = 0; apply(&thr[0]);
    fwake(&thr[0].futex);
    fwait(&ex_done);
}
static void ex_setup_shared(void) {
    long cap = 400000;
    ex_sh = mmap(NULL, sizeof *ex_sh, PROT_READ | PROT_WRITE, MAP_SHARED | MAP_ANONYMOUS, -1, 0);
    ex_table = mmap(NULL, sizeof(uint64_t) << EX_TABLE_BITS, PROT_READ | PROT_WRITE, MAP_SHARED | MAP_ANONYMOUS | MAP_NORESERVE, -1, 0);
    ex_work = mmap(NULL, sizeof(ExPath) * (size_t)cap, PROT_READ | PROT_WRITE, MAP_SHARED | MAP_ANONYMOUS | MAP_NORESERVE, -1, 0);
    ex_stacks = mmap(NULL, (size_t)EX_STACK * EX_POOL, PROT_READ | PROT_WRITE, MAP_PRIVATE | MAP_ANONYMOUS | MAP_NORESERVE, -1, 0);
    if (ex_sh == MAP_FAILED || ex_table == MAP_FAILED || ex_work == MAP_FAILED || ex_stacks == MAP_FAILED) { perror("mmap"); _exit(2); }
    memset(ex_sh, 0, sizeof *ex_sh);
    ex_sh->work_cap = cap;
}
static void ex_print_path(const ExPath *p) { for (int i = 0; i < p->len; i++) putchar(p->c[i] < 10 ? '0' + p->c[i] : 'a' + p->c[i] - 10); }

/* Explores every interleaving of body (threads created with vs_thread_create).  Prints one JSON line.
 * Returns 0 if no violation. */
int vs_explore(void (*body)(void *), void *arg, int workers, double deadline_s) {
    ex_setup_shared();
    ex_sh->nwork = 1; ex_work[0].len = 0;
    ex_body.body = body; ex_body.arg = arg;
    struct timespec t0; clock_gettime(CLOCK_MONOTONIC, &t0);
    const char *e = getenv("VS_UNLOCK_YIELD");
    fflush(stdout); fflush(stderr);
    if (workers < 1) workers = 1;
    if (workers > 64) workers = 64;
    pid_t drv[64];
    for (int d = 0; d < workers; d++) {
        drv[d] = fork();
        if (drv[d] == 0) {
            ex_on = 1; ex_drv = d; active = 1;
            signal(SIGSEGV, ex_sig); signal(SIGBUS, ex_sig); signal(SIGFPE, ex_sig); signal(SIGABRT, ex_sig); signal(SIGILL, ex_sig);
            unlock_yield = e ? atoi(e) : 1;
            if (getenv("VS_HASH_PARTS")) ex_hash_parts = atoi(getenv("VS_HASH_PARTS"));
            long iter = 0;
            for (;;) {
                if ((iter++ & 63) == 0) {
                    struct timespec t1; clock_gettime(CLOCK_MONOTONIC, &t1);
                    double el = (double)(t1.tv_sec - t0.tv_sec) + 1e-9 * (double)(t1.tv_nsec - t0.tv_nsec);
                    if (el > deadline_s) { ex_lock(); ex_sh->capped = 1; ex_unlock(); _exit(0); }
                }
                if (ex_sh->violations) _exit(0);
                int have = 0, busy;
                ex_lock();
                if (ex_sh->nwork > 0) { ex_prefix = ex_work[--ex_sh->nwork]; have = 1; ex_sh->busy++; ex_sh->executions++; ex_sh->inflight[d] = ex_prefix; }
                busy = (int)ex_sh->busy;
                ex_unlock();
                if (!have) { if (busy == 0) _exit(0); usleep(100); continue; }
                ex_run_one();
                int completed = 1;
                for (int i = 0; i < nthr; i++) if (!thr[i].finished) completed = 0;
                ex_lock();
                ex_sh->busy--;
                ex_sh->inflight[d].len = 0;
                if (completed && !ex_abort) {
                    ex_sh->complete++;
                    if (ex_sh->nsample < 4) ex_sh->sample[ex_sh->nsample++] = ex_path;
                }
                ex_unlock();
            }
        }
    }
    int bad_exit = 0;
    for (int d = 0; d < workers; d++) {
        int st = 0;
        if (drv[d] > 0) waitpid(drv[d], &st, 0);
        if (drv[d] < 0 || WIFSIGNALED(st) || (WIFEXITED(st) && WEXITSTATUS(st) != 0)) {
            bad_exit++;
            ex_lock();
            if (ex_sh->violations++ == 0) {
                snprintf(ex_sh->viol_msg, sizeof ex_sh->viol_msg, "execution crashed the process (wait status 0x%x)", st);
                ex_sh->viol_path = ex_sh->inflight[d];
            }
            ex_unlock();
        }
    }
    struct timespec t2; clock_gettime(CLOCK_MONOTONIC, &t2);
    double el = (double)(t2.tv_sec - t0.tv_sec) + 1e-9 * (double)(t2.tv_nsec - t0.tv_nsec);
    int exhaustive = !ex_sh->capped && ex_sh->nwork == 0 && !ex_sh->overflow && !ex_sh->violations;
    printf("{\"states\":%ld,\"transitions\":%ld,\"executions\":%ld,\"complete\":%ld,\"cuts\":%ld,\"max_depth\":%ld,\"outcomes\":%ld,"
           "\"violations\":%ld,\"deadlocks\":%ld,\"overflow\":%ld,\"exhaustive\":%s,\"wall\":%.2f,\"bad_exit\":%ld,\"viol_msg\":\"%s\",\"viol_path\":\"",
           ex_sh->states, ex_sh->transitions, ex_sh->executions, ex_sh->complete, ex_sh->cuts, ex_sh->max_depth, ex_sh->noutcomes,
           ex_sh->violations, ex_sh->deadlocks, ex_sh->overflow, exhaustive ? "true" : "false", el, ex_sh->bad_exit + bad_exit, ex_sh->viol_msg);
    ex_print_path(&ex_sh->viol_path);
    printf("\",\"samples\":[");
    for (int k = 0; k < ex_sh->nsample; k++) { printf("%s\"", k ? "," : ""); ex_print_path(&ex_sh->sample[k]); printf("\""); }
    printf("]}\n");
    fflush(stdout);
    return ex_sh->violations ? 1 : 0;
}
/* replay of a single path (digit string, explicit-state mode, no cutting): canonical choices after the prefix */
int vs_replay_path(void (*body)(void *), void *arg, const char *digits) {
    ex_setup_shared();
    ex_body.body = body; ex_body.arg = arg;
    fflush(stdout);
    pid_t pid = fork();
    if (pid == 0) {
        ex_on = 1; ex_drv = 0; active = 1; unlock_yield = 1; ex_no_cut = 1;
        if (getenv("VS_VERBOSE")) verbose = atoi(getenv("VS_VERBOSE"));
        signal(SIGSEGV, ex_sig); signal(SIGBUS, ex_sig); signal(SIGFPE, ex_sig); signal(SIGABRT, ex_sig); signal(SIGILL, ex_sig);
        const char *e = getenv("VS_UNLOCK_YIELD");
        if (e) unlock_yield = atoi(e);
        ex_prefix.len = 0;
        for (const char *p = digits; *p && ex_prefix.len < EX_MAXLEN; p++)
            ex_prefix.c[ex_prefix.len++] = (uint8_t)(*p <= '9' ? *p - '0' : *p - 'a' + 10);
        ex_run_one();
        _exit(0);
    }
    int st = 0;
    waitpid(pid, &st, 0);
    printf("{\"replay_status\":%d,\"violations\":%ld,\"viol_msg\":\"%s\"}\n", st, ex_sh->violations, ex_sh->viol_msg);
    return (ex_sh->violations || st != 0) ? 1 : 0;
}

/* ================================================================== wrapped SVT primitives */
EbHandle __wrap_svt_create_thread(void *(*fn)(void *), void *ctx) {
    if (!active) vs_init();
    pthread_t *h = malloc(sizeof *h);
    if (!h) return NULL;
    int id = new_thread(fn, ctx, h);
    if (id < 0) { free(h); return NULL; }
    yield_point(OP_CREATE, NULL, id);
    return h;
}
EbErrorType __wrap_svt_destroy_thread(EbHandle handle) {
    int id = find_by_handle((pthread_t *)handle);
    if (id >= 0) { yield_point(OP_JOIN, NULL, id); thr[id].joined = 1; TSAN_ACQ(&thr[id]); }
    int r = ex_on ? 0 : pthread_join(*(pthread_t *)handle, NULL);
    free(handle);
    return r ? 0x80002012u : EB_ErrorNone;
}
EbHandle __wrap_svt_create_mutex(void) {
    VMutex *m = malloc(sizeof *m);
    if (!m) return NULL;
    m->magic = 0x564d5554u; m->id = nobj++; m->owner = -1;
    return m;
}
EbErrorType __wrap_svt_destroy_mutex(EbHandle h) { free(h); return EB_ErrorNone; }
EbErrorType __wrap_svt_block_on_mutex(EbHandle h) {
    if (!active) vs_init();
    VMutex *m = (VMutex *)h;
    yield_point(OP_LOCK, m, 0);
    TSAN_ACQ(m);
    return EB_ErrorNone;
}
EbErrorType __wrap_svt_release_mutex(EbHandle h) {
    VMutex *m = (VMutex *)h;
    TSAN_REL(m);
    m->owner = -1;
    opcount++;
    if (unlock_yield && active && self_id >= 0) yield_point(OP_YIELD, NULL, 0);
    return EB_ErrorNone;
}
EbHandle __wrap_svt_create_semaphore(uint32_t initial, uint32_t max) {
    (void)max;
    VSem *s = malloc(sizeof *s);
    if (!s) return NULL;
    s->magic = 0x5653454du; s->id = nobj++; s->count = initial;
    return s;
}
EbErrorType __wrap_svt_destroy_semaphore(EbHandle h) { free(h); return EB_ErrorNone; }
EbErrorType __wrap_svt_post_semaphore(EbHandle h) {
    if (!active) vs_init();
    VSem *s = (VSem *)h;
    TSAN_REL(s);
    s->count++;
    yield_point(OP_POST, s, 0);
    return EB_ErrorNone;
}
EbErrorType __wrap_svt_block_on_semaphore(EbHandle h) {
    if (!active) vs_init();
    VSem *s = (VSem *)h;
    yield_point(OP_SEMWAIT, s, 0);
    TSAN_ACQ(s);
    return EB_ErrorNone;
}
EbErrorType __real_svt_create_cond_var(void *cv);
EbErrorType __wrap_svt_create_cond_var(void *cv) {
    EbErrorType r = __real_svt_create_cond_var(cv);
    ((CondVarHdr *)cv)->val = 0;
    return r;
}
EbErrorType __wrap_svt_set_cond_var(void *cv, int32_t newval) {
    if (!active) vs_init();
    TSAN_REL(cv);
    ((CondVarHdr *)cv)->val = newval;
    yield_point(OP_CONDSET, cv, newval);
    return EB_ErrorNone;
}
EbErrorType __wrap_svt_wait_cond_var(void *cv, int32_t input) {
    if (!active) vs_init();
    yield_point(OP_CONDWAIT, cv, input);
    TSAN_ACQ(cv);
    return EB_ErrorNone;
}
typedef struct { uint32_t obj; EbHandle mutex; } AtomicVarU32;
void __wrap_atomic_set_u32(AtomicVarU32 *var, uint32_t in) {
    if (!active) vs_init();
    VMutex *m = (VMutex *)var->mutex;
    yield_point(OP_ATOMIC, m, 0);
    TSAN_ACQ(m);
    var->obj = in;
    TSAN_REL(m);
    m->owner = -1;
}
int __wrap_nanosleep(const struct timespec *req, struct timespec *rem) {
    (void)req; (void)rem;
    if (active && self_id >= 0) { thr[self_id].depri = 1; yield_point(OP_SPIN, NULL, 0); thr[self_id].depri = 0; }
    return 0;
}
int __wrap_pthread_setschedparam(pthread_t t, int pol, const void *p) { (void)t; (void)pol; (void)p; return 0; }

/* decoder hooks (H1): spin-wait iteration and flag store */
void svt_verif_spin_impl(const volatile void *addr) {
    if (!active || self_id < 0) return;
    thr[self_id].depri = 1;
    thr[self_id].spin_pc = __builtin_return_address(0);
    thr[self_id].obj = (void *)addr;
    yield_point(OP_SPIN, (void *)addr, 0);
    thr[self_id].depri = 0;
    TSAN_ACQ(addr);
}
void svt_verif_sync_store_impl(const volatile void *addr) {
    if (!active || self_id < 0) return;
    TSAN_REL(addr);
    yield_point(OP_YIELD, NULL, 0);
}
