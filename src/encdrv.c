/* encdrv: deterministic SVT-AV1 encode session driver (DESIGN.md 3.3).
 *
 * usage: encdrv key=value ...
 *   session keys : w h n bits content cseed pat final recon out pts stride_extra stride_extra_cb stride_extra_cr padbyte lifetime
 *                  priv hdr prefill eos_after teardown_at drainall
 *   every other key is an EbSvtAv1EncConfiguration field name (arrays: name.<i>=v)
 * Prints one JSON object on stdout describing everything observable through the API.
 */
#define _GNU_SOURCE
#include <stdio.h>
#include <stdlib.h>
#include <string.h>
#include <stdint.h>
#include <stddef.h>
#include <unistd.h>
#include <errno.h>
#include "EbSvtAv1Enc.h"
#include "vsched.h"
#include "vutil.h"

#include "param_fields.h"
typedef struct { const char *name; size_t off, size; int sgn; int count; } Field;
#define FLD(n) { #n, offsetof(Cfg, n), sizeof(((Cfg *)0)->n), ((__typeof__(((Cfg *)0)->n))-1) < 0, 1 }
#define ARR(n) { #n, offsetof(Cfg, n), sizeof(((Cfg *)0)->n[0]), ((__typeof__(((Cfg *)0)->n[0]))-1) < 0, \
                 (int)(sizeof(((Cfg *)0)->n) / sizeof(((Cfg *)0)->n[0])) }
static const Field fields[] = {
    FLD(enc_mode), FLD(intra_period_length), FLD(intra_refresh_type), FLD(hierarchical_levels),
    FLD(pred_structure), FLD(source_width), FLD(source_height), FLD(render_width), FLD(render_height),
    FLD(frame_rate), FLD(frame_rate_numerator), FLD(frame_rate_denominator), FLD(encoder_bit_depth),
    FLD(is_16bit_pipeline), FLD(encoder_color_format), FLD(compressed_ten_bit_format), FLD(sb_sz),
    FLD(super_block_size), FLD(partition_depth), FLD(stat_report), FLD(qp), FLD(use_qp_file),
    FLD(use_fixed_qindex_offsets), ARR(qindex_offsets), FLD(key_frame_chroma_qindex_offset),
    FLD(key_frame_qindex_offset), ARR(chroma_qindex_offsets), FLD(rc_firstpass_stats_out),
    FLD(enable_qp_scaling_flag), FLD(disable_dlf_flag), FLD(enable_denoise_flag),
    FLD(film_grain_denoise_strength), FLD(enable_warped_motion), FLD(enable_global_motion),
    FLD(cdef_level), FLD(enable_restoration_filtering), FLD(sg_filter_mode), FLD(wn_filter_mode),
    FLD(intra_angle_delta), FLD(inter_intra_compound), FLD(enable_paeth), FLD(mrp_level),
    FLD(enable_smooth), FLD(enable_mfmv), FLD(enable_redundant_blk), FLD(spatial_sse_full_loop_level),
    FLD(over_bndry_blk), FLD(new_nearest_comb_inject), FLD(nsq_table), FLD(frame_end_cdf_update),
    FLD(pred_me), FLD(bipred_3x3_inject), FLD(compound_level), FLD(set_chroma_mode),
    FLD(disable_cfl_flag), FLD(obmc_level), FLD(rdoq_level), FLD(filter_intra_level),
    FLD(enable_intra_edge_filter), FLD(pic_based_rate_est), FLD(use_default_me_hme),
    FLD(enable_hme_flag), FLD(ext_block_flag), FLD(in_loop_me_flag), FLD(search_area_width),
    FLD(search_area_height), FLD(enable_hbd_mode_decision), FLD(palette_level),
    FLD(rate_control_mode), FLD(scene_change_detection), FLD(look_ahead_distance), FLD(enable_tpl_la),
    FLD(target_bit_rate), FLD(vbv_bufsize), FLD(max_qp_allowed), FLD(min_qp_allowed),
    FLD(vbr_bias_pct), FLD(vbr_min_section_pct), FLD(vbr_max_section_pct), FLD(under_shoot_pct),
    FLD(over_shoot_pct), FLD(recode_loop), FLD(screen_content_mode), FLD(intrabc_mode),
    FLD(enable_adaptive_quantization), FLD(high_dynamic_range_input), FLD(profile), FLD(tier),
    FLD(level), FLD(use_cpu_flags), FLD(channel_id), FLD(active_channel_count),
    FLD(speed_control_flag), FLD(injector_frame_rate), FLD(unrestricted_motion_vector),
    FLD(logical_processors), FLD(unpin), FLD(target_socket), FLD(recon_enabled), FLD(tile_columns),
    FLD(tile_rows), FLD(enable_hme_level0_flag), FLD(enable_hme_level1_flag),
    FLD(enable_hme_level2_flag), FLD(number_hme_search_region_in_width),
    FLD(number_hme_search_region_in_height), FLD(hme_level0_total_search_area_width),
    FLD(hme_level0_total_search_area_height), ARR(hme_level0_search_area_in_width_array),
    ARR(hme_level0_search_area_in_height_array), ARR(hme_level1_search_area_in_width_array),
    ARR(hme_level1_search_area_in_height_array), ARR(hme_level2_search_area_in_width_array),
    ARR(hme_level2_search_area_in_height_array), FLD(ten_bit_format), FLD(tf_level),
    FLD(altref_strength), FLD(altref_nframes), FLD(enable_overlays), FLD(superres_mode),
    FLD(superres_denom), FLD(superres_kf_denom), FLD(superres_qthres), FLD(enable_manual_pred_struct),
    FLD(manual_pred_struct_entry_num),
};
#define NFIELDS ((int)(sizeof(fields) / sizeof(fields[0])))

static int set_field(Cfg *c, const char *key, const char *val) {
    char  name[128];
    int   idx = 0;
    const char *dot = strchr(key, '.');
    size_t l = dot ? (size_t)(dot - key) : strlen(key);
    if (l >= sizeof(name)) return -1;
    memcpy(name, key, l);
    name[l] = 0;
    if (dot) idx = atoi(dot + 1);
    for (int i = 0; i < NFIELDS; i++) {
        if (strcmp(fields[i].name, name)) continue;
        if (idx < 0 || idx >= fields[i].count) return -1;
        long long v = strtoll(val, NULL, 0);
        unsigned long long u = strtoull(val, NULL, 0);
        char *p = (char *)c + fields[i].off + fields[i].size * idx;
        if (val[0] != '-') v = (long long)u;
        switch (fields[i].size) {
        case 1: *(uint8_t *)p = (uint8_t)v; break;
        case 2: *(uint16_t *)p = (uint16_t)v; break;
        case 4: *(uint32_t *)p = (uint32_t)v; break;
        case 8: *(uint64_t *)p = (uint64_t)v; break;
        default: return -1;
        }
        return 0;
    }
    { /* members of the manual prediction structure table: pred_struct.<i>.<member>[.<j>] (shared element table of param_fields.h) */
        int pi, pj, k = pf_find(key, &pi, &pj);
        if (k >= 0 && !pfields[k].ptr) { pf_put(c, &pfields[k], pi, pj, strtoll(val, NULL, 0)); return 0; }
    }
    return -1;
}

static void dump_fields(const Cfg *c, FILE *f) {
    fprintf(f, "{");
    int first = 1;
    for (int i = 0; i < NFIELDS; i++)
        for (int k = 0; k < fields[i].count; k++) {
            const char *p = (const char *)c + fields[i].off + fields[i].size * k;
            long long v = 0;
            switch (fields[i].size) {
            case 1: v = fields[i].sgn ? (long long)*(int8_t *)p : (long long)*(uint8_t *)p; break;
            case 2: v = fields[i].sgn ? (long long)*(int16_t *)p : (long long)*(uint16_t *)p; break;
            case 4: v = fields[i].sgn ? (long long)*(int32_t *)p : (long long)*(uint32_t *)p; break;
            case 8: v = (long long)*(int64_t *)p; break;
            }
            if (fields[i].count > 1)
                fprintf(f, "%s\"%s.%d\":%lld", first ? "" : ",", fields[i].name, k, v);
            else
                fprintf(f, "%s\"%s\":%lld", first ? "" : ",", fields[i].name, v);
            first = 0;
        }
    fprintf(f, "}");
}

/* ------------------------------------------------------------------ content */
static int W = 64, H = 64, N = 5, BITS = 8;
static const char *content = "grad";
static uint32_t cseed = 1;

static inline uint32_t mix(uint32_t a, uint32_t b, uint32_t c, uint32_t d) {
    uint32_t h = a * 0x9E3779B1u ^ (b + 0x7F4A7C15u) * 0x85EBCA6Bu ^ (c + 0x165667B1u) * 0xC2B2AE35u ^ d * 0x27D4EB2Fu;
    h ^= h >> 15; h *= 0x2C1B3C6Du; h ^= h >> 12; h *= 0x297A2D39u; h ^= h >> 15;
    return h;
}
/* 8-bit sample value for plane pl (0 Y,1 U,2 V) at (x,y) of frame f */
static int sample8(int f, int pl, int x, int y) {
    int sx = pl ? 2 * x : x, sy = pl ? 2 * y : y; /* luma-domain position */
    int cutf = f;
    if (!strcmp(content, "cut") && f >= (N + 1) / 2) cutf = f + 100;
    if (!strcmp(content, "flat")) return pl ? 128 : 100;
    if (!strcmp(content, "max")) return 255;
    if (!strcmp(content, "min")) return 0;
    if (!strcmp(content, "noise")) return mix(cseed, (uint32_t)f, (uint32_t)(pl * 70000 + y), (uint32_t)x) & 255;
    /* every sample 0 or 255, redrawn in every picture inside moving 8x8 blocks: block differences saturate 16-bit SAD accumulators */
    if (!strcmp(content, "binary")) {
        uint32_t t = mix(cseed, 5, (uint32_t)((sy + 2 * f) / 8), (uint32_t)((sx + 3 * f) / 8));
        uint32_t n = mix(cseed, (uint32_t)f, (uint32_t)(pl * 70000 + y), (uint32_t)x);
        return (((t >> 3) & 1) ^ ((n & 7) < 2)) ? 255 : 0;
    }
    if (!strcmp(content, "screen")) {
        int bx = sx / 16, by = sy / 16;
        uint32_t c = mix(cseed, 7, (uint32_t)by, (uint32_t)bx);
        int base = pl == 0 ? 40 + (c % 5) * 45 : 60 + ((c >> (4 * pl)) % 4) * 40;
        /* glyph tiles 8x8 repeated, shifting slowly with the frame index */
        int gx = (sx + f) & 7, gy = sy & 7;
        uint32_t g = mix(cseed, 99, (uint32_t)((bx + by) & 3), 0);
        if (pl == 0 && ((g >> ((gy * 8 + gx) & 31)) & 1) && (by & 1)) return 255 - base;
        return base;
    }
    /* every 16x16 luma block (8x8 chroma block) is per-sample noise over k exact colours, k = 2..8 for luma and 1..4 for chroma; colours come
       from a pool rich in coding boundaries (0, 2^k - 1, 2^k, 255 - 2^k, 255) plus arbitrary values: drives the palette colour-cache / delta
       coding of both planes through its range and bit-width corners */
    if (!strcmp(content, "palette")) {
        static const uint8_t pool[] = {0, 1, 2, 3, 5, 16, 31, 32, 63, 64, 100, 127, 128, 150, 191, 192, 200, 223, 224, 230, 239, 240, 247, 248, 250, 251, 252, 253, 254, 255};
        int bx = sx / 16, by = sy / 16;
        uint32_t c = mix(cseed, 11 + (uint32_t)pl, (uint32_t)(by + 64 * (f / 2)), (uint32_t)bx);
        int k = pl == 0 ? 2 + (int)(c % 7) : 1 + (int)(c % 4);
        uint32_t sel = mix(cseed, (uint32_t)f, (uint32_t)(pl * 70000 + y), (uint32_t)x) % (uint32_t)k;
        uint32_t ci = mix(cseed, 13 + (uint32_t)pl, c, sel);
        return (ci & 0x300) ? pool[ci % sizeof(pool)] : (int)((ci >> 12) & 255);
    }
    /* grad / box / cut : moving gradient + low noise */
    int v;
    if (pl == 0) v = (sx * 2 + sy + 3 * cutf) & 255;
    else if (pl == 1) v = 128 + ((sx + cutf) & 31) - 16;
    else v = 128 + ((sy - cutf) & 31) - 16;
    if (!strcmp(content, "cut") && cutf != f) v = pl == 0 ? 255 - ((sx + 2 * sy) & 255) : 100 + pl * 10;
    v += (int)(mix(cseed, (uint32_t)f, (uint32_t)(pl * 70000 + y), (uint32_t)x) & 3);
    if (!strcmp(content, "box")) {
        int bx0 = (5 * f) % (W > 24 ? W - 24 : 1), by0 = (3 * f) % (H > 24 ? H - 24 : 1);
        if (sx >= bx0 && sx < bx0 + 24 && sy >= by0 && sy < by0 + 24) v = pl == 0 ? 235 : (pl == 1 ? 90 : 200);
    }
    return v < 0 ? 0 : v > 255 ? 255 : v;
}
static int sampleN(int f, int pl, int x, int y) {
    int v = sample8(f, pl, x, y);
    if (BITS == 8) return v;
    if (!strcmp(content, "max")) return 1023;
    int lo = (int)(mix(cseed ^ 0x55u, (uint32_t)f, (uint32_t)(pl * 70000 + y), (uint32_t)x) & 3);
    if (!strcmp(content, "flat") || !strcmp(content, "min")) lo = 0;
    if (!strcmp(content, "palette")) lo = 3; /* exact colours; 1023 - (4v + 3) = 4 (255 - v) keeps the power-of-two remainders */
    return (v << 2) | lo;
}

/* ------------------------------------------------------------------ hook H2: EncDec segment trace */
extern void (*svt_verif_trace_cb)(int kind, uint64_t a, uint64_t b, uint64_t c, uint64_t d);
typedef struct { uint64_t kind, a, b, c, d; } TraceRec;
static TraceRec *trace_buf;
static volatile long trace_n;
#define TRACE_CAP (1 << 20)
static void trace_cb(int kind, uint64_t a, uint64_t b, uint64_t c, uint64_t d) {
    long i = __atomic_fetch_add(&trace_n, 1, __ATOMIC_SEQ_CST);
    if (i < TRACE_CAP) { trace_buf[i].kind = (uint64_t)kind; trace_buf[i].a = a; trace_buf[i].b = b; trace_buf[i].c = c; trace_buf[i].d = d; }
}

/* ------------------------------------------------------------------ session */
typedef struct { uint8_t *buf; size_t len, cap; } Bytes;
static void bput(Bytes *b, const void *p, size_t n) {
    if (b->len + n > b->cap) { b->cap = (b->len + n) * 2 + 4096; b->buf = realloc(b->buf, b->cap); }
    memcpy(b->buf + b->len, p, n);
    b->len += n;
}

#define MAXPKT 8192
typedef struct {
    uint32_t size, flags, pic_type, qp, luma_sse, cb_sse, cr_sse; int64_t pts, dts; uint64_t priv; uint64_t hash;
    int after_send; /* number of pictures sent when this packet was retrieved */
} Pkt;
static Pkt pk[MAXPKT]; static int npk;
typedef struct { int64_t pts; uint32_t flags, len; uint64_t hash; int err; } Rec;
static Rec rc[MAXPKT]; static int nrc;
static Bytes obu, recbytes;
static int got_eos_pkt, got_eos_rec, recon_on;
static EbComponentType *hdl;
static EbBufferHeaderType recon_hdr;
static int err_get_packet, err_recon;
static int nsent;

static int poll_packets(void) { /* non-blocking: everything currently available */
    int got = 0;
    for (;;) {
        EbBufferHeaderType *p = NULL;
        EbErrorType e = svt_av1_enc_get_packet(hdl, &p, 0);
        if (e == EB_NoErrorEmptyQueue || !p) break;
        if (e != EB_ErrorNone) { err_get_packet = (int)e; }
        if (npk < MAXPKT) {
            Pkt *q = &pk[npk++];
            q->size = p->n_filled_len; q->flags = p->flags; q->pic_type = p->pic_type; q->qp = p->qp;
            q->luma_sse = p->luma_sse; q->cb_sse = p->cb_sse; q->cr_sse = p->cr_sse;
            q->pts = p->pts; q->dts = p->dts; q->priv = (uint64_t)(uintptr_t)p->p_app_private;
            q->hash = vu_fnv(p->p_buffer, p->n_filled_len, 0);
            q->after_send = nsent;
            bput(&obu, p->p_buffer, p->n_filled_len);
        }
        if (p->flags & EB_BUFFERFLAG_EOS) got_eos_pkt++;
        svt_av1_enc_release_out_buffer(&p);
        got++;
        if (e != EB_ErrorNone) break;
    }
    return got;
}
static int wait_packet(void) { /* blocking: one packet */
    EbBufferHeaderType *p = NULL;
    EbErrorType e = svt_av1_enc_get_packet(hdl, &p, 1);
    if (!p) { err_get_packet = (int)e; return -1; }
    if (e != EB_ErrorNone) err_get_packet = (int)e;
    if (npk < MAXPKT) {
        Pkt *q = &pk[npk++];
        q->size = p->n_filled_len; q->flags = p->flags; q->pic_type = p->pic_type; q->qp = p->qp;
        q->luma_sse = p->luma_sse; q->cb_sse = p->cb_sse; q->cr_sse = p->cr_sse;
        q->pts = p->pts; q->dts = p->dts; q->priv = (uint64_t)(uintptr_t)p->p_app_private;
        q->hash = vu_fnv(p->p_buffer, p->n_filled_len, 0);
        q->after_send = nsent;
        bput(&obu, p->p_buffer, p->n_filled_len);
    }
    int eos = (p->flags & EB_BUFFERFLAG_EOS) != 0;
    if (eos) got_eos_pkt++;
    svt_av1_enc_release_out_buffer(&p);
    return eos;
}
static int poll_recon(void) {
    int got = 0;
    if (!recon_on) return 0;
    for (;;) {
        recon_hdr.n_filled_len = 0; recon_hdr.flags = 0;
        EbErrorType e = svt_av1_get_recon(hdl, &recon_hdr);
        if (e == EB_NoErrorEmptyQueue) break;
        if (e != EB_ErrorNone) { err_recon = (int)e; if (e == (EbErrorType)EB_ErrorMax && recon_hdr.n_filled_len == 0) break; }
        if (nrc < MAXPKT) {
            Rec *r = &rc[nrc++];
            r->pts = recon_hdr.pts; r->flags = recon_hdr.flags; r->len = recon_hdr.n_filled_len;
            r->hash = vu_fnv(recon_hdr.p_buffer, recon_hdr.n_filled_len, 0); r->err = (int)e;
            uint64_t hd[2] = { (uint64_t)recon_hdr.pts, recon_hdr.n_filled_len };
            bput(&recbytes, hd, sizeof hd);
            bput(&recbytes, recon_hdr.p_buffer, recon_hdr.n_filled_len);
        }
        if (recon_hdr.flags & EB_BUFFERFLAG_EOS) got_eos_rec++;
        got++;
    }
    return got;
}

static void writefile(const char *pre, const char *suf, const void *p, size_t n) {
    char fn[1024];
    snprintf(fn, sizeof fn, "%s%s", pre, suf);
    FILE *f = fopen(fn, "wb");
    if (!f) { perror(fn); exit(4); }
    if (n) fwrite(p, 1, n, f);
    fclose(f);
}

static int ntasks(void);
static int cycle_no;
static int session_main(int argc, char **argv) {
    Cfg *cfg = malloc(sizeof *cfg);
    const char *pat = "d", *final_ = "b", *out = NULL, *ptsmode = "seq", *lifetime = "keep";
    int stride_extra_cb = 0, stride_extra_cr = 0;
    int stride_extra = 0, padbyte = 0, priv = 1, hdr = 1, prefill = 0, teardown_at = -1, send_eos = 1;
    int drainall = 1, teardown_drain = 0;
    const char *segtrace = NULL, *stop_after = "";
    npk = nrc = 0; obu.len = recbytes.len = 0; got_eos_pkt = got_eos_rec = 0; err_get_packet = err_recon = 0; nsent = 0; hdl = NULL;
    const char *sets[512]; int nsets = 0;

    for (int i = 1; i < argc; i++) {
        char *eq = strchr(argv[i], '=');
        if (!eq) { fprintf(stderr, "bad arg %s\n", argv[i]); return 4; }
        *eq = 0;
        const char *k = argv[i], *v = eq + 1;
        if (!strcmp(k, "w")) W = atoi(v); else if (!strcmp(k, "h")) H = atoi(v);
        else if (!strcmp(k, "n")) N = atoi(v); else if (!strcmp(k, "bits")) BITS = atoi(v);
        else if (!strcmp(k, "content")) content = v; else if (!strcmp(k, "cseed")) cseed = (uint32_t)atoi(v);
        else if (!strcmp(k, "pat")) pat = v; else if (!strcmp(k, "final")) final_ = v;
        else if (!strcmp(k, "out")) out = v; else if (!strcmp(k, "pts")) ptsmode = v;
        else if (!strcmp(k, "stride_extra_cb")) stride_extra_cb = atoi(v); else if (!strcmp(k, "stride_extra_cr")) stride_extra_cr = atoi(v);
        else if (!strcmp(k, "stride_extra")) stride_extra = atoi(v); else if (!strcmp(k, "padbyte")) padbyte = atoi(v);
        else if (!strcmp(k, "lifetime")) lifetime = v; else if (!strcmp(k, "priv")) priv = atoi(v);
        else if (!strcmp(k, "hdr")) hdr = atoi(v); else if (!strcmp(k, "prefill")) prefill = atoi(v);
        else if (!strcmp(k, "teardown_at")) teardown_at = atoi(v); else if (!strcmp(k, "send_eos")) send_eos = atoi(v);
        else if (!strcmp(k, "segtrace")) segtrace = v;
        else if (!strcmp(k, "stop_after")) stop_after = v;
        else if (!strcmp(k, "cycles")) { /* handled by main */ }
        else if (!strcmp(k, "drainall")) drainall = atoi(v); else if (!strcmp(k, "teardown_drain")) teardown_drain = atoi(v);
        else { *eq = '='; if (nsets < 512) sets[nsets++] = argv[i]; }
    }
    if (segtrace) { trace_buf = calloc(TRACE_CAP, sizeof(TraceRec)); svt_verif_trace_cb = trace_cb; }
    memset(cfg, prefill, sizeof *cfg);
    EbErrorType e_ih = svt_av1_enc_init_handle(&hdl, NULL, cfg);
    if (e_ih != EB_ErrorNone) { printf("{\"init_handle\":%d}\n", (int)e_ih); return 0; }
    if (!strcmp(stop_after, "ih")) {
        EbErrorType e_d = svt_av1_enc_deinit(hdl); EbErrorType e_dh = svt_av1_enc_deinit_handle(hdl);
        printf("{\"init_handle\":0,\"stopped\":\"ih\",\"deinit\":%d,\"deinit_handle\":%d,\"tasks\":%d,\"unjoined\":%d,\"cycle\":%d}\n", (int)e_d, (int)e_dh, ntasks(), vs_unjoined(), cycle_no);
        free(cfg); return 0;
    }
    cfg->source_width = (uint32_t)W; cfg->source_height = (uint32_t)H;
    cfg->encoder_bit_depth = (uint32_t)BITS;
    cfg->logical_processors = 1;
    cfg->enc_mode = 8;
    for (int i = 0; i < nsets; i++) {
        char tmp[256];
        snprintf(tmp, sizeof tmp, "%s", sets[i]);
        char *eq = strchr(tmp, '=');
        *eq = 0;
        if (set_field(cfg, tmp, eq + 1)) { fprintf(stderr, "unknown field %s\n", tmp); return 4; }
    }
    recon_on = (int)cfg->recon_enabled;
    BITS = (int)cfg->encoder_bit_depth > 8 ? 10 : 8;
    EbErrorType e_sp = svt_av1_enc_set_parameter(hdl, cfg);
    if (e_sp != EB_ErrorNone || !strcmp(stop_after, "sp")) {
        EbErrorType e_d = !strcmp(stop_after, "") ? 0 : svt_av1_enc_deinit(hdl);
        EbErrorType e_dh = svt_av1_enc_deinit_handle(hdl);
        printf("{\"init_handle\":0,\"set_parameter\":%d,\"stopped\":\"sp\",\"deinit\":%d,\"deinit_handle\":%d,\"tasks\":%d,\"unjoined\":%d,\"cycle\":%d}\n", (int)e_sp, (int)e_d, (int)e_dh, ntasks(), vs_unjoined(), cycle_no);
        free(cfg); return 0;
    }
    EbErrorType e_in = svt_av1_enc_init(hdl);
    if (e_in != EB_ErrorNone || !strcmp(stop_after, "init")) {
        EbErrorType e_d = svt_av1_enc_deinit(hdl);
        EbErrorType e_dh = svt_av1_enc_deinit_handle(hdl);
        printf("{\"init_handle\":0,\"set_parameter\":0,\"init\":%d,\"stopped\":\"init\",\"deinit\":%d,\"deinit_handle\":%d,\"tasks\":%d,\"unjoined\":%d,\"cycle\":%d}\n", (int)e_in, (int)e_d, (int)e_dh, ntasks(), vs_unjoined(), cycle_no);
        free(cfg); return 0;
    }
    Bytes hdrb = {0};
    int e_hdr = 0;
    if (hdr) {
        EbBufferHeaderType *sh = NULL;
        e_hdr = (int)svt_av1_enc_stream_header(hdl, &sh);
        if (e_hdr == 0 && sh) { bput(&hdrb, sh->p_buffer, sh->n_filled_len); svt_av1_enc_stream_header_release(sh); }
    }
    int bps = BITS > 8 ? 2 : 1;
    int ys = W + stride_extra, cs = (W + 1) / 2 + (stride_extra + 1) / 2;
    int cbs = cs + stride_extra_cb, crs = cs + stride_extra_cr;   /* chroma planes may have strides of their own */
    int ch = (H + 1) / 2, cw = (W + 1) / 2;
    size_t ysz = (size_t)ys * H * bps, cbsz = (size_t)cbs * ch * bps, crsz = (size_t)crs * ch * bps;
    recon_hdr.size = sizeof recon_hdr;
    recon_hdr.n_alloc_len = (uint32_t)((size_t)(W + 16) * (H + 16) * 3 + 65536) * 2;
    recon_hdr.p_buffer = malloc(recon_hdr.n_alloc_len);
    int e_send[MAXPKT]; int nsend_err = 0; (void)e_send;
    int patlen = (int)strlen(pat);
    int64_t *sent_pts = calloc((size_t)N + 1, sizeof(int64_t));
    uint8_t *keepbuf = NULL;
    int torn = 0;
    for (int f = 0; f < N; f++) {
        if (teardown_at == f) { torn = 1; break; }
        uint8_t *buf = (!strcmp(lifetime, "keep") && keepbuf) ? keepbuf : malloc(ysz + cbsz + crsz + 64);
        keepbuf = !strcmp(lifetime, "keep") ? buf : NULL;
        memset(buf, padbyte == 256 ? (f * 37 + 11) & 255 : padbyte, ysz + cbsz + crsz + 64);
        uint8_t *pl[3] = { buf, buf + ysz, buf + ysz + cbsz };
        for (int p = 0; p < 3; p++) {
            int pw = p ? cw : W, ph = p ? ch : H, st = p == 0 ? ys : p == 1 ? cbs : crs;
            for (int y = 0; y < ph; y++)
                for (int x = 0; x < pw; x++) {
                    int v = sampleN(f, p, x, y);
                    if (bps == 1) pl[p][(size_t)y * st + x] = (uint8_t)v;
                    else ((uint16_t *)pl[p])[(size_t)y * st + x] = (uint16_t)v;
                }
        }
        EbSvtIOFormat io; memset(&io, 0, sizeof io);
        io.luma = pl[0]; io.cb = pl[1]; io.cr = pl[2];
        io.y_stride = (uint32_t)ys; io.cb_stride = (uint32_t)cbs; io.cr_stride = (uint32_t)crs;
        io.width = (uint32_t)W; io.height = (uint32_t)H; io.color_fmt = EB_YUV420; io.bit_depth = BITS > 8 ? EB_TEN_BIT : EB_EIGHT_BIT;
        EbBufferHeaderType ih; memset(&ih, 0, sizeof ih);
        ih.size = sizeof ih; ih.p_buffer = (uint8_t *)&io;
        ih.n_filled_len = (uint32_t)(ysz + cbsz + crsz); ih.n_alloc_len = ih.n_filled_len;
        int64_t pts = f;
        if (!strcmp(ptsmode, "off")) pts = 1000 + 3 * f;
        else if (!strcmp(ptsmode, "perm")) pts = (int64_t)((f * 7 + 3) % (N > 0 ? N : 1)) * 10 + (f & 1);
        else if (!strcmp(ptsmode, "neg")) pts = -50 + f;
        else if (!strcmp(ptsmode, "big")) pts = INT64_MAX - 1000 + f;
        else if (!strcmp(ptsmode, "bigneg")) pts = INT64_MIN + 5 + 2 * f;
        sent_pts[f] = pts;
        ih.pts = pts; ih.dts = 0;
        ih.p_app_private = priv ? (void *)(uintptr_t)(0x1000 + 16 * f) : NULL;
        ih.pic_type = EB_AV1_INVALID_PICTURE; ih.flags = 0;
        EbErrorType e = svt_av1_enc_send_picture(hdl, &ih);
        if (e != EB_ErrorNone) nsend_err++;
        nsent = f + 1;
        if (!strcmp(lifetime, "scribble")) memset(buf, 0xFF, ysz + cbsz + crsz + 64);
        else if (!strcmp(lifetime, "free")) free(buf);
        char c = pat[f < patlen ? f : patlen - 1];
        if (c == 'd') { vs_quiesce(); poll_packets(); poll_recon(); }
        else if (c == 'p') { vs_quiesce(); poll_packets(); }
        else if (c == 'q') { vs_quiesce(); }
    }
    if (teardown_at == N) torn = 1;
    int completed = 0, blocked_recon = 0;
    if (!torn && send_eos) {
        EbBufferHeaderType eh; memset(&eh, 0, sizeof eh);
        eh.size = sizeof eh; eh.flags = EB_BUFFERFLAG_EOS; eh.pic_type = EB_AV1_INVALID_PICTURE;
        svt_av1_enc_send_picture(hdl, &eh);
        if (teardown_at == N + 1) torn = 1;
    }
    if (!torn && send_eos && drainall) {
        if (N > 0) {
            if (!strcmp(final_, "b")) {
                /* blocking drain; recon polled in between so that a full recon pool cannot stall the pipe */
                while (!got_eos_pkt && !err_get_packet && npk < N) {
                    if (recon_on) { if (vs_active()) vs_quiesce(); poll_recon(); }
                    if (wait_packet() < 0) break;
                    if (teardown_at >= N + 2 && npk >= teardown_at - (N + 2) + 1) { torn = 1; break; }
                }
            } else {
                int idle = 0;
                while (!got_eos_pkt && !err_get_packet && idle < 2000) {
                    vs_quiesce();
                    int g = poll_packets() + poll_recon();
                    if (g == 0) { if (vs_active()) break; idle++; } else idle = 0;
                }
            }
        }
        if (!torn) {
            /* recon drain */
            int idle = 0;
            while (recon_on && !got_eos_rec && N > 0 && idle < 2000) {
                vs_quiesce();
                int g = poll_recon();
                if (g == 0) { if (vs_active()) { blocked_recon = 1; break; } idle++; } else idle = 0;
            }
            /* nothing may follow the EOS packet */
            vs_quiesce();
            int extra = poll_packets();
            completed = (N == 0 || got_eos_pkt) ? 1 : 0;
            if (extra) completed |= 2; /* bit 1: packets after EOS */
        }
    } else if (torn && teardown_drain) {
        vs_quiesce(); poll_packets(); poll_recon();
    }
    EbErrorType e_d = svt_av1_enc_deinit(hdl);
    EbErrorType e_dh = svt_av1_enc_deinit_handle(hdl);
    long points = vs_fini();

    /* ---- report */
    uint64_t pkh = 0, rch = 0;
    for (int i = 0; i < npk; i++) {
        uint64_t t[4] = { pk[i].hash, (uint64_t)pk[i].pts, pk[i].flags, pk[i].size };
        pkh = vu_fnv(t, sizeof t, pkh);
    }
    /* recon keyed by pts: order-insensitive combination */
    for (int i = 0; i < nrc; i++) {
        uint64_t t[3] = { rc[i].hash, (uint64_t)rc[i].pts, rc[i].len };
        rch += vu_fnv(t, sizeof t, 0x1234);
    }
    printf("{\"init_handle\":0,\"set_parameter\":0,\"init\":0,\"hdr\":%d,\"hdr_len\":%zu,\"send_err\":%d,", e_hdr, hdrb.len, nsend_err);
    printf("\"n\":%d,\"npk\":%d,\"nrc\":%d,\"eos_pkt\":%d,\"eos_rec\":%d,\"completed\":%d,\"blocked_recon\":%d,", N, npk, nrc, got_eos_pkt, got_eos_rec, completed, blocked_recon);
    printf("\"err_get_packet\":%d,\"err_recon\":%d,\"deinit\":%d,\"deinit_handle\":%d,\"points\":%ld,", err_get_packet, err_recon, (int)e_d, (int)e_dh, points);
    printf("\"pkt_hash\":\"%016llx\",\"rec_hash\":\"%016llx\",\"tasks\":%d,\"unjoined\":%d,\"cycle\":%d,\"torn\":%d,", (unsigned long long)pkh, (unsigned long long)rch, ntasks(), vs_unjoined(), cycle_no, torn);
    printf("\"sent_pts\":[");
    for (int i = 0; i < N && i < nsent; i++) printf("%s%lld", i ? "," : "", (long long)sent_pts[i]);
    printf("],\"pk\":[");
    for (int i = 0; i < npk; i++)
        printf("%s[%u,%lld,%lld,%u,%u,%u,%u,%u,%u,%llu,\"%016llx\",%d]", i ? "," : "", pk[i].size, (long long)pk[i].pts, (long long)pk[i].dts,
               pk[i].flags, pk[i].pic_type, pk[i].qp, pk[i].luma_sse, pk[i].cb_sse, pk[i].cr_sse, (unsigned long long)pk[i].priv,
               (unsigned long long)pk[i].hash, pk[i].after_send);
    printf("],\"rc\":[");
    for (int i = 0; i < nrc; i++)
        printf("%s[%lld,%u,%u,\"%016llx\",%d]", i ? "," : "", (long long)rc[i].pts, rc[i].flags, rc[i].len, (unsigned long long)rc[i].hash, rc[i].err);
    printf("]");
    if (getenv("ENCDRV_DUMPCFG")) { printf(",\"cfg\":"); dump_fields(cfg, stdout); }
    printf("}\n");
    if (segtrace) {
        FILE *tf = fopen(segtrace, "wb");
        long n = trace_n < TRACE_CAP ? trace_n : TRACE_CAP;
        if (tf) { fwrite(trace_buf, sizeof(TraceRec), (size_t)n, tf); fclose(tf); }
    }
    if (out) {
        writefile(out, ".obu", obu.buf, obu.len);
        writefile(out, ".rec", recbytes.buf, recbytes.len);
        writefile(out, ".hdr", hdrb.buf, hdrb.len);
        /* packet sizes for the reference decoders, and the source pictures for C26 */
        Bytes sz = {0};
        for (int i = 0; i < npk; i++) bput(&sz, &pk[i].size, 4);
        writefile(out, ".sz", sz.buf, sz.len);
        if (getenv("ENCDRV_DUMPSRC")) {
            Bytes s = {0};
            for (int f = 0; f < N; f++)
                for (int p = 0; p < 3; p++) {
                    int pw = p ? cw : W, ph = p ? ch : H;
                    for (int y = 0; y < ph; y++)
                        for (int x = 0; x < pw; x++) {
                            uint16_t v = (uint16_t)sampleN(f, p, x, y);
                            if (bps == 1) { uint8_t b = (uint8_t)v; bput(&s, &b, 1); } else bput(&s, &v, 2);
                        }
                }
            writefile(out, ".src", s.buf, s.len);
        }
    }
    fflush(stdout);
    free(recon_hdr.p_buffer); recon_hdr.p_buffer = NULL; free(sent_pts); free(hdrb.buf); free(cfg); if (keepbuf) free(keepbuf);
    return 0;
}
#include <dirent.h>
#include <malloc.h>
static int ntasks(void) { int n = 0; DIR *d = opendir("/proc/self/task"); if (!d) return -1; struct dirent *e; while ((e = readdir(d))) if (e->d_name[0] != '.') n++; closedir(d); return n; }
int main(int argc, char **argv) {
    int cycles = 1;
    for (int i = 1; i < argc; i++) if (!strncmp(argv[i], "cycles=", 7)) cycles = atoi(argv[i] + 7);
    vs_init();
    for (cycle_no = 0; cycle_no < cycles; cycle_no++) {
        char **av = malloc(sizeof(char *) * (size_t)(argc + 1));
        for (int i = 0; i < argc; i++) av[i] = strdup(argv[i]);
        int r = session_main(argc, av);
        if (cycles > 1) {
            extern size_t memacct_live(void) __attribute__((weak)); extern long memacct_blocks(void) __attribute__((weak));
            if (memacct_live) printf("{\"heap_in_use\":%zu,\"blocks\":%ld,\"cycle\":%d}\n", memacct_live(), memacct_blocks(), cycle_no);
            else { struct mallinfo2 mi = mallinfo2(); printf("{\"heap_in_use\":%zu,\"cycle\":%d}\n", (size_t)mi.uordblks, cycle_no); }
        }
        for (int i = 0; i < argc; i++) free(av[i]);
        free(av);
        if (r) return r;
    }
    free(obu.buf); free(recbytes.buf); obu.buf = recbytes.buf = NULL; obu.cap = recbytes.cap = 0;
    return 0;
}
