/* memacct: exact accounting of live heap bytes of everything linked into the harness (ld --wrap of the allocator). */
#define _GNU_SOURCE
#include <malloc.h>
#include <stdlib.h>
#include <stddef.h>
void *__real_malloc(size_t); void *__real_calloc(size_t, size_t); void *__real_realloc(void *, size_t); void __real_free(void *);
int __real_posix_memalign(void **, size_t, size_t);
static volatile long live, nlive;
size_t memacct_live(void) { return (size_t)live; }
long memacct_blocks(void) { return nlive; }
static void add(void *p) { if (p) { __atomic_add_fetch(&live, (long)malloc_usable_size(p), __ATOMIC_RELAXED); __atomic_add_fetch(&nlive, 1, __ATOMIC_RELAXED); } }
static void sub(void *p) { if (p) { __atomic_sub_fetch(&live, (long)malloc_usable_size(p), __ATOMIC_RELAXED); __atomic_sub_fetch(&nlive, 1, __ATOMIC_RELAXED); } }
void *__wrap_malloc(size_t n) { void *p = __real_malloc(n); add(p); return p; }
void *__wrap_calloc(size_t a, size_t b) { void *p = __real_calloc(a, b); add(p); return p; }
void *__wrap_realloc(void *o, size_t n) { sub(o); void *p = __real_realloc(o, n); add(p); return p; }
void __wrap_free(void *p) { sub(p); __real_free(p); }
int __wrap_posix_memalign(void **pp, size_t a, size_t n) { int r = __real_posix_memalign(pp, a, n); if (!r) add(*pp); return r; }
