"""Driver for the long-lived parameter harnesses (src/param_set_h.c, src/param_def_h.c) used by C12 and C13.

A harness reads one case per line from stdin and answers one line per case ("<id> ...", flushed).  When the process dies
or hangs, the case after the last answered one is the culprit: it is reported as crash/hang and the harness is restarted
with the remaining cases.
"""
import json
import os
import re
import shutil
import subprocess

import vlib

ENV = {"SVT_LOG": "-2"}
MUT_DIR = os.path.join(vlib.BUILD, "work", "c12mut")
HANDLE_C = "Source/Lib/Encoder/Globals/EbEncHandle.c"


def env():
    e = dict(os.environ)
    e.update(ENV)
    return e


def build(name="param_set_h", src="param_set_h.c"):
    return vlib.cc_harness("rel", name, [src])


def query(exe, mode):
    p = subprocess.run([exe, mode], stdout=subprocess.PIPE, stderr=subprocess.PIPE, env=env(), timeout=60)
    if p.returncode != 0:
        raise vlib.BuildError("%s %s failed (rc %s): %s" % (exe, mode, p.returncode, p.stderr[-400:].decode("latin1")))
    return json.loads(p.stdout.decode())


def check_layout(lay):
    """Every byte outside the table must be plausible alignment padding; returns list of problems."""
    errs = []
    if lay["overlap"]:
        errs.append("field table rows overlap (%d bytes)" % lay["overlap"])
    starts = {}
    for r in lay["rows"]:
        for i in range(r["outer"]):
            starts[r["off"] + i * r["stride"]] = r["size"]
    for off, n in lay["holes"]:
        end = off + n
        if end == lay["sizeof"]:
            if n >= 8:
                errs.append("tail hole of %d bytes at %d" % (n, off))
            continue
        nxt = starts.get(end)
        if nxt is None or n >= nxt or end % nxt:
            errs.append("bytes %d..%d of the structure are not in the field table and are not alignment padding"
                        % (off, end - 1))
    return errs


def run_lines(exe, lines, args=("cases",), timeout=120, idpos=0):
    """lines: list of 'id ...' strings.  Returns {id: answer-tokens | ['crash', sig] | ['hang']}."""
    out = {}
    todo = list(lines)
    while todo:
        data = ("\n".join(todo) + "\n").encode()
        hang = False
        try:
            p = subprocess.run([exe] + list(args), input=data, stdout=subprocess.PIPE, stderr=subprocess.PIPE,
                               env=env(), timeout=timeout)
            so, rc = p.stdout, p.returncode
        except subprocess.TimeoutExpired as t:
            so, rc, hang = (t.stdout or b""), None, True
        done = 0
        for l in so.decode("latin1").split("\n"):
            t = l.split()
            if len(t) < 2:
                continue
            out[t[0]] = t[1:]
            done += 1
        # answers come in order: the first unanswered line is the culprit
        ids = [l.split()[idpos] for l in todo]
        rest = [i for i in range(len(todo)) if ids[i] not in out]
        if not rest:
            break
        first = rest[0]
        out[ids[first]] = ["hang"] if hang else ["crash", str(rc)]
        todo = [todo[i] for i in rest[1:]]
    return out


# ---------------------------------------------------------------- mutants of EbEncHandle.c (detection demonstrations)

MUTANTS = {
    # name: (text to find, replacement, description)
    "qp65": ("if (config->qp > MAX_QP_VALUE) {", "if (config->qp >= 65) {",
             "verify_settings: QP range check loosened from > 63 to >= 65 (qp = 64 slips through)"),
    "tilecols": ("* (1u << config->tile_columns) > 128 || config->tile_columns > 4) {",
                 "* (1u << config->tile_columns) > 128) {",
                 "verify_settings: the tile_columns > 4 test dropped"),
    "rcip": ("(config->intra_period_length < -2 || config->intra_period_length > 255) && config->rate_control_mode >=1",
             "(config->intra_period_length < -2 || config->intra_period_length > 256) && config->rate_control_mode >=1",
             "verify_settings: intra period limit under rate control off by one (256 accepted)"),
    "minmaxqp": ("else if ((config->min_qp_allowed) > (config->max_qp_allowed)) {",
                 "else if ((config->min_qp_allowed) > (config->max_qp_allowed) + 1) {",
                 "verify_settings: min_qp_allowed may exceed max_qp_allowed by one"),
    "searchw": ("if ((config->search_area_width > 480) || (config->search_area_width == 0)) {",
                "if ((config->search_area_width > 480)) {",
                "verify_settings: search_area_width == 0 no longer rejected"),
    # C13 detection demonstration: one default no longer written
    "noqpinit": ("    config_ptr->qp = 50;\n", "    /* qp left unwritten */\n",
                 "svt_svt_enc_init_parameter no longer writes qp"),
    # the planned repair of C13 (not a defect: used to show that C13 passes once the structure is zeroed first)
    "c13fix": ("    config_ptr->frame_rate = 30 << 16;\n    config_ptr->frame_rate_numerator = 0;",
               "    memset(config_ptr, 0, sizeof(*config_ptr));\n    config_ptr->frame_rate = 30 << 16;\n"
               "    config_ptr->frame_rate_numerator = 0;",
               "svt_svt_enc_init_parameter zeroes the structure before filling in the defaults"),
}


def lib_cflags():
    """-D / -I options the library build uses for EbEncHandle.c (taken from the ninja build description)."""
    d = vlib.variant_dir("rel")
    vlib.ensure_build("rel")
    r = vlib.run(["ninja", "-C", d, "-t", "commands"])
    for l in r.stdout.split("\n"):
        if l.rstrip().endswith(HANDLE_C) and " -c " in l:
            toks = l.split()
            keep = [t for t in toks if (t.startswith("-D") or t.startswith("-I") or t.startswith("-std="))
                    and not t.startswith("-D_FORTIFY")]
            return " ".join(keep) + " -w"
    return ("-DARCH_X86_64=1 -DEN_AVX512_SUPPORT=0 -DSAFECLIB_STR_NULL_SLACK=1 -I%s -I%s/Source/Lib/Common/Codec "
            "-std=gnu99 -w" % (vlib.REPO, d))


def build_mutant(mut, harness_src="param_set_h.c", base="param_set_h"):
    """Copies EbEncHandle.c to build/work/c12mut/<mut>/, applies the mutation and links it into the harness ahead of
    the archive (the archive member is then never pulled in).  Returns the executable path."""
    find, repl, _ = MUTANTS[mut]
    src = open(os.path.join(vlib.REPO, HANDLE_C), encoding="utf-8").read()
    if src.count(find) != 1:
        raise vlib.BuildError("mutant %s: pattern occurs %d times in %s" % (mut, src.count(find), HANDLE_C))
    d = os.path.join(MUT_DIR, mut)
    os.makedirs(d, exist_ok=True)
    path = os.path.join(d, "EbEncHandle.c")
    new = src.replace(find, repl)
    if not os.path.exists(path) or open(path, encoding="utf-8").read() != new:
        with open(path, "w", encoding="utf-8") as f:
            f.write(new)
    exe = vlib.cc_harness("rel", "%s_mut_%s" % (base, mut), [harness_src, path], internal=True,
                          extra_cflags=lib_cflags())
    # make sure the mutated object really is the one linked: its text must be in the binary's symbol table once
    nm = vlib.run(["nm", exe]).stdout
    n = len(re.findall(r"\bT svt_av1_enc_set_parameter\b", nm))
    if n != 1:
        raise vlib.BuildError("mutant %s: svt_av1_enc_set_parameter defined %d times" % (mut, n))
    return exe


def clean_mutants():
    shutil.rmtree(MUT_DIR, ignore_errors=True)
