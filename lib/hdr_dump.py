"""Deep header / block introspection through the SVT decoder's parser (src/hdr_dump.c), shared by C18 / C19 / C20.

hdr_dump decodes <prefix>.obu/.sz frame by frame (one svt_av1_dec_frame call per coded frame, threads=1) and returns, per coded
frame, the fields of the decoder's parsed FrameHeader plus block-level tool usage counters obtained by walking the
BlockModeInfo records of the frame.  The decoder's parser (EbDecParseObu.c / EbDecParseBlock.c) shares no code with the
encoder's bitstream writer (EbEntropyCoding.c); every use cross-validates the parse by comparing the SVT decoder's output
pictures with libaom's (`validated`): a misparsed syntax element desynchronises the arithmetic decoder or changes the
reconstruction.
"""
import json
import os
import subprocess

import enc
import vlib

_exe = None


def build():
    global _exe
    if _exe is None:
        _exe = vlib.cc_harness("rel", "hdr_dump", ["hdr_dump.c"], enc=False, dec=True, internal=True, extra_cflags="-w")
    return _exe


def dump(prefix, blocks=1, pics=1, timeout=120):
    """Returns the parsed JSON of hdr_dump, or {'crash': True, ...} / {'timeout': True}."""
    exe = build()
    env = dict(os.environ)
    env["SVT_LOG"] = "-2"
    try:
        p = subprocess.run([exe, prefix, "blocks=%d" % blocks, "pics=%d" % pics], stdout=subprocess.PIPE,
                           stderr=subprocess.PIPE, timeout=timeout, env=env)
    except subprocess.TimeoutExpired:
        return {"timeout": True}
    try:
        d = json.loads(p.stdout.decode("latin1").strip().split("\n")[-1])
    except Exception:
        return {"crash": True, "rc": p.returncode, "stderr": p.stderr[-600:].decode("latin1")}
    return d


def usable(d):
    return not (d.get("timeout") or d.get("crash") or d.get("nerr") or d.get("framing_err") or "frames" not in d)


def why_unusable(d):
    if d.get("timeout"):
        return "timeout"
    if d.get("crash"):
        return "crash(rc=%s)" % d.get("rc")
    if d.get("nerr"):
        return "decode-error(%s)" % d.get("first_err")
    if d.get("framing_err"):
        return "obu-framing"
    return "no-output"


def validate(prefix, d):
    """Cross-validates the SVT decoder's parse against libaom (dav1d when libaom rejects the stream): same number of output
    pictures, same samples.

    Returns (ok, message): True = confirmed (message 'libaom' or 'dav1d'), False = the SVT decoder's output differs,
    None = no reference decoder could decode the stream (the parse is then not trusted by the callers)."""
    rd = enc.refdec(prefix, dav1d=0)
    who = "libaom"
    if rd.get("timeout") or rd.get("crash") or not rd.get("aom") or rd.get("aom_err"):
        rd = enc.refdec(prefix, aom=0)
        who = "dav1d"
        if rd.get("timeout") or rd.get("crash") or not rd.get("dav1d") or rd.get("d1_err"):
            return None, "neither libaom nor dav1d decodes the stream"
    a = [x[3] for x in rd["frames"]]
    b = [x[3] for x in d.get("pics", [])]
    if a != b:
        k = next((i for i in range(min(len(a), len(b))) if a[i] != b[i]), min(len(a), len(b)))
        return False, "SVT decoder output differs from %s (%d vs %d pictures, first difference at %d)" % (who, len(b), len(a), k)
    return True, who


# ------------------------------------------------------------------ AV1 spec helpers held by the checker

# AV1 quantizer (0..63) -> qindex (0..255) mapping used by libaom / the AV1 reference encoder command line
QUANTIZER_TO_QINDEX = [
    0, 4, 8, 12, 16, 20, 24, 28, 32, 36, 40, 44, 48, 52, 56, 60,
    64, 68, 72, 76, 80, 84, 88, 92, 96, 100, 104, 108, 112, 116, 120, 124,
    128, 132, 136, 140, 144, 148, 152, 156, 160, 164, 168, 172, 176, 180, 184, 188,
    192, 196, 200, 204, 208, 212, 216, 220, 224, 228, 232, 236, 240, 244, 249, 255]


def tile_log2(blk, target):
    """AV1 spec 5.9.16 tile_log2: smallest k with (blk << k) >= target."""
    k = 0
    while (blk << k) < target:
        k += 1
    return k


MAX_TILE_WIDTH = 4096
MAX_TILE_AREA = 4096 * 2304
MAX_TILE_COLS = 64
MAX_TILE_ROWS = 64


def spec_uniform_tiles(frame_w, frame_h, use_128, req_cols_log2, req_rows_log2):
    """AV1 spec 5.9.15 tile_info() with uniform_tile_spacing_flag = 1, for requested log2 tile counts (each clamped to the
    range the syntax can express: increment_tile_cols_log2 can only move TileColsLog2 within [minLog2TileCols,
    maxLog2TileCols], increment_tile_rows_log2 within [minLog2TileRows, maxLog2TileRows]).

    Returns dict(tile_cols, tile_rows, cols_log2, rows_log2, col_starts_sb, row_starts_sb)."""
    mi_cols = 2 * ((frame_w + 7) >> 3)
    mi_rows = 2 * ((frame_h + 7) >> 3)
    sb_cols = ((mi_cols + 31) >> 5) if use_128 else ((mi_cols + 15) >> 4)
    sb_rows = ((mi_rows + 31) >> 5) if use_128 else ((mi_rows + 15) >> 4)
    sb_shift = 5 if use_128 else 4
    sb_size_log2 = sb_shift + 2
    max_tile_width_sb = MAX_TILE_WIDTH >> sb_size_log2
    max_tile_area_sb = MAX_TILE_AREA >> (2 * sb_size_log2)
    min_log2_cols = tile_log2(max_tile_width_sb, sb_cols)
    max_log2_cols = tile_log2(1, min(sb_cols, MAX_TILE_COLS))
    max_log2_rows = tile_log2(1, min(sb_rows, MAX_TILE_ROWS))
    min_log2_tiles = max(min_log2_cols, tile_log2(max_tile_area_sb, sb_rows * sb_cols))
    cl = min(max(req_cols_log2, min_log2_cols), max_log2_cols)
    tile_w_sb = (sb_cols + (1 << cl) - 1) >> cl
    col_starts = []
    s = 0
    while s < sb_cols:
        col_starts.append(s)
        s += tile_w_sb
    tile_cols = len(col_starts)
    col_starts.append(sb_cols)
    cl = tile_log2(1, tile_cols)  # TileColsLog2 is recomputed from the resulting tile count (spec 5.9.15)
    min_log2_rows = max(min_log2_tiles - cl, 0)
    rl = min(max(req_rows_log2, min_log2_rows), max_log2_rows)
    tile_h_sb = (sb_rows + (1 << rl) - 1) >> rl
    row_starts = []
    s = 0
    while s < sb_rows:
        row_starts.append(s)
        s += tile_h_sb
    tile_rows = len(row_starts)
    row_starts.append(sb_rows)
    rl = tile_log2(1, tile_rows)
    return {"tile_cols": tile_cols, "tile_rows": tile_rows, "cols_log2": cl, "rows_log2": rl,
            "col_starts_mi": [min(x << sb_shift, mi_cols) if i == tile_cols else x << sb_shift for i, x in enumerate(col_starts)],
            "row_starts_mi": [min(x << sb_shift, mi_rows) if i == tile_rows else x << sb_shift for i, x in enumerate(row_starts)],
            "sb_cols": sb_cols, "sb_rows": sb_rows}


# ------------------------------------------------------------------ encode sessions (optionally on a mutant encoder)

def run_enc(args, out, timeout=40, sched=False):
    """enc.session, except that env HDR_ENCDRV=<path> substitutes another encdrv binary (mutation demonstrations only)."""
    exe = os.environ.get("HDR_ENCDRV")
    if not exe:
        return enc.session(args, "rel", sched=sched, out=out, timeout=timeout)
    a = dict(args)
    a["out"] = out
    en = dict(os.environ)
    en["SVT_LOG"] = "-2"
    try:
        p = subprocess.run([exe] + enc.argv_of(a), stdout=subprocess.PIPE, stderr=subprocess.PIPE, env=en, timeout=timeout)
    except subprocess.TimeoutExpired:
        return {"timeout": True, "exit": None, "stderr": ""}
    res = {"timeout": False, "exit": p.returncode, "stderr": p.stderr[-4000:].decode("latin1")}
    line = p.stdout.decode("latin1").strip().split("\n")[-1] if p.stdout.strip() else ""
    try:
        res.update(json.loads(line))
        res["parsed"] = True
    except Exception:
        res["parsed"] = False
    return res


def session_status(r):
    """None when the session is evaluable, else the not-evaluable status."""
    if r.get("timeout"):
        return "timeout"
    if r.get("deadlock") or r.get("livelock"):
        return "deadlock"
    if not r.get("parsed"):
        return "crash"
    if not enc.accepted(r):
        return "rejected"
    if not (r.get("completed", 0) & 1):
        return "incomplete"
    return None


def lib_cflags(relpath):
    """-D / -I / -std options the library build uses for Source/.../<relpath> (from the ninja build description)."""
    d = vlib.variant_dir("rel")
    vlib.ensure_build("rel")
    r = vlib.run(["ninja", "-C", d, "-t", "commands"])
    for l in r.stdout.split("\n"):
        if l.rstrip().endswith(relpath) and " -c " in l:
            keep = [t for t in l.split() if (t.startswith("-D") or t.startswith("-I") or t.startswith("-std=") or t.startswith("-m"))
                    and not t.startswith("-D_FORTIFY")]
            return " ".join(keep) + " -w"
    raise vlib.BuildError("no compile command for %s in the rel build" % relpath)


def build_mutant_encdrv(name, relpath, find, repl):
    """Copies /repo/<relpath> to build/work/hdrmut/<name>/, applies the one textual mutation and links the mutated object into
    an encdrv ahead of libSvtAv1Enc.a (the archive member defining the same symbols is then not pulled in).  /repo is untouched."""
    src = open(os.path.join(vlib.REPO, relpath), encoding="utf-8").read()
    if src.count(find) != 1:
        raise vlib.BuildError("mutant %s: pattern occurs %d times in %s" % (name, src.count(find), relpath))
    d = os.path.join(vlib.BUILD, "work", "hdrmut", name)
    os.makedirs(d, exist_ok=True)
    path = os.path.join(d, os.path.basename(relpath))
    new = src.replace(find, repl)
    if not os.path.exists(path) or open(path, encoding="utf-8").read() != new:
        with open(path, "w", encoding="utf-8") as f:
            f.write(new)
    return vlib.cc_harness("rel", "encdrv_hdrmut_" + name, ["encdrv.c", "vs_stub.c", path], internal=True,
                           extra_cflags=lib_cflags(relpath), extra_ldflags="-Wl,--allow-multiple-definition")


_hdr_enc = None


def run_hdr_enc(args, out, timeout=300):
    """One session of src/hdr_enc.c (contents rotzoom / pan with a global camera motion; small field subset)."""
    global _hdr_enc
    if _hdr_enc is None:
        _hdr_enc = vlib.cc_harness("rel", "hdr_enc", ["hdr_enc.c"])
    a = dict(args)
    a["out"] = out
    en = dict(os.environ)
    en["SVT_LOG"] = "-2"
    try:
        p = subprocess.run([_hdr_enc] + enc.argv_of(a), stdout=subprocess.PIPE, stderr=subprocess.PIPE, env=en, timeout=timeout)
    except subprocess.TimeoutExpired:
        return {"timeout": True, "exit": None, "stderr": ""}
    res = {"timeout": False, "exit": p.returncode, "stderr": p.stderr[-4000:].decode("latin1")}
    try:
        res.update(json.loads(p.stdout.decode("latin1").strip().split("\n")[-1]))
        res["parsed"] = True
    except Exception:
        res["parsed"] = False
    return res
