"""Configuration alphabets for deviation-bounded enumeration (DESIGN.md 3.3).

DOMAINS lists, per EbSvtAv1EncConfiguration field, the finite domain used when that field is the
deviating one.  Values outside what set_parameter accepts are allowed here: rejected configurations
are counted and skipped by the stream checks (C12 owns accept/reject).
"""

TRI = [-1, 0, 1]

DOMAINS = {
    "enc_mode": list(range(0, 9)),
    "hierarchical_levels": [0, 1, 2, 3, 4, 5],
    "intra_period_length": [-1, 0, 1, 2, 3, 7, 8, 15, 16],
    "intra_refresh_type": [1, 2],
    "super_block_size": [64, 128],
    "profile": [0, 1, 2],
    "encoder_bit_depth": [8, 10],
    "is_16bit_pipeline": [0, 1],
    "qp": [0, 20, 50, 63],
    "disable_dlf_flag": [0, 1],
    "film_grain_denoise_strength": [0, 1, 25, 50],
    "enable_warped_motion": TRI,
    "enable_global_motion": [0, 1],
    "cdef_level": [-1, 0, 1, 2, 3, 4],
    "enable_restoration_filtering": TRI,
    "sg_filter_mode": [-1, 0, 1, 2, 3, 4],
    "wn_filter_mode": [-1, 0, 1, 2, 3],
    "intra_angle_delta": TRI,
    "inter_intra_compound": TRI,
    "enable_paeth": TRI,
    "mrp_level": [-1, 0, 1, 9],
    "enable_smooth": TRI,
    "enable_mfmv": TRI,
    "enable_redundant_blk": TRI,
    "spatial_sse_full_loop_level": TRI,
    "over_bndry_blk": TRI,
    "new_nearest_comb_inject": TRI,
    "nsq_table": TRI,
    "frame_end_cdf_update": TRI,
    "pred_me": [-1, 0, 1, 2, 3, 4, 5],
    "bipred_3x3_inject": [-1, 0, 1, 2],
    "compound_level": [-1, 0, 1, 2],
    "set_chroma_mode": [-1, 0, 1, 2, 3],
    "disable_cfl_flag": TRI,
    "obmc_level": [-1, 0, 1, 2, 3],
    "rdoq_level": TRI,
    "filter_intra_level": TRI,
    "enable_intra_edge_filter": TRI,
    "pic_based_rate_est": TRI,
    "use_default_me_hme": [0, 1],
    "enable_hme_flag": [0, 1],
    "enable_hme_level0_flag": [0, 1],
    "enable_hme_level1_flag": [0, 1],
    "enable_hme_level2_flag": [0, 1],
    "ext_block_flag": [0, 1],
    "search_area_width": [1, 16, 64, 480],
    "search_area_height": [1, 16, 64, 480],
    "enable_hbd_mode_decision": [-1, 0, 1, 2],
    "palette_level": [-1, 0, 1, 2, 3, 4, 5, 6],
    "rate_control_mode": [0, 1, 2],
    "look_ahead_distance": [0, 1, 17, 33],
    "enable_tpl_la": [0, 1],
    "target_bit_rate": [50000, 7000000],
    "max_qp_allowed": [20, 63],
    "min_qp_allowed": [0, 10, 30],
    "screen_content_mode": [0, 1, 2],
    "enable_adaptive_quantization": [0, 1, 2],
    "high_dynamic_range_input": [0, 1],
    "unrestricted_motion_vector": [0, 1],
    "tile_columns": [0, 1, 2],
    "tile_rows": [0, 1, 2],
    "tf_level": [-1, 0, 1, 2, 3],
    "altref_strength": [0, 3, 6],
    "altref_nframes": [0, 1, 7, 10],
    "enable_overlays": [0, 1],
    "superres_mode": [0, 1, 2],
    "superres_denom": [8, 9, 16],
    "superres_kf_denom": [8, 9, 16],
    "stat_report": [0, 1],
    "use_fixed_qindex_offsets": [0, 1],
    "enable_qp_scaling_flag": [0, 1],
    "vbr_bias_pct": [0, 50, 100],
    "under_shoot_pct": [0, 25, 100],
    "over_shoot_pct": [0, 25, 100],
    "recode_loop": [0, 1, 2, 3],
    "frame_rate": [1 << 16, 30 << 16, 240 << 16],
    "tier": [0, 1],
    "level": [0, 20, 63],
}

SIZES = [(64, 64), (66, 66), (72, 64), (64, 88), (128, 128), (144, 112), (192, 128), (200, 136), (256, 192)]
CONTENTS = ["grad", "flat", "noise", "max", "min", "screen", "box", "cut"]


def single_deviations(fields=None):
    """All (field, value) pairs of deviation bound 1."""
    out = []
    for f in (fields or sorted(DOMAINS)):
        for v in DOMAINS[f]:
            out.append((f, v))
    return out


def pair_deviations(fields, reduce_minmax=True):
    """Deviation bound 2 over the given fields; each field restricted to {min,max} of its domain."""
    out = []
    fs = sorted(fields)
    for i in range(len(fs)):
        di = DOMAINS[fs[i]]
        vi = sorted(set([di[0], di[-1]])) if reduce_minmax else di
        for j in range(i + 1, len(fs)):
            dj = DOMAINS[fs[j]]
            vj = sorted(set([dj[0], dj[-1]])) if reduce_minmax else dj
            for a in vi:
                for b in vj:
                    out.append(((fs[i], a), (fs[j], b)))
    return out
