"""Detection demonstrations for C18 / C19 / C20: one-line mutations of the encoder, built from a scratch copy of the source file
(/repo is never touched) into a mutant encdrv, on which the unchanged check is run.

usage (from /verif):  python3 lib/hdr_demo.py <mutant> [quick|thorough]
       python3 lib/hdr_demo.py list

Evidence and replay files of a demonstration go to build/work/hdrmut/evidence and .../replays, not to evidence/.
"""
import importlib
import json
import os
import sys

sys.path.insert(0, os.path.dirname(os.path.abspath(__file__)))
import vlib  # noqa: E402
import hdr_dump  # noqa: E402

RC = "Source/Lib/Encoder/Codec/EbRateControlProcess.c"
EH = "Source/Lib/Encoder/Globals/EbEncHandle.c"
PD = "Source/Lib/Encoder/Codec/EbPictureDecisionProcess.c"
EC = "Source/Lib/Encoder/Codec/EbEntropyCoding.c"

# name: (check, file, find, replace, description, key prefix the check is expected to report)
MUTANTS = {
    "c18_minignored": ("C18", EH,
                       """    scs_ptr->static_config.min_qp_allowed = (scs_ptr->static_config.rate_control_mode) ?
        ((EbSvtAv1EncConfiguration*)config_struct)->min_qp_allowed :
        1; // lossless coding not supported""",
                       """    scs_ptr->static_config.min_qp_allowed = 1; // lossless coding not supported""",
                       "copy_api_from_app: the configured min_qp_allowed is no longer copied (rate control clamps with max only)",
                       "C18:below-min@"),
    "c18_layeroff": ("C18", RC,
                     "qindex += scs_ptr->static_config.qindex_offsets[pcs_ptr->temporal_layer_index];",
                     "qindex += scs_ptr->static_config.qindex_offsets[pcs_ptr->temporal_layer_index ? pcs_ptr->temporal_layer_index - 1 : 0];",
                     "rate control kernel: fixed qindex offset taken from the next lower temporal layer",
                     "C18:fixed-qindex-mismatch@"),
    "c18_maxonly_final_clip": ("C18", RC,
                               """                pcs_ptr->picture_qp = (uint8_t)CLIP3(scs_ptr->static_config.min_qp_allowed,
                                                     scs_ptr->static_config.max_qp_allowed,
                                                     pcs_ptr->picture_qp);

                frm_hdr->quantization_params.base_q_idx = quantizer_to_qindex[pcs_ptr->picture_qp];
            }""",
                               """                pcs_ptr->picture_qp = (uint8_t)MIN(scs_ptr->static_config.max_qp_allowed,
                                                     pcs_ptr->picture_qp);

                frm_hdr->quantization_params.base_q_idx = quantizer_to_qindex[pcs_ptr->picture_qp];
            }""",
                               "rate control kernel: the final clip of picture_qp uses max only (EQUIVALENT in the enumerated space: the frame-level "
                               "VBR/CVBR functions clip to [min,max] themselves before this point; kept to document that it is NOT detected)",
                               None),
    "c19_period_off_by_one": ("C19", PD,
                              "encode_context_ptr->intra_period_position = ((encode_context_ptr->intra_period_position == (uint32_t)scs_ptr->intra_period_length) || (pcs_ptr->scene_change_flag == EB_TRUE)) ? 0 : encode_context_ptr->intra_period_position + 1;",
                              "encode_context_ptr->intra_period_position = ((encode_context_ptr->intra_period_position + 1 == (uint32_t)scs_ptr->intra_period_length) || (pcs_ptr->scene_change_flag == EB_TRUE)) ? 0 : encode_context_ptr->intra_period_position + 1;",
                              "picture decision: the intra period position counter wraps one picture early",
                              "C19:intra-positions@"),
    "c20_palette_zero_is_auto": ("C20", PD,
                                 "if (scs_ptr->static_config.palette_level == -1)//auto mode; if not set by cfg",
                                 "if (scs_ptr->static_config.palette_level <= 0)//auto mode; if not set by cfg",
                                 "picture decision: palette_level 0 (off) falls into the 'auto' branch, which enables palette on screen content",
                                 "C20:tool-used-although-off:palette@"),
    "c20_tile_cols_minus_one": ("C20", EC,
                                "cm->log2_tile_cols = AOMMAX(pcs_ptr->log2_tile_cols, cm->tiles_info.min_log2_tile_cols);",
                                "cm->log2_tile_cols = AOMMAX(pcs_ptr->log2_tile_cols - 1, cm->tiles_info.min_log2_tile_cols);",
                                "tile configuration: one tile-column doubling fewer than requested",
                                "C20:tile-layout@"),
}


def run(name, tier="quick"):
    pid, rel, find, repl, desc, expect = MUTANTS[name]
    exe = hdr_dump.build_mutant_encdrv(name, rel, find, repl)
    d = os.path.join(vlib.BUILD, "work", "hdrmut")
    vlib.EVID = os.path.join(d, "evidence")
    vlib.REPLAYS = os.path.join(d, "replays")
    os.environ["HDR_ENCDRV"] = exe
    mod = importlib.import_module("checks." + pid.lower())
    rc = mod.run(tier)
    ev = json.load(open(os.path.join(vlib.EVID, pid + ".json")))
    keys = ev["distinct_violation_keys"]
    hit = [k for k in keys if expect and k.startswith(expect)]
    print("MUTANT %s (%s): %s" % (name, pid, desc))
    print("  check exit code %d, %d distinct violation keys, %d with the expected prefix %s; e.g. %s"
          % (rc, len(keys), len(hit), expect, hit[:3]))
    print("  DETECTED" if hit else "  NOT DETECTED")
    return 0 if hit else 1


if __name__ == "__main__":
    os.chdir(vlib.VERIF)
    if len(sys.argv) < 2 or sys.argv[1] == "list":
        for k, v in MUTANTS.items():
            print("%-26s %s  %s" % (k, v[0], v[4]))
        sys.exit(0)
    sys.exit(run(sys.argv[1], sys.argv[2] if len(sys.argv) > 2 else "quick"))
