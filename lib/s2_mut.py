"""Mutant encoders for the detection demonstrations of C21 / C22 / C26 (never used by the checks proper).

Same technique as hdr_dump.build_mutant_encdrv, for any build variant: /repo/<relpath> is copied to build/work/s2mut/<name>/,
one textual mutation is applied, and the mutated object is linked into an encdrv ahead of libSvtAv1Enc.a (the archive member
defining the same symbols is then not pulled in).  /repo is untouched.
"""
import os
import subprocess

import enc
import vlib


def lib_cflags(variant, relpath):
    d = vlib.variant_dir(variant)
    vlib.ensure_build(variant)
    r = vlib.run(["ninja", "-C", d, "-t", "commands"])
    for l in r.stdout.split("\n"):
        if l.rstrip().endswith(relpath) and " -c " in l:
            keep = [t for t in l.split() if (t.startswith("-D") or t.startswith("-I") or t.startswith("-std=") or t.startswith("-m"))
                    and not t.startswith("-D_FORTIFY")]
            return " ".join(keep) + " -w"
    raise vlib.BuildError("no compile command for %s in the %s build" % (relpath, variant))


def mutate_source(name, relpath, find, repl):
    src = open(os.path.join(vlib.REPO, relpath), encoding="utf-8").read()
    if src.count(find) != 1:
        raise vlib.BuildError("mutant %s: pattern occurs %d times in %s" % (name, src.count(find), relpath))
    d = os.path.join(vlib.BUILD, "work", "s2mut", name)
    os.makedirs(d, exist_ok=True)
    path = os.path.join(d, os.path.basename(relpath))
    new = src.replace(find, repl)
    if not os.path.exists(path) or open(path, encoding="utf-8").read() != new:
        with open(path, "w", encoding="utf-8") as f:
            f.write(new)
    return path


def build_mutant_encdrv(variant, name, relpath, find, repl):
    path = mutate_source(name, relpath, find, repl)
    return vlib.cc_harness(variant, "encdrv_s2mut_" + name, ["encdrv.c", "vs_stub.c", path], internal=True,
                           extra_cflags=lib_cflags(variant, relpath), extra_ldflags="-Wl,--allow-multiple-definition")


def run_exe(exe, args, out=None, timeout=300, env=None):
    """enc.session for an explicit encdrv binary."""
    import json
    a = dict(args)
    if out:
        a["out"] = out
    en = dict(os.environ)
    en["SVT_LOG"] = "-2"
    if env:
        en.update(env)
    try:
        p = subprocess.run([exe] + enc.argv_of(a), stdout=subprocess.PIPE, stderr=subprocess.PIPE, env=en, timeout=timeout)
    except subprocess.TimeoutExpired as t:
        return {"timeout": True, "exit": None, "stderr": (t.stderr or b"")[-3000:].decode("latin1")}
    res = {"timeout": False, "exit": p.returncode, "stderr": p.stderr[-60000:].decode("latin1")}
    line = p.stdout.decode("latin1").strip().split("\n")[-1] if p.stdout.strip() else ""
    try:
        res.update(json.loads(line))
        res["parsed"] = True
    except Exception:
        res["parsed"] = False
    return res
