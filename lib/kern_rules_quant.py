"""C07 driver assignment, group quant: quantizers, coefficient helpers (txb levels / nz-map contexts / satd / block error /
sum of squares), 64-point transform repack helpers, transform-domain and spatial distortion kernels, residual kernels."""
import re

SOURCES = ["kern_drv_quant.c", "kern_drv_quant_dist.c"]
DRIVERS = ["quant_b", "quant_fp", "txb_init_levels", "nz_map_ctx", "coef_satd", "coef_block_error", "sum_squares_i16", "handle_txfm64",
           "full_dist32", "spatial_dist", "residual_kernel"]

# dispatch pointer -> (driver, a, b)
BY_PTR = {
    # a: 0 = low bit depth kernel (bd 8 only), 1 = high bit depth kernel (bd 8 and 10)
    "svt_aom_quantize_b": ("quant_b", 0, 0),
    "svt_aom_highbd_quantize_b": ("quant_b", 1, 0),
    # a: log_scale implemented by the kernel (0, 1, 2); a = 3: highbd kernel with an explicit log_scale argument
    "svt_av1_quantize_fp": ("quant_fp", 0, 0),
    "svt_av1_quantize_fp_32x32": ("quant_fp", 1, 0),
    "svt_av1_quantize_fp_64x64": ("quant_fp", 2, 0),
    "svt_av1_highbd_quantize_fp": ("quant_fp", 3, 0),
    "svt_av1_txb_init_levels": ("txb_init_levels", 0, 0),
    "svt_av1_get_nz_map_contexts": ("nz_map_ctx", 0, 0),
    "svt_aom_satd": ("coef_satd", 0, 0),
    "svt_av1_block_error": ("coef_block_error", 0, 0),
    "aom_sum_squares_i16": ("sum_squares_i16", 0, 0),
    # a: 0 = full size, 1 = 16-bit samples / cbf_zero flavour
    "svt_full_distortion_kernel32_bits": ("full_dist32", 0, 0),
    "svt_full_distortion_kernel_cbf_zero32_bits": ("full_dist32", 1, 0),
    "svt_spatial_full_distortion_kernel": ("spatial_dist", 0, 0),
    "svt_full_distortion_kernel16_bits": ("spatial_dist", 1, 0),
    "svt_residual_kernel8bit": ("residual_kernel", 0, 0),
    "svt_residual_kernel16bit": ("residual_kernel", 1, 0),
}


def classify(e, w, h):
    n = e["ptr"]
    if n in BY_PTR:
        d, a, b = BY_PTR[n]
        return (d, w, h, a, b)
    # uint64_t(int32_t *output): a = 0 full transform output, a = 1 output of the N2 / N4 (partial) forward transforms
    m = re.fullmatch(r"(svt_)?handle_transform(\d+)x(\d+)(_N2_N4)?", n)
    if m and e["sig"] == "uint64_t(int32_t*)":
        return ("handle_txfm64", int(m.group(2)), int(m.group(3)), 1 if m.group(4) else 0, 0)
    return None


# what each driver enumerates (copied into the evidence; full statement in the header comments of the C sources)
DOC = {
    'quant_b / quant_fp':
        'all 19 transform sizes x valid transform types (scan order) x quantizer rows from svt_av1_build_quantizer for qindex {0,1,8,32,64,128,192,254,255} (thorough: 0..255) x bit depth 8 (lowbd kernels) / 8,10 (highbd) x log_scale of the size, qm NULL (as the library) x coefficients: C forward transform of every residual pattern (+ handle_transform for 64-point), direct coefficient patterns over +-(2^bd-1)<<7, ramps around zero-bin and step boundaries; qcoeff, dqcoeff (whole allocation) and eob compared',
    'txb_init_levels / nz_map_ctx':
        '14 width x height pairs, coefficient ranges, levels buffer offset {0,1}; nz_map: eob alphabet (all values for 4x4), positions below eob compared (the only ones callers read)',
    'coef_satd / coef_block_error / sum_squares_i16':
        'every length / block size callers pass x the coefficient sources above',
    'handle_txfm64':
        'the 10 repack helpers on C forward-transform outputs and direct patterns; whole buffer + returned energy',
    'full_dist32 / spatial_dist / residual_kernel':
        'every transform / block size (spatial: also every multiple-of-4 width up to 192) x strides x offsets x all pattern pairs; full_dist32 coefficient pairs limited to energy-feasible amplitudes (a larger amplitude exposes a 32-bit add in the AVX2 accumulator that no transform output can reach)',
}
