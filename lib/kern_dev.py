#!/usr/bin/env python3
"""Developer loop for one C07 driver group, isolated from the real check (own harness binary, no evidence written):

    python3 lib/kern_dev.py <group> [quick|thorough] [kernel name regex]

builds build/rel/h/kern_h_<group> from src/kern_h.c + the SOURCES of lib/kern_rules_<group>.py and runs every kernel that the
group's classify() assigns to one of its DRIVERS; prints one line per kernel (argument tuples, SIMD calls, mismatches, crashes).
"""
import os
import re
import sys
import time

HERE = os.path.dirname(os.path.abspath(__file__))
sys.path[:0] = [HERE, os.path.join(HERE, "checks")]
group = sys.argv[1]
# the base group provides the forward transforms some drivers look up; always load the named group only + explicit extras
os.environ["C07_GROUPS"] = group
import c07  # noqa: E402
import vlib  # noqa: E402

tier = sys.argv[2] if len(sys.argv) > 2 else "quick"
rx = re.compile(sys.argv[3]) if len(sys.argv) > 3 else None
t0 = time.time()
exe, info = c07.build("rel")
print("built %s in %.1fs" % (exe, time.time() - t0))
lst = c07.listing(exe)
ks = [k for k in lst["kernels"] if k["have_driver"] and (rx is None or rx.search(k["ptr"]))]
res = c07.explore(exe, tier, time.time() + float(os.environ.get("VERIF_DEADLINE_S", "600")), ks)
bad = 0
for ki in sorted(res):
    d = res[ki]
    if "crash" in d:
        bad += 1
        print("CRASH   %-50s signal/rc %s at case %s" % (d.get("ptr", ki), d["crash"], d.get("case")))
        continue
    if d.get("skipped"):
        print("SKIPPED %s" % ki)
        continue
    line = "%-7s %-50s %-22s tuples=%-8d wall=%.2fs%s" % ("ok", d["ptr"], d["drv"], d["c_calls"], d["wall"], " TIMED-OUT" if d["timed_out"] else "")
    for v in d["variants"]:
        line += "  %s:%d/%d" % (v["isa"], v["mismatches"], v["calls"])
        if v.get("soft"):
            line += "\n         sign-of-zero only in %d calls; first (case %d): %s" % (v["soft"], v["soft_first_case"], v["soft_desc"])
        if v["mismatches"]:
            bad += 1
            line = "MISMATCH" + line[7:] + "\n         first (case %d): %s" % (v["first_case"], v["desc"])
    print(line)
print("%d kernels, %d with mismatch/crash, %.1fs" % (len(res), bad, time.time() - t0))
