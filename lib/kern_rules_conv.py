"""C07 driver assignment: inter-prediction convolve family (sr / jnt, 8-bit and high bit depth), svt_aom_convolve8_horiz/vert,
Wiener loop-restoration convolve, affine warp."""
import re

SOURCES = ["kern_drv_conv.c", "kern_drv_conv2.c", "kern_drv_conv3.c"]
DRIVERS = ["conv_lbd", "conv_hbd", "conv8_1d", "wiener_conv", "warp_aff"]


def classify(e, w, h):
    n = e["ptr"]
    # a = bit0: horizontal filter used, bit1: vertical filter used, bit2: compound (jnt) kernel
    m = re.fullmatch(r"svt_av1_(highbd_)?(jnt_)?convolve_(2d_copy|x|y|2d)(_sr)?", n)
    if m and bool(m.group(2)) != bool(m.group(4)):
        a = {"2d_copy": 0, "x": 1, "y": 2, "2d": 3}[m.group(3)] | (4 if m.group(2) else 0)
        return ("conv_hbd" if m.group(1) else "conv_lbd", 0, 0, a, 0)
    if n == "svt_aom_convolve8_horiz":
        return ("conv8_1d", 0, 0, 0, 0)
    if n == "svt_aom_convolve8_vert":
        return ("conv8_1d", 0, 0, 1, 0)
    if n == "svt_av1_wiener_convolve_add_src":
        return ("wiener_conv", 0, 0, 0, 0)
    if n == "svt_av1_highbd_wiener_convolve_add_src":
        return ("wiener_conv", 0, 0, 1, 0)
    if n == "svt_av1_warp_affine":
        return ("warp_aff", 0, 0, 0, 0)
    if n == "svt_av1_highbd_warp_affine":
        return ("warp_aff", 0, 0, 1, 0)
    return None
