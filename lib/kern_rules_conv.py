"""C07 driver assignment: inter-prediction convolve family (sr / jnt, 8-bit and high bit depth), svt_aom_convolve8_horiz/vert,
Wiener loop-restoration convolve, affine warp."""
import re

SOURCES = ["kern_drv_conv.c", "kern_drv_conv2.c", "kern_drv_conv3.c"]
DRIVERS = ["conv_lbd", "conv_hbd", "conv8_1d", "wiener_conv", "warp_aff"]


def classify(e, w, h):
    n = e["ptr"]
    # a = bit0: horizontal filter used, bit1: vertical filter used, bit2: compound (jnt) kernel
    m = re.fullmatch(r"svt_av1_(highbd_)?(jnt_)?convolve_(2d_copy|x|y|2d)(_sr)?", n)
    if m and bool(m.group(2)) != bool(m.group(4)):
        a = {"2d_copy": 0, "x": 1, "y": 2, "2d": 3}[m.group(3)] | (4 if m.group(2) else 0)
        return ("conv_hbd" if m.group(1) else "conv_lbd", 0, 0, a, 0)
    if n == "svt_aom_convolve8_horiz":
        return ("conv8_1d", 0, 0, 0, 0)
    if n == "svt_aom_convolve8_vert":
        return ("conv8_1d", 0, 0, 1, 0)
    if n == "svt_av1_wiener_convolve_add_src":
        return ("wiener_conv", 0, 0, 0, 0)
    if n == "svt_av1_highbd_wiener_convolve_add_src":
        return ("wiener_conv", 0, 0, 1, 0)
    if n == "svt_av1_warp_affine":
        return ("warp_aff", 0, 0, 0, 0)
    if n == "svt_av1_highbd_warp_affine":
        return ("warp_aff", 0, 0, 1, 0)
    return None


# what each driver enumerates (copied into the evidence; full statement in the header comments of the C sources)
DOC = {
    'conv_lbd':
        "kernel selected as the callers do (convolve[sx!=0][sy!=0][is_compound]); every (w,h) the callers pass (luma, 4:2:0 chroma, sub-8x8, OBMC; compound: min(W,H)>=8 + chroma halves); the library's own InterpFilterParams objects for x and y independently (4 filter types, 4-tap variants for dimensions <= 4) x subpel {1,4,8,15} quick / 1..15 thorough (and the intra-block-copy BILINEAR form); ConvolveParams from get_conv_params_no_round: 11 compound modes (no-avg, avg, 8 distance weight pairs), CONV_BUF stride {64,128} pre-filled over its valid range; source strides/misalignments x destination strides/offsets (4x4) x pattern alphabet + tap-sign stress patterns; dst and CONV_BUF compared over the whole allocation",
    'conv_hbd':
        'as conv_lbd for bit depth 8, 10, 12 (quick: full stride product at 10-bit only)',
    'conv8_1d':
        'svt_aom_convolve8_horiz/vert as svt_aom_upsampled_pred calls them: 22 block sizes x 2 call forms x 3 filter tables x 7 sub-pel rows x pattern alphabet x source stride',
    'wiener_conv':
        'w {16,32,48,64} x h (quick 16 values, thorough 1..64) x 28 symmetric filters per direction inside the coded coefficient ranges (7/5/3-tap paths) x patterns x strides; bit depth 8,10,12 for highbd',
    'warp_aff':
        'affine models accepted by svt_get_shear_params (318 quick / 2900 thorough) x block sizes 8..64 (128 thorough) x positions incl. every picture-edge column class x subsampling x 12 conv modes x patterns',
}
