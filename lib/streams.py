"""Enumerations of encode sessions shared by the stream-level checks (C01, C02, C11, ...)."""
import itertools
import os

import cfgspace
import enc
import vlib

BASE = {"enc_mode": 8, "hierarchical_levels": 3, "qp": 30, "recon_enabled": 1}


def mk(label, w=64, h=64, n=9, content="grad", **cfg):
    a = dict(BASE)
    a.update({"w": w, "h": h, "n": n, "content": content})
    a.update(cfg)
    return (label, a)


def bound01(sizes=((64, 64), (144, 112)), contents=("grad", "screen"), n=9, fields=None, base_extra=None):
    """Deviation bounds 0 and 1 over the field table, crossed with sizes and contents."""
    cases = []
    for (w, h) in sizes:
        for c in contents:
            be = dict(base_extra or {})
            cases.append(mk("base/%dx%d/%s" % (w, h, c), w, h, n, c, **be))
            for f, v in cfgspace.single_deviations(fields):
                if BASE.get(f) == v:
                    continue
                d = dict(be)
                d[f] = v
                cases.append(mk("%s=%s/%dx%d/%s" % (f, v, w, h, c), w, h, n, c, **d))
    return cases


def sizes_lengths(contents=("grad", "noise", "flat", "screen"), lengths=(1, 2, 3, 5, 9, 17)):
    cases = []
    for (w, h) in cfgspace.SIZES:
        for c in contents[:2]:
            cases.append(mk("size=%dx%d/%s" % (w, h, c), w, h, 5, c))
    for n in lengths:
        for c in contents:
            cases.append(mk("n=%d/%s" % (n, c), 64, 64, n, c))
    return cases


def gop_shapes(hls=range(0, 6), ips=(-1, 0, 1, 3, 7, 8), refresh=(1, 2), overlays=(0, 1), ns=(1, 2, 5, 9, 17, 18)):
    cases = []
    for hl, ip, rt, ov, n in itertools.product(hls, ips, refresh, overlays, ns):
        cases.append(mk("hl=%d,ip=%d,rt=%d,ov=%d,n=%d" % (hl, ip, rt, ov, n), 64, 64, n, "grad",
                        hierarchical_levels=hl, intra_period_length=ip, intra_refresh_type=rt,
                        enable_overlays=ov))
    return cases


def bound2(fields, sizes=((64, 64),), contents=("grad",), n=7):
    cases = []
    for (w, h) in sizes:
        for c in contents:
            for (f1, v1), (f2, v2) in cfgspace.pair_deviations(fields):
                if BASE.get(f1) == v1 or BASE.get(f2) == v2:
                    continue
                cases.append(mk("%s=%s,%s=%s/%dx%d/%s" % (f1, v1, f2, v2, w, h, c), w, h, n, c, **{f1: v1, f2: v2}))
    return cases


def cross_depth_sb_pipe_preset(contents=("grad", "noise"), presets=range(0, 9)):
    cases = []
    for bd, sb, pipe, pr, c in itertools.product((8, 10), (64, 128), (0, 1), presets, contents):
        cases.append(mk("bd=%d,sb=%d,pipe=%d,preset=%d/%s" % (bd, sb, pipe, pr, c), 64, 64, 6, c,
                        encoder_bit_depth=bd, super_block_size=sb, is_16bit_pipeline=pipe, enc_mode=pr))
    return cases


def big_tiles(thorough=False):
    """multi-tile pictures whose tiles are large when compressed (noise, low qp): tile-size field widths of 2, 3 and 4 bytes"""
    cs = []
    sizes = ((256, 192), (512, 256)) + (((1024, 256),) if thorough else ())
    for (w, h) in sizes:
        for qp in (0, 5, 20):
            for tiles in ({"tile_columns": 1}, {"tile_rows": 1}, {"tile_columns": 1, "tile_rows": 1}):
                cs.append(mk("bigtiles:%s,qp=%d/%dx%d/noise" % (",".join("%s=%s" % kv for kv in tiles.items()), qp, w, h), w, h, 2, "noise", qp=qp, **tiles))
    return cs


def tile_grids(thorough=False, n=3):
    """tile grids whose tiles are one superblock wide / high (per-tile buffer shares, tile-boundary shortcuts) on screen content
    with the screen-content tools forced on or auto-detected; 64x64 and 128x128 superblocks"""
    cs = []
    grids = ((2, 0), (0, 2), (2, 2)) if not thorough else [(c, r) for c in (0, 1, 2) for r in (0, 1, 2) if c or r]
    for (tc, tr) in grids:
        for scm in ((1,) if not thorough else (0, 1, 2)):
            for sb in ((64,) if not thorough else (64, 128)):
                for pr in ((8,) if not thorough else (8, 4)):
                    cs.append(mk("tilegrid:tile_columns=%d,tile_rows=%d,scm=%d,sb=%d,preset=%d/256x256/screen" % (tc, tr, scm, sb, pr), 256, 256, n, "screen",
                                 tile_columns=tc, tile_rows=tr, screen_content_mode=scm, super_block_size=sb, enc_mode=pr))
    return cs


def palette_blocks(thorough=False, n=2):
    """screen-content tools forced on over content whose blocks hold 2..8 exact luma colours (1..4 chroma colours) drawn from a pool of
    coding-boundary values: palette sizes, colour-cache hits and the delta / bit-width corners of the palette colour syntax, 8 and 10 bit"""
    cs = []
    for bd in (8, 10):
        for pl in ((1, 6) if not thorough else (1, 2, 3, 4, 5, 6)):
            for pr in ((8,) if not thorough else (8, 4, 2)):
                for seed in ((1, 2) if not thorough else (1, 2, 3, 4)):
                    cs.append(mk("palette:encoder_bit_depth=%d,palette_level=%d,preset=%d,seed=%d/128x128/palette" % (bd, pl, pr, seed), 128, 128, n, "palette",
                                 encoder_bit_depth=bd, screen_content_mode=1, palette_level=pl, enc_mode=pr, intra_period_length=0, cseed=seed))
    return cs


def sb128_corners(thorough=False, n=3):
    """128x128 superblocks with a picture whose width and height both end half-way through a superblock (w % 128 == h % 128 == 64):
    the bottom-right superblock keeps a single 64x64 quadrant.  128x128 superblocks are only chosen by presets <= 4 (with TPL off or
    above the 240p class) or on request"""
    cs = []
    for (w, h) in (((192, 192),) if not thorough else ((192, 192), (320, 192), (192, 320))):
        for pr in ((4, 8) if not thorough else range(0, 9)):
            for tpl in (0, 1):
                for c in (("grad",) if not thorough else ("grad", "screen")):
                    cs.append(mk("sb128corner:preset=%d,tpl=%d/%dx%d/%s" % (pr, tpl, w, h, c), w, h, n, c, enc_mode=pr, enable_tpl_la=tpl,
                                 super_block_size=128))
    return cs


def sb128_filters(thorough=False, n=3):
    """128x128 superblocks with several superblocks per picture and content whose in-loop filter parameters vary from one 64x64 unit to the
    next (per-quadrant CDEF strengths, loop-restoration units, delta LF): landscape / square pictures (the SVT decoder cannot decode portrait)"""
    cs = []
    for (w, h) in (((256, 256),) if not thorough else ((256, 256), (384, 256), (320, 192))):
        for c in (("box", "screen") if not thorough else ("box", "screen", "noise", "binary")):
            for pr, tpl in (((8, 1), (4, 0)) if not thorough else ((8, 1), (6, 1), (4, 0), (2, 0))):
                for qp in ((30,) if not thorough else (20, 45)):
                    cs.append(mk("sb128filters:preset=%d,tpl=%d,qp=%d/%dx%d/%s" % (pr, tpl, qp, w, h, c), w, h, n, c, enc_mode=pr, enable_tpl_la=tpl,
                                 super_block_size=128, qp=qp))
    return cs


def profile_depth():
    """the sequence header's profile / bit depth / chroma format coupling: every profile x bit depth the API has values for (whatever is
    accepted must be a stream the reference decoders read as the same pictures)"""
    return [mk("profile=%d,encoder_bit_depth=%d/64x64/grad" % (p, bd), 64, 64, 5, "grad", profile=p, encoder_bit_depth=bd) for p in (0, 1, 2) for bd in (8, 10)]


def not_mult64(a):
    return int(a.get("w", 64)) % 64 != 0 or int(a.get("h", 64)) % 64 != 0


def run_stream_check(pid, tier, cases, case_fn, rule, assumptions, level="exploration", extra_cov=None,
                     variant="rel", distinct_key="pkt_hash"):
    """Generic driver: runs case_fn over cases in parallel under the check's deadline, reports violations
    (case_fn returns dict with status, viol=[(key,msg)], optional pkt_hash/info) and writes evidence."""
    ck = vlib.Check(pid, tier, level)
    enc.tools(variant)
    enc.tools(variant, sched=True)
    res, complete = vlib.pmap_deadline(case_fn, cases, ck.deadline - 25)
    stat, hashes, samples, notok, info = {}, set(), [], [], {}
    for (label, a), o in res:
        stat[o["status"]] = stat.get(o["status"], 0) + 1
        for k, v in (o.get("info") or {}).items():
            info[k] = info.get(k, 0) + v
        if o["status"] == "ok":
            if o.get(distinct_key) is not None:
                hashes.add(o[distinct_key])
            if len(samples) < 4:
                samples.append({"case": label, "args": enc.describe(a), distinct_key: o.get(distinct_key)})
        elif len(notok) < 30:
            notok.append("%s: %s" % (o["status"], label))
        for key, msg in o["viol"]:
            ck.violation(key, "%s [%s]" % (msg, label), {"args": a, "label": label})
    cov = {"evaluations": len(res), "distinct_nontrivial": len(hashes), "rule": rule, "samples": samples,
           "exhaustive": bool(complete), "enumerated": len(cases), "status_counts": stat,
           "not_evaluable_examples": notok, "info": info}
    if extra_cov:
        cov.update(extra_cov)
    if level == "model_checking":
        # a history (case) is a state of the enumeration, every API call / scheduling decision inside it a transition
        cov["states"] = len(res)
        cov["transitions"] = sum((o.get("points") or 0) for _, o in res) or len(res)
        cov["traces_validated_against_impl"] = sum(1 for _, o in res if o["status"] == "ok")
    return ck.finish(cov, assumptions)


def prefix_for(tag):
    d = os.path.join(vlib.BUILD, "work", tag)
    os.makedirs(d, exist_ok=True)
    return os.path.join(d, "s%d" % os.getpid())
