"""C07 driver assignment (group misc, sub-worker miscfp): float FFT / IFFT of the film-grain denoiser, palette k-means kernels."""
import re

SOURCES = ["kern_drv_misc_fp.c"]
DRIVERS = ["misc_fft", "misc_calc_indices", "misc_kmeans"]


def classify(e, w, h):
    n = e["ptr"]
    m = re.fullmatch(r"svt_aom_(i?)fft(\d+)x(\d+)_float", n)
    if m:
        return ("misc_fft", int(m.group(2)), int(m.group(3)), 1 if m.group(1) else 0, 0)  # a: 1 = inverse
    m = re.fullmatch(r"svt_av1_calc_indices_dim([12])", n)
    if m:
        return ("misc_calc_indices", 0, 0, int(m.group(1)), 0)  # a: dimension
    m = re.fullmatch(r"svt_av1_k_means_dim([12])", n)
    if m:
        return ("misc_kmeans", 0, 0, int(m.group(1)), 0)  # a: dimension
    return None
