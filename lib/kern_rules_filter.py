"""C07 driver assignment: deblocking loop filters, CDEF, loop restoration, directional / filter intra predictors."""
import re

SOURCES = ["kern_drv_filter.c", "kern_drv_filter_intra.c", "kern_drv_filter_lr.c"]
DRIVERS = ["lpf", "cdef_find_dir", "cdef_filter_block", "cdef_dist", "dr_pred", "filter_intra_pred", "filter_intra_edge",
           "upsample_intra_edge", "sgr", "apply_sgr", "sgr_proj", "compute_stats"]


def classify(e, w, h):
    n = e["ptr"]
    m = re.fullmatch(r"svt_aom_(highbd_)?lpf_(horizontal|vertical)_(\d+)", n)
    if m:
        return ("lpf", int(m.group(3)), 0, 1 if m.group(2) == "vertical" else 0, 1 if m.group(1) else 0)
    if n == "svt_cdef_find_dir":
        return ("cdef_find_dir", 8, 8, 0, 0)
    if n == "svt_cdef_filter_block":
        return ("cdef_filter_block", 8, 8, 0, 0)
    if n == "svt_compute_cdef_dist_16bit":
        return ("cdef_dist", 8, 8, 1, 0)
    if n == "svt_compute_cdef_dist_8bit":
        return ("cdef_dist", 8, 8, 0, 0)
    m = re.fullmatch(r"svt_av1_(highbd_)?dr_prediction_z([123])", n)
    if m:
        return ("dr_pred", 0, 0, int(m.group(2)), 1 if m.group(1) else 0)
    if n == "svt_av1_filter_intra_predictor":
        return ("filter_intra_pred", 0, 0, 0, 0)
    if n == "svt_av1_filter_intra_edge":
        return ("filter_intra_edge", 0, 0, 0, 0)
    if n == "svt_av1_filter_intra_edge_high":
        return ("filter_intra_edge", 0, 0, 0, 1)
    if n == "svt_av1_selfguided_restoration":
        return ("sgr", 0, 0, 0, 0)
    if n == "svt_apply_selfguided_restoration":
        return ("apply_sgr", 0, 0, 0, 0)
    if n == "svt_av1_lowbd_pixel_proj_error":
        return ("sgr_proj", 0, 0, 0, 0)
    if n == "svt_av1_highbd_pixel_proj_error":
        return ("sgr_proj", 0, 0, 1, 0)
    if n == "svt_get_proj_subspace":
        return ("sgr_proj", 0, 0, 2, 0)
    if n == "svt_av1_compute_stats":
        return ("compute_stats", 0, 0, 0, 0)
    if n == "svt_av1_compute_stats_highbd":
        return ("compute_stats", 0, 0, 1, 0)
    if n == "svt_av1_upsample_intra_edge":
        return ("upsample_intra_edge", 0, 0, 0, 0)
    return None
