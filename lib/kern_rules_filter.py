"""C07 driver assignment: deblocking loop filters, CDEF, loop restoration, directional / filter intra predictors."""
import re

SOURCES = ["kern_drv_filter.c", "kern_drv_filter_intra.c", "kern_drv_filter_lr.c"]
DRIVERS = ["lpf", "cdef_find_dir", "cdef_filter_block", "cdef_dist", "dr_pred", "filter_intra_pred", "filter_intra_edge",
           "upsample_intra_edge", "sgr", "apply_sgr", "sgr_proj", "compute_stats"]


def classify(e, w, h):
    n = e["ptr"]
    m = re.fullmatch(r"svt_aom_(highbd_)?lpf_(horizontal|vertical)_(\d+)", n)
    if m:
        return ("lpf", int(m.group(3)), 0, 1 if m.group(2) == "vertical" else 0, 1 if m.group(1) else 0)
    if n == "svt_cdef_find_dir":
        return ("cdef_find_dir", 8, 8, 0, 0)
    if n == "svt_cdef_filter_block":
        return ("cdef_filter_block", 8, 8, 0, 0)
    if n == "svt_compute_cdef_dist_16bit":
        return ("cdef_dist", 8, 8, 1, 0)
    if n == "svt_compute_cdef_dist_8bit":
        return ("cdef_dist", 8, 8, 0, 0)
    m = re.fullmatch(r"svt_av1_(highbd_)?dr_prediction_z([123])", n)
    if m:
        return ("dr_pred", 0, 0, int(m.group(2)), 1 if m.group(1) else 0)
    if n == "svt_av1_filter_intra_predictor":
        return ("filter_intra_pred", 0, 0, 0, 0)
    if n == "svt_av1_filter_intra_edge":
        return ("filter_intra_edge", 0, 0, 0, 0)
    if n == "svt_av1_filter_intra_edge_high":
        return ("filter_intra_edge", 0, 0, 0, 1)
    if n == "svt_av1_selfguided_restoration":
        return ("sgr", 0, 0, 0, 0)
    if n == "svt_apply_selfguided_restoration":
        return ("apply_sgr", 0, 0, 0, 0)
    if n == "svt_av1_lowbd_pixel_proj_error":
        return ("sgr_proj", 0, 0, 0, 0)
    if n == "svt_av1_highbd_pixel_proj_error":
        return ("sgr_proj", 0, 0, 1, 0)
    if n == "svt_get_proj_subspace":
        return ("sgr_proj", 0, 0, 2, 0)
    if n == "svt_av1_compute_stats":
        return ("compute_stats", 0, 0, 0, 0)
    if n == "svt_av1_compute_stats_highbd":
        return ("compute_stats", 0, 0, 1, 0)
    if n == "svt_av1_upsample_intra_edge":
        return ("upsample_intra_edge", 0, 0, 0, 0)
    return None


# what each driver enumerates (copied into the evidence)
DOC = {
    'lpf':
        'filter level 1..63 x sharpness 0..7 (-> mblim/lim/hev_thr exactly as update_sharpness computes them; quick: all levels at sharpness 0, 1/8 of the rest) x pitch {16,17,32,80} x bit depth (hbd: 8,10,12) x ~510 pixel profiles across the edge (pattern alphabet on the 16x4 window, 169 p/q step pairs x2, 10 ramps, 140 spikes); whole 16-row window compared',
    'cdef_find_dir':
        'coeff_shift {0,2,4} x stride {144,8,24} x pattern alphabet + 32 oriented stripe patterns on the 8x8 block; direction and variance compared',
    'cdef_filter_block':
        'coeff_shift {0,2,4} x block {8x8,4x4,4x8,8x4} x 8-bit/16-bit destination x dense/picture dstride x CDEF_VERY_LARGE border variant (6) x 10 window patterns x damping 3..6(+shift, -1 chroma) x primary strength 0..15<<shift (plus two adjust_strength scalings for luma) x secondary {0,1,2,4}<<shift x direction 0..7 (quick: 1/4 of the strength/direction grid)',
    'cdef_dist':
        'coeff_shift x block size x plane x block list {single, diagonal, checkerboard, all 64} x reference stride {64,80,144} x all pattern pairs',
    'dr_pred':
        'every transform size x every reachable prediction angle of the zone (mode angle + 3*delta) with dx/dy from eb_dr_intra_derivative x upsample flags allowed by use_intra_edge_upsample x dst stride x edge patterns; highbd bit depth 8,10,12 (zone 2 highbd: 8,10 - the library rebinds the pointer to C for 12-bit)',
    'filter_intra_pred':
        'transform sizes <= 32x32 x mode 0..4 x stride x edge patterns',
    'filter_intra_edge':
        "every reachable sz (multiple of 4 in 4..64, +1, + other dimension) x strength 0..3 x pointer offset {0,-1} x pattern alphabet (highbd: ranges 8/10/12 bit); defined output p[0..sz) and everything outside the kernels' scratch window compared",
    'upsample_intra_edge':
        'sz {4,8,12,16}: complete {0,255}^(sz+1) cube + pattern alphabet',
    'sgr':
        'unit width {1,2,3,4,7,8,9,16,17,31,32,64} x height {1,2,3,4,8,15,16,32,56,64} (quick: 1/4 of the grid + corners) x (bit depth, highbd) {(8,0),(8,1),(10,1),(12,1)} x 8 picture patterns (with 3-sample border) x sgr_params_idx 0..15 x 2 flt strides',
    'apply_sgr':
        'as sgr x xqd pairs from {min,max,0,mid}^2 (quick: 1/4)',
    'sgr_proj':
        'unit sizes {8..96}x{8..96} x deblocked/source pattern pairs (8x8) x ep 0..15 x xqd extremes; flt0/flt1 manufactured with the C self-guided filter',
    'compute_stats':
        'wiener_win {3,5,7} x unit width {4..100} x height {4..64} x deblocked/source pattern pairs; M and H compared',
}
