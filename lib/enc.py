"""Python side of the encode driver: run encdrv sessions, reference decodes, and common stream oracles."""
import json
import os
import struct
import subprocess

import vlib
import obu

_paths = {}


def tools(variant="rel", sched=False):
    """Builds (if needed) and returns paths of encdrv / refdec for the variant."""
    key = (variant, sched)
    if key not in _paths:
        vlib.ensure_build(variant)
        if sched:
            import schedlib
            e = schedlib.build_encdrv(variant)
        else:
            e = vlib.cc_harness(variant, "encdrv", ["encdrv.c", "vs_stub.c"], deps=["param_fields.h"])
        r = vlib.cc_harness("rel", "refdec", ["refdec.c"], enc=False)
        _paths[key] = (e, r)
    return _paths[key]


ASAN_ENV = {"ASAN_OPTIONS": "detect_leaks=0:halt_on_error=1:abort_on_error=0:exitcode=77:symbolize=1:"
                            "allocator_may_return_null=1:detect_stack_use_after_return=0",
            "UBSAN_OPTIONS": "print_stacktrace=1:halt_on_error=1:exitcode=78"}


def argv_of(args):
    return ["%s=%s" % (k, v) for k, v in args.items()]


def session(args, variant="rel", sched=False, out=None, timeout=40, env=None):
    """Runs one encdrv session.  Returns dict: parsed JSON plus rc/timeout/stderr."""
    e, _ = tools(variant, sched)
    a = dict(args)
    if out:
        a["out"] = out
    en = dict(os.environ)
    en["SVT_LOG"] = "-2"
    if variant == "asan":
        en.update(ASAN_ENV)
    if env:
        en.update(env)
    try:
        p = subprocess.run([e] + argv_of(a), stdout=subprocess.PIPE, stderr=subprocess.PIPE, env=en,
                           timeout=timeout)
    except subprocess.TimeoutExpired as t:
        return {"timeout": True, "exit": None, "stderr": (t.stderr or b"")[-3000:].decode("latin1")}
    res = {"timeout": False, "exit": p.returncode, "stderr": p.stderr[-60000:].decode("latin1")}
    lines = p.stdout.decode("latin1").strip().split("\n") if p.stdout.strip() else [""]
    line = lines[-1]
    try:
        res.update(json.loads(line))
        res["parsed"] = True
        if len(lines) > 1:
            res["all"] = []
            for l in lines:
                try:
                    res["all"].append(json.loads(l))
                except Exception:
                    pass
    except Exception:
        res["parsed"] = False
        res["stdout"] = p.stdout[-2000:].decode("latin1")
    return res


def refdec(prefix, **kw):
    _, r = tools("rel", False)
    try:
        p = subprocess.run([r, prefix] + ["%s=%s" % kv for kv in kw.items()], stdout=subprocess.PIPE,
                           stderr=subprocess.PIPE, timeout=300)
    except subprocess.TimeoutExpired:
        return {"timeout": True}
    try:
        d = json.loads(p.stdout.decode("latin1").strip().split("\n")[-1])
    except Exception:
        d = {"crash": True, "rc": p.returncode, "stderr": p.stderr[-1000:].decode("latin1")}
    return d


def packets(prefix):
    """Returns list of packet byte strings from <prefix>.obu/.sz"""
    with open(prefix + ".sz", "rb") as f:
        szb = f.read()
    sizes = struct.unpack("<%dI" % (len(szb) // 4), szb)
    with open(prefix + ".obu", "rb") as f:
        data = f.read()
    out = []
    o = 0
    for s in sizes:
        out.append(data[o:o + s])
        o += s
    return out


def cleanup(prefix):
    for suf in (".obu", ".sz", ".rec", ".hdr", ".dec", ".src"):
        try:
            os.unlink(prefix + suf)
        except OSError:
            pass


def accepted(res):
    return res.get("parsed") and res.get("set_parameter") == 0 and res.get("init") == 0


def describe(args):
    return " ".join("%s=%s" % kv for kv in sorted(args.items()))


# ------------------------------------------------------------------ oracles shared by several checks

def sanitizer_site(stderr):
    """Extracts (kind, function) of the first sanitizer report in stderr, or None."""
    import re
    if "ERROR: AddressSanitizer" in stderr:
        m = re.search(r"ERROR: AddressSanitizer: ([\w-]+)", stderr)
        kind = m.group(1) if m else "asan"
        fn = "?"
        for fm in re.finditer(r"#\d+ 0x[0-9a-f]+ in (\S+)", stderr):
            f = fm.group(1)
            if not f.startswith("__") and f not in ("memcpy", "memset", "memmove", "free", "malloc", "calloc",
                                                    "__asan_memcpy", "__asan_memset", "__asan_memmove"):
                fn = f
                break
        return ("asan:" + kind, fn)
    if "runtime error:" in stderr:
        m = re.search(r"(\S+?):(\d+):\d+: runtime error: (.*)", stderr)
        if m:
            msg = m.group(3)
            kind = "ub"
            for k in ("signed integer overflow", "shift exponent", "division by zero", "out of bounds",
                      "outside the range of representable", "unreachable", "reached the end"):
                if k in msg:
                    kind = "ub:" + k.replace(" ", "-")
            fn = "?"
            fm = re.search(r"#0 0x[0-9a-f]+ in (\S+)", stderr)
            if fm:
                fn = fm.group(1)
            else:
                fn = os.path.basename(m.group(1)) + ":" + m.group(2)
            return (kind, fn)
    if "ThreadSanitizer" in stderr:
        m = re.search(r"WARNING: ThreadSanitizer: ([\w -]+)", stderr)
        return ("tsan:" + (m.group(1).strip().replace(" ", "-") if m else "?"), "?")
    return None


def sanitizer_sites(stderr):
    """All distinct (kind, innermost library function) pairs reported by ASan / UBSan / TSan in stderr."""
    import re
    sites = []
    lines = stderr.split("\n")
    i = 0
    skip = ("memcpy", "memset", "memmove", "free", "malloc", "calloc", "realloc", "posix_memalign", "operator", "__asan", "__interceptor")
    while i < len(lines):
        l = lines[i]
        kind = None
        m = re.search(r"runtime error: (.*)", l)
        if m:
            msg = m.group(1)
            kind = "ub:other"
            for k, name in (("signed integer overflow", "signed-overflow"), ("shift exponent", "shift-exponent"), ("division by zero", "div-by-zero"),
                            ("out of bounds", "bounds"), ("outside the range of representable", "float-cast"), ("unreachable", "unreachable"),
                            ("reached the end", "missing-return")):
                if k in msg:
                    kind = "ub:" + name
        m2 = re.search(r"ERROR: AddressSanitizer: ([\w-]+)", l)
        if m2:
            kind = "asan:" + m2.group(1)
        m3 = re.search(r"WARNING: ThreadSanitizer: ([\w -]+?) \(", l)
        if m3:
            kind = "tsan:" + m3.group(1).strip().replace(" ", "-")
        if kind:
            fn = "?"
            j = i + 1
            while j < len(lines) and j < i + 40:
                fm = re.search(r"#\d+ 0x[0-9a-f]+ in (\S+)", lines[j])
                if fm and not fm.group(1).startswith(skip):
                    fn = fm.group(1)
                    break
                if lines[j].startswith("SUMMARY") or "runtime error" in lines[j]:
                    break
                j += 1
            if fn == "?":
                fm = re.search(r"([\w.]+):(\d+):\d+: runtime error", l)
                if fm:
                    fn = fm.group(1)
            if (kind, fn) not in sites:
                sites.append((kind, fn))
        i += 1
    return sites


def check_tu_structure(pkts, hdr_bytes, pk_meta, info=None):
    """C02 oracle.  pkts: list of bytes; hdr_bytes: stream header OBU bytes; pk_meta: encdrv 'pk' rows.

    Returns list of (key_suffix, message)."""
    errs = []
    seq = None
    ref_types = [None] * 8
    seq_payload0 = None
    hdr_payload = None
    if hdr_bytes:
        try:
            ho = obu.split_obus(hdr_bytes)
            sh = [o for o in ho if o["type"] == obu.OBU_SEQUENCE_HEADER]
            if len(sh) != 1:
                errs.append(("hdr-not-one-seqhdr", "stream header holds %d sequence headers" % len(sh)))
            else:
                hdr_payload = sh[0]["payload"]
                obu.parse_sequence_header(hdr_payload)
        except obu.ParseError as e:
            errs.append(("hdr-parse", "stream header: %s" % e))
    for i, p in enumerate(pkts):
        try:
            tu = obu.parse_temporal_unit(p, seq, ref_types)
        except obu.ParseError as e:
            errs.append(("tu-parse", "packet %d: %s" % (i, e)))
            break
        types = [t for t, _ in tu["obus"]]
        if not types or types[0] != obu.OBU_TEMPORAL_DELIMITER:
            errs.append(("no-td", "packet %d does not start with a temporal delimiter: %s" % (i, types)))
        if types.count(obu.OBU_TEMPORAL_DELIMITER) != 1:
            errs.append(("td-count", "packet %d holds %d temporal delimiters" % (i, types.count(2))))
        if tu["obus"] and tu["obus"][0][1] != 0:
            errs.append(("td-size", "packet %d: temporal delimiter with payload" % i))
        if tu["shown"] != 1:
            errs.append(("shown-count", "packet %d displays %d frames (types %s)" % (i, tu["shown"], types)))
        for sp in tu["seq_payloads"]:
            if seq_payload0 is None:
                seq_payload0 = sp
            elif sp != seq_payload0:
                errs.append(("seqhdr-differs", "packet %d: sequence header differs from the first one" % i))
            if hdr_payload is not None and sp != hdr_payload:
                try:
                    a, b2 = obu.parse_sequence_header(hdr_payload), obu.parse_sequence_header(sp)
                    diff = sorted(k for k in b2 if a.get(k) != b2.get(k))
                except obu.ParseError:
                    diff = []
                for k in diff or ["bytes"]:
                    errs.append(("streamheader-field:" + k, "packet %d: sequence header field %s differs from the one "
                                 "returned by svt_av1_enc_stream_header" % (i, k)))
        if i == 0 and not tu["seq_payloads"]:
            errs.append(("no-seqhdr-first", "first packet has no sequence header"))
        # sequence header must precede the first frame header in the packet that carries it
        if tu["seq_payloads"]:
            fi = [k for k, t in enumerate(types) if t in (3, 6)]
            si = [k for k, t in enumerate(types) if t == 1]
            if fi and si and si[0] > fi[0]:
                errs.append(("seqhdr-after-frame", "packet %d: sequence header after frame header" % i))
        shown = [h for h in tu["frames"] if h.get("show_frame") or h.get("show_existing_frame")]
        keyf = [h for h in tu["frames"] if h.get("frame_type") == obu.KEY_FRAME and not h.get("show_existing_frame")]
        if keyf and not tu["seq_payloads"]:
            errs.append(("key-without-seqhdr", "packet %d carries a KEY_FRAME but no sequence header" % i))
        if pk_meta and i < len(pk_meta) and shown:
            pic_type = pk_meta[i][4]
            d = shown[0]
            dft = d.get("frame_type")
            if (pic_type == 3) != bool(dft == obu.KEY_FRAME):
                errs.append(("pic_type-key", "packet %d: pic_type=%d but displayed frame type %s" % (i, pic_type, dft)))
            elif pic_type == 2 and dft != obu.INTRA_ONLY_FRAME:
                errs.append(("pic_type-intra-only", "packet %d: pic_type INTRA_ONLY but displayed frame type %s" % (i, dft)))
            elif pic_type in (0, 1) and dft != obu.INTER_FRAME:
                errs.append(("pic_type-inter", "packet %d: pic_type %d (inter) but displayed frame type %s" % (i, pic_type, dft)))
            elif pic_type not in (0, 1, 2, 3, 4):
                errs.append(("pic_type-value", "packet %d: pic_type %d is not a defined picture type" % (i, pic_type)))
            if pic_type == 4 and info is not None:
                coded = [h for h in tu["frames"] if h.get("show_frame") and not h.get("show_existing_frame")]
                if any(h.get("refresh_frame_flags", 0) != 0 for h in coded):
                    info["nonref_with_refresh"] = info.get("nonref_with_refresh", 0) + 1
        seq = tu["seq"]
        ref_types = tu["ref_types"]
    return errs
