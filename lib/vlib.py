"""Shared machinery for the SVT-AV1 model-checking checks (see DESIGN.md section 3).

Only the Python standard library is used.
"""
import fcntl
import hashlib
import json
import multiprocessing
import os
import shutil
import subprocess
import sys
import time

VERIF = os.path.dirname(os.path.dirname(os.path.abspath(__file__)))
REPO = os.environ.get("VERIF_REPO", "/repo")
BUILD = os.environ.get("VERIF_BUILD", os.path.join(VERIF, "build"))
SRC = os.path.join(VERIF, "src")
EVID = os.path.join(BUILD if os.environ.get("VERIF_MUTCHECK") else VERIF, "evidence")
REPLAYS = os.path.join(BUILD if os.environ.get("VERIF_MUTCHECK") else VERIF, "replays")
GUARD = "SVT_AV1_VERIF"
NCPU = min(16, os.cpu_count() or 1)

# --------------------------------------------------------------------------- builds

_UBSAN_R = "signed-integer-overflow,shift-exponent,integer-divide-by-zero,float-cast-overflow,bounds"
_UBSAN = _UBSAN_R + ",unreachable,return"

VARIANTS = {
    # name: (CC, build type, extra C flags, extra link flags for harnesses)
    "rel": ("gcc", "Release", "-O2 -DNDEBUG -fno-omit-frame-pointer", ""),
    "asan": ("clang", "Release",
             "-O1 -DNDEBUG -g1 -fno-omit-frame-pointer -fsanitize=address,%s "
             "-fsanitize-recover=address,%s" % (_UBSAN, _UBSAN_R),
             "-fsanitize=address,%s" % _UBSAN),
    "tsan": ("clang", "Release", "-O1 -DNDEBUG -g1 -fno-omit-frame-pointer -fsanitize=thread",
             "-fsanitize=thread"),
    "dbg": ("gcc", "Debug", "-O1 -g1 -fno-omit-frame-pointer", ""),
}


def log(*a):
    print(*a, file=sys.stderr, flush=True)


def run(cmd, **kw):
    kw.setdefault("stdout", subprocess.PIPE)
    kw.setdefault("stderr", subprocess.STDOUT)
    kw.setdefault("text", True)
    return subprocess.run(cmd, **kw)


class BuildError(Exception):
    pass


def variant_dir(v):
    return os.path.join(BUILD, v)


def ensure_build(v):
    """Configure (once) and (re)build the static libraries of variant v from /repo's working tree."""
    cc, btype, cflags, _ = VARIANTS[v]
    d = variant_dir(v)
    os.makedirs(d, exist_ok=True)
    lock = open(os.path.join(d, ".lock"), "w")
    fcntl.flock(lock, fcntl.LOCK_EX)
    try:
        if not os.path.exists(os.path.join(d, "build.ninja")):
            cmd = ["cmake", "-S", REPO, "-B", d, "-G", "Ninja",
                   "-DBUILD_SHARED_LIBS=OFF", "-DBUILD_TESTING=OFF", "-DBUILD_APPS=OFF",
                   "-DCMAKE_BUILD_TYPE=" + btype,
                   "-DCMAKE_OUTPUT_DIRECTORY=" + os.path.join(d, "out"),
                   "-DCMAKE_C_COMPILER=" + cc,
                   "-DCMAKE_CXX_COMPILER=" + ("g++" if cc == "gcc" else "clang++"),
                   "-DCMAKE_C_FLAGS=-D%s=1 %s" % (GUARD, cflags),
                   "-DCMAKE_C_FLAGS_RELEASE=", "-DCMAKE_C_FLAGS_DEBUG="]
            r = run(cmd)
            if r.returncode != 0:
                raise BuildError("cmake configure failed for %s:\n%s" % (v, r.stdout[-4000:]))
        t0 = time.time()
        r = run(["ninja", "-C", d, "-j", str(NCPU)])
        if r.returncode != 0:
            raise BuildError("build of variant %s failed:\n%s" % (v, r.stdout[-6000:]))
        return time.time() - t0
    finally:
        fcntl.flock(lock, fcntl.LOCK_UN)
        lock.close()


def libs(v):
    o = os.path.join(variant_dir(v), "out")
    return os.path.join(o, "libSvtAv1Enc.a"), os.path.join(o, "libSvtAv1Dec.a")


INCLUDES = ["Source/API", "Source/Lib/Common/Codec", "Source/Lib/Common/C_DEFAULT",
            "Source/Lib/Common/ASM_SSE2", "Source/Lib/Common/ASM_SSSE3",
            "Source/Lib/Common/ASM_SSE4_1", "Source/Lib/Common/ASM_AVX2",
            "Source/Lib/Common/ASM_AVX512",
            "Source/Lib/Encoder/Codec", "Source/Lib/Encoder/Globals",
            "Source/Lib/Encoder/C_DEFAULT", "Source/Lib/Encoder/ASM_SSE2",
            "Source/Lib/Encoder/ASM_SSSE3", "Source/Lib/Encoder/ASM_SSE4_1",
            "Source/Lib/Encoder/ASM_AVX2", "Source/Lib/Encoder/ASM_AVX512",
            "Source/Lib/Decoder/Codec", "third_party/fastfeat"]


def cc_harness(v, name, sources, enc=True, dec=False, extra_cflags="", extra_ldflags="",
               plain_sources=(), internal=False, deps=()):
    """Compile a harness executable build/<v>/h/<name> against variant v's static libraries.

    sources are compiled with the variant's instrumentation; plain_sources (e.g. the scheduler)
    are compiled with plain gcc/clang -O2 and no sanitizer.  Rebuilds when any input is newer.
    """
    cc, _, cflags, ldf = VARIANTS[v]
    if enc or dec:
        ensure_build(v)
    d = os.path.join(variant_dir(v), "h")
    os.makedirs(d, exist_ok=True)
    out = os.path.join(d, name)
    le, ld_ = libs(v)
    inputs = [os.path.join(SRC, s) if not os.path.isabs(s) else s
              for s in list(sources) + list(plain_sources) + list(deps)]
    inputs += [os.path.join(SRC, f) for f in os.listdir(SRC) if f.endswith(".h")]
    if enc:
        inputs.append(le)
    if dec:
        inputs.append(ld_)
    stamp = out + ".cmd"
    incs = ["-I" + os.path.join(REPO, "Source/API"), "-I" + SRC]
    if internal:
        incs += ["-I" + os.path.join(REPO, p) for p in INCLUDES]
    lock = open(out + ".lock", "w")
    fcntl.flock(lock, fcntl.LOCK_EX)
    try:
        objs = []
        cmds = []
        for s in plain_sources:
            o = os.path.join(d, name + "." + os.path.basename(s) + ".o")
            sp = os.path.join(SRC, s) if not os.path.isabs(s) else s
            cmds.append([cc, "-O2", "-g1", "-fno-omit-frame-pointer", "-D%s=1" % GUARD,
                         "-c", sp, "-o", o] + incs + extra_cflags.split())
            objs.append(o)
        srcs = [os.path.join(SRC, s) if not os.path.isabs(s) else s for s in sources]
        link = ([cc] + cflags.split() + ["-D%s=1" % GUARD] + extra_cflags.split() + incs + srcs + objs
                + ["-o", out] + ([le] if enc else []) + ([ld_] if dec else [])
                + ldf.split() + extra_ldflags.split() + ["-lpthread", "-lm", "-ldl"])
        cmds.append(link)
        cmdtxt = json.dumps(cmds)
        need = not os.path.exists(out) or not os.path.exists(stamp) or open(stamp).read() != cmdtxt
        if not need:
            mt = os.path.getmtime(out)
            need = any(os.path.getmtime(i) > mt for i in inputs if os.path.exists(i))
        if need:
            for c in cmds:
                r = run(c)
                if r.returncode != 0:
                    raise BuildError("harness %s/%s failed to build:\n%s\n%s" %
                                     (v, name, " ".join(c), r.stdout[-6000:]))
            open(stamp, "w").write(cmdtxt)
        return out
    finally:
        fcntl.flock(lock, fcntl.LOCK_UN)
        lock.close()


# --------------------------------------------------------------------------- parallel map

def _call(a):
    f, x = a
    return f(x)


def pmap(f, items, procs=None, chunksize=1):
    """Ordered parallel map; f must be a module-level function."""
    items = list(items)
    if not items:
        return []
    procs = procs or NCPU
    if procs == 1 or len(items) == 1:
        return [f(x) for x in items]
    with multiprocessing.Pool(procs) as p:
        return p.map(_call, [(f, x) for x in items], chunksize)


def pmap_deadline(f, items, deadline, procs=None):
    """Unordered parallel map that stops handing out work at the deadline (time.time() value).

    Returns (results list of (item, result), completed_all)."""
    items = list(items)
    procs = procs or NCPU
    out = []
    if not items:
        return out, True
    with multiprocessing.Pool(procs) as p:
        pending = []
        it = iter(items)
        done_all = True
        # keep at most 4*procs in flight so that the deadline is respected
        import collections
        q = collections.deque()
        exhausted = False
        while True:
            while not exhausted and len(q) < 3 * procs:
                if time.time() > deadline:
                    exhausted = True
                    done_all = False
                    # is anything left?
                    try:
                        next(it)
                    except StopIteration:
                        done_all = True
                    break
                try:
                    x = next(it)
                except StopIteration:
                    exhausted = True
                    break
                q.append((x, p.apply_async(f, (x,))))
            if not q:
                break
            x, r = q.popleft()
            out.append((x, r.get()))
        return out, done_all


# --------------------------------------------------------------------------- findings / evidence

def load_findings():
    p = os.path.join(VERIF, "known_findings.jsonl")
    res = []
    if os.path.exists(p):
        for l in open(p):
            l = l.strip()
            if l and not l.startswith("#"):
                res.append(json.loads(l))
    return res


class Check:
    """Bookkeeping for one check run: violations, known findings, evidence."""

    def __init__(self, pid, tier, level):
        self.pid = pid
        self.tier = tier
        self.level = level
        self.t0 = time.time()
        self.seed = int(os.environ.get("VERIF_SEED", "0") or 0)
        self.known = {f["key"]: f for f in load_findings()
                      if f.get("property") == pid and f.get("status") == "finding"}
        self.seen_known = {}
        self.violations = []
        self.cov = {}
        self.assumptions = []
        self.nrep = 0
        dl = os.environ.get("VERIF_DEADLINE_S")
        self.budget = float(dl) if dl else (420.0 if tier == "quick" else 2400.0)
        self.deadline = self.t0 + self.budget
        os.makedirs(REPLAYS, exist_ok=True)
        os.makedirs(EVID, exist_ok=True)
        for f in os.listdir(REPLAYS):
            if f.startswith(pid + "-"):
                os.unlink(os.path.join(REPLAYS, f))

    def time_left(self):
        return self.deadline - time.time()

    def violation(self, key, what, replay):
        """key: stable identifier '<pid>:<...>' of the failing input class / site / history."""
        if key in self.known:
            if key not in self.seen_known:
                self.seen_known[key] = 0
                print("KNOWN-FINDING: property=%s %s %s" % (self.pid, key, self.known[key].get("what", "")),
                      flush=True)
            self.seen_known[key] += 1
            return False
        if key in self.violations:
            self.violations.append(key)
            return True
        self.nrep += 1
        path = os.path.join(REPLAYS, "%s-%d.json" % (self.pid, self.nrep))
        if self.nrep <= 40:
            with open(path, "w") as f:
                json.dump({"property": self.pid, "key": key, "what": what, "replay": replay}, f, indent=1)
            print("VIOLATION property=%s replay=%s" % (self.pid, path), flush=True)
            log("  key=%s  %s" % (key, what))
        self.violations.append(key)
        return True

    def finish(self, coverage, assumptions=()):
        ev = {"property_id": self.pid, "tier": self.tier, "seed": self.seed, "level": self.level,
              "coverage": coverage, "assumptions": list(assumptions) + self.assumptions,
              "wall_s": round(time.time() - self.t0, 2), "violations": len(self.violations),
              "known_findings_observed": self.seen_known,
              "distinct_violation_keys": sorted(set(self.violations))[:100]}
        tmp = os.path.join(EVID, self.pid + ".json.tmp")
        with open(tmp, "w") as f:
            json.dump(ev, f, indent=1, default=str)
        os.replace(tmp, os.path.join(EVID, self.pid + ".json"))
        log("[%s/%s] %s  violations=%d known=%d wall=%.1fs" %
            (self.pid, self.tier, {k: v for k, v in coverage.items()
                                    if isinstance(v, (int, float, bool))},
             len(self.violations), len(self.seen_known), time.time() - self.t0))
        return 1 if self.violations else 0


def h(b):
    return hashlib.sha1(b).hexdigest()[:16]


def workdir(name):
    d = os.path.join(BUILD, "work", name)
    shutil.rmtree(d, ignore_errors=True)
    os.makedirs(d)
    return d
