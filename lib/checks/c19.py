"""C19: intra refresh follows the configured period; shown key frames are random-access points (DESIGN.md section 4, C19).

Oracle 1 (placement): packet k is display position k (C03).  The frame displayed by a packet is its shown frame or, for a
show_existing_frame header, the coded frame currently held in the signalled reference slot; the eight slots are tracked from
refresh_frame_flags by the independent OBU parser lib/obu.py.  The set of display positions whose displayed frame is intra coded
(KEY_FRAME or INTRA_ONLY_FRAME) must be exactly {k < N : k mod (P+1) == 0} ({0} for P = -1); with intra_refresh_type 2 each of
them must be a KEY_FRAME coded with show_frame = 1 in that packet.
Oracle 2 (random access): for every packet i that carries a shown KEY_FRAME, libaom and dav1d decode packets i.. alone without
error, agree with each other, and produce exactly the pictures the decode of the whole stream produced for positions i.. .
"""
import itertools
import json

import enc
import hdr_dump
import obu
import streams

PID = "C19"
PERIODS = (-1, 0, 1, 2, 3, 4, 7, 8, 15, 16)
QUICK_PERIODS = (-1, 0, 1, 2, 3, 4, 8)


def nmax(p):
    return min(2 * (p + 1) + 3, 36)


def displayed(pkts):
    """Per packet: (frame type of the displayed frame, 'shown' | 'existing', list of coded frame headers)."""
    seq, ref_types, out = None, [None] * 8, []
    for i, p in enumerate(pkts):
        tu = obu.parse_temporal_unit(p, seq, ref_types)
        sh = [h for h in tu["frames"] if h.get("show_existing_frame") or h.get("show_frame")]
        if len(sh) != 1:
            raise obu.ParseError("packet %d displays %d frames" % (i, len(sh)))
        h = sh[0]
        out.append((h.get("frame_type"), "existing" if h.get("show_existing_frame") else "shown", bool(tu["seq_payloads"])))
        seq, ref_types = tu["seq"], tu["ref_types"]
    return out


def cfgkey(a):
    if int(a["intra_period_length"]) == 0:
        # every picture is intra: the prediction structure (hierarchical levels, overlays) plays no role
        return "ip=0,rt=%s" % a["intra_refresh_type"]
    return "hl=%s,ip=%s,rt=%s,ov=%s" % (a["hierarchical_levels"], a["intra_period_length"], a["intra_refresh_type"], a["enable_overlays"])


def case(item):
    label, a = item
    pre = streams.prefix_for("c19")
    out = {"label": label, "status": "ok", "viol": [], "info": {}}
    try:
        r = hdr_dump.run_enc(a, pre, timeout=12)
        if r.get("timeout"):
            # decide between 'slow' and 'deadlock' with the controlled scheduler (deadlock detection by quiescence)
            r = hdr_dump.run_enc(a, pre, timeout=90, sched=True) if not hdr_dump.os.environ.get("HDR_ENCDRV") else r
            out["info"]["rerun_under_scheduler"] = 1
        st = hdr_dump.session_status(r)
        if st:
            out["status"] = st
            return out
        n, p, rt = int(a["n"]), int(a["intra_period_length"]), int(a["intra_refresh_type"])
        if r["npk"] != n:
            out["status"] = "packet-count"  # owned by C03
            return out
        out["pkt_hash"] = r["pkt_hash"]
        pk = enc.packets(pre)
        try:
            disp = displayed(pk)
        except obu.ParseError as e:
            out["status"] = "tu-structure"  # owned by C02
            out["info"]["parse_error"] = 1
            return out
        want = [k for k in range(n) if (k == 0 if p < 0 else k % (p + 1) == 0)]
        got = [k for k, (ft, how, _) in enumerate(disp) if ft in (obu.KEY_FRAME, obu.INTRA_ONLY_FRAME)]
        ck = cfgkey(a)
        if got != want:
            out["viol"].append(("C19:intra-positions@" + ck, "N=%d: intra-coded pictures are displayed at positions %s, expected %s"
                                % (n, got, want)))
        if rt == 2:
            bad = [k for k in got if not (disp[k][0] == obu.KEY_FRAME and disp[k][1] == "shown")]
            if bad:
                out["viol"].append(("C19:idr-not-shown-key@" + ck, "N=%d, intra_refresh_type=2: positions %s are intra but not KEY_FRAMEs coded "
                                    "with show_frame=1 (%s)" % (n, bad, [disp[k][:2] for k in bad])))
        keys = [k for k, (ft, how, _) in enumerate(disp) if ft == obu.KEY_FRAME and how == "shown"]
        out["info"]["intra_positions"] = len(got)
        out["info"]["intra_only_positions"] = sum(1 for k in got if disp[k][0] == obu.INTRA_ONLY_FRAME)
        out["info"]["intra_via_show_existing"] = sum(1 for k in got if disp[k][1] == "existing")
        out["info"]["shown_key_packets"] = len(keys)
        # ---- random access
        full = enc.refdec(pre)
        if full.get("timeout") or full.get("crash") or not (full.get("aom") or full.get("dav1d")):
            out["status"] = "refdec-failed"
            return out
        if full.get("aom_err") or full.get("d1_err") or full.get("agree") == 0 or len(full["frames"]) != n:
            out["status"] = "full-decode-fails"  # owned by C01
            return out
        F = [x[3] for x in full["frames"]]
        for i in keys:
            if i == 0:
                continue
            rd = enc.refdec(pre, start=i)
            out["info"]["random_access_decodes"] = out["info"].get("random_access_decodes", 0) + 1
            if rd.get("timeout") or rd.get("crash"):
                out["viol"].append(("C19:random-access-decoder-crash@" + ck, "N=%d: reference decoder crashed / hung decoding from packet %d" % (n, i)))
                continue
            if not disp[i][2]:
                out["info"]["key_packet_without_seqhdr"] = out["info"].get("key_packet_without_seqhdr", 0) + 1
            if rd.get("aom_err") or rd.get("d1_err"):
                out["viol"].append(("C19:random-access-decode-error@" + ck, "N=%d: decoding from the shown key frame in packet %d fails "
                                    "(libaom %s '%s', dav1d %s; sequence header in that packet: %s)"
                                    % (n, i, rd.get("aom_err"), rd.get("aom_msg"), rd.get("d1_err"), disp[i][2])))
                continue
            G = [x[3] for x in rd["frames"]]
            if rd.get("agree") == 0 or G != F[i:]:
                first = next((j for j in range(min(len(G), n - i)) if G[j] != F[i + j]), min(len(G), n - i))
                out["viol"].append(("C19:random-access-pictures-differ@" + ck, "N=%d: decoding from packet %d gives %d pictures, first "
                                    "difference to the full decode at position %d (libaom/dav1d agree: %s)" % (n, i, len(G), i + first, rd.get("agree"))))
        return out
    finally:
        enc.cleanup(pre)


def cases_for(tier):
    cs = []
    for p, rt, hl, ov in itertools.product(PERIODS if tier == "thorough" else QUICK_PERIODS, (1, 2), range(0, 5), (0, 1)):
        top = nmax(p) if tier == "thorough" else min(nmax(p), max(p, 0) + 4)
        ns = list(range(1, top + 1))
        # long streams: with P = -1 "only position 0" must survive every internal interval cap (lengths beyond 15 * 2^hl), with P >= 0
        # the period must not drift after several refreshes
        if p == -1:
            ns.append({0: 40, 1: 70, 2: 130, 3: 130, 4: 240}[hl] if (tier == "thorough" or ov == 0) else 40)
        elif p > 0 and (tier == "thorough" or p in (3, 8)) and ov == 0:
            ns.append(5 * (p + 1) + 2)
        for n in ns:
            cs.append(("hl=%d,ip=%d,rt=%d,ov=%d/n=%d" % (hl, p, rt, ov, n),
                       {"w": 64, "h": 64, "n": n, "content": "grad", "enc_mode": 8, "hierarchical_levels": hl, "intra_period_length": p,
                        "intra_refresh_type": rt, "enable_overlays": ov}))
    # longest streams first: better load balance under the deadline
    cs.sort(key=lambda c: -c[1]["n"])
    return cs


ASSUMPTIONS = [
    "packet k is display position k (one packet per submitted picture, in order: C03)",
    "frame types and reference-slot contents come from lib/obu.py (AV1 spec 5.3-5.9 up to refresh_frame_flags), independent of the encoder; "
    "a show_existing_frame packet displays the coded frame last stored in the signalled slot",
    "'intra coded' = KEY_FRAME or INTRA_ONLY_FRAME; intra_refresh_type 2 (IDR) additionally demands a KEY_FRAME with show_frame=1 in the packet itself; "
    "intra_refresh_type 1 (CRA) only demands the positions",
    "random access is checked with libaom and dav1d (must both succeed and agree) against their own decode of the whole stream, compared by display position",
    "sessions that crash (hierarchical_levels=0 with overlays), deadlock (logical_processors=1: hl=1,ip=1; hl=2,ip=2|3) or are rejected are not "
    "evaluable here and are counted in status_counts (owned by C11 / C03); a session that times out is re-run under the controlled scheduler to "
    "tell a deadlock from a slow run",
]


def run(tier):
    return streams.run_stream_check(
        PID, tier, cases_for(tier), case,
        "intra_period_length P in %s x intra_refresh_type {1,2} x hierarchical_levels 0..4 x enable_overlays {0,1} x every N in 1..%s; 64x64 grad, "
        "preset 8; every packet's displayed frame type checked, every shown-key-frame packet used as a decode start; distinct = distinct "
        "packet-stream hashes" % (list(PERIODS), "min(2(P+1)+3, 36)" if tier == "thorough" else "max(P,0)+4 (complete sub-grid)") +
        "; plus one long stream per (P, hl): P = -1 with 40/70/130/130/240 pictures for hl 0..4 (beyond 15 * 2^hl), P > 0 with 5(P+1)+2 pictures",
        ASSUMPTIONS, extra_cov={"oracle": "intra display positions == multiples of P+1; decode from each shown key frame == tail of the full decode (libaom+dav1d)"})


def replay(path):
    d = json.load(open(path))
    o = case((d["replay"]["label"], d["replay"]["args"]))
    print(json.dumps(o, indent=1))
    return 1 if o["viol"] else 0
