"""C04: encoding is deterministic under every thread interleaving (DESIGN.md 4/C04).

Whole encoder under the controlled scheduler; every schedule with at most d delays is executed."""
import json
import time

import schedlib
import vlib

PID = "C04"

SESSIONS = {
    # name: (argv dict, quick bound, thorough bound)
    # quick: three sessions whose <= 1-delay schedules and one-stall schedules all fit into the budget on an unloaded 16-core machine
    "lp1-64x64-n2-hl0": ({"w": 64, "h": 64, "n": 2, "hierarchical_levels": 0, "recon_enabled": 1}, 1, 1),
    "lp1-64x64-n3-hl1": ({"w": 64, "h": 64, "n": 3, "hierarchical_levels": 1, "recon_enabled": 1}, 1, 1),
    "lp4-192x128-n1": ({"w": 192, "h": 128, "n": 1, "logical_processors": 4, "recon_enabled": 1}, 1, 1),
    "lp2-128x64-n3-hl1": ({"w": 128, "h": 64, "n": 3, "hierarchical_levels": 1, "logical_processors": 2, "recon_enabled": 1}, -1, 1),
    "lp4-192x128-n2-tiles": ({"w": 192, "h": 128, "n": 2, "logical_processors": 4, "tile_rows": 1, "recon_enabled": 1}, -1, 1),
    "lp1-64x64-n1-hl0-d2": ({"w": 64, "h": 64, "n": 1, "hierarchical_levels": 0, "recon_enabled": 1}, -1, 2),
    # preset 6: loop restoration, TPL delta-q and per-block lambda tuning are active, several EncDec segment rows and workers
    # (whichever worker finishes a picture hands its state to the next stage); thorough only: ~2100 stall points of 5-picture sessions
    "lp4-192x128-n5-hl2-preset6": ({"w": 192, "h": 128, "n": 5, "hierarchical_levels": 2, "logical_processors": 4, "enc_mode": 6, "recon_enabled": 1}, -1, 0),
}


def observation(res):
    o = res.get("out") or {}
    return (o.get("completed"), o.get("npk"), o.get("nrc"), o.get("pkt_hash"), o.get("rec_hash"), o.get("eos_pkt"), o.get("deinit"),
            o.get("deinit_handle"))


def explore_session(ck, name, args, bound, exe, deadline, variant_env=None):
    argv = ["%s=%s" % kv for kv in args.items()]
    env = dict(variant_env or {})
    env.setdefault("VS_UNLOCK_YIELD", "1")  # mutex release is a scheduling point: exposes check-after-unlock races
    E = schedlib.Exploration(exe, argv, env=env, timeout=300)
    state = {"ref": None, "outcomes": {}}

    def on(res):
        devs = schedlib.delays_str(res["devs"])
        rep = {"session": name, "args": args, "delays": devs, "stalls": res.get("stalls") or []}
        if res.get("stalls"):
            devs = "stall at %s" % res["stalls"]
        if res["rc"] == 6:
            return  # divergence handled below (hard error)
        if res["timeout"]:
            # under the scheduler a genuine hang is a detected deadlock / livelock; a wall-clock timeout first gets a second run alone with a long limit
            res = schedlib.run_schedule(exe, argv, res["devs"], env, 1500, policy=res.get("policy", 0), stalls=res.get("stalls") or ())
            state["timeout_reruns"] = state.get("timeout_reruns", 0) + 1
            if res["timeout"]:
                ck.violation("C04:timeout@%s" % name, "schedule [%s] did not finish within 300 s nor, run alone, within 1500 s" % devs, rep)
                return
        out = res.get("out") or {}
        if res["rc"] == 3 or out.get("deadlock") or out.get("livelock"):
            ck.violation("C04:deadlock@%s" % name, "schedule [%s] deadlocks: %s" % (devs, json.dumps(out)[:300]), rep)
            return
        if res["rc"] != 0 or not out:
            ck.violation("C04:crash@%s" % name, "schedule [%s] ends with status %s: %s" % (devs, res["rc"], res["stderr"][-300:]), rep)
            return
        ob = observation(res)
        state["outcomes"][ob] = state["outcomes"].get(ob, 0) + 1
        if not res["devs"] and not res.get("stalls"):
            state["ref"] = ob
            if out.get("completed") != 1:
                ck.violation("C04:incomplete@%s" % name, "canonical schedule does not complete: %s" % (ob,), rep)
        elif state["ref"] is not None and ob != state["ref"]:
            ck.violation("C04:output-differs@%s" % name, "schedule [%s] yields %s, canonical schedule yields %s" % (devs, ob, state["ref"]), rep)

    E.run(bound, on, deadline - 0.4 * max(0, deadline - time.time()))
    if E.divergences:
        raise RuntimeError("DIVERGENCE while replaying schedule prefixes %s of %s: nondeterminism not captured" % (E.divergences[:3], name))
    # one stall point: at every decision point of the canonical schedule the running thread becomes arbitrarily slow (DESIGN 9.1)
    S = schedlib.stall_sweep(exe, argv, on, deadline, env=env, timeout=300)
    return E, state, S


def run(tier):
    ck = vlib.Check(PID, tier, "model_checking")
    vlib.ensure_build("rel")
    exe = schedlib.build_encdrv("rel")
    per, samples = [], []
    tot_exec = tot_trans = 0
    traces = 0
    exhaustive = True
    sessions = [(n, a, (bq if tier == "quick" else bt)) for n, (a, bq, bt) in SESSIONS.items()]
    sessions = [s for s in sessions if s[2] >= 0]
    for i, (name, args, bound) in enumerate(sessions):
        left = ck.time_left() - 15
        if left < 20:
            exhaustive = False
            break
        share = left / (len(sessions) - i) if tier == "quick" else left
        E, st, S = explore_session(ck, name, args, bound, exe, time.time() + share)
        tot_exec += E.executions + S["executions"]
        tot_trans += E.transitions + S["transitions"]
        traces += len(E.trace_hashes | S["trace_hashes"])
        if E.capped or not S["complete"]:
            exhaustive = False
        per.append({"session": name, "delay_bound_requested": bound, "delay_bound_completed": E.completed_bound,
                    "schedules": E.executions, "decisions": E.transitions, "distinct_decision_traces": len(E.trace_hashes),
                    "max_enabled": E.max_enabled, "distinct_outcomes": len(st["outcomes"]), "capped": E.capped,
                    "stall_points": S["points"], "stall_schedules": S["executions"] - 1, "stall_sweep_complete": S["complete"],
                    "stall_distinct_traces": len(S["trace_hashes"])})
        samples.extend([dict(s, session=name) for s in E.samples[:2]])
    cov = {"states": traces, "transitions": tot_trans, "traces_validated_against_impl": tot_exec, "samples": samples or [{"delays": ""}],
           "exhaustive": exhaustive, "per_session": per,
           "explanation": "stateless exploration of the real encoder under the serialising scheduler: every schedule with total delay <= bound "
                          "is executed, and every schedule with one stall point (the thread running at decision point p is arbitrarily slow from p on); 'states' counts distinct decision traces, 'transitions' scheduling decisions executed; every "
                          "schedule is an execution of the implementation"}
    return ck.finish(cov, ["scheduling points: SVT mutex lock and release, semaphore wait/post, cond var set/wait, thread create/join; code between them is atomic",
                           "delay-bounded (Emmi/Qadeer/Rakamaric) exploration: bound 1 quick, 2 on the smallest session in the thorough tier",
                           "data races inside regions without synchronisation calls are not explored (TSan side check is separate)"])


def replay(path):
    d = json.load(open(path))["replay"]
    vlib.ensure_build("rel")
    exe = schedlib.build_encdrv("rel")
    argv = ["%s=%s" % kv for kv in d["args"].items()]
    devs = [tuple(int(x) for x in t.split(":")) for t in d["delays"].split(",") if t]
    a = schedlib.run_schedule(exe, argv, [], env={"VS_UNLOCK_YIELD": "1"})
    b = schedlib.run_schedule(exe, argv, devs, env={"VS_UNLOCK_YIELD": "1"}, stalls=d.get("stalls") or ())
    b2 = schedlib.run_schedule(exe, argv, devs, env={"VS_UNLOCK_YIELD": "1"}, stalls=d.get("stalls") or ())
    print("canonical:", observation(a), "rc", a["rc"])
    print("schedule [%s]:" % d["delays"], observation(b), "rc", b["rc"], json.dumps(b.get("out"))[:300] if b["rc"] else "")
    print("deterministic replay:", observation(b) == observation(b2) and b["rc"] == b2["rc"])
    return 0 if (b["rc"] == 0 and observation(a) == observation(b)) else 1
