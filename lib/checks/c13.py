"""C13: the configuration svt_av1_enc_init_handle fills in is complete and well defined (DESIGN.md section 4, C13).

Enumerated prior contents of the caller's EbSvtAv1EncConfiguration before svt_av1_enc_init_handle:
  * every uniform fill byte 0x00..0xFF;
  * every element of the structure (array elements, rc_twopass_stats_in {buf, sz}, pred_struct[] entry members)
    poisoned with all-ones / 0x80 00.. / 0x7F FF.. / 1 while the rest is zero.
Oracle:
  (1) every element of the returned structure equals the one returned for a zeroed structure (padding not compared);
  (2) with only source_width/height = 64 set on top, svt_av1_enc_set_parameter accepts;
  (3) a 5-picture encode (explicit settings: 64x64, logical_processors 1) yields the same packets as for a zeroed
      structure (quick: fills {00,FF,80,01,7F,AA} + every field poisoned with all-ones; thorough: all fills, every
      field x 4 patterns).
Harness: src/param_def_h.c.

bin/check C13 --replay <replay file>     re-runs one recorded case
bin/check C13 --replay mutant:c13fix     runs the quick tier against a copy of EbEncHandle.c in which
                                         svt_svt_enc_init_parameter zeroes the structure first (must report nothing)
"""
import json
import os
import subprocess
import sys
import time

import c12_harness as ch
import vlib

PID = "C13"
OK = "0"
PATTERNS = ["ff", "80", "7f", "01"]
QUICK_FILLS = [0x00, 0xFF, 0x80, 0x01, 0x7F, 0xAA]
CHUNK = 150
ENC_TIMEOUT = 40


def elements(lay):
    out = []
    for r in lay["rows"]:
        for i in range(r["outer"]):
            for j in range(r["inner"]):
                if r["outer"] > 1:
                    m = r["name"].split(".", 1)[1]
                    out.append("%s.%d.%s" % (r["group"], i, m) + (".%d" % j if r["inner"] > 1 else ""))
                elif r["inner"] > 1:
                    out.append("%s.%d" % (r["name"], j))
                else:
                    out.append(r["name"])
    return out


def top(name):
    """structure member an element / row name belongs to (array elements and nested members collapse)."""
    return name.split(".")[0]


def prior_class(case):
    return "uniform-fill" if case[0] == "fill" else top(case[1])


# ---------------------------------------------------------------------------------------------- field comparison

def _fields_chunk(arg):
    exe, base, chunk = arg
    lines = ["%d %s" % (base + i, " ".join(c)) for i, c in enumerate(chunk)]
    res = ch.run_lines(exe, lines, args=("fields",), timeout=60)
    return [(res.get("%d.d" % (base + i)), res.get(str(base + i), ["missing"])) for i in range(len(chunk))]


def run_fields(exe, cases, deadline):
    chunks = [(exe, b, cases[b:b + CHUNK]) for b in range(0, len(cases), CHUNK)]
    res, complete = vlib.pmap_deadline(_fields_chunk, chunks, deadline)
    out = {}
    for (_, base, chunk), answers in res:
        for i, a in enumerate(answers):
            out[chunk[i]] = a
    return out, complete


# ---------------------------------------------------------------------------------------------- encodes

def _enc_case(arg):
    exe, case = arg
    t0 = time.time()
    try:
        p = subprocess.run([exe, "encode"] + list(case), stdout=subprocess.PIPE, stderr=subprocess.PIPE, env=ch.env(),
                           timeout=ENC_TIMEOUT)
    except subprocess.TimeoutExpired:
        return {"outcome": "hang", "t": time.time() - t0}
    line = p.stdout.decode("latin1").strip().split("\n")[-1] if p.stdout.strip() else ""
    try:
        d = json.loads(line)
    except Exception:
        return {"outcome": "crash", "rc": p.returncode, "t": time.time() - t0}
    d["outcome"] = "done" if p.returncode == 0 else "crash"
    d["rc"] = p.returncode
    d["t"] = time.time() - t0
    return d


def enc_signature(d):
    return tuple((k, d.get(k)) for k in ("outcome", "init_handle", "set_parameter", "init", "send_err", "npk", "bytes",
                                         "eos", "get_err", "deinit", "deinit_handle", "hash"))


# ---------------------------------------------------------------------------------------------- exploration

def explore(exe, tier, deadline):
    """Returns (violations [(key, what, replay)], coverage dict)."""
    lay = ch.query(exe, "layout")
    errs = ch.check_layout(lay)
    if errs:
        raise vlib.BuildError("field table of param_fields.h is incomplete: %s" % errs)
    elems = elements(lay)
    rows = [r["name"] for r in lay["rows"]]
    members = list(dict.fromkeys(top(r) for r in rows))
    viol = []
    seen = {}

    def violation(key, what, replay):
        seen[key] = seen.get(key, 0) + 1
        viol.append((key, what, replay))

    # (1) + (2)
    fcases = [("fill", str(b)) for b in range(256)] + [("poison", e, p) for e in elems for p in PATTERNS]
    fres, fcomplete = run_fields(exe, fcases, deadline)
    priors = set()
    not_init = {}          # member -> example
    setrc = {"accepted": 0, "rejected": 0, "crash": 0}
    for case in fcases:
        if case not in fres:
            continue
        d, s = fres[case]
        if d is not None and len(d) >= 2:
            priors.add(d[0])
            for ent in d[2:]:
                name, val = ent.split("=")
                member = top(name.split("(")[0])
                if member not in not_init:
                    not_init[member] = (case, ent)
                    violation("%s:field-not-initialised:%s" % (PID, member),
                              "svt_av1_enc_init_handle does not write %s: after prior contents '%s' the returned "
                              "structure holds %s where a zeroed structure yields a different value"
                              % (member, " ".join(case), ent), {"mode": "fields", "case": list(case)})
                else:
                    seen["%s:field-not-initialised:%s" % (PID, member)] += 1
        if len(s) >= 2 and s[0] == OK and s[1] == OK:
            setrc["accepted"] += 1
        elif s and s[0] in ("crash", "hang"):
            setrc["crash"] += 1
            violation("%s:set_parameter-%s:%s" % (PID, s[0], prior_class(case)),
                      "svt_av1_enc_set_parameter %s (%s) on the defaults returned for prior contents '%s' + source 64x64"
                      % (s[0], ":".join(s), " ".join(case)), {"mode": "fields", "case": list(case)})
        else:
            setrc["rejected"] += 1
            violation("%s:set_parameter-rejected:%s" % (PID, prior_class(case)),
                      "svt_av1_enc_set_parameter returns %s for the defaults returned for prior contents '%s' + source "
                      "64x64" % (":".join(s), " ".join(case)), {"mode": "fields", "case": list(case)})
    # (3)
    if tier == "quick":
        ecases = [("fill", str(b)) for b in QUICK_FILLS] + [("poison", m, "ff") for m in members]
    else:
        ecases = [("fill", str(b)) for b in range(256)] + [("poison", r, p) for r in rows for p in PATTERNS]
    ref = _enc_case((exe, ("fill", "0")))
    if ref.get("outcome") != "done" or ref.get("init") != 0 or not ref.get("eos") or ref.get("npk") != 5:
        raise vlib.BuildError("reference encode (zeroed structure) did not complete: %s" % ref)
    eres, ecomplete = vlib.pmap_deadline(_enc_case, [(exe, c) for c in ecases], deadline)
    outcomes = {}
    hashes = set()
    slow = 0.0
    for (_, case), d in eres:
        slow = max(slow, d.get("t", 0))
        outcomes[d["outcome"]] = outcomes.get(d["outcome"], 0) + 1
        if d.get("hash"):
            hashes.add(d["hash"])
        if enc_signature(d) == enc_signature(ref):
            continue
        cls = prior_class(case)
        if d["outcome"] in ("crash", "hang"):
            kind = "encode-" + d["outcome"]
            what = "the 5-picture encode %s (rc %s)" % ({"crash": "crashes", "hang": "hangs"}[d["outcome"]], d.get("rc"))
        elif d.get("set_parameter") or d.get("init") or d.get("init_handle"):
            kind = "encode-rejected"
            what = "the encoder refuses the configuration (init_handle %s, set_parameter %s, init %s)" % (
                d.get("init_handle"), d.get("set_parameter"), d.get("init"))
        else:
            kind = "encode-differs"
            what = "the 5-picture encode yields different output (%d packets, %s bytes, hash %s; zeroed structure: %d " \
                   "packets, %s bytes, hash %s)" % (d.get("npk", -1), d.get("bytes"), d.get("hash"), ref["npk"],
                                                    ref["bytes"], ref["hash"])
        violation("%s:%s:%s" % (PID, kind, cls),
                  "with the defaults returned for prior contents '%s' (+ source 64x64, logical_processors 1) %s"
                  % (" ".join(case), what), {"mode": "encode", "case": list(case)})
    samples = [{"prior": " ".join(c), "differing_fields": (fres[c][0] or ["?", "?"])[1:6], "set_parameter": fres[c][1]}
               for c in (fcases[0], fcases[255], fcases[256], fcases[-1]) if c in fres]
    samples += [{"encode_prior": " ".join(c), "outcome": d["outcome"], "hash": d.get("hash")} for (_, c), d in eres[:3]]
    cov = {
        "evaluations": len(fres) + len(eres) + 1,
        "distinct_nontrivial": len(priors),
        "rule": "prior contents of the caller's structure before svt_av1_enc_init_handle: 256 uniform fills + every "
                "element x {ff.., 80 00.., 7f ff.., 1}; per case the returned structure is compared element by element with "
                "the one returned for a zeroed structure and set_parameter is called with source 64x64; encodes of 5 "
                "pictures for %s; distinct_nontrivial = distinct prior structure images (hash of the bytes handed to "
                "init_handle, computed by the harness)" % ("fills {00,FF,80,01,7F,AA} + every member all-ones"
                                                          if tier == "quick" else "all fills + every field x 4 patterns"),
        "samples": samples,
        "exhaustive": bool(fcomplete and ecomplete and len(fres) == len(fcases) and len(eres) == len(ecases)),
        "field_cases": len(fres), "field_cases_enumerated": len(fcases), "elements_compared": len(elems),
        "structure_members": len(members), "sizeof_structure": lay["sizeof"],
        "padding_bytes_not_compared": sum(n for _, n in lay["holes"]),
        "set_parameter": setrc,
        "encodes": len(eres) + 1, "encodes_enumerated": len(ecases) + 1, "encode_outcomes": outcomes,
        "distinct_packet_hashes": len(hashes), "slowest_encode_s": round(slow, 1),
        "members_not_initialised": sorted(not_init),
        "observations_per_key": dict(sorted(seen.items())),
    }
    return viol, cov


ASSUMPTIONS = [
    "the element table in src/param_fields.h covers every non-padding byte of EbSvtAv1EncConfiguration (verified at run "
    "time: remaining bytes must be alignment padding)",
    "encodes set logical_processors = 1 explicitly (a caller setting) to keep thread counts and run time small; "
    "identical packets are then required for every prior content",
    "a member counts as not initialised when some prior content survives svt_av1_enc_init_handle in it",
]


def run(tier):
    ck = vlib.Check(PID, tier, "exploration")
    exe = ch.build("param_def_h", "param_def_h.c")
    viol, cov = explore(exe, tier, ck.deadline - 45)
    proposals = {}
    for key, what, replay in viol:
        if key not in ck.known and key not in proposals:
            proposals[key] = {"property": PID, "status": "finding", "key": key, "what": what}
        ck.violation(key, what, replay)
    if proposals:
        wd = os.path.join(vlib.BUILD, "work", "c13")
        os.makedirs(wd, exist_ok=True)
        with open(os.path.join(wd, "proposed_known_findings.jsonl"), "w") as f:
            for k in sorted(proposals):
                f.write(json.dumps(proposals[k]) + "\n")
    return ck.finish(cov, ASSUMPTIONS)


def replay(path):
    if path.startswith("mutant:"):
        m = path.split(":", 1)[1]
        exe = ch.build_mutant(m, harness_src="param_def_h.c", base="param_def_h")
        viol, cov = explore(exe, "quick", time.time() + 900)
        keys = sorted({k for k, _, _ in viol})
        print("mutant %s (%s): %d field cases, %d encodes, members not initialised: %s" % (
            m, ch.MUTANTS[m][2], cov["field_cases"], cov["encodes"], cov["members_not_initialised"]))
        print("violations: %d (%d keys)" % (len(viol), len(keys)))
        for k in keys:
            print("  " + k)
        return 1 if viol else 0
    d = json.load(open(path))["replay"]
    exe = ch.build("param_def_h", "param_def_h.c")
    case = tuple(d["case"])
    if d["mode"] == "fields":
        res, _ = run_fields(exe, [case], time.time() + 120)
        print(json.dumps({"case": case, "differing": res[case][0], "set_parameter": res[case][1]}, indent=1))
        bad = (res[case][0] or ["", "1"])[1] != "0" or res[case][1][:2] != [OK, OK]
        return 1 if bad else 0
    ref = _enc_case((exe, ("fill", "0")))
    r = _enc_case((exe, case))
    print(json.dumps({"case": case, "result": r, "zeroed": ref}, indent=1))
    return 0 if enc_signature(r) == enc_signature(ref) else 1


if __name__ == "__main__":
    sys.exit(run(sys.argv[1] if len(sys.argv) > 1 else "quick"))
