"""C21: the encoder's output depends only on the visible samples of each submitted picture (DESIGN.md 4/C21).

Part A (encdrv sessions): for every (size, bit depth, content, tool class) the session is repeated over the complete cross
product  luma stride - width {0,1,2,16,64,...}  x  stride padding bytes {00, FF, per-frame varying}  x  lifetime of the caller's
buffer {kept, overwritten with FF right after svt_av1_enc_send_picture returns, freed right after it returns}; packets and
reconstruction must be identical to the baseline (stride = width, padding 00, buffer kept) and ASan must stay silent.
The 'freed' third runs in the ASan build (a later read of the caller's buffer is a heap-use-after-free) and is compared with an
ASan-build baseline; the 'kept' / 'overwritten' two thirds run in the release build (a later read yields FF bytes or the next
picture, i.e. different output) and are compared with the release-build baseline.  An ASan session costs ~4x a release one.

Part B (src/s2_c21tight.c, ASan build): the same picture content in planes allocated tightly - every plane is its own malloc
block that ends with the last visible sample of the last row - so that any read beyond the visible samples of the last row is
caught, for every size x bit depth x stride x tool class.
"""
import itertools
import json
import os
import re
import subprocess

import enc
import s2_mut
import streams
import vlib

PID = "C21"
SIZES = ((64, 64), (66, 66), (70, 90), (144, 112))
ENV = {"ASAN_OPTIONS": "detect_leaks=0:halt_on_error=1:exitcode=77:allocator_may_return_null=1:detect_stack_use_after_return=0:symbolize=1",
       "UBSAN_OPTIONS": "print_stacktrace=0:halt_on_error=0"}
STRIDES_Q = (0, 1, 16, 64)            # quick; thorough adds 2 and the large ones
STRIDES_T = (0, 1, 2, 16, 64, 68, 137, 1000)   # beyond the library's 68-sample border, beyond a whole internal row, many rows
PADS = (0, 255, 256)
LIFETIMES = ("keep", "scribble", "free")
LIB_FRAMES_SKIP = ("svt_memcpy", "memcpy", "__asan", "__interceptor", "__sanitizer", "memset", "memmove")


def groups(tier):
    contents = ("grad",) if tier == "quick" else ("grad", "screen")
    tools = ((0, 0), (1, 1)) if tier == "quick" else ((0, 0), (1, 0), (1, 1))
    out = []
    for (w, h), bits, c, (tf, ov) in itertools.product(SIZES, (8, 10), contents, tools):
        base = {"w": w, "h": h, "n": 6, "content": c, "bits": bits, "encoder_bit_depth": bits, "enc_mode": 8, "hierarchical_levels": 2,
                "tf_level": tf, "enable_overlays": ov, "recon_enabled": 1, "qp": 30}
        out.append(("%dx%d/%dbit/%s/tf=%d,ov=%d" % (w, h, bits, c, tf, ov), base))
    return out


def variants(tier):
    strides = STRIDES_Q if tier == "quick" else STRIDES_T
    vs = [{"stride_extra": s, "padbyte": p, "lifetime": l} for s, p, l in itertools.product(strides, PADS, LIFETIMES)]
    # each plane has a stride of its own in the API: chroma strides that differ from each other and from luma/2
    for s, (cb, cr), p in itertools.product((0, 16), ((8, 0), (0, 24), (3, 5)), (0, 255) if tier == "quick" else PADS):
        vs.append({"stride_extra": s, "stride_extra_cb": cb, "stride_extra_cr": cr, "padbyte": p, "lifetime": "keep" if tier == "quick" else "scribble"})
    return vs


def asan_site(stderr):
    """(kind, first library function that is not a copy primitive) of the first ASan report, or None."""
    if "ERROR: AddressSanitizer" not in stderr:
        return None
    m = re.search(r"ERROR: AddressSanitizer: ([\w-]+)", stderr)
    kind = m.group(1) if m else "unknown"
    acc = re.search(r"\n(READ|WRITE) of size", stderr)
    fn = "?"
    seg = stderr[stderr.index("ERROR: AddressSanitizer"):]
    for fm in re.finditer(r"#\d+ 0x[0-9a-f]+ in (\S+)", seg):
        f = fm.group(1)
        if not f.startswith(LIB_FRAMES_SKIP):
            fn = f
            break
    return kind, fn, (acc.group(1).lower() if acc else "access")


def build_of(a):
    return "asan" if a["lifetime"] == "free" else "rel"


def run_session(a, build, timeout=300):
    exe = os.environ.get("C21_ENCDRV_" + build.upper())
    if exe:
        return s2_mut.run_exe(exe, a, timeout=timeout, env=ENV)
    return enc.session(a, build, timeout=timeout, env=ENV)


def case(item):
    """item: (label, args) or (label, args, build)"""
    label, a = item[0], item[1]
    r = run_session(a, item[2] if len(item) > 2 else build_of(a))
    o = {"label": label, "status": "ok", "asan": None, "ub": 0}
    err = r.get("stderr") or ""
    site = asan_site(err)
    if site:
        o["asan"] = site
        o["asan_text"] = err[err.index("ERROR: AddressSanitizer"):][:1500]
        o["status"] = "asan"
        return o
    o["ub"] = 1 if "runtime error:" in err else 0
    if r.get("timeout"):
        o["status"] = "timeout"
    elif not r.get("parsed"):
        o["status"] = "crash"
        o["exit"] = r.get("exit")
    elif not enc.accepted(r):
        o["status"] = "rejected"
    elif not (r.get("completed", 0) & 1):
        o["status"] = "incomplete"
    else:
        o["obs"] = (r["npk"], r["pkt_hash"], r["nrc"], r["rec_hash"])
    return o


# ------------------------------------------------------------------ part B: tightly allocated planes

def tight_exe():
    return vlib.cc_harness("asan", "s2_c21tight", ["s2_c21tight.c"])


def tight_cases(tier):
    strides = STRIDES_Q if tier == "quick" else STRIDES_T
    cs = []
    for (w, h), bits, s, (tf, ov) in itertools.product(SIZES, (8, 10), strides, ((0, 0), (1, 1))):
        cs.append(("tight/%dx%d/%dbit/stride_extra=%d/tf=%d,ov=%d" % (w, h, bits, s, tf, ov),
                   {"w": w, "h": h, "bits": bits, "stride_extra": s, "n": 6, "tf_level": tf, "enable_overlays": ov, "hierarchical_levels": 2}))
    return cs


def tight_case(item):
    label, a = item
    en = dict(os.environ)
    en["SVT_LOG"] = "-2"
    en.update(ENV)
    o = {"label": label, "status": "ok", "asan": None}
    try:
        p = subprocess.run([os.environ.get("C21_TIGHT") or tight_exe()] + enc.argv_of(a), stdout=subprocess.PIPE, stderr=subprocess.PIPE, env=en, timeout=300)
    except subprocess.TimeoutExpired:
        o["status"] = "timeout"
        return o
    err = p.stderr.decode("latin1")
    site = asan_site(err)
    if site:
        o["asan"] = site
        o["asan_text"] = err[err.index("ERROR: AddressSanitizer"):][:1500]
        o["status"] = "asan"
        return o
    try:
        d = json.loads(p.stdout.decode("latin1").strip().split("\n")[-1])
    except Exception:
        o["status"] = "crash"
        return o
    if d.get("set_parameter") or d.get("init") or d.get("init_handle"):
        o["status"] = "rejected"
    elif not d.get("eos") or d.get("npk") != a["n"]:
        o["status"] = "incomplete"
    else:
        o["obs"] = d["pkt_hash"]
    return o


def deviation_class(v):
    parts = []
    if v.get("stride_extra_cb") or v.get("stride_extra_cr"):
        parts.append("chroma-strides-differ")
    if v["stride_extra"] or v.get("stride_extra_cb") or v.get("stride_extra_cr"):
        parts.append("stride>width")
        if v["padbyte"]:
            parts.append("padding-bytes-nonzero")
    if v["lifetime"] != "keep":
        parts.append("buffer-%s-after-send" % ("overwritten" if v["lifetime"] == "scribble" else "freed"))
    return ",".join(parts) or "trailing-bytes-only"


def group_items(gl, base, vs):
    """all sessions of one group: every variant in its build, plus the ASan-build baseline"""
    a = dict(base)
    a.update({"stride_extra": 0, "padbyte": 0, "lifetime": "keep"})
    items = [("%s/asan-baseline" % gl, a, "asan")]   # baselines first: a deadline in the middle of a group leaves them available
    for v in vs:
        a = dict(base)
        a.update(v)
        items.append(("%s/stride_extra=%d%s,padbyte=%d,lifetime=%s" % (gl, v["stride_extra"], ("+cb%d+cr%d" % (v["stride_extra_cb"], v["stride_extra_cr"])) if "stride_extra_cb" in v else "",
                                                                         v["padbyte"], v["lifetime"]), a, build_of(a)))
    return items


def run(tier):
    ck = vlib.Check(PID, tier, "exploration")
    enc.tools("asan")
    enc.tools("rel")
    tight_exe()
    items = []
    gs = groups(tier)
    vs = variants(tier)
    # group-major order: a deadline cuts whole groups, every finished group is compared completely
    for gl, base in gs:
        items += group_items(gl, base, vs)
    tcs = tight_cases(tier)
    tres, tcomplete = vlib.pmap_deadline(tight_case, tcs, ck.t0 + 0.15 * ck.budget)
    res, complete = vlib.pmap_deadline(case, items, ck.deadline - 45)
    stat, hashes, samples, notok = {}, set(), [], []
    byg = {}
    ub = 0
    for (label, a, build), o in res:
        stat[o["status"]] = stat.get(o["status"], 0) + 1
        ub += o.get("ub", 0)
        byg.setdefault((label.rsplit("/", 1)[0], build), []).append((label, a, o))
    compared = groups_done = 0
    for (gl, build), lst in byg.items():
        a0 = lst[0][1]
        bits = a0["bits"]
        tools = "tf=%s,ov=%s" % (a0["tf_level"], a0["enable_overlays"])
        ref = [x for x in lst if (x[1]["stride_extra"], x[1]["padbyte"], x[1]["lifetime"], x[1].get("stride_extra_cb", 0), x[1].get("stride_extra_cr", 0)) == (0, 0, "keep", 0, 0)]
        gl = "%s[%s build]" % (gl, build)
        for label, a, o in lst:
            if o["status"] == "asan":
                kind, fn, acc = o["asan"]
                ck.violation("C21:asan:%s@%s,%dbit,%s" % (kind, fn, bits, deviation_class(a)),
                             "AddressSanitizer %s (%s) in %s during/after svt_av1_enc_send_picture [%s]\n%s"
                             % (kind, acc, fn, label, o.get("asan_text", "")[:900]), {"part": "A", "args": a, "label": label, "build": build})
        if not ref or ref[0][2]["status"] != "ok":
            if len(notok) < 30:
                notok.append("baseline %s: %s" % (ref[0][2]["status"] if ref else "not run", gl))
            continue
        groups_done += 1
        robs = ref[0][2]["obs"]
        hashes.add(robs[1])
        for label, a, o in lst:
            if o["status"] == "ok":
                compared += 1
                if o["obs"] != robs:
                    what = "packets" if o["obs"][:2] != robs[:2] else "reconstruction only"
                    ck.violation("C21:output-differs@%dbit,%s,%s" % (bits, deviation_class(a), tools),
                                 "%s differ from the baseline (stride = width, padding 00, buffer kept): %s vs %s [%s]"
                                 % (what, o["obs"], robs, label), {"part": "A", "args": a, "ref_args": ref[0][1], "label": label, "build": build})
            elif o["status"] != "asan":
                # the baseline session completes, this one does not: the outcome depends on stride / padding / lifetime
                ck.violation("C21:session-%s@%dbit,%s,%s" % (o["status"], bits, deviation_class(a), tools),
                             "session ends as '%s' while the baseline (stride = width, padding 00, buffer kept) completes [%s]"
                             % (o["status"], label), {"part": "A", "args": a, "ref_args": ref[0][1], "label": label, "build": build})
        if len(samples) < 3:
            samples.append({"group": gl, "baseline": enc.describe(ref[0][1]), "variants_compared": sum(1 for x in lst if x[2]["status"] == "ok"),
                            "pkt_hash": robs[1]})
    tstat = {}
    tight_hashes = {}
    for (label, a), o in tres:
        tstat[o["status"]] = tstat.get(o["status"], 0) + 1
        if o["status"] == "asan":
            kind, fn, acc = o["asan"]
            ck.violation("C21:asan:%s@%s,%dbit,%s,tight-planes" % (kind, fn, a["bits"], "stride>width" if a["stride_extra"] else "stride=width"),
                         "AddressSanitizer %s (%s) in %s: the library reads beyond the last visible sample of a plane whose allocation ends "
                         "there [%s]\n%s" % (kind, acc, fn, label, o.get("asan_text", "")[:900]), {"part": "B", "args": a, "label": label})
        elif o["status"] == "ok":
            tight_hashes.setdefault((a["w"], a["h"], a["bits"], a["tf_level"], a["enable_overlays"]), set()).add(o["obs"])
    for k, hs in tight_hashes.items():
        if len(hs) > 1:
            ck.violation("C21:output-differs@%dbit,stride>width,tight-planes" % k[2], "packets depend on the stride for %s (tightly allocated planes)" % (k,),
                         {"part": "B", "args": {"w": k[0], "h": k[1], "bits": k[2], "tf_level": k[3], "enable_overlays": k[4]}, "label": "tight"})
    if len(samples) < 4 and tres:
        samples.append({"tight": tres[0][0][0], "status": tres[0][1]["status"]})
    cov = {"evaluations": len(res) + len(tres), "distinct_nontrivial": len(hashes) + len(tight_hashes),
           "rule": "part A: for each of %d groups (sizes %s x bit depth {8,10} x contents x tf_level/enable_overlays classes, 6 pictures, "
                   "hierarchical_levels 2) the complete product stride_extra %s x padbyte %s x lifetime %s is run (lifetime=free in the ASan "
                   "build, the others in the release build) and compared with the group's baseline of the same build; part B (ASan build): tightly allocated planes (one malloc block per plane ending at the last visible sample, "
                   "freed after send) for every size x bit depth x stride_extra x {tools off, on}; non-trivial = group whose baseline completes; "
                   "distinct = distinct baseline streams"
                   % (len(gs), list(SIZES), list(STRIDES_Q if tier == "quick" else STRIDES_T), list(PADS), list(LIFETIMES)),
           "samples": samples, "exhaustive": bool(complete and tcomplete), "enumerated": len(items) + len(tcs), "status_counts": stat,
           "tight_status_counts": tstat, "group_baselines_compared(group x build)": groups_done, "variant_sessions_compared": compared,
           "sessions_with_ubsan_reports_ignored": ub, "not_evaluable_examples": notok}
    return ck.finish(cov, ["UBSan reports of the same build are not C21's (C11 owns them); only AddressSanitizer reports count here",
                           "10-bit input is the unpacked 16-bit format (compressed_ten_bit_format=0); the compressed 2-bit-plane format is not driven",
                           "enable_overlays is silently disabled by the library for 10-bit input: the tf=1,ov=1 class then equals tf=1,ov=0",
                           "a session that crashes without an ASan report in the baseline too is not evaluable (C11)"])


def replay(path):
    d = json.load(open(path))["replay"]
    if d.get("part") == "B":
        o = tight_case((d["label"], d["args"]))
        print(json.dumps(o, indent=1))
        return 0 if o["status"] != "asan" else 1
    a = case((d["label"], d["args"], d.get("build", "asan")))
    print(json.dumps(a, indent=1))
    if a["status"] == "asan":
        return 1
    if "ref_args" in d:
        b = case(("ref", d["ref_args"], d.get("build", "asan")))
        print(a.get("obs"), b.get("obs"))
        return 0 if a.get("obs") == b.get("obs") and a["status"] == b["status"] else 1
    return 0


MUTANTS = {
    # the input picture is no longer extended to a multiple of 8 samples before padding: for widths like 66 / 70 the columns up to
    # the next multiple of 8 keep whatever copy_frame_buffer put there, i.e. the caller's stride padding
    "no-min-blk-padding": ("Source/Lib/Encoder/Codec/EbPictureAnalysisProcess.c",
                           "    pad_picture_to_multiple_of_min_blk_size_dimensions(scs_ptr, input_picture_ptr);\n    generate_padding(input_picture_ptr->buffer_y,",
                           "    generate_padding(input_picture_ptr->buffer_y,"),
    # the luma border is regenerated over half its width only: the outer half keeps the caller's stride padding (motion search may use it)
    "half-luma-border": ("Source/Lib/Encoder/Codec/EbPictureAnalysisProcess.c",
                         "            input_picture_ptr->origin_x,\n            input_picture_ptr->origin_y);\n\n    // PAD the bit inc buffer in 10bit\n"
                         "    if (scs_ptr->static_config.encoder_bit_depth > EB_8BIT)\n        if (input_picture_ptr->buffer_bit_inc_y)",
                         "            input_picture_ptr->origin_x / 2,\n            input_picture_ptr->origin_y);\n\n    // PAD the bit inc buffer in 10bit\n"
                         "    if (scs_ptr->static_config.encoder_bit_depth > EB_8BIT)\n        if (input_picture_ptr->buffer_bit_inc_y)"),
    # the caller's Cr plane pointer is cached across calls and the *previous* picture's plane address is read
    "stale-cr-pointer": ("Source/Lib/Encoder/Globals/EbEncHandle.c",
                         "        src = input_ptr->cr;\n        dst = input_picture_ptr->buffer_cr + chroma_buffer_offset;\n"
                         "        for (unsigned i = 0; i < source_chroma_height; i++) {\n            svt_memcpy(dst, src, source_cr_stride);",
                         "        { static uint8_t *late_cr; src = late_cr ? late_cr : input_ptr->cr; late_cr = input_ptr->cr; }\n"
                         "        dst = input_picture_ptr->buffer_cr + chroma_buffer_offset;\n"
                         "        for (unsigned i = 0; i < source_chroma_height; i++) {\n            svt_memcpy(dst, src, source_cr_stride);"),
}


def demo(which="stale-cr-pointer", sizes=((66, 66),)):
    """Detection demonstration on a mutant encoder (both builds): returns the violation keys part A produces per group."""
    rel, find, repl = MUTANTS[which]
    os.environ["C21_ENCDRV_ASAN"] = s2_mut.build_mutant_encdrv("asan", "c21_" + which.replace("-", "_"), rel, find, repl)
    os.environ["C21_ENCDRV_REL"] = s2_mut.build_mutant_encdrv("rel", "c21_" + which.replace("-", "_"), rel, find, repl)
    out = []
    try:
        for gl, base in groups("quick"):
            if (base["w"], base["h"]) not in sizes or base["tf_level"] != 0:
                continue
            items = group_items(gl, base, variants("quick"))
            res = vlib.pmap(case, items)
            keys = {}
            refs = {}
            for (l, a, b), o in zip(items, res):
                if (a["stride_extra"], a["padbyte"], a["lifetime"], a.get("stride_extra_cb", 0), a.get("stride_extra_cr", 0)) == (0, 0, "keep", 0, 0):
                    refs[b] = o
            for (l, a, b), o in zip(items, res):
                ref = refs[b]
                if o["status"] == "asan":
                    k = "C21:asan:%s@%s,%dbit,%s" % (o["asan"][0], o["asan"][1], a["bits"], deviation_class(a))
                elif o["status"] == "ok" and ref["status"] == "ok" and o["obs"] != ref["obs"]:
                    k = "C21:output-differs@%dbit,%s" % (a["bits"], deviation_class(a))
                elif o["status"] != "ok":
                    k = "C21:session-%s" % o["status"]
                else:
                    continue
                keys[k] = keys.get(k, 0) + 1
            out.append((gl, {b: r["status"] for b, r in refs.items()}, keys))
    finally:
        del os.environ["C21_ENCDRV_ASAN"]
        del os.environ["C21_ENCDRV_REL"]
    return out
