"""C22: arbitrarily long streams stay correct across order-hint and queue wrap-around (DESIGN.md 4/C22).

(a) Helpers, exhaustive over their whole domain: every definition of get_relative_dist* found in the current tree (static copies
    extracted textually, non-static ones linked; lib/s2_c22.py + src/s2_relhint.c) for enable_order_hint {0,1} x order_hint_bits
    1..8 x all (a,b) in [0,2^bits)^2 against the AV1 specification formula.
(b) Streams whose length straddles the order-hint period (128) and its multiples, and (thorough) the depth of the encoder's
    circular reorder queues (2048) and its multiples, for six (hierarchical_levels, intra_period_length) shapes at 64x64 preset 8.
    Oracle on each: one packet per picture in order with pts k and dts = pts, EOS flag on the last packet only, decodable by libaom
    and dav1d with identical output, decoded picture count = N, encoder recon = decoded pictures, and the order hint of the frame
    displayed by packet k (coded or shown through show_existing_frame) = k mod 2^OrderHintBits.
(c) Length scan over the mini-GOP structure: hierarchical_levels 0..5 x lengths {33,65,97,129,161} (1..5 mini-GOPs of the deepest
    hierarchy, +1) under the controlled scheduler, so that 'the longer stream never completes' is decided by deadlock detection
    (all threads blocked) instead of a timeout; same oracle as (b) on the streams that complete.
"""
import json
import os

import enc
import hdr_dump
import obu
import s2_c22
import s2_mut
import streams
import vlib

PID = "C22"
SHAPES = ((0, -1), (3, -1), (4, 63), (4, 127), (4, 128), (3, 255))
LEN_Q = (127, 128, 129, 130, 255, 256, 257, 300)
LEN_T = (2047, 2048, 2049, 2100, 4095, 4096, 4097, 5001, 8192)   # 8192 = capacity of the driver's packet table
LEN_SCAN = (33, 65, 97, 129, 161)
EXPECTED_COPIES = ("Source/Lib/Common/Codec/EbInterPrediction.c:get_relative_dist_enc",
                   "Source/Lib/Decoder/Codec/EbDecUtils.h:get_relative_dist",
                   "Source/Lib/Encoder/Codec/EbAdaptiveMotionVectorPrediction.c:get_relative_dist",
                   "Source/Lib/Encoder/Codec/EbModeDecisionConfigurationProcess.c:get_relative_dist",
                   "Source/Lib/Encoder/Codec/EbPictureDecisionProcess.c:get_relative_dist")


def cases_for(tier):
    lens = LEN_Q + (2049,) if tier == "quick" else LEN_T + LEN_Q
    cs = []
    for n in sorted(lens, reverse=True):   # longest first: the 5001-picture sessions bound the wall time
        for hl, ip in SHAPES:
            cs.append(("hl=%d,ip=%d/n=%d" % (hl, ip, n),
                       {"w": 64, "h": 64, "n": n, "content": "grad", "enc_mode": 8, "hierarchical_levels": hl, "intra_period_length": ip,
                        "recon_enabled": 1, "qp": 30}))
    for hl in range(0, 6):
        for n in LEN_SCAN:
            cs.append(("sched:hl=%d,ip=-1/n=%d" % (hl, n),
                       {"w": 64, "h": 64, "n": n, "content": "grad", "enc_mode": 8, "hierarchical_levels": hl, "intra_period_length": -1,
                        "recon_enabled": 1, "qp": 30}))
    return cs


def case(item):
    label, a = item
    pre = streams.prefix_for("c22")
    n = int(a["n"])
    sched = label.startswith("sched:")
    tmo = 600 if sched else 60 + n // 4   # ~20x the unloaded time (12 ms per picture)
    o = {"label": label, "status": "ok", "viol": [], "info": {}}
    try:
        exe = os.environ.get("C22_ENCDRV") if not sched else None
        r = s2_mut.run_exe(exe, a, out=pre, timeout=tmo) if exe else enc.session(a, "rel", sched=sched, out=pre, timeout=tmo)
        st = hdr_dump.session_status(r)
        if st == "timeout":   # wall-clock limit on a possibly overloaded machine: one more run with four times the limit before it counts
            r = s2_mut.run_exe(exe, a, out=pre, timeout=4 * tmo) if exe else enc.session(a, "rel", sched=sched, out=pre, timeout=4 * tmo)
            st = hdr_dump.session_status(r)
            o["info"]["timeout_reruns"] = 1
        shape = label.split("/")[0].replace("sched:", "")
        if st in ("timeout", "incomplete", "crash", "deadlock") and n > 0:
            # is it the length or the shape?  (shapes that cannot complete at all belong to C03/C11)
            short = dict(a)
            short["n"] = 17 if sched else 40
            rs = s2_mut.run_exe(exe, short, timeout=120) if exe else enc.session(short, "rel", sched=sched, timeout=300)
            if hdr_dump.session_status(rs) is None:
                o["viol"].append(("C22:long-stream-%s@%s" % (st, shape),
                                  "session of %d pictures ends as '%s'%s while the same configuration completes with %d pictures"
                                  % (n, st, " (controlled scheduler: every thread blocked)" if st == "deadlock" else "", short["n"])))
            o["status"] = st
            return o
        if st:
            o["status"] = st
            return o
        v = []
        pk = r["pk"]
        if r["npk"] != n:
            v.append(("packet-count", "%d pictures submitted, %d packets delivered" % (n, r["npk"])))
        bad = [k for k, p in enumerate(pk) if p[1] != k]
        if bad:
            v.append(("pts-order", "packet %d carries pts %d (first of %d out of order)" % (bad[0], pk[bad[0]][1], len(bad))))
        bad = [k for k, p in enumerate(pk) if p[2] != p[1]]
        if bad:
            v.append(("dts", "packet %d: dts %d != pts %d" % (bad[0], pk[bad[0]][2], pk[bad[0]][1])))
        eos = [k for k, p in enumerate(pk) if p[3] & 1]
        if eos != [len(pk) - 1]:
            v.append(("eos-flag", "EOS flag on packets %s of %d" % (eos[:5], len(pk))))
        if r["completed"] & 2:
            v.append(("packet-after-eos", "a packet was delivered after the EOS packet"))
        if r["nrc"] != n or sorted(x[0] for x in r["rc"]) != list(range(n)):
            v.append(("recon-count", "%d pictures submitted, %d recon pictures with pts set %s.." % (n, r["nrc"], sorted(x[0] for x in r["rc"])[:3])))
        rd = enc.refdec(pre)
        if rd.get("timeout") or rd.get("crash") or not rd.get("aom") or not rd.get("dav1d"):
            o["status"] = "refdec-failed"
            return o
        if rd["aom_err"]:
            v.append(("decode-error-libaom", "libaom error %d at TU %d: %s" % (rd["aom_err"], rd["aom_err_tu"], rd["aom_msg"])))
        if rd["d1_err"]:
            v.append(("decode-error-dav1d", "dav1d error %d at TU %d" % (rd["d1_err"], rd["d1_err_tu"])))
        if not rd["aom_err"] and not rd["d1_err"]:
            if rd["agree"] == 0:
                v.append(("decoders-disagree", "libaom and dav1d outputs differ from picture %d on" % rd["first_disagree"]))
            if rd["aom_frames"] != n or rd["d1_frames"] != n:
                v.append(("decoded-count", "%d pictures submitted, libaom outputs %d, dav1d %d" % (n, rd["aom_frames"], rd["d1_frames"])))
            elif rd["rec_mismatch"]:
                v.append(("recon-mismatch", "%d of %d recon pictures differ from the decoded pictures (first at display position %d)"
                          % (rd["rec_mismatch"], rd["nrec"], rd["first_rec_mismatch"])))
        # order hints of the displayed frames, from the bitstream itself
        wraps = sef = 0
        try:
            seq, rt = None, [None] * 8
            slot_oh = [None] * 8
            for k, pb in enumerate(enc.packets(pre)):
                tu = obu.parse_temporal_unit(pb, seq, rt)
                seq, rt = tu["seq"], tu["ref_types"]
                period = 1 << seq["OrderHintBits"]
                shown_oh = None
                for h in tu["frames"]:
                    if h.get("show_existing_frame"):
                        shown_oh = slot_oh[h["frame_to_show_map_idx"]]
                        sef += 1
                        if h.get("frame_type") == obu.KEY_FRAME:
                            slot_oh = [shown_oh] * 8
                    else:
                        for i in range(8):
                            if (h.get("refresh_frame_flags", 0) >> i) & 1:
                                slot_oh[i] = h["order_hint"]
                        if h.get("show_frame"):
                            shown_oh = h["order_hint"]
                if shown_oh != k % period:
                    v.append(("order-hint", "packet %d displays a frame with order_hint %s, expected %d mod %d = %d"
                              % (k, shown_oh, k, period, k % period)))
                    break
                if k and k % period == 0:
                    wraps += 1
        except (obu.ParseError, KeyError, IndexError, TypeError) as e:
            v.append(("tu-parse", "packet parse failed: %r" % (e,)))
        o["info"] = {"pictures": n, "order_hint_wraps": wraps, "show_existing_packets": sef,
                     "queue_wraps(2048)": (n - 1) // 2048}
        o["pkt_hash"] = r["pkt_hash"]
        seen = set()
        for k, m in v:
            if k not in seen:
                seen.add(k)
                o["viol"].append(("C22:%s@%s,%s" % (k, shape, "n>2048" if n > 2048 else "n>128" if n > 128 else "n<=128"), m))
        return o
    finally:
        enc.cleanup(pre)


def run(tier):
    ck = vlib.Check(PID, tier, "exploration")
    enc.tools("rel")
    enc.tools("rel", sched=True)
    # ---- (a)
    copies, hr = s2_c22.run_helpers()
    found = ["%s:%s" % (c[0], c[1]) for c in copies]
    for e in EXPECTED_COPIES:
        if e not in found:
            ck.violation("C22:helper-copy-not-found@" + e, "the definition %s was not found in the current tree by the extractor (moved or renamed?): "
                         "it is no longer covered" % e, {"part": "a"})
    helper_evals = 0
    helper_distinct = 0
    for c in hr["copies"]:
        helper_evals += c["evals"]
        helper_distinct = max(helper_distinct, c["distinct_results"])
        if c["bad"]:
            fb = c["first_bad"]
            ck.violation("C22:get_relative_dist-wrong@" + c["name"],
                         "%s: %d of %d results differ from the AV1 get_relative_dist; first: enable_order_hint=%d order_hint_bits=%d a=%d b=%d "
                         "returns %d, specification %d" % (c["name"], c["bad"], c["evals"], fb[0], fb[1], fb[2], fb[3], fb[4], fb[5]),
                         {"part": "a", "copy": c["name"]})
    # ---- (b)
    cases = cases_for(tier)
    res, complete = vlib.pmap_deadline(case, cases, ck.deadline - 150)
    stat, hashes, samples, notok, info = {}, set(), [], [], {}
    for (label, a), o in res:
        stat[o["status"]] = stat.get(o["status"], 0) + 1
        for k, v in (o.get("info") or {}).items():
            info[k] = info.get(k, 0) + v
        if o["status"] == "ok":
            hashes.add(o["pkt_hash"])
            if len(samples) < 3:
                samples.append({"case": label, "args": enc.describe(a), "pkt_hash": o["pkt_hash"], "info": o["info"]})
        elif len(notok) < 30:
            notok.append("%s: %s" % (o["status"], label))
        for key, msg in o["viol"]:
            ck.violation(key, "%s [%s]" % (msg, label), {"part": "b", "args": a, "label": label})
    samples.append({"helper": hr["copies"][0]["name"], "evals": hr["copies"][0]["evals"], "bad": hr["copies"][0]["bad"]})
    cov = {"evaluations": helper_evals + len(res), "distinct_nontrivial": helper_distinct + len(hashes),
           "rule": "(a) %d definitions of get_relative_dist* found in the tree x enable_order_hint {0,1} x order_hint_bits 1..8 x all (a,b) in "
                   "[0,2^bits)^2 (174760 evaluations each), distinct = distinct (bits, result) pairs; (b) stream lengths %s x (hierarchical_levels, "
                   "intra_period_length) %s at 64x64 preset 8, non-trivial = completed and decoded, distinct = distinct packet streams; (c) hierarchical_levels "
                   "0..5 x lengths %s under the controlled scheduler (deadlock detection)"
                   % (len(copies), sorted(LEN_Q + (2049,) if tier == "quick" else LEN_Q + LEN_T), list(SHAPES), list(LEN_SCAN)),
           "samples": samples, "exhaustive": bool(complete), "enumerated": helper_evals + len(cases), "status_counts": stat,
           "not_evaluable_examples": notok, "info": info, "helper_copies": found, "helper_evaluations": helper_evals,
           "helper_distinct_results": helper_distinct, "stream_sessions": len(res), "distinct_streams": len(hashes)}
    return ck.finish(cov, ["libaom 3.6 / dav1d 1.0 are conforming decoders (both must agree on every stream)",
                           "order_hint of the displayed frame = display position mod 2^OrderHintBits is this encoder's numbering (picture_number "
                           "mod 128), checked from the bitstream with lib/obu.py",
                           "the non-static get_relative_dist_enc is taken from libSvtAv1Enc.a (libSvtAv1Dec.a holds an object of the same source)",
                           "configurations that do not complete with 40 pictures either are not evaluable here (C03/C11 own them)"]
                     + ([] if tier == "thorough" else ["quick tier: lengths around the order-hint period and its double plus 2049 (one wrap of the "
                                                       "2048-deep reorder queues); the other lengths around 2048 and 5001 only in the thorough tier"]))


def replay(path):
    d = json.load(open(path))["replay"]
    if d.get("part") == "a":
        copies, hr = s2_c22.run_helpers()
        bad = [c for c in hr["copies"] if c["bad"]]
        print(json.dumps(hr, indent=1))
        return 1 if bad or len(copies) < len(EXPECTED_COPIES) else 0
    o = case((d["label"], d["args"]))
    print(json.dumps(o, indent=1))
    return 1 if o["viol"] else 0


PD_C = "Source/Lib/Encoder/Codec/EbPictureDecisionProcess.c"
MUTANTS = {
    "reldist-halfperiod": (PD_C, "    const int m = 1 << (bits - 1);\n", "    const int m = 1 << bits;\n"),
    "packetization-queue-mod256": ("Source/Lib/Encoder/Codec/EbPacketizationProcess.c",
                                   "pcs_ptr->parent_pcs_ptr->decode_order %\n            PACKETIZATION_REORDER_QUEUE_MAX_DEPTH;",
                                   "pcs_ptr->parent_pcs_ptr->decode_order %\n            256;"),
    "order-hint-mod64": (PD_C, "    parent_pcs_ptr->cur_order_hint = parent_pcs_ptr->picture_number % (uint64_t)(1 << (parent_pcs_ptr->scs_ptr->seq_header.order_hint_info.order_hint_bits));",
                         "    parent_pcs_ptr->cur_order_hint = parent_pcs_ptr->picture_number % (uint64_t)(1 << (parent_pcs_ptr->scs_ptr->seq_header.order_hint_info.order_hint_bits - 1));"),
}


def demo(which, lens=(129, 257, 300)):
    rel, find, repl = MUTANTS[which]
    out = {"mutant": which}
    path = s2_mut.mutate_source("c22_" + which.replace("-", "_"), rel, find, repl)
    os.environ["C22_SRC_OVERRIDE"] = "%s=%s" % (rel, path)
    try:
        copies, hr = s2_c22.run_helpers(tag="c22mut_" + which.replace("-", "_"))
        out["helpers"] = [(c["name"], c["bad"], c["first_bad"]) for c in hr["copies"] if c["bad"]]
    finally:
        del os.environ["C22_SRC_OVERRIDE"]
    os.environ["C22_ENCDRV"] = s2_mut.build_mutant_encdrv("rel", "c22_" + which.replace("-", "_"), rel, find, repl)
    try:
        items = [c for c in cases_for("quick") if c[1]["n"] in lens and not c[0].startswith("sched:")]
        res = vlib.pmap(case, items)
        out["streams"] = [(l, o["status"], [k for k, _ in o["viol"]]) for (l, a), o in zip(items, res)]
    finally:
        del os.environ["C22_ENCDRV"]
    return out
