"""C01: encoder recon == independent decode of its own bitstream (DESIGN.md section 4, C01)."""
import json

import cfgspace
import enc
import streams

PID = "C01"


def classify(label, a, kind, rd):
    cfg = label.split("/")[0]
    if kind == "recon-mismatch" and int(a.get("is_16bit_pipeline", 0)) == 1 and int(a.get("encoder_bit_depth", 8)) == 8:
        return "C01:recon-mismatch@is_16bit_pipeline=1,8bit-input"
    if int(a.get("over_bndry_blk", -1)) == 0 and streams.not_mult64(a) and kind.startswith(("decode-error", "recon-mismatch")):
        return "C01:corrupt-stream@over_bndry_blk=0,size-not-multiple-of-64"
    if (int(a.get("w", 64)) % 128 == 64 and int(a.get("h", 64)) % 128 == 64 and int(a.get("enc_mode", 8)) <= 4 and int(a.get("enable_tpl_la", 1)) == 0
            and int(a.get("w", 64)) > 128 and int(a.get("h", 64)) > 128 and kind.startswith(("decode-error", "recon-mismatch"))):
        return "C01:corrupt-stream@128x128-superblocks,width-and-height-end-midway-through-a-superblock,preset<=4,tpl=0"
    return "C01:%s@%s" % (kind, cfg)


def case(item):
    label, a = item
    pre = streams.prefix_for("c01")
    r = enc.session(a, "rel", out=pre)
    out = {"label": label, "status": "ok", "viol": []}
    try:
        if r.get("timeout") or (r.get("parsed") and enc.accepted(r) and not (r.get("completed", 0) & 1)):
            out["status"] = "incomplete"
            return out
        if not r.get("parsed"):
            out["status"] = "crash"
            return out
        if not enc.accepted(r):
            out["status"] = "rejected"
            return out
        rd = enc.refdec(pre)
        out["pkt_hash"] = r["pkt_hash"]
        if rd.get("timeout") or rd.get("crash"):
            out["status"] = "refdec-failed"
            return out
        v = []
        if rd["aom"] and rd["aom_err"]:
            v.append(("decode-error-libaom", "libaom error %d at TU %d: %s" % (rd["aom_err"], rd["aom_err_tu"], rd["aom_msg"])))
        if rd["dav1d"] and rd["d1_err"]:
            v.append(("decode-error-dav1d", "dav1d error %d at TU %d" % (rd["d1_err"], rd["d1_err_tu"])))
        nref = rd["aom_frames"] if rd["aom"] else rd["d1_frames"]
        if not v and rd["agree"] == 0:
            out["status"] = "refdecs-disagree"
            return out
        if not v and nref != r["npk"]:
            v.append(("frame-count", "%d packets decode to %d pictures" % (r["npk"], nref)))
        if not v and rd["nrec"] != r["npk"]:
            v.append(("recon-count", "%d packets but %d recon pictures" % (r["npk"], rd["nrec"])))
        if not v and rd["rec_mismatch"]:
            v.append(("recon-mismatch", "%d of %d recon pictures differ from the decoded pictures (first at display position %d)"
                      % (rd["rec_mismatch"], rd["nrec"], rd["first_rec_mismatch"])))
        out["viol"] = [(classify(label, a, k, rd), m) for k, m in v]
        return out
    finally:
        enc.cleanup(pre)


def cases_for(tier):
    cs = streams.bound01() + streams.sizes_lengths() + streams.big_tiles(tier == "thorough") + streams.tile_grids(tier == "thorough") + streams.sb128_corners(tier == "thorough") + streams.profile_depth() + streams.palette_blocks(tier == "thorough")
    if tier == "thorough":
        cs += streams.bound01(sizes=((66, 66),), contents=("noise", "flat"))
        cs += streams.cross_depth_sb_pipe_preset()
        cs += streams.bound2(sorted(cfgspace.DOMAINS))
    return cs


def run(tier):
    return streams.run_stream_check(
        PID, tier, cases_for(tier), case,
        "encdrv sessions over deviation bounds 0/1%s of the configuration table x sizes x contents x lengths; "
        "non-trivial = accepted, completed and decoded; distinct = distinct packet-stream hashes"
        % ("/2" if tier == "thorough" else ""),
        ["libaom 3.6 / dav1d 1.0 are conforming decoders (hand-declared ABI validated by agreement of both on every stream)",
         "sessions that crash, do not complete or are rejected are not evaluable here (owned by C11 / C12)"],
        extra_cov={"oracle": "libaom + dav1d decode every stream; recon compared by display position"})


def replay(path):
    d = json.load(open(path))
    o = case((d["replay"]["label"], d["replay"]["args"]))
    print(json.dumps(o, indent=1))
    return 1 if o["viol"] else 0
