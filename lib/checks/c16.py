"""C16: allocation and OS-resource failures are reported and unwound cleanly (DESIGN.md 4/C16) - single-fault enumeration.

For the set-up sequence of an encoder (init_handle, set_parameter, init, deinit, deinit_handle) and a decoder session
(... init, first dec_frame, deinit, deinit_handle) every fault point k (malloc/calloc/realloc/posix_memalign/pthread_create/
sem_init/pthread_mutex_init/pthread_cond_init called from library code) is failed once, in a forked ASan+LSan child."""
import collections
import json
import os
import re
import subprocess

import enc
import vlib

PID = "C16"
WRAPS = ["malloc", "calloc", "realloc", "posix_memalign", "pthread_create", "sem_init", "pthread_mutex_init", "pthread_cond_init"]
LD = "-Wl," + ",".join("--wrap=" + w for w in WRAPS)
PHASE = {0: "init_handle", 1: "set_parameter", 2: "init", 5: "dec_frame", 3: "deinit", 4: "deinit_handle"}
ENV = {"SVT_LOG": "-2", "ASAN_OPTIONS": "detect_leaks=1:halt_on_error=1:exitcode=77:symbolize=1:fast_unwind_on_malloc=1", "UBSAN_OPTIONS": "halt_on_error=0",
       "LSAN_OPTIONS": "exitcode=77:max_leaks=3"}
_exe = None
_tu = None


def count(side):
    p = subprocess.run([_exe, "count", side, _tu], stdout=subprocess.PIPE, stderr=subprocess.PIPE, env=dict(os.environ, **dict(ENV, ASAN_OPTIONS="detect_leaks=0")))
    pts = []
    total = 0
    for l in p.stdout.decode("latin1").split("\n"):
        t = l.split()
        if t and t[0] == "POINT":
            pts.append((int(t[1]), int(t[2]), t[3], t[4]))
        elif t and t[0] == "TOTAL":
            total = int(t[1])
    return total, pts


def first_leak_site(err):
    m = re.search(r"(Direct|Indirect) leak of \d+ byte", err)
    if not m:
        return None
    tail = err[m.start():]
    for fm in re.finditer(r"#\d+ 0x[0-9a-f]+ in (\S+)", tail):
        f = fm.group(1)
        if not f.startswith(("__", "malloc", "calloc", "realloc", "posix_memalign", "__interceptor", "__wrap")):
            return f
    return "?"


def shard(item, alarm_s=60):
    side, ks, errdir = item
    os.makedirs(errdir, exist_ok=True)
    p = subprocess.run([_exe, "run", side, errdir, _tu], input="".join("%d\n" % k for k in ks).encode(), stdout=subprocess.PIPE, stderr=subprocess.PIPE,
                       env=dict(os.environ, FAULTINJ_ALARM_S=str(alarm_s), **ENV))
    out = []
    for l in p.stdout.decode("latin1").split("\n"):
        t = l.split()
        if not t:
            continue
        if t[0] == "RESULT":
            k = int(t[1])
            rcs = [int(x) for x in t[5:11]]
            out.append({"k": k, "fired": int(t[3]), "rcs": rcs, "tasks": int(t[12])})
        elif t[0] == "DIED":
            k = int(t[1])
            errf = os.path.join(errdir, "err.%d" % k)
            err = open(errf, errors="replace").read()[-20000:] if os.path.exists(errf) else ""
            try:
                os.unlink(errf)
            except OSError:
                pass
            res = {"k": k, "died": " ".join(t[2:])}
            site = enc.sanitizer_site(err)
            if "LeakSanitizer" in err and not (site and site[0].startswith("asan:") and "leak" not in site[0]):
                res["leak"] = first_leak_site(err)
            elif site:
                res["site"] = site
            # a preceding RESULT line of the same child (leak detected at exit) carries the return codes
            out.append(res)
    return out


def run(tier):
    global _exe, _tu
    ck = vlib.Check(PID, tier, "fault_enumeration")
    _exe = vlib.cc_harness("asan", "faultinj_h", ["faultinj_h.c"], enc=True, dec=True, extra_ldflags=LD)
    wd = vlib.workdir("c16")
    pre = os.path.join(wd, "tu")
    enc.session({"w": 64, "h": 64, "n": 1}, out=pre)
    _tu = pre + ".obu"
    plan = []
    info = {}
    for side in ("dec", "enc"):
        total, pts = count(side)
        ctx = collections.defaultdict(list)
        for k, ph, kind, h in pts:
            ctx[(ph, kind, h)].append(k)
        if tier == "thorough" or side == "dec":
            ks = [k for k, _, _, _ in pts]
        else:
            ks = sorted({v[i] for v in ctx.values() for i in (0, -1)})
        info[side] = {"fault_points": total, "contexts": len(ctx), "planned": len(ks), "ctx_of": {k: (ph, kind) for k, ph, kind, _ in pts}}
        # thorough: order so that every context is hit early (first/middle/last), then the rest
        if tier == "thorough" and side == "enc":
            pri = sorted({v[i] for v in ctx.values() for i in (0, len(v) // 2, -1)})
            rest = [k for k in ks if k not in set(pri)]
            ks = pri + rest
        for i in range(0, len(ks), 40):
            plan.append((side, ks[i:i + 40], os.path.join(wd, "e%s%d" % (side, i))))
    res, complete = vlib.pmap_deadline(shard, plan, ck.deadline - 30)
    done = 0
    # a child stopped by the 60 s wall-clock guard (signal 14) is run again, alone, with a 15 min guard before it counts as a hang
    reruns = 0
    for idx, ((side, ks, errdir), results) in enumerate(res):
        late = [r["k"] for r in results if r.get("died") == "signal 14"]
        for k in late:
            if reruns >= 8:
                break
            reruns += 1
            again = shard((side, [k], errdir + "r"), alarm_s=900)
            results[:] = [r for r in results if r["k"] != k] + again
    reported = 0
    outcomes = collections.Counter()
    samples = []
    for (side, ks, _), results in res:
        byk = collections.defaultdict(dict)
        for r in results:
            byk[r["k"]].update(r)
        for k, r in byk.items():
            done += 1
            ph, kind = info[side]["ctx_of"].get(k, (-1, "?"))
            where = "%s:%s@%s" % (side, kind, PHASE.get(ph, ph))
            rep = {"side": side, "k": k, "phase": PHASE.get(ph, ph), "kind": kind}
            if "site" in r:
                outcomes["crash"] += 1
                ck.violation("C16:%s@%s" % (r["site"][0], r["site"][1]), "failing fault point %d (%s) crashes: %s in %s" % (k, where, r["site"][0], r["site"][1]), rep)
                continue
            if "died" in r and "leak" not in r:
                outcomes["crash"] += 1
                ck.violation("C16:crash:%s@%s" % (r["died"].replace(" ", ""), where), "failing fault point %d (%s): child %s" % (k, where, r["died"]), rep)
                continue
            if "rcs" in r and r["fired"] >= 0:
                idx = {0: 0, 1: 1, 2: 2, 5: 3, 3: 4, 4: 5}[r["fired"]]
                if r["rcs"][idx] == 0:
                    outcomes["swallowed"] += 1
                    ck.violation("C16:failure-not-reported@%s" % where, "fault point %d (%s) fails but %s returns EB_ErrorNone" % (k, where, PHASE.get(r["fired"])), rep)
                else:
                    reported += 1
                    outcomes["reported"] += 1
                if r["tasks"] != 1:
                    ck.violation("C16:thread-left@%s" % where, "fault point %d (%s): %d threads alive after teardown" % (k, where, r["tasks"]), rep)
            elif "rcs" in r:
                outcomes["not-reached"] += 1
            if "leak" in r:
                outcomes["leak"] += 1
                ck.violation("C16:leak@%s" % r["leak"], "fault point %d (%s): memory allocated in %s is not released by deinit/deinit_handle" % (k, where, r["leak"]), rep)
            if len(samples) < 4 and "rcs" in r:
                samples.append({"side": side, "k": k, "where": where, "return_codes": r["rcs"]})
    for side in info:
        info[side].pop("ctx_of")
    cov = {"evaluations": done, "distinct_nontrivial": max(reported, 0), "rule": "fail exactly the k-th fault point of the session; quick: first and last dynamic "
           "occurrence of every distinct allocation context (phase, kind, 6 innermost return addresses) of the encoder and every k of the decoder; thorough: every k; "
           "distinct_nontrivial = faults that were reported by the failing API call as an error code", "samples": samples, "exhaustive": bool(complete),
           "sessions": info, "outcomes": dict(outcomes), "watchdog_reruns": reruns}
    return ck.finish(cov, ["only calls made from library code are fault points (link-time interposition); kernel/libc-internal failures are not modelled",
                           "encoder session 64x64 lp 1 hl 2 (init, no pictures); decoder session with one temporal unit"])


def replay(path):
    global _exe, _tu
    d = json.load(open(path))["replay"]
    _exe = vlib.cc_harness("asan", "faultinj_h", ["faultinj_h.c"], enc=True, dec=True, extra_ldflags=LD)
    wd = vlib.workdir("c16r")
    pre = os.path.join(wd, "tu")
    enc.session({"w": 64, "h": 64, "n": 1}, out=pre)
    _tu = pre + ".obu"
    print(shard((d["side"], [d["k"]], os.path.join(wd, "e"))))
    return 1
