"""C17: concurrent encoder and decoder instances do not interfere (DESIGN.md 4/C17).

Two instances live in one process (both static libraries linked together); each runs a 7-step session script (create, configure,
init, feed, drain, deinit, destroy).  ALL interleavings of the two scripts at API-call granularity (C(14,7) = 3432) are executed
under the controlled scheduler; each instance's output must equal its solo run."""
import itertools
import json
import os
import subprocess

import enc
import schedlib
import vlib

PID = "C17"
_exe = None


def pairs(tier, decpre, decpre2):
    E0 = "enc:w=64,h=64,n=3"
    P = [
        ("enc+enc-sb128-preset4", "enc:w=128,h=128,n=2", "enc:w=128,h=128,n=2,enc_mode=4"),
        ("dec+dec-same-stream", "dec:" + decpre, "dec:" + decpre),
        ("enc+dec", E0, "dec:" + decpre),
    ]
    # one pair per configuration dimension that process-wide lazily built state could be keyed by (bit depth, preset class, kernel set,
    # resolution); ':light' pairs run the 16 block-structured interleavings (each instance's calls in one or two blocks, strict alternation)
    E1 = "enc:w=64,h=64,n=3,enable_tpl_la=0,qp=38"
    P += [("enc+enc-8bit-10bit-notpl:light", E1, E1 + ",encoder_bit_depth=10"),
          ("enc+enc-preset8-preset5:light", E0, "enc:w=64,h=64,n=3,enc_mode=5"),
          ("enc+enc-c-only-kernels:light", E0, "enc:w=64,h=64,n=3,use_cpu_flags=0"),
          ("enc+enc-resolution:light", E0, "enc:w=144,h=112,n=3"),
          ("enc+enc-vbr-8bit-10bit:light", "enc:w=64,h=64,n=3,rate_control_mode=1,target_bit_rate=100000", "enc:w=64,h=64,n=3,rate_control_mode=1,target_bit_rate=100000,encoder_bit_depth=10")]
    if tier == "thorough":
        P += [("enc+enc-identical", E0, E0), ("enc+enc-10bit", E0, "enc:w=64,h=64,n=3,encoder_bit_depth=10"),
              ("enc+enc-c-only-kernels", E0, "enc:w=64,h=64,n=3,use_cpu_flags=0"),
              ("enc+enc-lp4-128x128", E0, "enc:w=128,h=128,n=3,logical_processors=4"),
              ("enc+enc-resolution", E0, "enc:w=144,h=112,n=3"),
              ("dec+dec-different-streams", "dec:" + decpre, "dec:" + decpre2),
              ("dec+dec-threads3", "dec:" + decpre, "dec:" + decpre2 + ",threads=3")]
    return P


def light_scripts():
    out = {"A" * 7 + "B" * 7, "B" * 7 + "A" * 7, "AB" * 7, "BA" * 7}
    for k in range(1, 7):
        out.add("A" * k + "B" * 7 + "A" * (7 - k))
        out.add("B" * k + "A" * 7 + "B" * (7 - k))
    return sorted(out)


def scripts():
    out = []
    for pos in itertools.combinations(range(14), 7):
        s = ["B"] * 14
        for p in pos:
            s[p] = "A"
        out.append("".join(s))
    return out


def run_script(item, timeout=120):
    name, a, b, script = item
    en = dict(os.environ)
    en["SVT_LOG"] = "-2"
    try:
        p = subprocess.run([_exe, "script=" + script, "a=" + a, "b=" + b], stdout=subprocess.PIPE, stderr=subprocess.PIPE, env=en, timeout=timeout)
    except subprocess.TimeoutExpired:
        # under the scheduler a hang is a detected deadlock; a wall-clock timeout gets one more run with a much longer limit
        return run_script(item, 900) if timeout == 120 else {"timeout": True}
    try:
        d = json.loads(p.stdout.decode("latin1").strip().split("\n")[-1])
        if isinstance(d, dict):
            return {"deadlock": True, "detail": d, "rc": p.returncode}
        return {"insts": d, "rc": p.returncode}
    except Exception:
        return {"crash": True, "rc": p.returncode, "stderr": p.stderr[-300:].decode("latin1")}


def tsan_pass(ck, pairs_):
    """free-running race detector run: two application threads, one session each, truly concurrent.  A data race whose
    location is a process global (or whose two accesses come from different instances) is unsynchronised shared mutable state."""
    import re
    exe = vlib.cc_harness("tsan", "multi_t", ["multi_h.c", "vs_stub.c"], enc=True, dec=True)
    out = []
    for name, a, b in pairs_:
        en = dict(os.environ)
        en.update({"SVT_LOG": "-2", "TSAN_OPTIONS": "halt_on_error=0:report_signal_unsafe=0:exitcode=0"})
        try:
            p = subprocess.run([exe, "par=1", "a=" + a, "b=" + b], stdout=subprocess.PIPE, stderr=subprocess.PIPE, env=en, timeout=900)
        except subprocess.TimeoutExpired:
            out.append({"pair": name, "not_completed": "race-detector run exceeded 900 s (free-running, wall clock): nothing reported for this pair"})
            continue
        err = p.stderr.decode("latin1")
        reports = err.split("WARNING: ThreadSanitizer: data race")[1:]
        groups = {}
        for r in reports:
            g = re.search(r"Location is global '([^']+)'", r)
            if not g:
                continue
            sym = g.group(1)
            if re.match(r"blk_geom_(mds|dps)$", sym):
                grp = "block-geometry-tables"
            elif sym in ("lp_group", "num_groups", "group_affinity", "alternate_groups"):
                grp = "thread-affinity-globals"
            elif sym.startswith("g_log_"):
                grp = "log-globals"
            elif sym.startswith(("svt_", "eb_", "highbd_", "aom_")) or "first_call_setup" in sym or sym in (
                    "pred_high", "dc_pred", "dc_pred_high", "dc_pred_c", "highbd_dc_pred_c", "convolve", "convolveHbd", "pred", "eb_pred"):
                grp = "dispatch-tables"
            else:
                grp = sym
            groups.setdefault(grp, set()).add(sym)
        # Which of the init-time writers a free-running run happens to catch varies from run to run (1 to ~60 symbols in six runs of the same
        # pair), so the finding is keyed by what all of them are: process-global state written by every instance's init without synchronisation.
        # The groups seen in this run are listed in the message and in the evidence.
        if groups:
            nsym = sum(len(v) for v in groups.values())
            ck.violation("C17:race@process-global-state-written-at-init",
                         "data races between the two instances on process-global state (%d symbols in this run; groups: %s) [pair %s]"
                         % (nsym, "; ".join("%s (%s)" % (g, ", ".join(sorted(v)[:3])) for g, v in sorted(groups.items())[:8]), name),
                         {"pair": name, "a": a, "b": b, "tsan": 1})
        writers = groups
        out.append({"pair": name, "race_reports": len(reports), "reports_on_globals": sum(len(v) for v in writers.values()), "global_groups": sorted(writers)})
    return out


def obs(i):
    return (tuple(i["rcs"]), i["npk"], i["pkt_hash"], i["nrc"], i["rec_hash"], i["npic"], i["pic_hash"])


def run(tier):
    global _exe
    ck = vlib.Check(PID, tier, "model_checking")
    _exe = vlib.cc_harness("rel", "multi_h", ["multi_h.c"], plain_sources=["sched.c"], enc=True, dec=True, extra_ldflags=schedlib.WRAP_LD)
    wd = vlib.workdir("c17")
    d1, d2 = os.path.join(wd, "d1"), os.path.join(wd, "d2")
    enc.session({"w": 64, "h": 64, "n": 4, "hierarchical_levels": 0}, out=d1)
    enc.session({"w": 128, "h": 64, "n": 3, "hierarchical_levels": 0, "enc_mode": 6, "enable_restoration_filtering": 0}, out=d2)
    allscripts = scripts()
    per, samples = [], []
    states = trans = execs = 0
    exhaustive = True
    plist = pairs(tier, d1, d2)
    plist.sort(key=lambda p: 0 if p[0].endswith(":light") else 1)
    for pi, (name, a, b) in enumerate(plist):
        left = ck.time_left() - 20
        if left < 15:
            exhaustive = False
            break
        solo_a = run_script((name, a, b, "AAAAAAA"))
        solo_b = run_script((name, a, b, "BBBBBBB"))
        if "insts" not in solo_a or "insts" not in solo_b:
            ck.violation("C17:solo-run-fails@" + name, "%s / %s" % (str(solo_a)[:150], str(solo_b)[:150]), {"pair": name, "a": a, "b": b, "script": "AAAAAAA"})
            continue
        ra, rb = obs(solo_a["insts"][0]), obs(solo_b["insts"][1])
        scr = allscripts if not name.endswith(":light") else light_scripts()
        items = [(name, a, b, s) for s in scr]
        res, complete = vlib.pmap_deadline(run_script, items, ck.t0 + (ck.budget - 20) * (pi + 1) / len(plist))
        if not complete:
            exhaustive = False
        kinds = {}
        for it, r in res:
            rep = {"pair": name, "a": a, "b": b, "script": it[3]}
            execs += 1
            trans += 14
            if r.get("timeout"):
                k, msg = "timeout", "script %s exceeds the watchdog" % it[3]
            elif r.get("deadlock"):
                k, msg = "deadlock", "script %s: %s" % (it[3], json.dumps(r["detail"])[:200])
            elif r.get("crash"):
                k, msg = "crash", "script %s: process ends with status %s %s" % (it[3], r["rc"], r["stderr"][-150:].replace("\n", " "))
            else:
                oa, ob = obs(r["insts"][0]), obs(r["insts"][1])
                if any(oa[0]) or any(ob[0]):
                    k, msg = "error-code", "script %s: return codes A=%s B=%s" % (it[3], oa[0], ob[0])
                elif oa != ra or ob != rb:
                    who = "A" if oa != ra else "B"
                    k, msg = "output-differs", "script %s: instance %s yields %s, alone it yields %s" % (it[3], who, (oa if who == "A" else ob)[1:], (ra if who == "A" else rb)[1:])
                else:
                    k = None
            kinds[k] = kinds.get(k, 0) + 1
            if k:
                ck.violation("C17:%s@%s" % (k, name), msg, rep)
        states += len(res)
        per.append({"pair": name, "a": a, "b": b, "interleavings_executed": len(res), "of": len(scr), "outcomes": {str(k): v for k, v in kinds.items()}})
        samples.append({"pair": name, "script": allscripts[len(allscripts) // 2]})
    tsan = []
    if ck.time_left() > 60:
        E0 = "enc:w=64,h=64,n=2"
        tp = [("enc+enc-identical", E0, E0), ("enc+enc-sb128-preset4", "enc:w=128,h=128,n=2", "enc:w=128,h=128,n=2,enc_mode=4")]
        if tier == "thorough":
            tp += [("enc+enc-c-only-kernels", E0, "enc:w=64,h=64,n=2,use_cpu_flags=0"), ("enc+dec", E0, "dec:" + d1)]
        tsan = tsan_pass(ck, tp if tier == "thorough" else tp[:1])
    cov = {"states": states, "transitions": trans, "tsan_concurrent_runs": tsan, "traces_validated_against_impl": execs, "samples": samples or [{"pair": "none"}], "exhaustive": exhaustive,
           "pairs": per,
           "explanation": "for each instance pair every one of the C(14,7)=3432 interleavings of the two 7-step API scripts is executed on the real libraries in one "
                          "process under the controlled scheduler (library threads follow the canonical schedule); 'states' = interleavings executed"}
    return ck.finish(cov, ["API calls of the two instances are serialised (one application thread); overlapping API calls are not explored",
                           "unsynchronised shared state: observable effects over all API-level interleavings, plus one free-running ThreadSanitizer run per encoder pair (races located in process globals)"])


def replay(path):
    global _exe
    d = json.load(open(path))["replay"]
    _exe = vlib.cc_harness("rel", "multi_h", ["multi_h.c"], plain_sources=["sched.c"], enc=True, dec=True, extra_ldflags=schedlib.WRAP_LD)
    wd = vlib.workdir("c17r")
    d1, d2 = os.path.join(wd, "d1"), os.path.join(wd, "d2")
    enc.session({"w": 64, "h": 64, "n": 4, "hierarchical_levels": 0}, out=d1)
    enc.session({"w": 128, "h": 64, "n": 3, "hierarchical_levels": 0, "enc_mode": 6, "enable_restoration_filtering": 0}, out=d2)
    a = d["a"].replace("/c17/", "/c17r/")
    b = d["b"].replace("/c17/", "/c17r/")
    r = run_script((d["pair"], a, b, d["script"]))
    print(json.dumps(r)[:1500])
    return 1
