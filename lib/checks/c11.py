"""C11: encoding never corrupts memory, hits undefined behaviour or hangs (DESIGN.md 4/C11).

Sessions run in the ASan+UBSan build (UBSan: signed overflow, shift exponent, div by zero, float cast, bounds, unreachable,
missing return).  lp 1 sessions run under the controlled scheduler (hangs = deadlocks, decided exactly); lp 4 sessions run
free with a watchdog."""
import json

import cfgspace
import enc
import streams
import vlib

PID = "C11"
ENV = {"ASAN_OPTIONS": "detect_leaks=0:halt_on_error=0:exitcode=0:allocator_may_return_null=1:detect_stack_use_after_return=0:symbolize=1",
       "UBSAN_OPTIONS": "print_stacktrace=1:halt_on_error=0"}


def cfg_class(label, a):
    """Stable class of a configuration for crash / hang findings."""
    cfg = label.split("/")[0]
    if int(a.get("over_bndry_blk", -1)) == 0 and streams.not_mult64(a):
        return "over_bndry_blk=0,size-not-multiple-of-64"
    if int(a.get("hierarchical_levels", 3)) == 0 and int(a.get("enable_overlays", 0)) == 1:
        return "hierarchical_levels=0,enable_overlays=1"
    return cfg


def case(item):
    label, a = item
    sched = int(a.get("logical_processors", 1)) == 1
    r = enc.session(a, "asan", sched=sched, timeout=300, env=ENV)
    o = {"label": label, "status": "ok", "viol": [], "info": {}}
    if r.get("timeout"):   # wall-clock limit on a possibly overloaded machine: one more run with a five times longer limit before it counts as a hang
        r = enc.session(a, "asan", sched=sched, timeout=1500, env=ENV)
        o["info"]["timeout_reruns"] = 1
    cls = cfg_class(label, a)
    if r.get("timeout"):
        o["status"] = "timeout"
        o["viol"].append(("C11:hang@" + cls, "session exceeded the 300 s watchdog and, run again, 1500 s"))
        return o
    if r.get("deadlock") or r.get("livelock"):
        o["status"] = "deadlock"
        o["viol"].append(("C11:deadlock@hl=%s,ip=%s,lp=%s" % (a.get("hierarchical_levels", "d"), a.get("intra_period_length", "d"), a.get("logical_processors", 1)),
                          "all threads blocked: %s" % json.dumps(r.get("threads"))[:200]))
        return o
    sites = enc.sanitizer_sites(r.get("stderr", ""))
    for kind, fn in sites:
        o["viol"].append(("C11:%s@%s" % (kind, fn), "%s reported in %s" % (kind, fn)))
    if not r.get("parsed"):
        o["status"] = "crash"
        if not sites:
            o["viol"].append(("C11:crash@" + cls, "process ended with status %s without a report: %s" % (r.get("exit"), r.get("stderr", "")[-200:])))
        return o
    if not enc.accepted(r):
        o["status"] = "rejected"
        o["viol"] = []
        return o
    if not (r.get("completed", 0) & 1):
        o["status"] = "incomplete"
        o["viol"].append(("C11:incomplete@" + cls, "drain ended without EOS packet"))
    if r.get("err_get_packet"):
        o["viol"].append(("C11:error-packet@" + cls, "svt_av1_enc_get_packet returned %#x" % (r["err_get_packet"] & 0xffffffff)))
    for p in r.get("pk", []):
        if p[3] & 0xfffffff0:
            o["viol"].append(("C11:error-flags@" + cls, "packet flags %#x" % p[3]))
            break
    if r.get("deinit") or r.get("deinit_handle"):
        o["viol"].append(("C11:teardown-error@" + cls, "deinit=%s deinit_handle=%s" % (r.get("deinit"), r.get("deinit_handle"))))
    o["pkt_hash"] = r.get("pkt_hash")
    return o


def cases_for(tier):
    cs = streams.tile_grids(tier == "thorough") + streams.palette_blocks(False)   # the 8 palette-block sessions in both tiers
    cs += streams.bound01(sizes=((64, 64),), contents=("grad",), n=5)
    for (w, h) in ((66, 70), (72, 64), (64, 88), (144, 112)):
        for c in ("noise", "flat", "max", "min", "grad"):
            for qp in (0, 63):
                cs.append(streams.mk("size=%dx%d,qp=%d/%s" % (w, h, qp, c), w, h, 4, c, qp=qp))
    cs.append(streams.mk("size=4096x64/grad", 4096, 64, 2, "grad"))
    cs.append(streams.mk("size=64x2160/grad", 64, 2160, 2, "grad"))
    for lp in (4,):
        for (w, h) in ((144, 112), (192, 128)):
            for c in ("grad", "noise"):
                cs.append(streams.mk("lp=%d/%dx%d/%s" % (lp, w, h, c), w, h, 4, c, logical_processors=lp))
    if tier == "thorough":
        cs += streams.bound01(sizes=((144, 112),), contents=("screen", "noise"), n=5)
        cs += streams.gop_shapes(ns=(2, 9, 18), overlays=(0,))
        cs.append(streams.mk("size=4096x2160/grad", 4096, 2160, 1, "grad", logical_processors=4))
    return cs


def run(tier):
    return streams.run_stream_check(
        PID, tier, cases_for(tier), case,
        "ASan+UBSan sessions over deviation bounds 0/1 of the configuration table, extreme sizes, qp extremes and contents; lp 1 under the "
        "controlled scheduler (deadlock detection), lp 4 free-running with watchdog; distinct = distinct packet-stream hashes",
        ["UBSan checks limited to arithmetic UB with observable effect (no shift-base / null-offset / alignment: libaom idioms every supported compiler defines)",
         "sanitizer findings are keyed by (check kind, innermost library function)"],
        variant="asan")


def replay(path):
    d = json.load(open(path))
    o = case((d["replay"]["label"], d["replay"]["args"]))
    print(json.dumps(o, indent=1))
    return 1 if o["viol"] else 0
