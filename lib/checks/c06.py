"""C06: output does not depend on the CPU instruction set (DESIGN.md 4/C06)."""
import itertools
import json

import enc
import vlib

PID = "C06"
F = {"MMX": 1, "SSE": 2, "SSE2": 4, "SSE3": 8, "SSSE3": 16, "SSE4_1": 32, "SSE4_2": 64, "AVX": 128, "AVX2": 256}
LEVELS = [("C", 0), ("SSE2", 7), ("SSSE3", 31), ("SSE4_1", 63), ("AVX2", 511), ("ALL", 65535)]


def groups(tier):
    contents = ("grad", "noise", "flat", "max", "min", "screen")
    presets = (8, 4) if tier == "quick" else (8, 6, 4, 2, 0)
    sizes = ((64, 64),) if tier == "quick" else ((64, 64), (144, 112))
    out = []
    for c, bd, pipe, pr, (w, h) in itertools.product(contents, (8, 10), (0, 1), presets, sizes):
        if tier == "quick" and pr == 4 and c in ("flat", "max", "min"):
            continue
        if pr <= 2 and (c not in ("grad", "noise") or (w, h) != (64, 64)):
            continue
        out.append({"w": w, "h": h, "n": 5, "content": c, "enc_mode": pr, "hierarchical_levels": 3, "encoder_bit_depth": bd,
                    "is_16bit_pipeline": pipe, "recon_enabled": 1})
    # full 64x64 superblocks with extreme contrast (the saturating / overflow paths of the SAD, variance and SSE kernels) and real motion
    for c, pr, (w, h) in itertools.product(("binary", "noise", "screen"), (8, 4) if tier == "quick" else (8, 6, 4, 2), ((192, 128),) if tier == "quick" else ((192, 128), (256, 192))):
        out.append({"w": w, "h": h, "n": 5, "content": c, "enc_mode": pr, "hierarchical_levels": 3, "encoder_bit_depth": 8, "recon_enabled": 1})
    if tier == "thorough":
        import cfgspace
        for f, v in cfgspace.single_deviations(["screen_content_mode", "palette_level", "obmc_level", "enable_warped_motion", "cdef_level",
                                               "enable_restoration_filtering", "tf_level", "superres_mode", "film_grain_denoise_strength",
                                               "tile_rows", "rate_control_mode", "enable_global_motion", "filter_intra_level", "compound_level"]):
            out.append({"w": 64, "h": 64, "n": 5, "content": "screen" if f in ("screen_content_mode", "palette_level") else "grad", "enc_mode": 4,
                        "hierarchical_levels": 3, "recon_enabled": 1, f: v})
    return out


def case(item):
    label, a = item
    r = enc.session(a, "rel", timeout=120)
    o = {"label": label, "status": "ok", "viol": []}
    if r.get("timeout"):
        o["status"] = "timeout"
    elif not r.get("parsed"):
        o["status"] = "crash"
    elif not enc.accepted(r):
        o["status"] = "rejected"
    elif not (r.get("completed", 0) & 1):
        o["status"] = "incomplete"
    else:
        o["obs"] = (r["npk"], r["pkt_hash"], r["nrc"], r["rec_hash"])
        first = None
        o["pk"] = [p[10] for p in r["pk"]]
    return o


def run(tier):
    ck = vlib.Check(PID, tier, "exploration")
    enc.tools("rel")
    items = []
    for gi, base in enumerate(groups(tier)):
        for name, mask in LEVELS:
            a = dict(base)
            a["use_cpu_flags"] = mask
            items.append(("g%d/%s" % (gi, name), a))
    res, complete = vlib.pmap_deadline(case, items, ck.deadline - 30)
    byg, stat, hashes, samples = {}, {}, set(), []
    for (label, a), o in res:
        stat[o["status"]] = stat.get(o["status"], 0) + 1
        byg.setdefault(label.split("/")[0], []).append((label, a, o))
    ngroups = 0
    for g, lst in byg.items():
        ref = [x for x in lst if x[0].endswith("/C") and x[2]["status"] == "ok"]
        if not ref:
            continue
        ngroups += 1
        robs = ref[0][2]["obs"]
        hashes.add(robs[1])
        for label, a, o in lst:
            if o["status"] != "ok" or o["obs"] == robs:
                continue
            lvl = label.split("/")[1]
            first = next((i for i, (x, y) in enumerate(zip(o["pk"], ref[0][2]["pk"])) if x != y), None)
            cls = "bd=%s,pipe16=%s" % (a.get("encoder_bit_depth", 8), a.get("is_16bit_pipeline", 0))
            ck.violation("C06:output-differs@%s,%s" % (lvl, cls),
                         "use_cpu_flags<=%s yields %s, C-only yields %s (first differing packet %s) [%s]" % (lvl, o["obs"], robs, first, enc.describe(ref[0][1])),
                         {"args": a, "ref_args": ref[0][1]})
        if len(samples) < 3:
            samples.append({"base": enc.describe(ref[0][1]), "levels": [x[0].split("/")[1] for x in lst], "pkt_hash": robs[1]})
    cov = {"evaluations": len(res), "distinct_nontrivial": len(hashes), "rule": "every (content, bit depth, pipeline, preset, size[, tool deviation]) tuple is "
           "encoded with use_cpu_flags limited to each of %s; one process per session; distinct = distinct C-only reference streams" % ([n for n, _ in LEVELS],),
           "samples": samples, "exhaustive": bool(complete), "groups_compared": ngroups, "status_counts": stat}
    return ck.finish(cov, ["AVX-512 kernels are only compiled with ENABLE_AVX512 (not part of the default build; not exercised here)"])


def replay(path):
    d = json.load(open(path))["replay"]
    a = case(("x", d["args"]))
    b = case(("x", d["ref_args"]))
    print(a.get("obs"), b.get("obs"))
    return 0 if a.get("obs") == b.get("obs") else 1
