"""C25: the entropy coder round-trips every symbol sequence (DESIGN.md section 4, C25).

Harness src/ec_h.c links the writer (EbBitstreamUnit.c, libSvtAv1Enc.a) and compiles the reader (static inline functions of
Decoder/Codec/EbDecBitstreamUnit.h + EbDecBitReader.h) and enumerates, inside long-lived worker processes,
  * every operation sequence up to length L over stated operation alphabets (layers F, M, S, T), with adaptation off and on,
  * the constructed long families (k = 1..4096 repetitions with every prefix/suffix of length <= 2, carry-chain constructions,
    the empty sequence).
Oracles per sequence: the reader returns exactly the written values; after every symbol the reader's CDF array (including the
adaptation counter) equals the writer's; ceil(svt_od_ec_enc_tell / 8) >= bytes emitted; OdEcEnc.error stays 0.
"""
import concurrent.futures
import json
import os
import shutil
import subprocess
import sys
import time

import vlib

PID = "C25"

# (layer, max length) per tier; every layer is run with allow_update_cdf = 0 and 1
LAYERS = {
    "quick": [("F", 3), ("M", 4), ("S", 6), ("T", 8)],
    "thorough": [("F", 4), ("M", 5), ("S", 8), ("T", 10)],
}
FAM_P = {"quick": 2, "thorough": 4}
NSHARD = 16


def build(variant="rel", name="ec_h", extra_cflags="", extra_ldflags="", extra_sources=()):
    return vlib.cc_harness(variant, name, ["ec_h.c"] + list(extra_sources), enc=True, dec=True, internal=True,
                           extra_cflags=extra_cflags, extra_ldflags=extra_ldflags)


def _run_job(job):
    exe, argv, timeout = job
    env = dict(os.environ)
    env["SVT_LOG"] = "-2"
    t0 = time.time()
    try:
        p = subprocess.run([exe] + argv, stdout=subprocess.PIPE, stderr=subprocess.PIPE, timeout=timeout, env=env)
    except subprocess.TimeoutExpired:
        return {"argv": argv, "timeout": True, "viol": [], "stats": None}
    viol, stats = [], None
    for l in p.stdout.decode("latin1").splitlines():
        l = l.strip()
        if not l.startswith("{"):
            continue
        try:
            d = json.loads(l)
        except ValueError:
            continue
        if "violation" in d:
            viol.append(d)
        elif "mode" in d:
            stats = d
    return {"argv": argv, "rc": p.returncode, "viol": viol, "stats": stats, "stderr": p.stderr[-500:].decode("latin1"),
            "wall": time.time() - t0}


def explore(exe, tier, deadline, work):
    """Run every job of the tier; returns (job results, alphabet description)."""
    alpha = json.loads(subprocess.run([exe, "ops"], stdout=subprocess.PIPE, timeout=60).stdout.decode())
    jobs = []
    for layer, L in LAYERS[tier]:
        for sh in range(NSHARD):
            jobs.append(["enum", "layer=%s" % layer, "L=%d" % L, "shard=%d/%d" % (sh, NSHARD), "setlog2=20",
                         "hashfile=%s" % os.path.join(work, "h_%s_%d.bin" % (layer, sh))])
    for sh in range(NSHARD):
        jobs.append(["fam", "P=%d" % FAM_P[tier], "kmax=4096", "shard=%d/%d" % (sh, NSHARD), "setlog2=20",
                     "hashfile=%s" % os.path.join(work, "h_fam_%d.bin" % sh)])
    # biggest first: enumeration size is A^L
    def size(a):
        if a[0] == "fam":
            return 1e18
        lay = a[1].split("=")[1]
        return float(len(alpha["layer_" + lay])) ** int(a[2].split("=")[1])
    jobs.sort(key=size, reverse=True)
    res = []

    def launch(a):
        left = deadline - time.time()
        if left < 3:
            return {"argv": a, "skipped": True, "viol": [], "stats": None}
        return _run_job((exe, a + ["deadline=%d" % int(left)], left + 60))

    with concurrent.futures.ThreadPoolExecutor(vlib.NCPU) as ex:
        for r in ex.map(launch, jobs):
            res.append(r)
    return res, alpha


def merge_hashes(exe, work):
    files = sorted(os.path.join(work, f) for f in os.listdir(work) if f.endswith(".bin"))
    if not files:
        return 0, 0
    p = subprocess.run([exe, "merge"] + files, stdout=subprocess.PIPE, timeout=600)
    d = json.loads(p.stdout.decode().strip().split("\n")[-1])
    return d["distinct"], d["total"]


def collect(ck, res, alpha):
    tot = {"evaluations": 0, "nontrivial": 0, "operations": 0, "carry_events": 0}
    per, samples = {}, []
    exhaustive = True
    maxchain = maxbytes = 0
    mn, mx = None, None
    saturated = False
    for r in res:
        label = " ".join(x for x in r["argv"] if not x.startswith(("hashfile=", "shard=", "deadline=", "setlog2=")))
        for v in r["viol"]:
            c = v["case"]
            ck.violation("C25:%s@%s" % (v["violation"], v["at"]),
                         "%s; %s; sequence (adapt=%d, %d operations): %s" % (v["violation"], v["detail"], c["adapt"], c["length"],
                                                                           ", ".join(c["ops"])),
                         {"adapt": c["adapt"], "seq": c["seq"]})
        s = r["stats"]
        if r.get("timeout") or r.get("skipped") or s is None:
            exhaustive = False
            if s is None and not r.get("timeout") and not r.get("skipped"):
                ck.violation("C25:harness-crash@" + label, "harness did not report: rc=%s %s" % (r.get("rc"), r.get("stderr")),
                             {"argv": r["argv"]})
            continue
        for k in tot:
            tot[k] += s[k]
        if not s["exhaustive"]:
            exhaustive = False
        saturated = saturated or bool(s["set_saturated"])
        maxchain = max(maxchain, s["max_carry_chain_bytes"])
        maxbytes = max(maxbytes, s["max_bytes"])
        if s["evaluations"]:
            mn = s["min_ceil_tell_bytes_minus_emitted"] if mn is None else min(mn, s["min_ceil_tell_bytes_minus_emitted"])
            mx = s["max_ceil_tell_bytes_minus_emitted"] if mx is None else max(mx, s["max_ceil_tell_bytes_minus_emitted"])
        p = per.setdefault(label, {"evaluations": 0, "operations": 0, "exhaustive": True, "worker_wall_max": 0.0})
        p["evaluations"] += s["evaluations"]
        p["operations"] += s["operations"]
        p["exhaustive"] = p["exhaustive"] and s["exhaustive"]
        p["worker_wall_max"] = max(p["worker_wall_max"], s["wall"])
        for k in ("A", "L", "repeated_ops", "affix_ops", "kmax"):
            if k in s:
                p[k] = s[k]
        for smp in s["samples"]:
            if len([x for x in samples if x["from"] == label]) < 2:
                samples.append({"from": label, "adapt": smp["adapt"], "length": smp["length"], "replay_seq": smp["seq"][:400],
                                "operations": smp["ops"]})
    return tot, per, samples, exhaustive, maxchain, maxbytes, mn, mx, saturated


def run(tier, exe=None, quiet=False):
    ck = vlib.Check(PID, tier, "exploration")
    exe = exe or build("rel")
    work = vlib.workdir("c25")
    res, alpha = explore(exe, tier, ck.deadline - 25, work)
    tot, per, samples, exhaustive, maxchain, maxbytes, mn, mx, saturated = collect(ck, res, alpha)
    distinct, _ = merge_hashes(exe, work)
    shutil.rmtree(work, ignore_errors=True)
    ops = alpha["ops"]

    def names(key):
        return [ops[i] for i in alpha[key]]
    cov = {
        "evaluations": tot["evaluations"],
        "distinct_nontrivial": distinct,
        "rule": "evaluations = operation sequences written and read back. Enumerated exhaustively: for each layer (alphabet, L) every "
                "sequence of 0..L operations of the alphabet, once with allow_update_cdf=0 and once with 1 (all symbol contexts start "
                "from their initial table in every sequence); plus the long families: for each of the repeated operations R, each "
                "prefix and each suffix in affix_alphabet^{0,1,2}, each k in 1..4096: prefix + k x R + suffix; plus carry-chain "
                "constructions (for 5 contexts x adaptation off/on, k = 1..4096 greedy steps that keep the coded interval straddling "
                "the writer's carry point, each closed with an operation that triggers the carry); plus the empty sequence. "
                "distinct_nontrivial = number of DISTINCT encoded byte strings (64-bit hash of svt_od_ec_enc_done output, per-worker "
                "hash sets of <= 2^19 entries merged over all workers; a lower bound when a set saturated, see "
                "distinct_is_lower_bound); sequences_with_more_than_one_operation is the exact count of multi-operation sequences",
        "samples": samples[:12],
        "exhaustive": exhaustive,
        "sequences_with_more_than_one_operation": tot["nontrivial"],
        "operations_coded": tot["operations"],
        "distinct_is_lower_bound": saturated,
        "layers": [{"layer": l, "max_length": L, "alphabet_size": len(alpha["layer_" + l]), "alphabet": names("layer_" + l)}
                   for l, L in LAYERS[tier]],
        "family_repeated_operations": names("family_repeated"),
        "family_affix_alphabet": names("family_affix")[:FAM_P[tier]],
        "symbol_contexts": alpha["contexts"],
        "per_job_group": per,
        "carry_propagation_events_seen": tot["carry_events"],
        "max_carry_chain_bytes": maxchain,
        "max_encoded_bytes": maxbytes,
        "ceil_tell_bytes_minus_emitted_bytes_min_max": [mn, mx],
        "oracle": "reader values == written values; reader CDF (n entries + counter) == writer CDF after every symbol; "
                  "(svt_od_ec_enc_tell(before svt_od_ec_enc_done) + 7) / 8 >= nbytes of svt_od_ec_enc_done and the same for the bit "
                  "count returned by aom_stop_encode; OdEcEnc.error == 0; reader is given exactly nbytes (followed by 0xFF poison)",
    }
    return ck.finish(cov, [
        "svt_od_ec_enc_tell = (cnt + 10) + 8 * offs: bits used so far including the one bit reserved for termination; it is the only "
        "bit-count estimate the writer has; it is compared with the byte count written by svt_od_ec_enc_done / DaalaWriter.pos",
        "the reader is the set of static inline functions in EbDecBitstreamUnit.h / EbDecBitReader.h compiled into the harness "
        "(they have no out-of-line definition in libSvtAv1Dec.a); the writer's out-of-line part is taken from libSvtAv1Enc.a, its inline "
        "wrappers (aom_write_symbol, update_cdf, aom_write, aom_write_literal) from EbBitstreamUnit.h / EbCabacContextModel.h",
        "CDF tables are valid inverse CDFs (non-increasing, last entry 0); probabilities f of svt_od_ec_encode_bool_q15 in 1..32767, "
        "8-bit probabilities of aom_write in 1..255",
    ])


def replay(path):
    d = json.load(open(path))["replay"]
    exe = build("rel")
    p = subprocess.run([exe, "replay", "adapt=%d" % d["adapt"], "seq=%s" % d["seq"]], stdout=subprocess.PIPE,
                       stderr=subprocess.STDOUT, timeout=300)
    print(p.stdout.decode("latin1"))
    return 1 if p.returncode else 0


# --------------------------------------------------------------------------------------------- detection demonstration
MUTANTS = {
    # name: (file relative to /repo, old text, new text)
    "bool-minprob": ("Source/Lib/Common/Codec/EbBitstreamUnit.c", "    v += EC_MIN_PROB;\n    if (val)", "    v += EC_MIN_PROB - 1;\n    if (val)"),
    "cdf-shift": ("Source/Lib/Common/Codec/EbBitstreamUnit.c",
                  "        v = ((r >> 8) * (uint32_t)(fh >> EC_PROB_SHIFT) >> (7 - EC_PROB_SHIFT - CDF_SHIFT)) +\n            EC_MIN_PROB * (N - (s + 0));\n        l += r - u;",
                  "        v = ((r >> 8) * (uint32_t)(fh >> EC_PROB_SHIFT) >> (7 - EC_PROB_SHIFT - CDF_SHIFT)) +\n            EC_MIN_PROB * (N - (s + 1));\n        l += r - u;"),
    "done-fewer-bits": ("Source/Lib/Common/Codec/EbBitstreamUnit.c", "    s = 10;\n    m = 0x3FFF;", "    s = 9;\n    m = 0x3FFF;"),
    "done-mask": ("Source/Lib/Common/Codec/EbBitstreamUnit.c", "    s = 10;\n    m = 0x3FFF;", "    s = 10;\n    m = 0x7FFF;"),
    "carry-drop": ("Source/Lib/Common/Codec/EbBitstreamUnit.c", "        out[offs] = (uint8_t)c;\n        c >>= 8;", "        out[offs] = (uint8_t)c;\n        c >>= 9;"),
    "tell-low": ("Source/Lib/Common/Codec/EbBitstreamUnit.c", "return (enc->cnt + 10) + enc->offs * 8;", "return (enc->cnt + 2) + enc->offs * 8;"),
    "writer-adapt-rate": ("Source/Lib/Common/Codec/EbCabacContextModel.h",
                          "    rate = 3 + (cdf[nsymbs] > 15) + (cdf[nsymbs] > 31) + nsymbs2speed[nsymbs]; // + get_msb(nsymbs);\n    tmp  = AOM_ICDF(0);\n\n    // Single loop (faster)\n    for (i = 0; i < nsymbs - 1; ++i) {\n        tmp = (i == val) ? 0 : tmp;\n        if (tmp < cdf[i])\n            cdf[i] -= ((cdf[i] - tmp) >> rate);",
                          "    rate = 3 + (cdf[nsymbs] > 15) + (cdf[nsymbs] > 32) + nsymbs2speed[nsymbs]; // + get_msb(nsymbs);\n    tmp  = AOM_ICDF(0);\n\n    // Single loop (faster)\n    for (i = 0; i < nsymbs - 1; ++i) {\n        tmp = (i == val) ? 0 : tmp;\n        if (tmp < cdf[i])\n            cdf[i] -= ((cdf[i] - tmp) >> rate);"),
}


def build_mutant(name):
    """Compile the harness with a mutated copy of one writer source file in place of the library's object / header."""
    rel, old, new = MUTANTS[name]
    d = os.path.join(vlib.BUILD, "work", "c25_mut_" + name)
    shutil.rmtree(d, ignore_errors=True)
    os.makedirs(d)
    src = open(os.path.join(vlib.REPO, rel)).read()
    assert src.count(old) == 1, "mutation site not unique/found: %s" % name
    dst = os.path.join(d, os.path.basename(rel))
    open(dst, "w").write(src.replace(old, new))
    if rel.endswith(".h"):
        # a header: shadow it (and the header that includes it by quote, so that the sibling lookup finds the copy)
        shutil.copy(os.path.join(vlib.REPO, "Source/Lib/Common/Codec/EbBitstreamUnit.h"), d)
        return build("rel", "ec_h_mut_" + name, extra_cflags="-I" + d)
    return build("rel", "ec_h_mut_" + name, extra_sources=[dst], extra_ldflags="-Wl,--allow-multiple-definition")


def demo_mutants(names=None, tier="quick"):
    """python3 -c 'import sys; sys.path.insert(0,"lib"); sys.path.insert(0,"lib/checks"); import c25; c25.demo_mutants()'"""
    out = {}
    for n in names or sorted(MUTANTS):
        exe = build_mutant(n)
        os.environ["VERIF_DEADLINE_S"] = "200"
        evid = os.path.join(vlib.EVID, PID + ".json")
        keep = open(evid).read() if os.path.exists(evid) else None
        rc = run(tier, exe=exe)
        ev = json.load(open(evid))
        out[n] = {"exit": rc, "keys": ev["distinct_violation_keys"]}
        if keep is not None:
            open(evid, "w").write(keep)
        print("MUTANT %s: exit=%d keys=%s" % (n, rc, ev["distinct_violation_keys"]), flush=True)
    return out
