"""C05: output does not depend on thread count / pinning / socket (DESIGN.md 4/C05)."""
import itertools
import json

import enc
import streams
import vlib

PID = "C05"
LPS = (1, 2, 3, 4, 5, 8, 15, 16)


def groups(tier):
    sizes = ((144, 112), (256, 192)) if tier == "quick" else ((64, 64), (144, 112), (192, 128), (256, 192))
    contents = ("grad", "screen") if tier == "quick" else ("grad", "noise", "screen")
    presets = (8,) if tier == "quick" else (8, 4, 0)
    out = []
    for (w, h), c, pr, tiles, bd in itertools.product(sizes, contents, presets, ((0, 0), (1, 0), (0, 1)), (8, 10)):
        if tier == "quick" and (bd == 10 and (tiles != (0, 0) or c != "grad")):
            continue
        if pr == 0 and (w > 144 or bd == 10 or tiles != (0, 0)):
            continue
        base = {"w": w, "h": h, "n": 5 if tier == "quick" else 9, "content": c, "enc_mode": pr, "hierarchical_levels": 3,
                "tile_rows": tiles[0], "tile_columns": tiles[1], "encoder_bit_depth": bd, "recon_enabled": 1}
        variants = [{"logical_processors": lp} for lp in LPS]
        variants += [{"logical_processors": lp, "unpin": u, "target_socket": ts} for lp in (1, 4) for u in (0, 1) for ts in (-1, 0)
                     if (u, ts) != (1, -1)]
        out.append((base, variants))
    # size classes read off load_default_buffer_configuration_settings: the ME / CDEF / temporal-filter segment grid is 1x1 for
    # one core and otherwise 10 columns when (w+32)/64 >= 10 and 6 rows when (h+32)/64 >= 6 (halved for 2-3 cores); one picture
    # per class so that every thread-count dependent segment split is exercised
    big = ((608, 96), (96, 352), (608, 352)) if tier == "quick" else ((608, 96), (96, 352), (608, 352), (640, 384), (768, 64))
    for (w, h), c, bd in itertools.product(big, ("grad", "screen"), (8, 10)):
        if bd == 10 and (c != "grad" or (tier == "quick" and (w, h) != (608, 352))):
            continue
        base = {"w": w, "h": h, "n": 4 if tier == "quick" else 7, "content": c, "enc_mode": 8, "hierarchical_levels": 3,
                "encoder_bit_depth": bd, "recon_enabled": 1}
        out.append((base, [{"logical_processors": lp} for lp in ((1, 2, 4) if tier == "quick" else (1, 2, 3, 4, 8, 16))]))
    return out


def case(item):
    label, a = item
    r = enc.session(a, "rel", sched=True, timeout=120)
    o = {"label": label, "status": "ok", "viol": []}
    if r.get("timeout"):
        o["status"] = "timeout"
    elif r.get("deadlock") or r.get("livelock"):
        o["status"] = "deadlock"
    elif not r.get("parsed"):
        o["status"] = "crash"
    elif not enc.accepted(r):
        o["status"] = "rejected"
    elif not (r.get("completed", 0) & 1):
        o["status"] = "incomplete"
    else:
        o["obs"] = (r["npk"], r["pkt_hash"], r["nrc"], r["rec_hash"])
        o["pkt_hash"] = r["pkt_hash"]
    return o


def run(tier):
    ck = vlib.Check(PID, tier, "exploration")
    enc.tools("rel", sched=True)
    items = []
    for gi, (base, variants) in enumerate(groups(tier)):
        for v in variants:
            a = dict(base)
            a.update(v)
            items.append(("g%d/%s" % (gi, ",".join("%s=%s" % kv for kv in v.items())), a))
    res, complete = vlib.pmap_deadline(case, items, ck.deadline - 30)
    byg, stat, hashes, samples = {}, {}, set(), []
    for (label, a), o in res:
        stat[o["status"]] = stat.get(o["status"], 0) + 1
        byg.setdefault(label.split("/")[0], []).append((label, a, o))
    ngroups = 0
    for g, lst in byg.items():
        ref = [x for x in lst if x[1].get("logical_processors") == 1 and "unpin" not in x[1] and x[2]["status"] == "ok"]
        if not ref:
            continue
        ngroups += 1
        robs = ref[0][2]["obs"]
        hashes.add(robs[1])
        for label, a, o in lst:
            if o["status"] != "ok":
                continue
            if o["obs"] != robs:
                dev = label.split("/")[1]
                ck.violation("C05:output-differs@%s" % dev.replace("logical_processors", "lp"),
                             "%s yields %s, logical_processors=1 yields %s [%s]" % (dev, o["obs"], robs, enc.describe(ref[0][1])),
                             {"args": a, "ref_args": ref[0][1]})
        if len(samples) < 3:
            samples.append({"base": enc.describe(ref[0][1]), "variants": len(lst), "pkt_hash": robs[1]})
    cov = {"evaluations": len(res), "distinct_nontrivial": len(hashes), "rule": "every (size, content, preset, tiling, bit depth) tuple is encoded "
           "with logical_processors in %s and the unpin/target_socket combinations; non-trivial = completed session; distinct = distinct reference streams; "
           "each session runs under the controlled scheduler (canonical schedule) so that differences can only come from the configuration" % (LPS,),
           "samples": samples, "exhaustive": bool(complete), "groups_compared": ngroups, "status_counts": stat}
    return ck.finish(cov, ["single-socket 16-core host: target_socket=1 not exercised", "pic_based_rate_est left at its default (documented lp-1-only tool)"])


def replay(path):
    d = json.load(open(path))["replay"]
    a = case(("x", d["args"]))
    b = case(("x", d["ref_args"]))
    print(a.get("obs"), b.get("obs"))
    return 0 if a.get("obs") == b.get("obs") else 1
