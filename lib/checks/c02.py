"""C02: every output packet is one well-formed temporal unit (DESIGN.md section 4, C02)."""
import json

import enc
import streams

PID = "C02"


def case(item):
    label, a = item
    pre = streams.prefix_for("c02")
    r = enc.session(a, "rel", out=pre)
    out = {"label": label, "status": "ok", "viol": [], "info": {}}
    try:
        if r.get("timeout") or (r.get("parsed") and enc.accepted(r) and not (r.get("completed", 0) & 1)):
            out["status"] = "incomplete"
            return out
        if not r.get("parsed"):
            out["status"] = "crash"
            return out
        if not enc.accepted(r):
            out["status"] = "rejected"
            return out
        out["pkt_hash"] = r["pkt_hash"]
        pk = enc.packets(pre)
        hdr = open(pre + ".hdr", "rb").read()
        if r.get("hdr") != 0 or not hdr:
            out["viol"].append(("C02:stream-header-api-error", "svt_av1_enc_stream_header returned %s / %d bytes" % (r.get("hdr"), len(hdr))))
        info = {}
        errs = enc.check_tu_structure(pk, hdr, r["pk"], info)
        # OBU payload sizes seen (size-field width boundaries 127/128 and 16383/16384 are reported in the evidence)
        try:
            import obu as _obu
            for p_ in pk:
                for o_ in _obu.split_obus(p_):
                    n_ = len(o_["payload"])
                    if 120 <= n_ <= 135 or 16376 <= n_ <= 16391:
                        info["obu_payload_size_%d" % n_] = info.get("obu_payload_size_%d" % n_, 0) + 1
        except Exception:
            pass
        out["info"] = info
        out["info"]["packets"] = len(pk)
        seen = set()
        for k, m in errs:
            if k in seen:
                continue
            seen.add(k)
            if k.startswith("streamheader-field:"):
                key = "C02:" + k
            else:
                key = "C02:%s@%s" % (k, label.split("/")[0])
            out["viol"].append((key, m))
        if not errs:
            # the parser itself is cross-checked: what it accepts must decode in libaom
            rd = enc.refdec(pre, dav1d=0)
            if not (rd.get("timeout") or rd.get("crash")) and rd.get("aom") and rd["aom_err"] and not (
                    int(a.get("over_bndry_blk", -1)) == 0 and streams.not_mult64(a)):
                out["info"]["parser_accepts_but_libaom_rejects"] = 1
        return out
    finally:
        enc.cleanup(pre)


def size_sweep(tier):
    """sessions whose frame payloads sweep through the leb128 width boundary (127/128 bytes): qp x content x seed"""
    cs = []
    for qp in range(20, 64, 1 if tier == "thorough" else 2):
        for c in ("noise", "box", "grad"):
            for seed in ((1, 2, 3) if tier == "thorough" else (1, 2)):
                cs.append(streams.mk("sweep:qp=%d,seed=%d/%s" % (qp, seed, c), 64, 64, 9, c, qp=qp, cseed=seed))
    return cs


def cases_for(tier):
    cs = streams.bound01(sizes=((64, 64),), contents=("grad", "screen")) + streams.sizes_lengths() + size_sweep(tier) + streams.big_tiles(tier == "thorough")
    if tier == "quick":
        cs += streams.gop_shapes(ns=(1, 2, 9, 18), ips=(-1, 0, 1, 3, 8))
    else:
        cs += streams.gop_shapes()
        cs += streams.bound01(sizes=((144, 112),), contents=("grad", "noise"))
        import cfgspace
        cs += streams.bound2(sorted(cfgspace.DOMAINS))
    return cs


def run(tier):
    return streams.run_stream_check(
        PID, tier, cases_for(tier), case,
        "every packet of encdrv sessions over deviation bounds 0/1 of the configuration table, the size/length "
        "alphabets and the full GOP-shape cross product (hierarchical levels x intra period x refresh type x overlays x N); "
        "distinct = distinct packet-stream hashes",
        ["the OBU parser in lib/obu.py transcribes AV1 spec 5.3-5.9 (framing, sequence header, frame header up to refresh_frame_flags)",
         "pic_type relations demanded: KEY <=> displayed KEY_FRAME, INTRA_ONLY => INTRA_ONLY_FRAME, INTER/ALT_REF => INTER_FRAME",
         "metadata OBU paths are unreachable through the public API at this commit"])


def replay(path):
    d = json.load(open(path))
    o = case((d["replay"]["label"], d["replay"]["args"]))
    print(json.dumps(o, indent=1))
    return 1 if o["viol"] else 0
