"""C23: system resource manager - all interleavings of the real SRM in a closed harness (DESIGN.md 4/C23)."""
import json
import os
import subprocess
import time

import schedlib
import vlib

PID = "C23"
LD = schedlib.WRAP_LD + " -Wl,--wrap=malloc,--wrap=calloc,--wrap=free"


def build(variant="rel"):
    vlib.ensure_build(variant)
    return vlib.cc_harness(variant, "srm_h", ["srm_h.c"], plain_sources=["sched.c"], internal=True, extra_ldflags=LD)


def configs(tier):
    base = []
    for o in (1, 2, 3):
        for p in (1, 2):
            for c in (1, 2):
                for m in (1, 2):
                    big = p == 2 and c == 2 and m == 2
                    if tier == "quick" and (big or (o == 3 and p == 2 and m == 2)):
                        continue
                    base.append({"objs": o, "prod": p, "cons": c, "m": m})
    var = []
    for o in (1, 2):
        for p in (1, 2):
            for m in (1, 2):
                var.append({"objs": o, "prod": p, "cons": 1, "m": m, "nb": 1})      # non-blocking consumer
    for o in (1, 2):
        for c in (1, 2):
            for m in (1, 2):
                var.append({"objs": o, "prod": 1, "cons": c, "m": m, "live": 1})    # live_count reference
                var.append({"objs": o, "prod": 1, "cons": c, "m": m, "dis": 1})     # release disable/enable
    for o in (1, 2):
        for m in (1, 2):
            var.append({"objs": o, "prod": 1, "cons": 1, "m": m, "share": 1})               # two concurrent releasers of one object
    for o in (2, 3):
        for p in (1, 2):
            for c in (1, 2):
                m = 1
                if p * m <= o:
                    var.append({"objs": o, "prod": p, "cons": c, "m": m, "early": 1})  # shutdown at any point
    if tier == "thorough":
        var.append({"objs": 2, "prod": 2, "cons": 2, "m": 1, "live": 1})
        var.append({"objs": 2, "prod": 2, "cons": 2, "m": 1, "dis": 1})
        var.append({"objs": 3, "prod": 2, "cons": 2, "m": 1, "early": 1})
    return base + var


def run_one(exe, cfg, deadline_s, env=None):
    argv = [exe] + ["%s=%s" % kv for kv in cfg.items()] + ["deadline=%d" % max(5, int(deadline_s))]
    en = dict(os.environ)
    en["SVT_LOG"] = "-2"
    if env:
        en.update(env)
    try:
        p = subprocess.run(argv, stdout=subprocess.PIPE, stderr=subprocess.PIPE, timeout=deadline_s + 60, env=en)
    except subprocess.TimeoutExpired:
        return {"timeout": True}
    try:
        d = json.loads(p.stdout.decode("latin1").strip().split("\n")[-1])
    except Exception:
        d = {"crash": True, "rc": p.returncode, "stderr": p.stderr[-800:].decode("latin1"), "stdout": p.stdout[-300:].decode("latin1")}
    d["rc"] = p.returncode
    return d


def run(tier):
    ck = vlib.Check(PID, tier, "model_checking")
    exe = build("rel")
    cfgs = configs(tier)
    tot = {"states": 0, "transitions": 0, "executions": 0, "complete": 0, "outcomes": 0}
    exhaustive = True
    samples, per_cfg = [], []
    for cfg in cfgs:
        left = ck.time_left() - 20
        if left < 10:
            exhaustive = False
            break
        d = run_one(exe, cfg, min(left, 900 if tier == "thorough" else 120))
        label = ",".join("%s=%s" % kv for kv in cfg.items())
        if d.get("timeout"):
            # the explorer did not report within its own deadline + 60 s (machine overloaded): nothing is known about this configuration
            exhaustive = False
            per_cfg.append({"cfg": label, "not_completed": "explorer exceeded its deadline"})
            continue
        if d.get("crash"):
            ck.violation("C23:harness-crash@" + label, "explorer did not return a result: %s" % d, {"cfg": cfg})
            continue
        for k in tot:
            tot[k] += d.get(k, 0)
        per_cfg.append({"cfg": label, "states": d["states"], "transitions": d["transitions"], "executions": d["executions"],
                        "complete_executions": d["complete"], "distinct_outcomes": d["outcomes"], "exhaustive": d["exhaustive"],
                        "max_depth": d["max_depth"], "wall": d["wall"]})
        if not d["exhaustive"] and not d["violations"]:
            exhaustive = False
        if d["violations"]:
            msg = d["viol_msg"]
            kind = msg.split(":")[0].split(" ")[0] if msg else "violation"
            ck.violation("C23:%s@%s" % (kind, label), "%s (choice path %s)" % (msg, d["viol_path"]),
                         {"cfg": cfg, "path": d["viol_path"], "msg": msg})
        if len(samples) < 4 and d.get("samples"):
            samples.append({"cfg": label, "choice_path": d["samples"][-1]})
    cov = {"states": tot["states"], "transitions": tot["transitions"], "traces_validated_against_impl": tot["executions"],
           "samples": samples, "exhaustive": exhaustive, "complete_executions": tot["complete"],
           "distinct_terminal_outcomes_sum": tot["outcomes"], "configurations": len(per_cfg), "per_configuration": per_cfg,
           "explanation": "every interleaving of the real EbSystemResourceManager.c (lock, unlock, post, wait as scheduling points) "
                          "for each listed harness configuration; executions are real executions of the implementation, cut at "
                          "states (raw arena + live stacks + pending operations, 64-bit hash) expanded before"}
    return ck.finish(cov, ["scheduling points are the SVT mutex/semaphore operations; code between them is atomic",
                           "state identity by a 64-bit hash of raw memory (collision probability < 1e-5 at 1e7 states)",
                           "harness sizes: <= 3 objects, <= 2 producers, <= 2 consumers, <= 2 operations each"])


def replay(path):
    d = json.load(open(path))["replay"]
    exe = build("rel")
    argv = [exe] + ["%s=%s" % kv for kv in d["cfg"].items()] + ["replay=%s" % d.get("path", "")]
    p = subprocess.run(argv, stdout=subprocess.PIPE, stderr=subprocess.STDOUT)
    print(p.stdout.decode("latin1"))
    return 1 if p.returncode else 0
