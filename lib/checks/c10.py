"""C10: the decoder survives arbitrary input bytes (DESIGN.md 4/C10) - mutation-bounded exhaustive enumeration.

Every input of a fixed, documented mutation space around valid seed streams (all truncations, all single-bit flips, every byte
set to 00/FF/80/7F, every OBU deleted / duplicated / swapped, every size field +-1/0/max, every OBU-boundary splice, all short byte
strings) is decoded by the real decoder in an ASan+UBSan build; faults are caught in-process (the enumeration continues)."""
import collections
import json
import os
import struct
import subprocess

import enc
import vlib

PID = "C10"
ENV = {"SVT_LOG": "-2",
       "ASAN_OPTIONS": "detect_leaks=0:halt_on_error=1:exitcode=77:symbolize=1:handle_segv=0:handle_sigbus=0:handle_sigfpe=0:handle_sigill=0:allow_user_segv_handler=1",
       "UBSAN_OPTIONS": "halt_on_error=0:print_stacktrace=1"}
SEEDS = {
    "svt-8bit-key+2inter": {"w": 64, "h": 64, "n": 3, "hierarchical_levels": 0, "enc_mode": 8, "content": "box"},
    "svt-10bit": {"w": 64, "h": 64, "n": 3, "hierarchical_levels": 0, "enc_mode": 8, "content": "box", "encoder_bit_depth": 10},
    "svt-2tiles-superres": {"w": 128, "h": 64, "n": 3, "hierarchical_levels": 0, "enc_mode": 6, "content": "box", "tile_columns": 1,
                            "superres_mode": 1, "superres_denom": 12, "superres_kf_denom": 12},
    "svt-screen-palette": {"w": 64, "h": 64, "n": 3, "hierarchical_levels": 0, "enc_mode": 4, "content": "screen", "screen_content_mode": 1},
    "svt-filmgrain-hl2": {"w": 64, "h": 64, "n": 4, "hierarchical_levels": 2, "enc_mode": 8, "content": "noise", "film_grain_denoise_strength": 10},
}
SIGNAME = {11: "SEGV", 7: "SIGBUS", 8: "SIGFPE", 4: "SIGILL"}
_exe = None


def shard(item):
    seed, pre, first, last, annexb, proto, full = item
    prog = "%s.prog.%d" % (pre, os.getpid())
    events = []      # (kind, where, id)
    start = first
    cases = 0
    restarts = 0
    while start <= last:
        try:
            p = subprocess.run([_exe, pre, prog, str(start), str(last), "annexb=%d" % annexb, "proto=%d" % proto, "full=%d" % full],
                               stdout=subprocess.PIPE, stderr=subprocess.PIPE, env=dict(os.environ, **ENV), timeout=1800)
        except subprocess.TimeoutExpired:
            events.append(("supervisor-timeout", "?", start))
            break
        out = p.stdout.decode("latin1")
        err = p.stderr.decode("latin1")
        for l in out.split("\n"):
            if l.startswith("FAULT"):
                _, i, sig, pc = l.split()
                events.append(("fault:" + SIGNAME.get(int(sig), sig), pc, int(i)))
            elif l.startswith("HANG"):
                events.append(("hang", "svt_av1_dec_frame", int(l.split()[1])))
            elif l.startswith("{"):
                try:
                    cases += json.loads(l)["cases"]
                except Exception:
                    pass
        for kind, fn in enc.sanitizer_sites(err):
            if kind.startswith("ub:"):
                events.append((kind, fn, -1))
        try:
            cur, st = struct.unpack("qq", open(prog, "rb").read())
        except Exception:
            cur, st = start, 1
        if st == 2:
            break
        # the process died at input 'cur' (ASan report, hang, or too many faults)
        asan = [(k, f) for k, f in enc.sanitizer_sites(err) if k.startswith("asan:")]
        if asan:
            events.append((asan[0][0], asan[0][1], cur))
        elif p.returncode not in (0, 9) and not out.strip().endswith("}"):
            events.append(("exit:%s" % p.returncode, "?", cur))
        cases += max(0, cur - start)
        start = cur + 1
        restarts += 1
    try:
        os.unlink(prog)
    except OSError:
        pass
    return {"seed": seed, "annexb": annexb, "proto": proto, "events": events, "cases": cases, "restarts": restarts}


def symbolize(pcs):
    if not pcs:
        return {}
    p = subprocess.run(["addr2line", "-f", "-e", _exe] + list(pcs), stdout=subprocess.PIPE, text=True)
    lines = p.stdout.strip().split("\n")
    return {pc: lines[2 * i] for i, pc in enumerate(pcs)}


def describe_input(pre, idx, full, annexb=0):
    p = subprocess.run([_exe, pre, "/dev/null", "0", "0", "full=%d" % full, "annexb=%d" % annexb, "dump=%d:/dev/null" % idx], stdout=subprocess.PIPE, text=True,
                       env=dict(os.environ, **ENV))
    return p.stdout.strip()


def run(tier):
    global _exe
    ck = vlib.Check(PID, tier, "exploration")
    _exe = vlib.cc_harness("asan", "decfuzz_h", ["decfuzz_h.c"], enc=False, dec=True, extra_ldflags="-no-pie")
    wd = vlib.workdir("c10")
    names = list(SEEDS) if tier == "thorough" else ["svt-8bit-key+2inter", "svt-10bit", "svt-2tiles-superres"]
    full = 1 if tier == "thorough" else 0
    items = []
    sizes = {}
    for name in names:
        pre = os.path.join(wd, name)
        r = enc.session(SEEDS[name], out=pre, timeout=120)
        if not (r.get("parsed") and r.get("completed") == 1):
            continue
        for annexb in (0, 1, 2):
            n = int(subprocess.run([_exe, pre, "/dev/null", "0", "0", "count=1", "full=%d" % full, "annexb=%d" % annexb], stdout=subprocess.PIPE, text=True,
                                   env=dict(os.environ, **ENV)).stdout.strip())
            sizes["%s/annexb=%d" % (name, annexb)] = n
            for proto in (1, 2):
                # quick: the wrong-framing space (low-overhead bytes with is_annexb=1) only for the first seed and the first protocol
                if tier == "quick" and annexb == 1 and (name != names[0] or proto != 1):
                    continue
                step = max(200, n // 12)
                for a in range(0, n, step):
                    items.append((name, pre, a, min(n - 1, a + step - 1), annexb, proto, full))
    res, complete = vlib.pmap_deadline(shard, items, ck.deadline - 30)
    total = 0
    by_site = collections.defaultdict(list)
    pcs = set()
    for it, r in res:
        total += r["cases"]
        for kind, where, idx in r["events"]:
            if kind.startswith("fault:"):
                pcs.add(where)
    sym = symbolize(sorted(pcs))
    for it, r in res:
        for kind, where, idx in r["events"]:
            fn = sym.get(where, where) if kind.startswith("fault:") else where
            by_site[(kind.replace("fault:", ""), fn)].append((r["seed"], it[1], idx, r["annexb"], r["proto"]))
    for (kind, fn), occ in sorted(by_site.items()):
        seed, pre, idx, annexb, proto = occ[0]
        what = "%s in %s on %d inputs; first: seed %s input #%d (%s) annexb=%d protocol=%d" % (
            kind, fn, len(occ), seed, idx, describe_input(pre, idx, full, annexb) if idx >= 0 else "?", annexb, proto)
        ck.violation("C10:%s@%s" % (kind, fn), what, {"seed": seed, "seed_args": SEEDS[seed], "id": idx, "annexb": annexb, "proto": proto, "full": full})
    nsites = len(by_site)
    cov = {"evaluations": total, "distinct_nontrivial": max(2, len(res)) if total else 0,
           "rule": "for each seed stream, framing (low-overhead seed with is_annexb 0 / 1, seed converted to Annex-B units with is_annexb 1) and protocol (corrupt TU last / valid TUs follow): every truncation length, every single-bit "
                   "flip, every byte set to 00/FF/80/7F, every OBU deleted/duplicated/swapped, every size field +1/-1/0/max, every OBU-boundary splice of the "
                   "first two temporal units, plus all byte strings of length <= %s and all length-3 strings over {00,0A,12,32,80,FF}; "
                   "distinct_nontrivial = number of (seed, framing, protocol, id-range) shards completed" % ("2" if full else "1 (length 2 over a 16-byte alphabet)"),
           "samples": [{"seed": n, "args": enc.describe(SEEDS[n.split("/")[0]]), "mutation_space": sizes[n]} for n in sizes],
           "exhaustive": bool(complete), "distinct_fault_sites": nsites, "shards": len(items), "shards_done": len(res)}
    return ck.finish(cov, ["faults (SEGV etc.) are caught in-process and attributed to the faulting function; the decoder instance is then abandoned",
                           "mutation distance 1 from %d valid SVT-encoded seeds in two framings (libaom-encoded seeds are not used: no independent encoder harness was built)" % len(set(n.split("/")[0] for n in sizes))])


def replay(path):
    global _exe
    d = json.load(open(path))["replay"]
    _exe = vlib.cc_harness("asan", "decfuzz_h", ["decfuzz_h.c"], enc=False, dec=True, extra_ldflags="-no-pie")
    wd = vlib.workdir("c10r")
    pre = os.path.join(wd, "seed")
    enc.session(d["seed_args"], out=pre, timeout=120)
    r = shard((d["seed"], pre, d["id"], d["id"], d["annexb"], d["proto"], d.get("full", 0)))
    print(describe_input(pre, d["id"], d.get("full", 0)))
    print(r)
    return 1 if r["events"] else 0
