"""C27: output and progress do not depend on application pacing (DESIGN.md 4/C27).

Call patterns: after each send the app either drains everything currently available (quiescence decided by the
controlled scheduler) or retrieves nothing; everything is drained after EOS."""
import itertools
import json
import time

import enc
import schedlib
import vlib

PID = "C27"


def patterns(n, full):
    if full == "few":
        # long enough for output buffers to be recycled while the stream is still being fed
        return sorted({"d" * n, "n" * n} | {"".join("d" if (i + 1) % k == 0 else "n" for i in range(n)) for k in (2, 3, 5, 8, 13)}
                      | {"d" * i + "n" * (n - i) for i in (9, 17, 20)} | {"n" * i + "d" * (n - i) for i in (9, 17, 20)})
    if full:
        return ["".join(p) for p in itertools.product("dn", repeat=n)]
    out = {"d" * n, "n" * n}
    for i in range(n):
        out.add("d" * i + "n" + "d" * (n - i - 1))
        for j in range(i + 1, n):
            s = list("d" * n)
            s[i] = s[j] = "n"
            out.add("".join(s))
    for k in (2, 3, 4, 8):
        out.add("".join("d" if (i + 1) % k == 0 else "n" for i in range(n)))
    return sorted(out)


def configs(tier):
    cs = []
    for hl, lp, recon, ov in itertools.product((0, 3), (1, 2), (0, 1), (0, 1)):
        if ov and (hl == 0 or lp == 2):
            continue
        cs.append({"hierarchical_levels": hl, "logical_processors": lp, "recon_enabled": recon, "enable_overlays": ov})
    return cs


def case(item):
    label, a, policy = item
    r = enc.session(a, "rel", sched=True, timeout=120, env={"VS_POLICY": str(policy)})
    o = {"label": label, "status": "ok"}
    if r.get("timeout"):
        o["status"] = "timeout"
    elif r.get("deadlock") or r.get("livelock"):
        o["status"] = "blocked"
        o["threads"] = r.get("threads")
    elif not r.get("parsed"):
        o["status"] = "crash"
    elif not enc.accepted(r):
        o["status"] = "rejected"
    elif not (r.get("completed", 0) & 1) or (int(a.get("recon_enabled", 0)) and r.get("blocked_recon")):
        o["status"] = "incomplete"
    else:
        o["obs"] = (r["npk"], r["pkt_hash"], r["nrc"], r["rec_hash"])
        o["points"] = r.get("points", 0)
    return o


def app_stall_sweeps(ck, tier, cap_t):
    """the application thread arbitrarily slow from any one of its own scheduling points (mutex release included): pacing *inside* the API
    calls.  Every decision point of the canonical schedule at which the application thread is the one to run gets one execution in which it
    only runs again when the library cannot make progress without it."""
    complete = True
    transitions = 0
    exe = schedlib.build_encdrv("rel")
    sweeps = []
    sw_items = [("never-drain,n=26", {"n": 26, "pat": "n" * 26, "final": "b", "hierarchical_levels": 3, "logical_processors": 1, "recon_enabled": 1}),
                ]
    if tier == "thorough":
        sw_items += [("always-drain,n=9", {"n": 9, "pat": "d" * 9, "final": "b", "hierarchical_levels": 3, "logical_processors": 1, "recon_enabled": 1}),
                     ("never-drain,n=26,lp=2", {"n": 26, "pat": "n" * 26, "final": "b", "hierarchical_levels": 3, "logical_processors": 2, "recon_enabled": 1}),
                     ("never-drain,n=26,overlays", {"n": 26, "pat": "n" * 26, "final": "b", "hierarchical_levels": 3, "logical_processors": 1, "recon_enabled": 1, "enable_overlays": 1}),
                     ("drain-every-3rd,n=17", {"n": 17, "pat": "".join("d" if (i + 1) % 3 == 0 else "n" for i in range(17)), "final": "b", "hierarchical_levels": 3,
                                               "logical_processors": 1, "recon_enabled": 1})]
    for sname, extra in sw_items:
        if time.time() > cap_t - 20:
            complete = False
            break
        a = {"w": 64, "h": 64, "content": "grad", "enc_mode": 8}
        a.update(extra)
        argv = ["%s=%s" % kv for kv in a.items()]
        env = {"VS_UNLOCK_YIELD": "1"}
        pts = schedlib.app_thread_points(exe, argv, env, timeout=300)
        st = {"ref": None}

        def sobs(res):
            o = res.get("out") or {}
            return (o.get("npk"), o.get("pkt_hash"), o.get("nrc"), o.get("rec_hash"), o.get("completed"))

        def on(res, sname=sname, a=a, st=st):
            rep = {"args": a, "stalls": res.get("stalls") or [], "sweep": 1}
            if res["rc"] == 6:
                raise RuntimeError("DIVERGENCE replaying %s" % sname)
            if res["timeout"]:
                res2 = schedlib.run_schedule(exe, ["%s=%s" % kv for kv in a.items()], [], {"VS_UNLOCK_YIELD": "1"}, 1200, stalls=res.get("stalls") or ())
                if res2["timeout"]:
                    ck.violation("C27:stalled-app-timeout@%s" % sname, "application thread stalled at %s: session exceeds 300 s and, run alone, 1200 s" % res.get("stalls"), rep)
                    return
                res = res2
            out = res.get("out") or {}
            if res["rc"] == 3 or out.get("deadlock") or out.get("livelock"):
                ck.violation("C27:stalled-app-blocks@%s" % sname, "application thread stalled at %s: all threads blocked %s" % (res.get("stalls"), json.dumps(out)[:200]), rep)
            elif res["rc"] != 0:
                ck.violation("C27:stalled-app-crash@%s" % sname, "application thread stalled at %s: status %s" % (res.get("stalls"), res["rc"]), rep)
            elif not res.get("stalls"):
                st["ref"] = sobs(res)
            elif st["ref"] is not None and sobs(res) != st["ref"]:
                ck.violation("C27:output-depends-on-pacing-inside-calls@%s" % sname,
                             "application thread stalled at its decision point %s yields %s, the canonical schedule yields %s" % (res.get("stalls"), sobs(res), st["ref"]), rep)

        S = schedlib.stall_sweep(exe, argv, on, cap_t, env=env, timeout=300, only_points=pts)
        sweeps.append({"session": sname, "decision_points": S["points"], "application_thread_points": len(pts), "schedules": S["executions"] - 1, "complete": S["complete"]})
        transitions += S["transitions"]
        if not S["complete"]:
            complete = False
    return sweeps, transitions, complete


def run(tier):
    ck = vlib.Check(PID, tier, "model_checking")
    enc.tools("rel", sched=True)
    items = []
    groups = {}
    for ci, cfg in enumerate(configs(tier)):
        for n, full in ((3, True), (5, True), (6, tier == "thorough"), (9, False), (26, "few")) + (((17, False), (24, False), (40, False)) if tier == "thorough" else ()):
            for final in ("b", "n"):
                for pol in (0, 1):
                    if (final == "n" or pol == 1) and n > 5 and tier == "quick":
                        continue
                    if n == 26 and tier == "quick" and (cfg.get("logical_processors") == 2):
                        continue
                    for pat in patterns(n, full):
                        a = {"w": 64, "h": 64, "n": n, "content": "grad", "enc_mode": 8, "pat": pat, "final": final}
                        a.update(cfg)
                        g = (ci, n, final, pol)
                        items.append(("c%d,n=%d,final=%s,pol=%d/%s" % (ci, n, final, pol, pat), a, pol))
                        groups.setdefault(g, []).append(len(items) - 1)
    sweeps, sw_trans, sw_complete = app_stall_sweeps(ck, tier, ck.t0 + 0.45 * ck.budget)
    res, complete = vlib.pmap_deadline(case, items, ck.deadline - 40)
    complete = complete and sw_complete
    byidx = {}
    for it, o in res:
        byidx[it[0]] = (it, o)
    stat = {}
    hashes = set()
    samples = []
    transitions = 0
    completed_patterns = 0
    for g, idxs in groups.items():
        lst = [byidx[items[i][0]] for i in idxs if items[i][0] in byidx]
        if not lst:
            continue
        n = g[1]
        ref = [x for x in lst if x[0][1]["pat"] == "d" * n]
        for it, o in lst:
            stat[o["status"]] = stat.get(o["status"], 0) + 1
            transitions += o.get("points", 0)
        if not ref:
            continue
        rit, ro = ref[0]
        cfgs = ",".join("%s=%s" % (k, rit[1][k]) for k in ("hierarchical_levels", "logical_processors", "recon_enabled", "enable_overlays"))
        if ro["status"] != "ok":
            ck.violation("C27:always-drain-does-not-complete@%s" % cfgs, "pattern %s (drain after every send) ends with status %s: %s"
                         % (rit[1]["pat"], ro["status"], json.dumps(ro.get("threads"))[:200]), {"args": rit[1], "policy": rit[2]})
            continue
        hashes.add(ro["obs"][1])
        for it, o in lst:
            if o["status"] == "crash":
                ck.violation("C27:crash@%s" % cfgs, "pattern %s crashes" % it[1]["pat"], {"args": it[1], "policy": it[2]})
            if o["status"] != "ok":
                continue
            completed_patterns += 1
            if o["obs"] != ro["obs"]:
                ck.violation("C27:output-depends-on-pacing@%s" % cfgs, "pattern %s yields %s, always-drain yields %s" % (it[1]["pat"], o["obs"], ro["obs"]),
                             {"args": it[1], "policy": it[2], "ref_args": rit[1]})
        if len(samples) < 4:
            samples.append({"config": cfgs, "n": n, "final": g[2], "policy": g[3], "patterns": len(lst),
                            "completed": sum(1 for _, o in lst if o["status"] == "ok"), "blocked_by_backpressure": sum(1 for _, o in lst if o["status"] in ("blocked", "incomplete"))})
    cov = {"states": len(res) + sum(x["schedules"] for x in sweeps), "app_thread_stall_sweeps": sweeps, "transitions": (transitions + sw_trans) or len(res), "traces_validated_against_impl": completed_patterns + sum(x["schedules"] for x in sweeps),
           "samples": samples, "exhaustive": bool(complete), "enumerated": len(items), "status_counts": stat, "distinct_reference_streams": len(hashes),
           "explanation": "every call pattern (all 2^N for N<=5 (6 thorough); <=2 departures from always-drain, k-periodic and only-at-end for larger N) x "
                          "configurations x final drain mode x scheduler priority policy is executed on the real library under the controlled scheduler; "
                          "'transitions' = scheduling decisions of completed sessions; app_thread_stall_sweeps: every schedule in which the application thread "
                          "is arbitrarily slow from one of its own decision points (mutex releases are scheduling points there)"}
    return ck.finish(cov, ["patterns that stop because of bounded pools while the app is not draining are legitimate back-pressure, not violations",
                           "canonical schedule of two priority policies (schedule independence itself is C04)"])


def replay(path):
    d = json.load(open(path))["replay"]
    if d.get("sweep"):
        exe = schedlib.build_encdrv("rel")
        argv = ["%s=%s" % kv for kv in d["args"].items()]
        ra = schedlib.run_schedule(exe, argv, [], {"VS_UNLOCK_YIELD": "1"}, 600)
        rb = schedlib.run_schedule(exe, argv, [], {"VS_UNLOCK_YIELD": "1"}, 600, stalls=d["stalls"])
        f = lambda r: tuple((r.get("out") or {}).get(k) for k in ("npk", "pkt_hash", "nrc", "rec_hash", "completed"))
        print("canonical:", f(ra), "stalled at", d["stalls"], ":", f(rb), "status", rb["rc"])
        return 0 if (rb["rc"] == 0 and f(ra) == f(rb)) else 1
    a = case(("x", d["args"], d.get("policy", 0)))
    print(a)
    if d.get("ref_args"):
        b = case(("x", d["ref_args"], d.get("policy", 0)))
        print(b)
        return 0 if a.get("obs") == b.get("obs") else 1
    return 0 if a["status"] == "ok" else 1
