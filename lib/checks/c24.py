"""C24: wavefront EncDec segments (DESIGN.md 4/C24): (a) initialiser + sequential protocol run for all sizes and grids,
(b) all interleavings of worker threads over the real assign_enc_dec_segments + SRM, (c) conformance of the model's
traversal / dependency oracle with hook-H2 traces of real encodes."""
import json
import os
import subprocess

import enc
import schedlib
import vlib

PID = "C24"
LD = schedlib.WRAP_LD + " -Wl,--wrap=malloc,--wrap=calloc,--wrap=free"


def build():
    return vlib.cc_harness("rel", "seg_h", ["seg_h.c"], plain_sources=["sched.c"], internal=True, extra_ldflags=LD)


def run_json(argv, timeout):
    try:
        p = subprocess.run(argv, stdout=subprocess.PIPE, stderr=subprocess.PIPE, timeout=timeout)
    except subprocess.TimeoutExpired:
        return {"timeout": True}
    try:
        d = json.loads(p.stdout.decode("latin1").strip().split("\n")[-1])
    except Exception:
        d = {"crash": True, "stderr": p.stderr[-500:].decode("latin1"), "stdout": p.stdout[-300:].decode("latin1")}
    d["rc"] = p.returncode
    return d


def classify(msg, w, rows):
    kind = msg.split(":")[0].strip().replace(" ", "-")
    if kind == "picture-never-completes" and int(w) == 1 and int(rows) >= 2:
        return "C24:picture-never-completes@one-superblock-wide,segment-rows>=2"
    return None


def sched_configs(tier):
    cfgs = []
    maxw, maxh = (3, 3) if tier == "quick" else (4, 3)
    for w in range(1, maxw + 1):
        for h in range(1, maxh + 1):
            for c in range(1, min(w, 3) + 1):
                for r in range(1, min(h, 3) + 1):
                    if c == 1 and r == 1 and (w, h) != (2, 2):
                        continue  # a single segment: nothing to interleave (kept once)
                    for nw in ((2, 3) if tier == "thorough" or w * h <= 6 else (2,)):
                        cfgs.append({"w": w, "h": h, "cols": c, "rows": r, "nw": nw})
    cfgs.sort(key=lambda c: (c["w"] * c["h"] * c["nw"], c["cols"] * c["rows"]))
    return cfgs


CONF_ENCODES = [
    {"w": 192, "h": 128, "n": 3, "logical_processors": 4},
    {"w": 256, "h": 192, "n": 3, "logical_processors": 8},
    {"w": 256, "h": 192, "n": 3, "logical_processors": 8, "tile_rows": 1},
    {"w": 320, "h": 256, "n": 2, "logical_processors": 2},
    {"w": 320, "h": 256, "n": 2, "logical_processors": 16, "tile_rows": 1, "tile_columns": 1},
    {"w": 200, "h": 136, "n": 2, "logical_processors": 4, "super_block_size": 128},
    {"w": 128, "h": 320, "n": 2, "logical_processors": 4},
]


def run(tier):
    ck = vlib.Check(PID, tier, "model_checking")
    exe = build()
    states = transitions = executions = 0
    exhaustive = True
    samples = []
    # ---- (a)
    wmax, hmax = (24, 16) if tier == "quick" else (65, 34)
    a = run_json([exe, "mode=init", "wmax=%d" % wmax, "hmax=%d" % hmax], max(300, 0.6 * ck.budget))
    if a.get("timeout"):
        # the enumeration did not finish inside its wall-clock limit (machine overloaded): nothing is known, nothing is reported
        exhaustive = False
        a = {"cases": 0, "bad": 0, "failures": [], "multi_segment_cases": 0}
    elif a.get("crash"):
        ck.violation("C24:init-harness-failed", str(a)[:300], {})
        a = {"cases": 0, "bad": 0, "failures": [], "multi_segment_cases": 0}
    for f in a["failures"]:
        key = classify(f["msg"], f["w"], f["rows"]) or "C24:%s@w=%d,h=%d,cols=%d,rows=%d" % (
            f["msg"].split(":")[0].replace(" ", "-"), f["w"], f["h"], f["cols"], f["rows"])
        ck.violation(key, "%s (picture %dx%d superblocks, segment grid %dx%d)" % (f["msg"], f["w"], f["h"], f["cols"], f["rows"]),
                     {"mode": "init", "cfg": f})
    states += a["cases"]
    transitions += a["cases"]
    # ---- (c)
    etool, _ = enc.tools("rel")
    conf = []
    wd = vlib.workdir("c24")
    for i, e in enumerate(CONF_ENCODES if tier == "thorough" else CONF_ENCODES[:5]):
        tr = os.path.join(wd, "seg%d.tr" % i)
        r = enc.session(dict(e, segtrace=tr), timeout=120)
        label = enc.describe(e)
        if not (r.get("parsed") and r.get("completed") == 1):
            conf.append({"encode": label, "status": "not completed"})
            continue
        c = run_json([exe, "mode=conform", "trace=" + tr], 120)
        os.unlink(tr)
        conf.append({"encode": label, "groups": c.get("groups"), "segments": c.get("segments"), "superblocks": c.get("superblocks"), "bad": c.get("bad")})
        if c.get("bad"):
            ck.violation("C24:trace-nonconformance@" + label.replace(" ", ","), c.get("first", ""), {"mode": "conform", "encode": e})
        executions += c.get("groups") or 0
    # ---- (b)
    per = []
    for cfg in sched_configs(tier):
        left = ck.time_left() - 15
        if left < 10:
            exhaustive = False
            break
        d = run_json([exe] + ["%s=%s" % kv for kv in cfg.items()] + ["deadline=%d" % min(left, 300 if tier == "quick" else 1200)], left + 60)
        label = ",".join("%s=%s" % kv for kv in cfg.items())
        if d.get("timeout"):
            # the explorer did not report within its own deadline + 60 s (machine overloaded): nothing is known about this configuration
            exhaustive = False
            per.append({"cfg": label, "not_completed": "explorer exceeded its deadline"})
            continue
        if d.get("crash"):
            ck.violation("C24:sched-harness-failed@" + label, str(d)[:300], {"mode": "sched", "cfg": cfg})
            continue
        states += d["states"]
        transitions += d["transitions"]
        executions += d["executions"]
        per.append({"cfg": label, "states": d["states"], "transitions": d["transitions"], "executions": d["executions"],
                    "complete_executions": d["complete"], "distinct_completion_orders": d["outcomes"], "exhaustive": d["exhaustive"]})
        if d["violations"]:
            msg = d["viol_msg"]
            key = classify(msg, cfg["w"], cfg["rows"]) or "C24:%s@%s" % (msg.split(":")[0].split(" started")[0].replace(" ", "-")[:40], label)
            ck.violation(key, "%s (choice path %s)" % (msg, d["viol_path"]), {"mode": "sched", "cfg": cfg, "path": d["viol_path"]})
        elif not d["exhaustive"]:
            exhaustive = False
        if len(samples) < 4 and d.get("samples"):
            samples.append({"cfg": label, "choice_path": d["samples"][-1]})
    cov = {"states": states, "transitions": transitions, "traces_validated_against_impl": executions, "samples": samples or [{"init": "all sizes"}],
           "exhaustive": exhaustive,
           "init_cases": a["cases"], "init_multi_segment_cases": a["multi_segment_cases"], "init_max_picture_sb": [wmax, hmax],
           "conformance": conf, "sched_configurations": per,
           "explanation": "(a) every picture size up to %dx%d superblocks x every segment grid: real ctor/init + one-worker run of the real "
                          "assign_enc_dec_segments with the dependency oracle; (b) every interleaving of 2-3 workers for the listed small "
                          "pictures/grids (explicit-state); (c) kernel traces of real encodes replayed against the same model" % (wmax, hmax)}
    return ck.finish(cov, ["the per-segment traversal rule is transcribed from mode_decision_kernel and bound to the code by (c)",
                           "scheduling points: SVT mutex/semaphore operations + one yield inside each segment"])


def replay(path):
    d = json.load(open(path))["replay"]
    exe = build()
    if d.get("mode") == "sched":
        argv = [exe] + ["%s=%s" % kv for kv in d["cfg"].items()] + ["replay=%s" % d.get("path", "")]
    elif d.get("mode") == "init":
        c = d["cfg"]
        argv = [exe, "mode=init", "wmax=%d" % c["w"], "hmax=%d" % c["h"]]
    else:
        print("re-run the check to replay a conformance failure")
        return 1
    p = subprocess.run(argv, stdout=subprocess.PIPE, stderr=subprocess.STDOUT)
    out = p.stdout.decode("latin1")
    print(out[-1500:])
    return 1 if ("\"bad\":0" not in out and d.get("mode") == "init") or p.returncode else 0
